package c06

// C06(c) operator endpoint, histories of connections: deferred targeted answers x source
// address classes.
//
// (a) looks at ONE socket and at events that are broadcast.  Some events are not broadcast
// but addressed to one client id, some time after an authenticated operator asked for them:
// the payload a third-party service built (service reply AgentBuild -> SendEvent(ClientID)),
// the output of a BOF started with a python-module callback (agent callback ->
// PythonModuleCallback(ClientID)).  Here the point at which such an answer is released is
// part of the generated history: while the asking operator is still connected, after it
// left, after it left and other connections arrived - silent ones, ones that present a
// wrong password, other operators - and every connection binds its local address
// explicitly: a fresh one, the exact ip:port of an earlier, departed connection, or another
// loopback ip with the port of an earlier connection.
//
// Oracle (the statement as (a) reads it): a connection that has not authenticated receives
// no teamserver event at all (a refused one exactly its one error frame); an authenticated
// one receives a targeted answer only if it is the very session that asked for it (and
// then it does receive it), and every live broadcast issued while it is authenticated.

import (
	"encoding/base64"
	"encoding/binary"
	"encoding/json"
	"fmt"
	"net"
	"os"
	"sort"
	"strconv"
	"strings"
	"testing"
	"time"

	"github.com/gorilla/websocket"
	"pgregory.net/rapid"

	"Havoc/pkg/agent"
	"Havoc/pkg/common/parser"
	"Havoc/pkg/handlers"
	"Havoc/pkg/packager"

	"verifharness/internal/core"
	"verifharness/internal/wsx"
)

type StepC struct {
	K    string `json:"k"`               // connect | leave | ask | release | bcast | req
	Src  string `json:"src,omitempty"`   // connect: fresh | reuse | other-ip
	SrcN int    `json:"src_n,omitempty"` // connect: which earlier connection's address (index into the candidates, modulo)
	IP   int    `json:"ip,omitempty"`    // connect/other-ip: 127.0.0.(2+IP%6)
	Auth string `json:"auth,omitempty"`  // connect: silent | wrong-password | login
	User int    `json:"user,omitempty"`  // connect: index into Users (modulo)
	C    int    `json:"c,omitempty"`     // leave: index into the live connections; ask: into the live operators (modulo)
	How  string `json:"how,omitempty"`   // leave: abort | close-frame | half-close; ask: svc-build | bof; release: payload | message | ran-ok | could-not-run; req: ladd-dup-smb | ladd-dup-ext | ladd-proxy | ledit-proxy
	P    int    `json:"p,omitempty"`     // release: index into the open deferred answers (modulo); req/*-proxy: which proxy field is missing
	// ask / req: what the request's Head.User claims (the teamserver never checks it after the
	// login): "" or own | empty | other-online | offline | unknown | own-case
	Claim  string `json:"claim,omitempty"`
	ClaimN int    `json:"claim_n,omitempty"`
	// scale: K "bulk" = N connections of kind Auth made one after the other by the same real
	// path as "connect" (Hold: they stay open; otherwise each one leaves - or is refused -
	// before the next arrives: connect-disconnect cycles); K "bulk-leave" = up to N of the
	// open bulk connections leave; bcast / release / req with N > 1: that many times
	N    int  `json:"n,omitempty"`
	Hold bool `json:"hold,omitempty"`
	// fault (connect with Auth wrong-password only; fault_test.go): the teamserver's write of the
	// refusal fails - "cut": the fixture's connection wrapper lets FK more bytes through and fails
	// every write after them; "reset": the peer writes the wrong login and a chat message in one
	// segment and resets its socket at once
	Fault string `json:"fault,omitempty"`
	FK    int    `json:"fk,omitempty"`
	// connect with Auth login: the DISPLAY NAME of the login message (Body.Info.User; the
	// credentials are Head.User + Password, the display name is free text the teamserver keeps
	// as the session's name): "" = the operator's name (what the client sends) | empty (the
	// empty string) | nick (a name nobody else has) | other-op (the name of another configured
	// operator, DispN picks which) | absent (no such field) | non-string (a number)
	Disp  string `json:"disp,omitempty"`
	DispN int    `json:"disp_n,omitempty"`
}

type CaseC struct {
	Users []wsx.User `json:"users"`
	Steps []StepC    `json:"steps"`
	Shape string     `json:"shape"` // planned | random | scale (histogram only)
	// scale: this many further operators (bulk-0000 ...) are in the profile, for connections
	// that log in in bulk (one session per operator at a time)
	Extra int    `json:"extra,omitempty"`
	Dim   string `json:"dim,omitempty"` // scale: the count that was drawn large (histogram only)
}

func (c CaseC) allUsers() []wsx.User {
	us := append([]wsx.User(nil), c.Users...)
	for i := 0; i < c.Extra; i++ {
		us = append(us, wsx.User{Name: fmt.Sprintf("bulk-%04d", i), Password: fmt.Sprintf("pw-bulk-%04d", i)})
	}
	return us
}

func newModelC(c CaseC) *modelC { return &modelC{users: c.allUsers(), base: len(c.Users)} }

func reps(s StepC) int {
	if s.N > 1 {
		return s.N
	}
	return 1
}

// ------------------------------------------------------------------ abstract model
// Resolves the indices of a history and names the classes it contains.  Used by the
// generator (to aim at a connection), by classify (labels) and by the interpreter (so
// that all three read a history the same way).

type addrKey struct{ oct, port int } // oct: last octet of 127.0.0.x; port: abstract port id

type mconn struct {
	id    int
	key   addrKey
	src   string // effective: fresh | reuse | other-ip
	from  int    // reuse / other-ip: id of the connection whose address / port is taken
	auth  string // effective: silent | wrong-password | login
	user  string
	live  bool
	after bool // connected after some connection had left
	seq   int  // model time of its arrival
	gone  int  // model time of its departure
	bulk  bool // made by a bulk step
	fault string // wrong-password only: the write of the refusal fails (cut | reset)
	fk    int
	dcls  string // login only: effective display-name class ("" = the operator's name)
	disp  string // login only, dcls != "": the name the session is known by
}

// name: the name the teamserver knows an authenticated session by (the display name of its
// login message; the operator's name when the login did not give a usable one).
func (c *mconn) name() string {
	if c.dcls == "empty" || c.dcls == "nick" || c.dcls == "other-op" {
		return c.disp
	}
	return c.user
}

type mpend struct {
	id      int
	kind    string // svc-build | bof
	owner   *mconn
	open    bool
	nrel    int
	claim   string // effective claim class
	claimed *mconn // the live session of the claimed operator (nil: nobody by that name is connected)
	// sure: when the request was made the asker's session name named exactly one connection,
	// the asker (see modelC.namesakes); otherwise HEAD's "first record of that name" may be
	// any of them and nothing is demanded about the asker receiving the answer
	sure bool
	amb  string // "" | pending | session | pending+session: who else bore the asker's name
}

type modelC struct {
	users []wsx.User
	base  int // the first `base` users are the generated operators; bulk operators follow
	extra int // bulk operators handed out so far
	cap   int // > 0 (interpreter only): at most this many connections are held open by a bulk step
	conns []*mconn
	pend  []*mpend
	ports int
	left  bool
	clock int
}

// bulk: N further connections, all from fresh addresses.  hold: they stay; otherwise each
// has left (silent, login) or been refused (wrong-password) before the next one arrives.
// Logging-in members take the bulk operators of the profile: one each when they stay, the
// same one for all cycles; when none is left the member stays silent.
func (m *modelC) bulk(s StepC) (members []*mconn, hold bool) {
	auth := s.Auth
	switch auth {
	case "login", "wrong-password":
	default:
		auth = "silent"
	}
	hold = s.Hold && auth != "wrong-password"
	n := s.N
	if hold && m.cap > 0 && len(m.liveConns())+n > m.cap {
		n = m.cap - len(m.liveConns())
	}
	cycleUser := ""
	if auth == "login" && !hold {
		if m.base+m.extra < len(m.users) {
			cycleUser = m.users[m.base+m.extra].Name
			m.extra++
		} else {
			auth = "silent"
		}
	}
	for i := 0; i < n; i++ {
		m.clock++
		m.ports++
		c := &mconn{id: len(m.conns), key: addrKey{1, m.ports}, src: "fresh", from: -1, auth: auth, live: true, after: m.left, seq: m.clock, bulk: true}
		switch auth {
		case "login":
			if !hold {
				c.user = cycleUser
			} else if m.base+m.extra < len(m.users) {
				c.user = m.users[m.base+m.extra].Name
				m.extra++
			} else {
				c.auth = "silent"
			}
		case "wrong-password":
			c.user = m.users[mod(s.User, len(m.users))].Name
		}
		if c.user == "" {
			c.user = m.users[0].Name // (describe() only: a silent connection names nobody)
		}
		m.conns = append(m.conns, c)
		if !hold {
			m.clock++
			c.live = false
			c.gone = m.clock
			m.left = true
		}
		members = append(members, c)
	}
	return
}

// bulkLeave: up to N of the open bulk connections (the oldest first) leave.
func (m *modelC) bulkLeave(s StepC) (members []*mconn) {
	for _, c := range m.conns {
		if len(members) >= s.N {
			break
		}
		if c.live && c.bulk {
			m.clock++
			c.live = false
			c.gone = m.clock
			m.left = true
			members = append(members, c)
		}
	}
	return
}

func (m *modelC) authLive() int {
	n := 0
	for _, x := range m.conns {
		if x.live && x.auth == "login" {
			n++
		}
	}
	return n
}

func (m *modelC) liveConns() (out []*mconn) {
	for _, c := range m.conns {
		if c.live {
			out = append(out, c)
		}
	}
	return
}

func (m *modelC) liveOps() (out []*mconn) {
	for _, c := range m.conns {
		if c.live && c.auth == "login" {
			out = append(out, c)
		}
	}
	return
}

func (m *modelC) openPend() (out []*mpend) {
	for _, p := range m.pend {
		if p.open {
			out = append(out, p)
		}
	}
	return
}

func (m *modelC) held(k addrKey) bool {
	for _, c := range m.conns {
		if c.live && c.key == k {
			return true
		}
	}
	return false
}

// reuseCandidates: departed connections whose exact address nobody holds right now.
func (m *modelC) reuseCandidates() (out []*mconn) {
	seen := map[addrKey]bool{}
	for _, c := range m.conns {
		if !c.live && !m.held(c.key) && !seen[c.key] {
			seen[c.key] = true
			out = append(out, c)
		}
	}
	return
}

func (m *modelC) online(user string) bool {
	for _, c := range m.conns {
		if c.live && c.auth == "login" && c.user == user {
			return true
		}
	}
	return false
}

// namesakes: who else, besides the authenticated session a, is in the client table under a's
// session name right now: other authenticated sessions with the same display name, and - when
// that name is the empty string - every connection that has not sent its first message yet
// (its record's name is still empty).  The teamserver resolves "the sender" of a request by
// that name.
func (m *modelC) namesakes(a *mconn) (sessions []*mconn, pending int) {
	n := a.name()
	for _, c := range m.conns {
		if !c.live || c == a {
			continue
		}
		switch {
		case c.auth == "login" && c.name() == n:
			sessions = append(sessions, c)
		case c.auth == "silent" && n == "":
			pending++
		}
	}
	return
}

func (m *modelC) ambiguity(a *mconn) string {
	ss, p := m.namesakes(a)
	switch {
	case p > 0 && len(ss) > 0:
		return "pending+session"
	case p > 0:
		return "pending"
	case len(ss) > 0:
		return "session"
	}
	return ""
}

func mod(i, n int) int { return ((i % n) + n) % n }

func (m *modelC) connect(s StepC) *mconn {
	m.clock++
	c := &mconn{id: len(m.conns), src: "fresh", from: -1, auth: s.Auth, live: true, after: m.left, seq: m.clock}
	switch s.Src {
	case "reuse":
		if cs := m.reuseCandidates(); len(cs) > 0 {
			t := cs[mod(s.SrcN, len(cs))]
			c.src, c.from, c.key = "reuse", t.id, t.key
		}
	case "other-ip":
		if len(m.conns) > 0 {
			t := m.conns[mod(s.SrcN, len(m.conns))]
			k := addrKey{2 + mod(s.IP, 6), t.key.port}
			if k != t.key && !m.held(k) {
				c.src, c.from, c.key = "other-ip", t.id, k
			}
		}
	}
	if c.src == "fresh" {
		m.ports++
		c.key = addrKey{1, m.ports}
	}
	c.user = m.users[mod(s.User, len(m.users))].Name
	switch s.Auth {
	case "login":
		if m.online(c.user) {
			// one session per operator at a time (the teamserver resolves "the asking
			// session" by user name): the connection stays silent instead
			c.auth = "silent"
		}
	case "wrong-password":
	default:
		c.auth = "silent"
	}
	if c.auth == "login" {
		switch s.Disp {
		case "empty":
			c.dcls, c.disp = "empty", ""
		case "nick":
			c.dcls, c.disp = "nick", "nick of "+c.user
		case "other-op":
			if n := len(m.users); n > 1 {
				if o := m.users[mod(mod(s.User, n)+1+mod(s.DispN, n-1), n)].Name; o != c.user {
					c.dcls, c.disp = "other-op", o
				}
			}
		case "absent", "non-string":
			c.dcls = s.Disp // (the teamserver falls back to Head.User: the operator's name)
		}
	}
	m.conns = append(m.conns, c)
	if c.auth == "wrong-password" && (s.Fault == "cut" || s.Fault == "reset") {
		c.fault, c.fk = s.Fault, s.FK
	}
	if c.auth == "wrong-password" {
		c.live = false // refused and closed by the server
		c.gone = m.clock
		m.left = true
	}
	return c
}

func (m *modelC) leave(s StepC) *mconn {
	l := m.liveConns()
	if len(l) == 0 {
		return nil
	}
	c := l[mod(s.C, len(l))]
	m.clock++
	c.live = false
	c.gone = m.clock
	m.left = true
	return c
}

// claimOf resolves the Head.User claim of a request sent by the session a: the effective
// class, the string that is put on the wire, and the live session of the operator so named.
func (m *modelC) claimOf(a *mconn, s StepC) (class, name string, claimed *mconn) {
	class = s.Claim
	switch class {
	case "empty":
		return "empty", "", nil
	case "other-online":
		var others []*mconn
		for _, o := range m.liveOps() {
			if o != a {
				others = append(others, o)
			}
		}
		if len(others) > 0 {
			o := others[mod(s.ClaimN, len(others))]
			return class, o.user, o
		}
		class = "offline"
		fallthrough
	case "offline":
		var off []string
		for _, u := range m.users {
			if !m.online(u.Name) {
				off = append(off, u.Name)
			}
		}
		if len(off) > 0 {
			return "offline", off[mod(s.ClaimN, len(off))], nil
		}
		return "unknown", "mallory", nil
	case "unknown":
		return class, "mallory", nil
	case "own-case":
		v := strings.ToUpper(a.user)
		if v == a.user {
			v = strings.ToLower(a.user)
		}
		if v != a.user {
			return class, v, nil
		}
		return "unknown", "mallory", nil
	}
	return "own", a.user, a
}

func (m *modelC) ask(s StepC) *mpend {
	l := m.liveOps()
	if len(l) == 0 {
		return nil
	}
	kind := "svc-build"
	if s.How == "bof" {
		kind = "bof"
	}
	p := &mpend{id: len(m.pend), kind: kind, owner: l[mod(s.C, len(l))], open: true}
	p.claim, _, p.claimed = m.claimOf(p.owner, s)
	p.amb = m.ambiguity(p.owner)
	p.sure = p.amb == ""
	m.pend = append(m.pend, p)
	return p
}

var proxyFields = []string{"Proxy Type", "Proxy Host", "Proxy Port", "Proxy Username", "Proxy Password"}

// req: a request that HEAD answers at once with a reply directed to ONE client.
func (m *modelC) req(s StepC) (a *mconn, kind string) {
	l := m.liveOps()
	if len(l) == 0 {
		return nil, ""
	}
	kind = s.How
	switch kind {
	case "ladd-dup-ext", "ladd-proxy", "ledit-proxy":
	default:
		kind = "ladd-dup-smb"
	}
	return l[mod(s.C, len(l))], kind
}

func (m *modelC) unauthLive() int {
	n := 0
	for _, x := range m.liveConns() {
		if x.auth == "silent" {
			n++
		}
	}
	return n
}

// release returns the answer that is released and its form.
func (m *modelC) release(s StepC) (*mpend, string) {
	l := m.openPend()
	if len(l) == 0 {
		return nil, ""
	}
	p := l[mod(s.P, len(l))]
	form := s.How
	if p.kind == "bof" {
		if form != "could-not-run" {
			form = "ran-ok"
		}
		p.open = false
	} else {
		if form != "message" {
			form = "payload"
			p.open = false
		}
	}
	p.nrel++
	return p, form
}

// releasePoint names where in the history an answer is released.
func (m *modelC) releasePoint(p *mpend) (point string, holder *mconn) {
	if p.owner.live {
		return "owner-there", nil
	}
	for _, c := range m.conns {
		if c.live && c.key == p.owner.key {
			holder = c
		}
	}
	n := 0
	for _, c := range m.conns {
		if c.seq > p.owner.gone {
			n++
		}
	}
	if n == 0 {
		return "owner-left", holder
	}
	return "owner-left+others-came", holder
}

// ------------------------------------------------------------------ generator

var leaveHows = []string{"abort", "abort", "close-frame", "half-close"}

var dispPool = []string{"", "", "", "", "", "empty", "empty", "nick", "other-op", "absent", "non-string"}

func genC(t *rapid.T) CaseC {
	var c CaseC
	nu := rapid.IntRange(2, 3).Draw(t, "nusers")
	perm := rapid.Permutation(namePool).Draw(t, "names")
	for i := 0; i < nu; i++ {
		c.Users = append(c.Users, wsx.User{Name: perm[i], Password: fmt.Sprintf("pw-%d-%s", i, perm[i])})
	}
	m := &modelC{users: c.Users, base: len(c.Users)}
	add := func(s StepC) { c.Steps = append(c.Steps, s) }
	idxLive := func(x *mconn) int {
		for i, y := range m.liveConns() {
			if y == x {
				return i
			}
		}
		return 0
	}
	idxPend := func(p *mpend) int {
		for i, y := range m.openPend() {
			if y == p {
				return i
			}
		}
		return 0
	}
	srcOf := func(label string, weights []string) StepC {
		return StepC{Src: rapid.SampledFrom(weights).Draw(t, label+"-src"), SrcN: rapid.IntRange(0, 5).Draw(t, label+"-srcn"), IP: rapid.IntRange(0, 5).Draw(t, label+"-ip")}
	}
	claims := []string{"own", "own", "own", "own", "empty", "empty", "empty", "other-online", "offline", "unknown", "own-case"}
	claim := func(label string, s *StepC) {
		s.Claim = rapid.SampledFrom(claims).Draw(t, label+"-claim")
		s.ClaimN = rapid.IntRange(0, 2).Draw(t, label+"-claimn")
	}
	// display name of a login (Body.Info.User): mostly the operator's own name, as the client sends it
	disp := func(label string, s *StepC) {
		if s.Auth != "login" {
			return
		}
		s.Disp = rapid.SampledFrom(dispPool).Draw(t, label+"-disp")
		if s.Disp == "other-op" {
			s.DispN = rapid.IntRange(0, 1).Draw(t, label+"-dispn")
		}
	}
	reqKinds := []string{"ladd-dup-smb", "ladd-dup-smb", "ladd-dup-ext", "ladd-proxy", "ladd-proxy", "ledit-proxy"}
	// reqsMaybe: 0-2 requests that are answered at once by a reply directed to one client
	reqsMaybe := func(label string) {
		n := rapid.SampledFrom([]int{0, 0, 1, 1, 2}).Draw(t, label+"-nreq")
		for i := 0; i < n; i++ {
			l := m.liveOps()
			if len(l) == 0 {
				return
			}
			s := StepC{K: "req", C: rapid.IntRange(0, len(l)-1).Draw(t, label+"-reqc"), How: rapid.SampledFrom(reqKinds).Draw(t, label+"-reqk"), P: rapid.IntRange(0, 4).Draw(t, label+"-reqp")}
			claim(label+"-req", &s)
			add(s)
		}
	}
	bcastMaybe := func(label string) {
		if rapid.IntRange(0, 3).Draw(t, label+"-bcast?") == 0 {
			add(StepC{K: "bcast"})
		}
	}

	if scaleShare(t, "scale?", scalePerMille) {
		genScaleC(t, &c, m, nu)
		return c
	}

	if rapid.IntRange(0, 9).Draw(t, "shape") == 0 {
		// unplanned: any step at any point
		c.Shape = "random"
		n := rapid.IntRange(3, 14).Draw(t, "nsteps")
		for i := 0; i < n; i++ {
			k := rapid.SampledFrom([]string{"connect", "connect", "connect", "leave", "leave", "ask", "ask", "release", "release", "bcast", "req", "req"}).Draw(t, "k")
			s := StepC{K: k}
			switch k {
			case "connect":
				s = srcOf("c", []string{"fresh", "fresh", "reuse", "reuse", "other-ip"})
				s.K = "connect"
				s.Auth = rapid.SampledFrom([]string{"login", "login", "silent", "wrong-password"}).Draw(t, "auth")
				s.User = rapid.IntRange(0, nu-1).Draw(t, "user")
				if s.Auth == "wrong-password" && rapid.Bool().Draw(t, "fault?") {
					s.Fault, s.FK = genFaultC(t)
				}
				disp("c", &s)
			case "leave":
				s.C = rapid.IntRange(0, 4).Draw(t, "c")
				s.How = rapid.SampledFrom(leaveHows).Draw(t, "how")
			case "ask":
				s.C = rapid.IntRange(0, 2).Draw(t, "c")
				s.How = rapid.SampledFrom([]string{"svc-build", "bof"}).Draw(t, "kind")
				claim("ask", &s)
			case "req":
				s.C = rapid.IntRange(0, 2).Draw(t, "c")
				s.How = rapid.SampledFrom(reqKinds).Draw(t, "reqk")
				s.P = rapid.IntRange(0, 4).Draw(t, "reqp")
				claim("req", &s)
			case "release":
				s.P = rapid.IntRange(0, 3).Draw(t, "p")
				s.How = rapid.SampledFrom([]string{"payload", "message", "ran-ok", "could-not-run"}).Draw(t, "form")
			}
			add(s)
		}
		return c
	}

	// planned: operators arrive and ask; every answer is given the point(s) of the history
	// at which it is released
	c.Shape = "planned"
	nops := rapid.IntRange(1, 2).Draw(t, "nops")
	var ops []*mconn
	for i := 0; i < nops; i++ {
		s := srcOf("op", []string{"fresh", "fresh", "fresh", "other-ip"})
		s.K, s.Auth, s.User = "connect", "login", i
		disp("op", &s)
		add(s)
		ops = append(ops, m.connect(s))
	}
	if rapid.IntRange(0, 1).Draw(t, "early-bystander?") == 0 {
		// a connection that is there, unauthenticated, during the whole history
		s := srcOf("by", []string{"fresh", "other-ip"})
		s.K, s.Auth, s.User = "connect", "silent", nu-1
		add(s)
		m.connect(s)
	}
	type plan struct {
		p      *mpend
		phases []int // 0: owner there, 1: owner left, 2: owner left and others came
	}
	var plans []*plan
	nask := rapid.IntRange(1, 3).Draw(t, "nask")
	for i := 0; i < nask; i++ {
		o := ops[rapid.IntRange(0, len(ops)-1).Draw(t, "asker")]
		ol := m.liveOps()
		ci := 0
		for j, y := range ol {
			if y == o {
				ci = j
			}
		}
		s := StepC{K: "ask", C: ci, How: rapid.SampledFrom([]string{"svc-build", "svc-build", "bof"}).Draw(t, "kind")}
		claim("ask", &s)
		add(s)
		pl := &plan{p: m.ask(s)}
		last := rapid.SampledFrom([]int{0, 1, 2, 2, 2}).Draw(t, "release-point")
		if pl.p.kind == "svc-build" && last > 0 && rapid.Bool().Draw(t, "also-earlier") {
			// a service may send progress messages before the payload
			pl.phases = append(pl.phases, rapid.IntRange(0, last-1).Draw(t, "earlier-point"))
		}
		pl.phases = append(pl.phases, last)
		plans = append(plans, pl)
		bcastMaybe("ask")
	}
	releasePhase := func(ph int) {
		for _, pl := range plans {
			for k, x := range pl.phases {
				if x != ph || !pl.p.open {
					continue
				}
				s := StepC{K: "release", P: idxPend(pl.p)}
				switch {
				case pl.p.kind == "bof":
					s.How = rapid.SampledFrom([]string{"ran-ok", "ran-ok", "could-not-run"}).Draw(t, "bof-form")
				case k < len(pl.phases)-1:
					s.How = "message"
				default:
					s.How = rapid.SampledFrom([]string{"payload", "payload", "message"}).Draw(t, "svc-form")
				}
				add(s)
				m.release(s)
				bcastMaybe("rel")
			}
		}
	}
	// fault: in about one history in four ONE connection presents a wrong password while the
	// teamserver's write of the refusal fails - early (the operators are there and would see
	// whatever it caused) or late (among the newcomers) - and the history goes on
	faultAt := ""
	if faultShare(t, "fault?") {
		faultAt = rapid.SampledFrom([]string{"early", "late"}).Draw(t, "fault-at")
	}
	faulty := func() {
		s := srcOf("flt", []string{"fresh", "fresh", "reuse", "other-ip"})
		s.K, s.Auth, s.User = "connect", "wrong-password", rapid.IntRange(0, nu-1).Draw(t, "flt-user")
		s.Fault, s.FK = genFaultC(t)
		add(s)
		m.connect(s)
		bcastMaybe("flt")
	}
	if faultAt == "early" {
		faulty()
	}
	reqsMaybe("early")
	releasePhase(0)
	// the askers whose answers come later leave; others may
	for _, o := range ops {
		must := false
		for _, pl := range plans {
			if pl.p.owner == o && pl.phases[len(pl.phases)-1] > 0 {
				must = true
			}
		}
		if must || rapid.IntRange(0, 3).Draw(t, "leave-anyway?") == 0 {
			s := StepC{K: "leave", C: idxLive(o), How: rapid.SampledFrom(leaveHows).Draw(t, "how")}
			add(s)
			m.leave(s)
		}
	}
	releasePhase(1)
	// others come: from the address a departed connection used, from another loopback ip
	// with the same port, from a fresh address; silent, with a wrong password, as an operator
	ncome := rapid.IntRange(1, 3).Draw(t, "ncome")
	for i := 0; i < ncome; i++ {
		s := srcOf("new", []string{"reuse", "reuse", "reuse", "reuse", "other-ip", "fresh"})
		s.K = "connect"
		s.Auth = rapid.SampledFrom([]string{"silent", "silent", "silent", "wrong-password", "login", "login"}).Draw(t, "new-auth")
		s.User = rapid.IntRange(0, nu-1).Draw(t, "new-user")
		disp("new", &s)
		add(s)
		m.connect(s)
		bcastMaybe("new")
	}
	if faultAt == "late" {
		faulty()
	}
	reqsMaybe("late")
	releasePhase(2)
	if rapid.IntRange(0, 2).Draw(t, "tail?") == 0 {
		// and the history goes on: a newcomer asks for something itself
		if l := m.liveOps(); len(l) > 0 {
			s := StepC{K: "ask", C: rapid.IntRange(0, len(l)-1).Draw(t, "tail-asker"), How: rapid.SampledFrom([]string{"svc-build", "bof"}).Draw(t, "tail-kind")}
			claim("tail", &s)
			add(s)
			p := m.ask(s)
			r := StepC{K: "release", P: idxPend(p), How: rapid.SampledFrom([]string{"payload", "message", "ran-ok"}).Draw(t, "tail-form")}
			add(r)
			m.release(r)
		}
	}
	return c
}

func genFaultC(t *rapid.T) (string, int) {
	how := rapid.SampledFrom([]string{"cut", "cut", "reset"}).Draw(t, "fault-how")
	k := 0
	if how == "cut" && rapid.Bool().Draw(t, "fault-after-k") {
		k = rapid.SampledFrom([]int{1, 2, 19, 20, 60, 120, 125, 126, 127, 128, 200, 4000}).Draw(t, "fault-k")
	}
	return how, k
}

func faultLabelC(how string, k int) string {
	switch {
	case how == "cut" && k == 0:
		how = "fails-at-once"
	case how == "cut":
		how = "fails-after-k-bytes"
	default:
		how = "peer-reset"
	}
	return "fault:socket:write-answer:" + how + "@connect:wrong-password+pipelined-chat"
}

// ------------------------------------------------------------------ generator: scale
//
// About one case in 85 (scalePerMille; some ten histories of a quick run) draws ONE of the counts a history has from the threshold-adjacent
// pool and builds that many connections / events by the same real calls as the small
// histories, in two parts, with the ordinary small steps before, between and after them.

var scalePerMille = func() int {
	// (VERIF_C06_SCALE_PER_MILLE: debugging aid, e.g. 1000 = only scale histories)
	if n, err := strconv.Atoi(os.Getenv("VERIF_C06_SCALE_PER_MILLE")); err == nil && n > 0 {
		return n
	}
	return 12
}()

// scaleShare is true in about perMille/1000 of the draws.  (rapid's integers are not
// uniform - 0 and the range ends come up in a tenth of the draws each - so the share is
// taken from the middle of 0..99, where every value has a share of about 0.6 %.)
func scaleShare(t *rapid.T, label string, perMille int) bool {
	if perMille >= 1000 {
		return true
	}
	v := rapid.IntRange(0, 99).Draw(t, label)
	k := (perMille + 3) / 6
	if k < 1 {
		k = 1
	}
	return v >= 40 && v < 40+k
}

var scalePoolAll = []int{63, 64, 65, 127, 128, 129, 255, 256, 257, 511, 512, 513, 999, 1000, 1001, 1023, 1024, 1025, 2047, 2048, 2049, 4095, 4096, 4097, 8191, 8192, 8193}

// scaleDims: the counts, and up to where one case can afford them (quick, thorough).
// open-*: every connection is a real loopback websocket whose two ends live in the worker
// process (2 descriptors), so these are also cut by RLIMIT_NOFILE (wsx.MaxConns);
// *-login: every login is replayed the retained events, which grow with every login and
// departure (quadratic).
var scaleDims = []struct {
	name            string
	quick, thorough int
}{
	{"open-silent", 1025, 2049},
	{"open-authenticated", 129, 257},
	{"cycles-silent", 1025, 4097},
	{"cycles-refused", 1025, 4097},
	{"open-silent", 1025, 2049},
	{"cycles-login", 129, 257},
	{"broadcasts", 4097, 8193},
	{"targeted-answers", 1025, 4097},
	{"directed-replies", 257, 1025},
	{"open-silent", 1025, 2049},
}

func scalePool(max int) []int {
	var out []int
	for _, n := range scalePoolAll {
		if n <= max {
			out = append(out, n)
		}
	}
	if len(out) == 0 {
		out = []int{max}
	}
	return out
}

func scaleBucket(n int) string {
	switch {
	case n < 63:
		return ""
	case n < 255:
		return "64-129"
	case n < 999:
		return "255-513"
	case n < 2047:
		return "999-1025"
	case n < 8191:
		return "2047-4097"
	}
	return "8191+"
}

func genScaleC(t *rapid.T, c *CaseC, m *modelC, nu int) {
	c.Shape = "scale"
	d := scaleDims[rapid.IntRange(0, len(scaleDims)-1).Draw(t, "scale-dim")]
	c.Dim = d.name
	max := d.quick
	if core.Tier() == "thorough" {
		max = d.thorough
	}
	if strings.HasPrefix(d.name, "open-") {
		if mc := wsx.MaxConns() - 16; mc < max {
			max = mc
		}
	}
	n := rapid.SampledFrom(scalePool(max)).Draw(t, "scale-n")
	// a second, moderate count in one case in three: silent connections held open around the 64 / 128 marks
	second := 0
	if !strings.HasPrefix(d.name, "open-") && rapid.IntRange(0, 2).Draw(t, "scale-second?") == 0 {
		second = rapid.SampledFrom(scalePool(129)).Draw(t, "scale-second-n")
	}
	switch d.name {
	case "open-authenticated":
		c.Extra = n
	case "cycles-login":
		c.Extra = 2
	}
	m.users = c.allUsers()
	m.base = len(c.Users)

	add := func(s StepC) { c.Steps = append(c.Steps, s) }
	claims := []string{"own", "own", "own", "empty", "empty", "other-online", "offline", "unknown", "own-case"}
	claim := func(label string, s *StepC) {
		s.Claim = rapid.SampledFrom(claims).Draw(t, label+"-claim")
		s.ClaimN = rapid.IntRange(0, 2).Draw(t, label+"-claimn")
	}
	connect := func(label, auth string, user int, srcs []string) *mconn {
		s := StepC{K: "connect", Auth: auth, User: user, Src: rapid.SampledFrom(srcs).Draw(t, label+"-src"), SrcN: rapid.IntRange(0, 5).Draw(t, label+"-srcn"), IP: rapid.IntRange(0, 5).Draw(t, label+"-ip")}
		if auth == "login" {
			s.Disp = rapid.SampledFrom(dispPool).Draw(t, label+"-disp")
		}
		add(s)
		return m.connect(s)
	}
	var svcPend *mpend // a payload build whose progress messages can be released any number of times
	idxPend := func(p *mpend) int {
		for i, y := range m.openPend() {
			if y == p {
				return i
			}
		}
		return 0
	}
	ask := func(label string, kind string) *mpend {
		l := m.liveOps()
		if len(l) == 0 {
			return nil
		}
		s := StepC{K: "ask", C: rapid.IntRange(0, len(l)-1).Draw(t, label+"-asker"), How: kind}
		claim(label, &s)
		add(s)
		return m.ask(s)
	}
	reqKinds := []string{"ladd-dup-smb", "ladd-dup-smb", "ladd-dup-ext", "ladd-proxy", "ledit-proxy"}
	req := func(label string, n int) {
		l := m.liveOps()
		if len(l) == 0 {
			return
		}
		s := StepC{K: "req", C: rapid.IntRange(0, len(l)-1).Draw(t, label+"-reqc"), How: rapid.SampledFrom(reqKinds).Draw(t, label+"-reqk"), P: rapid.IntRange(0, 4).Draw(t, label+"-reqp"), N: n}
		claim(label+"-req", &s)
		add(s)
	}
	release := func(label string, n int) {
		var s StepC
		if svcPend != nil && svcPend.open && (n > 1 || rapid.Bool().Draw(t, label+"-progress?")) {
			s = StepC{K: "release", P: idxPend(svcPend), How: "message", N: n}
		} else if l := m.openPend(); len(l) > 0 {
			s = StepC{K: "release", P: rapid.IntRange(0, len(l)-1).Draw(t, label+"-p"), How: rapid.SampledFrom([]string{"payload", "message", "ran-ok", "could-not-run"}).Draw(t, label+"-form")}
		} else {
			return
		}
		add(s)
		for i := 0; i < reps(s); i++ {
			m.release(s)
		}
	}
	// one ordinary step of the small histories
	small := func(label string, kinds []string) {
		switch rapid.SampledFrom(kinds).Draw(t, label+"-k") {
		case "bcast":
			add(StepC{K: "bcast"})
		case "login":
			connect(label, "login", rapid.IntRange(0, nu-1).Draw(t, label+"-user"), []string{"fresh", "fresh", "reuse", "other-ip"})
		case "refused":
			connect(label, "wrong-password", rapid.IntRange(0, nu-1).Draw(t, label+"-user"), []string{"fresh", "reuse", "other-ip"})
		case "silent":
			connect(label, "silent", rapid.IntRange(0, nu-1).Draw(t, label+"-user"), []string{"fresh", "reuse", "other-ip"})
		case "leave-op":
			if l := m.liveOps(); len(l) > 0 {
				o := l[rapid.IntRange(0, len(l)-1).Draw(t, label+"-op")]
				for i, y := range m.liveConns() {
					if y == o {
						s := StepC{K: "leave", C: i, How: rapid.SampledFrom(leaveHows).Draw(t, label+"-how")}
						add(s)
						m.leave(s)
					}
				}
			}
		case "leave-any":
			if l := m.liveConns(); len(l) > 0 {
				s := StepC{K: "leave", C: rapid.IntRange(0, len(l)-1).Draw(t, label+"-c"), How: rapid.SampledFrom(leaveHows).Draw(t, label+"-how")}
				add(s)
				m.leave(s)
			}
		case "ask":
			ask(label, rapid.SampledFrom([]string{"svc-build", "bof"}).Draw(t, label+"-kind"))
		case "release":
			release(label, 1)
		case "req":
			req(label, 1)
		}
	}
	ordinary := []string{"bcast", "bcast", "bcast", "login", "login", "refused", "silent", "leave-op", "leave-any", "ask", "release", "release", "req"}
	// the steps that make the teamserver write to every operator: the ones a count-dependent
	// delivery path would show at
	fanout := []string{"bcast", "bcast", "bcast", "login", "leave-op", "release", "req"}

	// ---- before the bulk: the small history's setting
	connect("op0", "login", 0, []string{"fresh", "fresh", "other-ip"})
	if strings.HasPrefix(d.name, "open-") && rapid.Bool().Draw(t, "early-bystander?") || !strings.HasPrefix(d.name, "open-") && second == 0 {
		connect("by", "silent", nu-1, []string{"fresh", "other-ip"})
	}
	if rapid.Bool().Draw(t, "op1?") {
		connect("op1", "login", 1, []string{"fresh", "other-ip"})
	}
	if d.name == "targeted-answers" || rapid.IntRange(0, 2).Draw(t, "svc-ask?") > 0 {
		svcPend = ask("svc", "svc-build")
	}
	if rapid.Bool().Draw(t, "bof-ask?") {
		ask("bof", "bof")
	}
	for i, k := 0, rapid.IntRange(0, 2).Draw(t, "nbefore"); i < k; i++ {
		small("before", ordinary)
	}
	if second > 0 {
		s := StepC{K: "bulk", Auth: "silent", N: second, Hold: true}
		add(s)
		m.bulk(s)
		small("second", fanout)
	}

	// ---- the bulk, in two parts (the first one half of it, all but one, or all but two)
	n1 := n / 2
	switch rapid.IntRange(0, 3).Draw(t, "split") {
	case 0:
		n1 = n - 1
	case 1:
		n1 = n - 2
	}
	part := func(k int) {
		if k <= 0 {
			return
		}
		var s StepC
		switch d.name {
		case "open-silent":
			s = StepC{K: "bulk", Auth: "silent", N: k, Hold: true}
		case "open-authenticated":
			s = StepC{K: "bulk", Auth: "login", N: k, Hold: true}
		case "cycles-silent":
			s = StepC{K: "bulk", Auth: "silent", N: k}
		case "cycles-refused":
			s = StepC{K: "bulk", Auth: "wrong-password", N: k, User: rapid.IntRange(0, nu-1).Draw(t, "refused-user")}
		case "cycles-login":
			s = StepC{K: "bulk", Auth: "login", N: k}
		case "broadcasts":
			add(StepC{K: "bcast", N: k})
			return
		case "targeted-answers":
			release("bulk", k)
			return
		case "directed-replies":
			req("bulk", k)
			return
		}
		add(s)
		m.bulk(s)
	}
	part(n1)
	for i, k := 0, rapid.IntRange(1, 3).Draw(t, "nmid"); i < k; i++ {
		small("mid", ordinary)
	}
	part(n - n1)

	// ---- after it: first a step that is fanned out to the operators, then more of the ordinary ones
	small("after", fanout)
	for i, k := 0, rapid.IntRange(1, 3).Draw(t, "nafter"); i < k; i++ {
		small("after", ordinary)
	}
	if (strings.HasPrefix(d.name, "open-") || second > 0) && rapid.IntRange(0, 2).Draw(t, "bulk-leave?") == 0 {
		// many leave at once (all, or all but the threshold-adjacent number that stays), and the history goes on
		open := 0
		for _, x := range m.conns {
			if x.live && x.bulk {
				open++
			}
		}
		k := open
		if stay := rapid.SampledFrom([]int{0, 0, 63, 64, 65, 127, 128, 129}).Draw(t, "stay"); stay < open {
			k = open - stay
		}
		s := StepC{K: "bulk-leave", N: k}
		add(s)
		m.bulkLeave(s)
		for i, k := 0, rapid.IntRange(1, 2).Draw(t, "nlate"); i < k; i++ {
			small("late", ordinary)
		}
	}
}

// ------------------------------------------------------------------ interpreter

const (
	svcAgentName = "svcagent"
	bofAgentID   = 0x10000001
	barAgentID   = 0x7ffffff0
)

type rconn struct {
	m         *mconn
	cl        *wsx.Client
	addr      string
	w0        int64
	frames    []string        // projections of everything received, in order
	expect    []string        // live broadcasts issued while it was authenticated
	addressed map[string]bool // targeted answers released for it while it was there
	ntok      int
}

type rpend struct {
	m        *mpend
	clientID string // svc-build: the id the service was given
	reqID    uint32 // bof
	tokens   []string
}

// projC: targeted answers get a projection of their own; everything else is wsx.Proj.
func projC(fr wsx.Frame) string {
	pk, err := wsx.Decode(fr)
	if err != nil {
		return fmt.Sprintf("undecodable/%.80q", fr.Data)
	}
	T := packager.Type
	switch {
	case pk.Head.Event == T.Gate.Type:
		if s, ok := pk.Body.Info["FileName"].(string); ok {
			return "gate/" + s
		}
		if s, ok := pk.Body.Info["Message"].(string); ok {
			return "gate/" + s
		}
		return "gate/?"
	case pk.Head.Event == T.Session.Type && pk.Body.SubEvent == T.Session.Output && fmt.Sprint(pk.Body.Info["CommandID"]) == fmt.Sprint(agent.HAVOC_BOF_CALLBACK):
		out, _ := base64.StdEncoding.DecodeString(fmt.Sprint(pk.Body.Info["Output"]))
		var mm map[string]string
		json.Unmarshal(out, &mm)
		return "bofcb/" + mm["TaskID"] + "/" + mm["Worked"]
	}
	return wsx.Proj(pk)
}

func targeted(p string) bool {
	return strings.HasPrefix(p, "gate/") || strings.HasPrefix(p, "bofcb/") || strings.HasPrefix(p, "lerr/")
}

// addressee: who may receive a directed reply.  asker: the session that sent the request;
// claimed: the live session of the operator the request's Head.User named (HEAD resolves
// the recipient by that name; C06 does not judge a reply that reaches an AUTHENTICATED
// operator because the sender claimed its name).
type addressee struct {
	asker, claimed *rconn
}

type worldC struct {
	fx    *wsx.Fixture
	c     CaseC
	m     *modelC
	conns map[int]*rconn
	pend  map[int]*rpend
	owner map[string]addressee // directed-reply token -> who may receive it
	nreq  int
	svc   *wsx.Client
	bof   *agent.Agent
	tok   int
	nbar  int
	alive int // connection handlers that should be running (service included)
	dirty bool
	ipOK  bool
	void  bool // the rest of the history is not run (see tableCheck)
	nopen int  // connections that have a client record (made, and neither refused nor gone yet)
}

func (w *worldC) svcSend(v any) error {
	b, err := json.Marshal(v)
	if err != nil {
		return err
	}
	return w.svc.Send(websocket.TextMessage, b)
}

// svcRead waits for the next service message with the given Body.Type ("" = any).
func (w *worldC) svcRead(typ string) (map[string]map[string]any, *core.Violation) {
	for {
		fr, ok, _ := w.svc.Next(wsx.Watchdog)
		if !ok {
			return nil, core.V("harness|service-silent", "the service socket got no %q message within %v", typ, wsx.Watchdog)
		}
		var mm map[string]map[string]any
		if json.Unmarshal(fr.Data, &mm) != nil {
			continue
		}
		if typ == "" || mm["Body"]["Type"] == typ {
			return mm, nil
		}
	}
}

// svcBarrier: the service connection's messages are dispatched one after the other, so the
// answer to this request proves that everything the service sent before has been handled.
func (w *worldC) svcBarrier() *core.Violation {
	if err := w.svcSend(map[string]any{"Head": map[string]any{"Type": "Agent"}, "Body": map[string]any{
		"Type": "AgentTask", "Task": "Get", "Agent": map[string]any{"NameID": fmt.Sprintf("%08x", barAgentID)}}}); err != nil {
		return core.V("harness|service-send", "%v", err)
	}
	_, v := w.svcRead("AgentTask")
	return v
}

// collect reads rc's queue up to and including the projection `until`.
func (w *worldC) collect(rc *rconn, until, sig, what string, or ...string) *core.Violation {
	for {
		fr, ok, closed := rc.cl.Next(wsx.Watchdog)
		if !ok {
			return core.V(sig, "%s: %q did not arrive within %v (connection ended: %v); received so far: %v", what, until, wsx.Watchdog, closed, clip(rc.frames))
		}
		p := projC(fr)
		rc.frames = append(rc.frames, p)
		if p == until {
			return nil
		}
		for _, o := range or {
			if p == o {
				return nil
			}
		}
	}
}

func (w *worldC) describe(rc *rconn) string {
	s := fmt.Sprintf("connection #%d from %s (%s address", rc.m.id, rc.addr, rc.m.src)
	if rc.m.from >= 0 {
		s += fmt.Sprintf(" of connection #%d", rc.m.from)
	}
	switch rc.m.auth {
	case "login":
		s += ", authenticated as " + rc.m.user
		if rc.m.dcls != "" {
			s += fmt.Sprintf(" with the display name %q (%s)", rc.m.name(), rc.m.dcls)
		}
		s += ")"
	case "wrong-password":
		s += ", refused: wrong password for " + rc.m.user + ")"
	default:
		s += ", never sent a message)"
	}
	return s
}

// silentCheck: nothing at all has been written to a connection that has not spoken.
func (w *worldC) silentCheck(phase, kind string, about string) *core.Violation {
	return w.silentSig("leak|"+phase+"|to-unauthenticated|"+kind+"|src=", about)
}

// silentSig: sig ending in "src=" gets the source address class of the receiving connection appended.
func (w *worldC) silentSig(sig string, about string) *core.Violation {
	ids := make([]int, 0, len(w.conns))
	for id := range w.conns {
		ids = append(ids, id)
	}
	sort.Ints(ids)
	for _, id := range ids {
		rc := w.conns[id]
		if !rc.m.live || rc.m.auth != "silent" {
			continue
		}
		if n := rc.cl.Peer.Written() - rc.w0; n != 0 {
			what := "unreadable"
			if fr, ok, _ := rc.cl.Next(wsx.Watchdog); ok {
				what = projC(fr)
			}
			if strings.HasSuffix(sig, "src=") {
				sig += rc.m.src
			}
			return core.V(sig, "%s received %q (%d bytes) %s", w.describe(rc), what, n, about)
		}
	}
	return nil
}

// evaluate: rc's frame list is complete (barrier echo read, or the server closed it).
func (w *worldC) evaluate(rc *rconn) *core.Violation {
	if rc.m.auth != "login" {
		return nil
	}
	if len(rc.frames) == 0 || rc.frames[0] != "init/success" {
		return core.V("login|first-frame", "%s: first frame is not Success: %v", w.describe(rc), clip(rc.frames))
	}
	seen := map[string]int{}
	for _, f := range rc.frames {
		seen[f]++
		if strings.HasPrefix(f, "chat/") && strings.Contains(f, "/"+refusedChat) {
			return core.V("action|chat-by-refused-connection", "%s received %q: a chat message sent by a connection that presented a wrong password was dispatched; frames: %v", w.describe(rc), f, clip(rc.frames))
		}
		if !targeted(f) {
			continue
		}
		if rc.addressed[f] {
			if seen[f] > 1 {
				return core.V("deferred|delivered-twice|"+wsx.KindOf(f), "%s received the targeted answer %q %d times; frames: %v", w.describe(rc), f, seen[f], clip(rc.frames))
			}
			continue
		}
		ad, ok := w.owner[f]
		o := ad.asker
		switch {
		case !ok:
			return core.V("deferred|unknown-targeted-event|"+wsx.KindOf(f), "%s received %q, which no step of the history produced; frames: %v", w.describe(rc), f, clip(rc.frames))
		case o == rc:
			// the asker itself (its request claimed another name; HEAD does not answer it then)
			wsx.Obs("directed-reply-reached-the-asker-despite-its-claim")
		case ad.claimed == rc:
			wsx.Obs("directed-reply-reached-the-authenticated-operator-whose-name-was-claimed") // not judged by C06
		case o.m.user == rc.m.user:
			wsx.Obs("answer-reached-a-later-session-of-the-same-operator") // the statement does not forbid it
		case o.m.name() == rc.m.name():
			// two AUTHENTICATED sessions logged in under one display name; HEAD resolves the sender by that name
			wsx.Obs("answer-reached-an-authenticated-session-with-the-askers-display-name") // not judged by C06
		default:
			return core.V("deferred|delivered-to-other-session|"+wsx.KindOf(f)+"|src="+rc.m.src, "%s received the directed reply %q, which was asked for by %s; frames: %v", w.describe(rc), f, w.describe(o), clip(rc.frames))
		}
	}
	for _, e := range rc.expect {
		if seen[e] == 0 {
			return core.V("broadcast|missing|"+wsx.KindOf(e), "%s did not receive the broadcast %q issued while it was authenticated; frames: %v", w.describe(rc), e, clip(rc.frames))
		}
	}
	return nil
}

func (w *worldC) waitGone(rc *rconn) bool {
	deadline := time.Now().Add(wsx.Watchdog)
	for {
		if id, _ := w.fx.ClientByAddr(rc.addr); id == "" {
			return true
		}
		if time.Now().After(deadline) {
			return false
		}
		time.Sleep(100 * time.Microsecond)
	}
}

func (w *worldC) localAddr(mc *mconn) *net.TCPAddr {
	a := &net.TCPAddr{IP: net.IPv4(127, 0, 0, byte(mc.key.oct))}
	if mc.from >= 0 {
		if t := w.conns[mc.from]; t != nil {
			if _, ps, err := net.SplitHostPort(t.addr); err == nil {
				fmt.Sscan(ps, &a.Port)
			}
		}
	}
	return a
}

func (w *worldC) connect(s StepC) *core.Violation {
	return w.open(w.m.connect(s), 0)
}

// open makes the connection mc.  queue > 0: it is one of a bulk - its client has a frame
// queue of that size (wsx.DialFromQ) and the wait for the refused connection's handler to
// be gone is left to the end of the bulk.
func (w *worldC) open(mc *mconn, queue int) *core.Violation {
	var cl *wsx.Client
	var err error
	for try := 0; ; try++ {
		if queue > 0 {
			// (no explicit bind: a bound port is taken machine-wide, and sixteen shards with two
			// thousand connections each would use up the ephemeral range; bulk members always
			// come from a kernel-chosen 127.0.0.1 port anyway)
			cl, err = w.fx.DialFromQ("/havoc/", nil, queue)
		} else {
			cl, err = w.fx.DialFrom("/havoc/", w.localAddr(mc))
		}
		if err == nil {
			break
		}
		if !wsx.IsAddrBusy(err) {
			return core.V("harness|dial", "%v", err)
		}
		if try >= 20 {
			// the kernel does not hand the address out: says nothing about the teamserver.
			// The connection comes from a fresh address instead.
			wsx.Obs("address-refused-by-kernel:" + mc.src + "->fresh")
			w.m.ports++
			mc.src, mc.from, mc.key = "fresh", -1, addrKey{1, w.m.ports}
			try = 0
			continue
		}
		time.Sleep(time.Duration(try+1) * 200 * time.Microsecond)
	}
	rc := &rconn{m: mc, cl: cl, addr: cl.Local, addressed: map[string]bool{}}
	w.conns[mc.id] = rc
	w.alive++
	wsx.Obs("connect:" + mc.src + "+" + mc.auth)
	if mc.src == "reuse" && rc.addr != w.conns[mc.from].addr {
		return core.V("harness|reuse-address-differs", "%s vs %s", rc.addr, w.conns[mc.from].addr)
	}
	deadline := time.Now().Add(wsx.Watchdog)
	for {
		if id, _ := w.fx.ClientByAddr(rc.addr); id != "" {
			break
		}
		if time.Now().After(deadline) {
			return core.V("harness|no-client-record", "no client record for the accepted socket %s", rc.addr)
		}
		time.Sleep(100 * time.Microsecond)
	}
	rc.w0 = cl.Peer.Written()
	w.nopen++
	if w.c.Shape == "scale" {
		// before this connection says anything: does the table still have one record per connection?
		if w.tableCheck(); w.void {
			return nil
		}
	}
	user := mc.user
	switch mc.auth {
	case "login":
		pw := ""
		for _, u := range w.m.users {
			if u.Name == user {
				pw = u.Password
			}
		}
		lp := wsx.LoginPkg(user, pw)
		switch mc.dcls {
		case "empty", "nick", "other-op":
			lp.Body.Info["User"] = mc.disp
		case "absent":
			delete(lp.Body.Info, "User")
		case "non-string":
			lp.Body.Info["User"] = 7
		}
		if mc.dcls != "" {
			wsx.Obs("login-display-name:" + mc.dcls)
		}
		cl.SendJSON(lp)
		w.nbar++
		b := fmt.Sprintf("in-%d", w.nbar)
		// (the teamserver stamps every later message of the session with the session's name)
		bp := wsx.BarrierPkg(mc.name(), b)
		if mc.dcls == "empty" {
			// a teamserver may as well refuse the empty display name and keep the operator's name
			// (fixes/C06-empty-display-name-...diff does): the echo tells which name the session got
			bp.Body.Info[user] = bp.Body.Info[""]
		}
		cl.SendJSON(bp)
		if v := w.collect(rc, "!chat/"+mc.name()+"/"+b, "login|no-barrier-echo", w.describe(rc)+" after a correct login", "!chat/"+user+"/"+b); v != nil {
			return v
		}
		if mc.dcls == "empty" && rc.frames[len(rc.frames)-1] == "!chat/"+user+"/"+b {
			mc.dcls = "empty->operator-name"
			wsx.Obs("login-display-name:empty->session-named-after-the-operator")
		}
	case "wrong-password":
		pw := ""
		for _, u := range w.m.users {
			if u.Name == user {
				pw = u.Password + "x"
			}
		}
		if mc.fault != "" {
			return w.refusedUnderFault(rc, user, pw, queue)
		}
		cl.SendJSON(wsx.LoginPkg(user, pw))
		deadline := time.Now().Add(wsx.Watchdog)
		for !cl.Peer.ClosedByServer() {
			if time.Now().After(deadline) {
				w.dirty = true
				return core.V("refused|not-closed", "%s: the socket was not closed by the server %v after a wrong password", w.describe(rc), wsx.Watchdog)
			}
			time.Sleep(100 * time.Microsecond)
		}
		for _, fr := range cl.Drain() {
			rc.frames = append(rc.frames, projC(fr))
		}
		if len(rc.frames) != 1 || rc.frames[0] != "init/error" {
			sig := "refused|frames"
			for _, f := range rc.frames {
				if targeted(f) {
					sig = "leak|deferred-answer|to-refused|" + wsx.KindOf(f) + "|src=" + mc.src
				}
			}
			return core.V(sig, "%s received %v instead of exactly one error frame", w.describe(rc), clip(rc.frames))
		}
		if !w.waitGone(rc) {
			w.dirty = true
			return core.V("refused|record-kept", "%s: its client record still exists %v after the refusal", w.describe(rc), wsx.Watchdog)
		}
		w.nopen--
		cl.Abort()
		w.alive--
		if queue == 0 && !w.fx.WaitHandlers(w.alive, wsx.Watchdog) {
			w.dirty = true
		}
	}
	return nil
}

// bulk: N connections, each made (and, in cycles, ended) by the same calls as a single
// one; the goroutine-dump wait for departed handlers is made once, at the end.
func (w *worldC) bulk(s StepC) *core.Violation {
	members, hold := w.m.bulk(s)
	if len(members) < s.N {
		wsx.Obs("scale-cut-by-descriptor-limit")
	}
	if len(members) == 0 {
		return nil
	}
	wsx.Obs(fmt.Sprintf("bulk:%s+hold=%v:%s", members[0].auth, hold, scaleBucket(len(members))))
	queue := 64
	if members[0].auth == "login" {
		queue = 8192 // its replay, and the arrivals and departures of the others
	}
	for _, mc := range members {
		mc.live = true
		if v := w.open(mc, queue); v != nil || w.void {
			return v
		}
		if mc.auth == "wrong-password" {
			mc.live = false
			continue
		}
		if !hold {
			if v := w.leaveConn(w.conns[mc.id], "abort", true); v != nil {
				return v
			}
			mc.live = false
		}
	}
	if !hold && !w.fx.WaitHandlers(w.alive, wsx.Watchdog) {
		w.dirty = true
		wsx.Obs("not-quiescent-after-bulk")
	}
	return w.tableCheck()
}

func (w *worldC) bulkLeave(s StepC) *core.Violation {
	members := w.m.bulkLeave(s)
	for _, mc := range members {
		if v := w.leaveConn(w.conns[mc.id], "abort", true); v != nil {
			return v
		}
	}
	if len(members) > 0 && !w.fx.WaitHandlers(w.alive, wsx.Watchdog) {
		w.dirty = true
		wsx.Obs("not-quiescent-after-bulk")
	}
	return w.tableCheck()
}

// tableCheck: the client table has one record per open connection.  The teamserver names a
// record by 6 random hex digits; until 4755c52 it stored it without looking whether the name was
// taken: among a thousand open connections two shared a name about once in thirty histories, and
// the later one's record replaced the earlier one's (whatever was then sent "to" the earlier
// connection went to the later one).  That cannot be produced by any input, only met by chance,
// which is why it is checked on the table itself, in scale histories before the connection that
// met it has said anything: fewer records than open connections (after the handlers had time to
// store them) is a violation.
func (w *worldC) tableCheck() *core.Violation {
	n := w.fx.ClientCount()
	for dl := time.Now().Add(3 * time.Second); n < w.nopen && time.Now().Before(dl); n = w.fx.ClientCount() {
		time.Sleep(5 * time.Millisecond)
	}
	if n < w.nopen {
		w.void, w.dirty = true, true
		return core.V("table|fewer-client-records-than-open-connections", "%d connections are open, the client table holds %d records: a new connection took over the record of another one (its id was already in use)", w.nopen, n)
	}
	return nil
}

func (w *worldC) leaveConn(rc *rconn, how string, inBulk ...bool) *core.Violation {
	switch rc.m.auth {
	case "login":
		w.nbar++
		b := fmt.Sprintf("out-%d", w.nbar)
		rc.cl.SendJSON(wsx.BarrierPkg(rc.m.name(), b))
		if v := w.collect(rc, "!chat/"+rc.m.name()+"/"+b, "operator|no-barrier-echo", w.describe(rc)+" before leaving"); v != nil {
			return v
		}
		if v := w.evaluate(rc); v != nil {
			return v
		}
	case "silent":
		if n := rc.cl.Peer.Written() - rc.w0; n != 0 {
			what := "unreadable"
			if fr, ok, _ := rc.cl.Next(wsx.Watchdog); ok {
				what = projC(fr)
			}
			return core.V("leak|at-departure|to-unauthenticated|src="+rc.m.src, "%s had received %q (%d bytes) when it left", w.describe(rc), what, n)
		}
	}
	switch how {
	case "close-frame":
		rc.cl.Conn.WriteControl(websocket.CloseMessage, websocket.FormatCloseMessage(websocket.CloseNormalClosure, ""), time.Now().Add(5*time.Second))
	case "half-close":
		rc.cl.HalfClose()
	default:
		rc.cl.Abort()
	}
	if !w.waitGone(rc) {
		w.dirty = true
		return core.V("departure|record-kept|"+how, "%s: its client record still exists %v after it left (%s)", w.describe(rc), wsx.Watchdog, how)
	}
	w.nopen--
	rc.cl.Abort()
	rc.cl.Join()
	w.alive--
	if len(inBulk) == 0 && !w.fx.WaitHandlers(w.alive, wsx.Watchdog) {
		w.dirty = true
		wsx.Obs("not-quiescent-after-departure")
	}
	if rc.m.auth == "silent" {
		// (whatever else was in flight to it)
		for _, fr := range rc.cl.Pending() {
			return core.V("leak|at-departure|to-unauthenticated|src="+rc.m.src, "%s had received %q when it left", w.describe(rc), projC(fr))
		}
	}
	return nil
}

func (w *worldC) ask(s StepC) *core.Violation {
	mp := w.m.ask(s)
	if mp == nil {
		return nil
	}
	rc := w.conns[mp.owner.id]
	rp := &rpend{m: mp}
	w.pend[mp.id] = rp
	T := packager.Type
	wsx.Obs("ask:" + mp.kind + "+claim:" + mp.claim)
	if mp.amb != "" {
		wsx.Obs("ask:" + mp.kind + "+asker-name-shared-with:" + mp.amb)
	}
	// (the model already resolved the claim when it created mp: same state, same step)
	_, claimName, _ := w.m.claimOf(mp.owner, s)
	switch mp.kind {
	case "svc-build":
		pk := wsx.Pkg(T.Gate.Type, claimName, T.Gate.Stageless, map[string]any{"AgentType": svcAgentName, "Listener": "none", "Arch": "x64", "Format": "Windows Exe", "Config": "{}"})
		pk.Head.OneTime = "true" // as the payload dialog sends it
		rc.cl.SendJSON(pk)
		mm, v := w.svcRead("AgentBuild")
		if v != nil {
			return v
		}
		rp.clientID, _ = mm["Body"]["ClientID"].(string)
		if rp.clientID == "" && mp.claim == "own" && mp.sure {
			return core.V("harness|build-request-without-client-id", "%v", mm)
		}
	default:
		w.tok++
		rp.reqID = 0x0B0F0000 + uint32(w.tok)
		rc.cl.SendJSON(wsx.Pkg(T.Session.Type, claimName, T.Session.Input, map[string]any{
			"TaskID": fmt.Sprintf("%08X", rp.reqID), "CommandLine": "inline-execute /tmp/x.o", "DemonID": fmt.Sprintf("%08x", bofAgentID),
			"CommandID": fmt.Sprint(agent.COMMAND_INLINEEXECUTE), "HasCallback": "true", "FunctionName": "go",
			"Binary": base64.StdEncoding.EncodeToString([]byte("not-a-coff")), "Arguments": base64.StdEncoding.EncodeToString([]byte{0, 0, 0, 0}), "Flags": "default"}))
		w.nbar++
		b := fmt.Sprintf("ask-%d", w.nbar)
		rc.cl.SendJSON(wsx.BarrierPkg(rc.m.name(), b))
		if v := w.collect(rc, "!chat/"+rc.m.name()+"/"+b, "operator|no-barrier-echo", w.describe(rc)+" after a BOF task"); v != nil {
			return v
		}
		found := false
		for _, cb := range w.bof.BofCallbacks {
			if cb.TaskID == rp.reqID {
				found = true
			}
		}
		if !found {
			return core.V("harness|bof-callback-not-registered", "task %08X left no callback record", rp.reqID)
		}
	}
	return w.silentCheck("request", mp.kind, fmt.Sprintf("while %s asked for a %s in a request whose Head.User is %q", w.describe(rc), mp.kind, claimName))
}

func (w *worldC) release(s StepC) *core.Violation {
	mp, form := w.m.release(s)
	if mp == nil {
		return nil
	}
	rp := w.pend[mp.id]
	rc := w.conns[mp.owner.id]
	point, holder := w.m.releasePoint(mp)
	// the asker named itself, its session name named nobody else when it asked, and it is still there: it must get the answer
	must := mp.owner.live && mp.claim == "own" && mp.sure
	obs := "release:" + mp.kind + "@" + point
	if holder != nil {
		obs += "+address-now-held-by:" + holder.auth
	}
	wsx.Obs(obs)
	w.tok++
	var token string
	switch mp.kind {
	case "svc-build":
		msg := map[string]any{}
		if form == "payload" {
			token = fmt.Sprintf("gate/implant-%d.exe", w.tok)
			msg["FileName"] = strings.TrimPrefix(token, "gate/")
			msg["Payload"] = base64.StdEncoding.EncodeToString([]byte(fmt.Sprintf("MZ payload %d with the listener's keys", w.tok)))
		} else {
			token = fmt.Sprintf("gate/build-progress-%d", w.tok)
			msg["Type"] = "Info"
			msg["Message"] = strings.TrimPrefix(token, "gate/")
		}
		w.owner[token] = w.addresseeOf(mp)
		if must {
			rc.addressed[token] = true
		}
		if err := w.svcSend(map[string]any{"Head": map[string]any{"Type": "Agent"}, "Body": map[string]any{"Type": "AgentBuild", "ClientID": rp.clientID, "Message": msg}}); err != nil {
			return core.V("harness|service-send", "%v", err)
		}
		if v := w.svcBarrier(); v != nil {
			return v
		}
	default:
		worked := "true"
		code := uint32(agent.COMMAND_INLINEEXECUTE_RAN_OK)
		if form == "could-not-run" {
			worked, code = "false", uint32(agent.COMMAND_INLINEEXECUTE_COULD_NO_RUN)
		}
		token = fmt.Sprintf("bofcb/%08X/%s", rp.reqID, worked)
		w.owner[token] = w.addresseeOf(mp)
		if must {
			rc.addressed[token] = true
		}
		if v := core.WithWatchdog(wsx.Watchdog, "agent-callback:bof", func() *core.Violation {
			w.bof.TaskDispatch(rp.reqID, agent.COMMAND_INLINEEXECUTE, parser.NewParser(binary.BigEndian.AppendUint32(nil, code)), w.fx.TS)
			return nil
		}); v != nil {
			w.dirty = true
			return v
		}
	}
	rp.tokens = append(rp.tokens, token)
	about := fmt.Sprintf("when the %s answer %q for %s was released (%s; the request's Head.User claim: %s)", mp.kind, token, w.describe(rc), point, mp.claim)
	if mp.amb != "" {
		about += "; when it asked, its session name was also the name of: " + mp.amb
	}
	if v := w.silentCheck("deferred-answer", mp.kind, about); v != nil {
		return v
	}
	if must {
		return w.collect(rc, token, "deferred|not-delivered-to-requester|"+mp.kind, w.describe(rc)+", which asked for it and is still connected")
	}
	return nil
}

func (w *worldC) addresseeOf(mp *mpend) addressee {
	ad := addressee{asker: w.conns[mp.owner.id]}
	if mp.claimed != nil {
		ad.claimed = w.conns[mp.claimed.id]
	}
	return ad
}

// req: a request HEAD answers at once, from inside the sender's handler, with a reply
// directed to one client: a Listener Add that must fail (duplicate name as SMB / External
// listener; HTTP with the proxy enabled and a proxy field missing) or the same Edit.
func (w *worldC) req(s StepC) *core.Violation {
	am, kind := w.m.req(s)
	if am == nil {
		return nil
	}
	rc := w.conns[am.id]
	class, claimName, claimed := w.m.claimOf(am, s)
	amb := w.m.ambiguity(am)
	own := class == "own" && amb == ""
	if amb != "" {
		wsx.Obs("req:" + kind + "+asker-name-shared-with:" + amb)
	}
	ad := addressee{asker: rc}
	if claimed != nil {
		ad.claimed = w.conns[claimed.id]
	}
	w.nreq++
	T := packager.Type
	wsx.Obs("req:" + kind + "+claim:" + class)
	var pk packager.Package
	var tokens []string
	switch kind {
	case "ladd-dup-smb", "ladd-dup-ext":
		// a listener of that name exists (started by the harness; its announcement is a broadcast)
		name := fmt.Sprintf("dl-%d", w.nreq)
		if v := core.WithWatchdog(wsx.Watchdog, "broadcast:listener-start", func() *core.Violation {
			if err := w.fx.TS.ListenerStart(handlers.LISTENER_PIVOT_SMB, handlers.SMBConfig{Name: name, PipeName: "pipe-" + name}); err != nil {
				return core.V("harness|listener-start", "%v", err)
			}
			return nil
		}); v != nil {
			return v
		}
		if v := w.silentCheck("broadcast", "listener-add", "when a listener start was announced"); v != nil {
			return v
		}
		if kind == "ladd-dup-smb" {
			pk = wsx.Pkg(T.Listener.Type, claimName, T.Listener.Add, map[string]any{"Name": name, "Protocol": handlers.AGENT_PIVOT_SMB, "PipeName": "other-pipe"})
		} else {
			pk = wsx.Pkg(T.Listener.Type, claimName, T.Listener.Add, map[string]any{"Name": name, "Protocol": handlers.AGENT_EXTERNAL, "Endpoint": "ep-" + name})
		}
		tokens = []string{"lerr/" + name + "/listener already exists"}
	default:
		name := fmt.Sprintf("px-%d", w.nreq)
		info := map[string]any{"Name": name, "Protocol": handlers.AGENT_HTTP, "HostBind": "127.0.0.1", "Hosts": "127.0.0.1", "Headers": "", "Uris": "", "HostRotation": "round-robin",
			"PortBind": "0", "PortConn": "0", "HostHeader": "", "UserAgent": "ua", "Secure": "false", "Proxy Enabled": "true",
			"Proxy Type": "http", "Proxy Host": "127.0.0.1", "Proxy Port": "3128", "Proxy Username": "u", "Proxy Password": "p"}
		miss := proxyFields[mod(s.P, len(proxyFields))]
		delete(info, miss)
		what := func(f string) string { return strings.ToLower(f) + " not specified" }
		tokens = []string{"lerr/" + name + "/" + what(miss)}
		if miss == "Proxy Type" || miss == "Proxy Host" {
			// HEAD reports these two and goes on: the password is left out as well, which ends the request
			delete(info, "Proxy Password")
			tokens = append(tokens, "lerr/"+name+"/"+what("Proxy Password"))
		}
		sub := T.Listener.Add
		if kind == "ledit-proxy" {
			sub = T.Listener.Edit
		}
		pk = wsx.Pkg(T.Listener.Type, claimName, sub, info)
	}
	for _, tk := range tokens {
		w.owner[tk] = ad
		if own {
			rc.addressed[tk] = true
		}
	}
	rc.cl.SendJSON(pk)
	// the reply is written by the sender's own handler before it reads the next message
	w.nbar++
	b := fmt.Sprintf("req-%d", w.nbar)
	rc.cl.SendJSON(wsx.BarrierPkg(rc.m.name(), b))
	if v := w.collect(rc, "!chat/"+rc.m.name()+"/"+b, "operator|no-barrier-echo", w.describe(rc)+" after a "+kind+" request"); v != nil {
		return v
	}
	about := fmt.Sprintf("when %s sent a %s request whose Head.User is %q (%s)", w.describe(rc), kind, claimName, class)
	sig := "leak|directed-reply|to-unauthenticated|listener-error|claim=" + class
	if am.dcls != "" {
		// (whatever the request claims: the teamserver stamps it with the session's name)
		sig = "leak|directed-reply|to-unauthenticated|listener-error|login-display-name=" + am.dcls
		about += "; its login gave the display name " + strconv.Quote(am.name())
	}
	if v := w.silentSig(sig, about); v != nil {
		return v
	}
	if own {
		have := map[string]bool{}
		for _, f := range rc.frames {
			have[f] = true
		}
		for _, tk := range tokens {
			if !have[tk] {
				return core.V("directed|not-delivered-to-requester|"+kind, "%s did not receive %q for its own %s request; frames: %v", w.describe(rc), tk, kind, clip(rc.frames))
			}
		}
	}
	return nil
}

func (w *worldC) bcast() *core.Violation {
	w.tok++
	tk := fmt.Sprintf("live-%d", w.tok)
	id := fmt.Sprintf("%08x", bofAgentID)
	if v := core.WithWatchdog(wsx.Watchdog, "broadcast:console", func() *core.Violation {
		w.fx.TS.AgentConsole(id, agent.HAVOC_CONSOLE_MESSAGE, map[string]string{"Type": "Info", "Message": tk})
		return nil
	}); v != nil {
		w.dirty = true
		return v
	}
	for _, rc := range w.conns {
		if rc.m.live && rc.m.auth == "login" {
			rc.expect = append(rc.expect, "out/"+id+"/"+tk)
		}
	}
	return w.silentCheck("broadcast", "console", "when console output was broadcast")
}

func checkC(c CaseC) *core.Violation { return wsx.Exec("c", c) }

func runC(raw json.RawMessage) *core.Violation {
	var c CaseC
	if err := json.Unmarshal(raw, &c); err != nil {
		return core.V("harness|decode", "%v", err)
	}
	if len(c.Users) == 0 {
		return nil
	}
	fx, err := wsx.Acquire(c.allUsers(), "service-password")
	if err != nil {
		return core.V("harness|fixture", "%v", err)
	}
	w := &worldC{fx: fx, c: c, m: newModelC(c), conns: map[int]*rconn{}, pend: map[int]*rpend{}, owner: map[string]addressee{}}
	w.m.cap = wsx.MaxConns()
	if c.Shape == "scale" {
		// (the evidence keeps the 60 most frequent labels only: the scale classes are also counted as observations)
		for _, l := range classifyC(c).Labels {
			if strings.HasPrefix(l, "scale") || strings.HasPrefix(l, "at-scale:") || strings.HasPrefix(l, "bulk") || l == "shape:scale" {
				wsx.Obs("class:" + l)
			}
		}
	}
	t0 := time.Now()
	defer func() {
		t1 := time.Now()
		fx.Release(w.dirty)
		if os.Getenv("VERIF_WSX_DEBUG") != "" && c.Shape == "scale" {
			fmt.Fprintf(os.Stderr, "TIMING scale %s steps=%d conns=%d run=%v release=%v\n", c.Dim, len(c.Steps), len(w.conns), t1.Sub(t0), time.Since(t1))
		}
	}()
	v := w.run()
	if v != nil && !strings.HasPrefix(v.Sig, "harness|") {
		// a verdict was reached in the middle of a history.  If it is a delivery to the wrong
		// connection the teamserver itself is in order: everybody is disconnected one after
		// the other and it is reused; otherwise (or if that does not end cleanly) it is dropped
		if !w.dirty && strings.HasPrefix(v.Sig, "leak|") && w.teardown() {
			return v
		}
		w.dirty = true
	}
	return v
}

func (w *worldC) teardown() bool {
	ids := make([]int, 0, len(w.conns))
	for id := range w.conns {
		ids = append(ids, id)
	}
	sort.Ints(ids)
	for _, id := range ids {
		rc := w.conns[id]
		if !rc.m.live {
			continue // (its address may be in use by a later connection)
		}
		rc.m.live = false
		rc.cl.Abort()
		deadline := time.Now().Add(3 * time.Second)
		for {
			if cid, _ := w.fx.ClientByAddr(rc.addr); cid == "" {
				break
			}
			if time.Now().After(deadline) {
				return false
			}
			time.Sleep(100 * time.Microsecond)
		}
	}
	if w.svc != nil {
		w.svc.Abort()
	}
	return w.fx.WaitHandlers(0, 3*time.Second)
}

func (w *worldC) run() *core.Violation {
	ts := w.fx.TS
	// ---- setup: the BOF target session, the barrier session, a third-party service with one agent type
	w.bof = wsx.NewAgent(bofAgentID)
	ts.AgentAdd(w.bof)
	ts.AgentSendNotify(w.bof)
	ts.AgentAdd(wsx.NewAgent(barAgentID))
	svc, err := w.fx.Dial("/" + wsx.SvcEndpoint)
	if err != nil {
		return core.V("harness|dial-service", "%v", err)
	}
	w.svc = svc
	w.alive = 1
	w.svcSend(map[string]any{"Head": map[string]any{"Type": "Register"}, "Body": map[string]any{"Password": "service-password"}})
	if mm, v := w.svcRead(""); v != nil {
		return v
	} else if mm["Body"]["Success"] != true {
		return core.V("harness|service-register", "%v", mm)
	}
	w.svcSend(map[string]any{"Head": map[string]any{"Type": "RegisterAgent"}, "Body": map[string]any{"Agent": map[string]any{
		"Name": svcAgentName, "MagicValue": "0x41414141", "Author": "v", "Formats": []any{}, "SupportedOS": []any{"windows"}, "Description": "d", "Commands": []any{}, "BuildingConfig": map[string]any{}}}})
	if v := w.svcBarrier(); v != nil {
		return v
	}

	// ---- the history
	for _, s := range w.c.Steps {
		var v *core.Violation
		switch s.K {
		case "connect":
			v = w.connect(s)
		case "leave":
			if mc := w.m.leave(s); mc != nil {
				wsx.Obs("leave:" + mc.auth + "+" + s.How)
				v = w.leaveConn(w.conns[mc.id], s.How)
			}
		case "ask":
			v = w.ask(s)
		case "release":
			for i := 0; i < reps(s) && v == nil; i++ {
				v = w.release(s)
			}
		case "bcast":
			for i := 0; i < reps(s) && v == nil; i++ {
				v = w.bcast()
			}
		case "req":
			for i := 0; i < reps(s) && v == nil; i++ {
				v = w.req(s)
			}
		case "bulk":
			v = w.bulk(s)
		case "bulk-leave":
			v = w.bulkLeave(s)
		}
		if v != nil {
			return v
		}
		if w.void {
			return nil
		}
	}

	// ---- end: everybody leaves, one after the other, and accounts for what it received
	ids := make([]int, 0, len(w.conns))
	for id := range w.conns {
		ids = append(ids, id)
	}
	sort.Ints(ids)
	for _, id := range ids {
		rc := w.conns[id]
		if !rc.m.live {
			continue
		}
		rc.m.live = false
		if rc.m.bulk {
			// (the handlers of a bulk are waited for together, below)
			if v := w.leaveConn(rc, "abort", true); v != nil {
				return v
			}
			continue
		}
		if v := w.leaveConn(rc, "abort"); v != nil {
			return v
		}
	}
	svc.Abort()
	w.alive = 0
	if !w.fx.WaitHandlers(0, wsx.Watchdog) {
		w.dirty = true
		wsx.Obs("not-quiescent-at-end")
	}
	return nil
}

// ------------------------------------------------------------------ classes

func classifyC(c CaseC) core.Class {
	var cl core.Class
	if len(c.Users) == 0 {
		return cl
	}
	m := newModelC(c)
	lab := map[string]bool{"shape:" + c.Shape: true}
	fp := map[string]bool{}
	// scale: the largest number of simultaneously open connections by kind, the number of
	// connect-disconnect cycles by kind, of broadcasts, targeted answers and directed replies
	count := map[string]int{}
	peak := func() {
		u, a := m.unauthLive(), m.authLive()
		for k, v := range map[string]int{"open-silent": u, "open-authenticated": a, "client-table": u + a} {
			if v > count[k] {
				count[k] = v
			}
		}
	}
	// atScale: an ordinary step made while the client table holds a threshold-adjacent number of connections
	atScale := func(what string) {
		if b := scaleBucket(m.unauthLive() + m.authLive()); b != "" {
			lab["at-scale:"+what+"|table:"+b] = true
			fp["at-scale:"+what+"|"+b] = true
			if m.unauthLive() > 0 {
				cl.NonTrivial = true
			}
		}
	}
	for _, s := range c.Steps {
		switch s.K {
		case "bulk":
			members, hold := m.bulk(s)
			if len(members) > 0 {
				a := members[0].auth
				if hold {
					lab["bulk:"+a+"+stay"] = true
				} else {
					count["cycles-"+map[string]string{"silent": "silent", "login": "login", "wrong-password": "refused"}[a]] += len(members)
				}
			}
			peak()
		case "bulk-leave":
			if ms := m.bulkLeave(s); len(ms) > 0 {
				lab["bulk-leave"] = true
				if b := scaleBucket(m.unauthLive() + m.authLive()); b != "" {
					lab["bulk-leave|table-after:"+b] = true
				}
			}
		}
		for rep := 0; rep < reps(s); rep++ {
			switch s.K {
			case "connect":
				if rep > 0 {
					break
				}
				mc := m.connect(s)
				peak()
				if mc.auth == "login" {
					atScale("operator-arrives")
				} else {
					atScale(mc.auth + "-arrives")
				}
				lab["src:"+mc.src] = true
				lab["conn:"+mc.auth] = true
				if mc.auth == "login" && mc.dcls != "" {
					lab["login-display-name:"+mc.dcls] = true
					if ss, p := m.namesakes(mc); p > 0 || len(ss) > 0 {
						lab["login-display-name:"+mc.dcls+"+name-shared-on-arrival"] = true
					}
				}
				if mc.fault != "" {
					lab[faultLabelC(mc.fault, mc.fk)] = true
					if m.authLive() > 0 {
						lab["fault:refusal-cannot-be-written+while-operators-connected"] = true
					}
					fp["fault:"+mc.fault] = true
					cl.NonTrivial = true
				}
				if mc.after {
					lab["newcomer:"+mc.src+"+"+mc.auth] = true
				}
				if mc.src == "reuse" {
					t := m.conns[mc.from]
					lab["reuse-address-of:"+t.auth+"->"+mc.auth] = true
				}
			case "leave":
				if rep > 0 {
					break
				}
				if mc := m.leave(s); mc != nil {
					lab["leave:"+mc.auth+"+"+s.How] = true
					if mc.auth == "login" {
						atScale("operator-leaves")
					}
				}
			case "ask":
				if rep > 0 {
					break
				}
				if p := m.ask(s); p != nil {
					lab["ask:"+p.kind] = true
					lab["claim:"+p.claim] = true
					lab["ask:"+p.kind+"+claim:"+p.claim] = true
					if p.owner.dcls != "" {
						lab["ask:"+p.kind+"+asker-display-name:"+p.owner.dcls] = true
					}
					if p.amb != "" {
						lab["ask:"+p.kind+"+asker-name-shared-with:"+p.amb] = true
						fp["ask-name-shared:"+p.amb] = true
						cl.NonTrivial = true
					}
					if p.claim != "own" {
						cl.NonTrivial = true
						if m.unauthLive() > 0 {
							lab["claim:"+p.claim+"+while-unauthenticated-connected"] = true
						}
					}
				}
			case "req":
				if a, kind := m.req(s); a != nil {
					count["directed-replies"]++
					atScale("directed-reply")
					class, _, _ := m.claimOf(a, s)
					if a.dcls != "" {
						lab["req+asker-display-name:"+a.dcls] = true
					}
					if amb := m.ambiguity(a); amb != "" {
						lab["req+asker-name-shared-with:"+amb] = true
						fp["req-name-shared:"+amb] = true
						cl.NonTrivial = true
					}
					lab["req:"+kind] = true
					lab["claim:"+class] = true
					lab["req:"+kind+"+claim:"+class] = true
					f := "req:own"
					if class == "empty" {
						f = "req:empty"
					} else if class != "own" {
						f = "req:other-name"
					}
					if m.unauthLive() > 0 {
						lab["directed-reply-while-unauthenticated-connected"] = true
						lab["claim:"+class+"+while-unauthenticated-connected"] = true
						f += "+unauth"
						cl.NonTrivial = true
					}
					if class != "own" {
						cl.NonTrivial = true
					}
					fp[f] = true
				}
			case "release":
				if p, form := m.release(s); p != nil {
					count["targeted-answers"]++
					atScale("targeted-answer")
					point, holder := m.releasePoint(p)
					k := "deferred:" + p.kind + "/" + form + "@" + point
					lab[k] = true
					f := "@" + point
					fp["kind:"+p.kind] = true
					if p.claim == "empty" {
						fp["deferred-claim:empty"] = true
					} else if p.claim != "own" {
						fp["deferred-claim:other-name"] = true
					}
					if p.claim != "own" {
						lab["deferred@"+point+"+claim:"+p.claim] = true
					}
					if p.amb != "" {
						lab["deferred@"+point+"+asker-name-was-shared-with:"+p.amb] = true
						fp["deferred-name-shared"] = true
					}
					unauth := m.unauthLive()
					if unauth > 0 {
						lab["deferred-while-unauthenticated-connected"] = true
						fp["deferred+unauth"] = true
					}
					if holder != nil {
						lab["deferred@owner-address-now-held-by:"+holder.auth] = true
						fp["held:"+holder.auth] = true
					}
					if p.nrel > 1 {
						lab["deferred:several-answers-to-one-request"] = true
					}
					if point != "owner-there" || unauth > 0 {
						cl.NonTrivial = true
					}
					fp[f] = true
				}
			case "bcast":
				lab["live-broadcast"] = true
				count["broadcasts"]++
				atScale("broadcast")
			}
		}
	}
	for k, v := range count {
		if b := scaleBucket(v); b != "" {
			lab["scale:"+k+":"+b] = true
			fp["scale:"+k+":"+b] = true
			if k != "client-table" && k != "open-authenticated" {
				cl.NonTrivial = true // (open-authenticated alone: nobody is unauthenticated; see atScale)
			}
		}
	}
	if c.Dim != "" {
		lab["scale-dim:"+c.Dim] = true
	}
	for k := range lab {
		cl.Labels = append(cl.Labels, k)
	}
	sort.Strings(cl.Labels)
	var fs []string
	for k := range fp {
		fs = append(fs, k)
	}
	sort.Strings(fs)
	cl.Fingerprint = "hist|" + strings.Join(fs, ",")
	return cl
}

func TestC06c(t *testing.T) {
	core.Run(t, core.Spec[CaseC]{
		Property: "C06", Sub: "c",
		Rule: "real Teamserver.Start() served on a harness listener, 2-3 operators, a third-party service registered over the real service websocket with one agent type, one Demon session. A history of connections to /havoc/: every connection binds its local address explicitly (net.Dialer.LocalAddr; linger 0 so that a departed address is free at once): a fresh 127.0.0.1 port, the exact ip:port of an earlier departed connection (SO_REUSEADDR), or another loopback ip 127.0.0.2-7 with the port of an earlier connection; it stays silent, presents a wrong password, or logs in as an operator; connections leave (reset / close frame / half-close). Authenticated operators start work that is answered later by client id: a payload build relayed to the service (the service's AgentBuild replies - progress message / payload - are sent by the ClientID it was given) and a BOF task with python-module callback (the agent's RAN_OK / COULD_NOT_RUN callback goes through PythonModuleCallback(ClientID)); each answer is released at a generated later point: while the asker is still connected, after it left, after it left and other connections came (planned histories aim at these points; 1 in 10 histories is an unplanned step sequence), interleaved with live console broadcasts. Claimed sender: every such request, and 0-2 requests per phase that HEAD answers at once with a reply directed to ONE client (Listener Add that must fail: existing name as Smb / External listener, Http with the proxy enabled and one of the five proxy fields missing; the same Listener Edit), carries a generated Head.User claim (never checked after login): the sender's own name, the empty string, the name of another connected operator, of a configured operator who is not connected, an unknown name, the own name in another letter case. Oracle: a connection that has not sent a message has received 0 bytes at every release, broadcast and at its departure; a refused one exactly one InitConnection/Error; an authenticated one receives a targeted answer iff it is the session that asked for it and is still connected (exactly once; a later session of the same operator may or may not), and every live broadcast issued while it was authenticated; whatever an authenticated operator sends and claims, an unauthenticated connection receives nothing; a directed reply must reach the sender when it named itself, may reach the sender or the AUTHENTICATED operator whose name was claimed otherwise (not judged by C06, counted: observed directed-reply-reached-...), and no third session; frame lists are complete (one-shot chat echo read before judging; service-side barrier after every service reply). Non-trivial: an answer is released after its asker left, or while an unauthenticated connection exists, or a request claims another sender than its own, or a directed reply is produced while an unauthenticated connection exists; distinct = (set of release points, set of kinds, unauthenticated present at a release, who holds an asker's address at a release, claim class (own / empty / other name) of deferred requests and of directed-reply requests, the latter with/without an unauthenticated connection present). SCALE (shape:scale, about 1 history in 85): ONE count of the history is drawn from the threshold-adjacent pool {63,64,65, 127,128,129, 255,256,257, 511,512,513, 999,1000,1001, 1023,1024,1025, ...} and that many connections / events are produced by the same real calls as in the small histories (every connection a real loopback websocket handled by handleRequest), in two parts (half+half, or all but one / two and the rest), with the ordinary steps (live broadcast, operator login, wrong password, silent connection from a reused / other-ip address, departure of an operator or of any connection, ask, release, directed-reply request with a claimed sender) before, between and after the parts, the first step after the bulk being one that is fanned out to operators: scale:open-silent = silent connections held open at once (pool cut at 1025 in the quick tier, 2049 thorough, and at what RLIMIT_NOFILE affords: two descriptors per connection, soft limit raised to the hard one in TestMain), scale:open-authenticated = operators logged in at once, each a different operator of an enlarged profile (cut at 129 quick / 257 thorough: every login is replayed all retained events, quadratic), scale:cycles-silent / cycles-refused / cycles-login = connect-disconnect cycles, i.e. client ids handed out: silent connections that leave, wrong-password logins that are refused (each exactly one error frame, closed, record removed), one operator logging in and leaving again and again (1025 / 1025 / 129 quick; 4097 / 4097 / 257 thorough), scale:broadcasts = live console broadcasts (4097 / 8193), scale:targeted-answers = progress messages of one payload build released by client id (1025 / 4097), scale:directed-replies = failing Listener Add/Edit requests (257 / 1025); in a third of the histories whose large count is not a number of open connections a second, moderate group of 63-129 silent connections is held open as well; afterwards many of the bulk connections may leave at once so that a threshold-adjacent number (0, 63-65, 127-129) stays, and the history goes on. The oracle is the same at every step (server-side byte counter of every silent connection = 0 after every broadcast, answer, reply and at its departure; complete frame lists of operators), evaluated in the same places; only the goroutine-dump wait for departed handlers is made once per bulk instead of once per connection. Labels scale:<count>:<bucket> (buckets 64-129, 255-513, 999-1025, 2047-4097, 8191+; client-table = silent + authenticated) and at-scale:<step>|table:<bucket> (an ordinary step made while the client table holds that many records); scale histories are non-trivial when such a step happens with an unauthenticated connection present or a count other than the number of operators is large, and add (count, bucket) and (step, bucket) to the fingerprint. FAULT (wave 15; about one history in four; labels fault:socket:write-answer:fails-at-once|fails-after-k-bytes|peer-reset@connect:wrong-password+pipelined-chat, fault:refusal-cannot-be-written+while-operators-connected): ONE step of the history is a connection (fresh / reused / other-ip address) that presents a wrong password for an existing operator, with a chat message right behind it in the same segment, while the teamserver's write of the refusal fails - the connection wrapper fails its writes at once or after K bytes, or the peer resets its socket (linger 0) at once - placed early (the operators are connected) or among the late newcomers; then the history goes on (requests, releases, broadcasts, departures). Oracle unchanged: the connection's record never says authenticated, the server closes it and removes its record, it received at most its one error frame, and no operator's frame list - judged when it leaves - contains that chat message (action|chat-by-refused-connection); the fault step makes a history non-trivial. SESSION NAME (wave 16; labels login-display-name:<class>, ask:<kind>+asker-display-name:<class>, ask:<kind>+asker-name-shared-with:pending|session|pending+session, req+asker-name-shared-with:..., deferred@<point>+asker-name-was-shared-with:...): every login of the histories (planned operators, newcomers, unplanned steps, the operators of scale histories) draws the DISPLAY NAME of its login message - Body.Info.User, free text next to the credentials Head.User + Password; the teamserver keeps it as the session's name, stamps every later message of the session with it and resolves 'the sender' of a request by it - from: the operator's own name (what the client sends; 5 in 11), the empty string (2 in 11; the name every client-table record has before its first message), a nickname nobody else has, the name of ANOTHER configured operator (who may be connected under that very name), no such field, a number (the last two fall back to the operator's name). All requests that are answered by client id (payload build via the service, BOF with callback, failing Listener Add/Edit) are then made by sessions whose name is also the name of other records of the client table: pending connections (silent bystanders, newcomers, the thousand silent connections of a scale history) and / or another authenticated session. Oracle unchanged for everybody who has not authenticated (0 bytes at the request, at every release - whenever it comes: owner there / left / others came -, at every broadcast and at departure; a refused connection exactly its error frame); the demand that the asker itself receives its answer is made only when, at the time of the request, its session name named no other record (HEAD takes the first record of that name, in sync.Map order; an answer that reaches another AUTHENTICATED session of the same display name is counted, not judged: observed answer-reached-an-authenticated-session-with-the-askers-display-name). The one-shot chat echoes that complete a frame list are sent under the session's name; which name a session with an empty display name got (empty, or the operator's name if the teamserver refuses the empty one) is read from the echo of its first barrier. A request made under a shared session name makes a history non-trivial and adds (request kind class, who shares the name) to the fingerprint",
		Gen:  genC, Check: checkC, Classify: classifyC,
		Assumptions: []string{
			"one session per operator at a time: a generated login for an operator who is online stays a silent connection (the teamserver resolves the asking session by user name)",
			"if the kernel refuses to bind/connect from a requested local address after 20 tries the connection is made from a fresh address and counted (observed: address-refused-by-kernel); that is never a violation",
			"the Demon-type payload build (builder console messages) is not driven: every build attempt leaves a directory under the hard-coded /tmp and runs external compilers; the same ClientID resolution is exercised through the service-type build and the BOF callback",
			"a targeted answer reaching a later session of the SAME operator is not judged (the statement only speaks about unauthenticated connections; HEAD never does it)",
			"scale histories: the client table must hold one record per open connection (a new connection that takes over the id of another one - six random hex digits, about 3 % of the histories with 1025 open connections before 4755c52 - shows as fewer records); checked before a newly made connection says anything",
			"scale histories: a bulk whose size exceeds what the descriptor limit affords is cut (observed scale-cut-by-descriptor-limit); the generator already cuts its pool by the limit of the generating process",
		},
	})
}

package c06

import (
	"testing"

	"verifharness/internal/wsx"
)

func TestMain(m *testing.M) {
	// the scale classes of (c) hold up to a thousand loopback websockets (two descriptors
	// each) open in the worker: the soft descriptor limit is lifted to the hard one, and the
	// generator and the interpreter cut the counts to what that affords (wsx.MaxConns)
	wsx.RaiseNoFile()
	wsx.Main(m, map[string]wsx.Handler{"a": runA, "b": runB, "c": runC})
}

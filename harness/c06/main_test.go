package c06

import (
	"testing"

	"verifharness/internal/wsx"
)

func TestMain(m *testing.M) {
	wsx.Main(m, map[string]wsx.Handler{"a": runA, "b": runB, "c": runC})
}

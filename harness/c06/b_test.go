package c06

// C06(b) service endpoint: nothing is dispatched before the service password has been
// presented (pkg/service/service.go authenticate / handleConnection).

import (
	"bytes"
	"encoding/json"
	"fmt"
	"strings"
	"testing"
	"time"

	"github.com/gorilla/websocket"
	"pgregory.net/rapid"

	"verifharness/internal/core"
	"verifharness/internal/wsx"
)

type CaseB struct {
	Pass      string   `json:"pass"` // the profile's service password
	Raw       []byte   `json:"raw"`
	Text      string   `json:"text"`
	Binary    bool     `json:"binary"`
	Cls       string   `json:"cls"`
	Follow    []string `json:"follow"`    // regagent | ladd | lstart | agentreg | task | exc2
	Pipelined bool     `json:"pipelined"` // follow-ups are sent right behind the first message, before any reply is awaited
	WithOp    bool     `json:"with_op"`   // an authenticated operator is connected and would see emitted events
	Agent     bool     `json:"agent"`     // a session exists (target of the task follow-up)
	// fault dimension (fault_test.go): the transport of the service socket fails at the handshake
	Fault *Fault `json:"fault,omitempty"`
}

func svcMsg(kind string, agentID string) []byte {
	var m any
	switch kind {
	case "regagent":
		m = map[string]any{"Head": map[string]any{"Type": "RegisterAgent"}, "Body": map[string]any{"Agent": map[string]any{
			"Name": "svcagent", "MagicValue": "0x41414141", "Author": "v", "Formats": []any{}, "SupportedOS": []any{"windows"}, "Description": "d", "Commands": []any{}, "BuildingConfig": map[string]any{}}}}
	case "ladd":
		m = map[string]any{"Head": map[string]any{"Type": "Listener"}, "Body": map[string]any{"Type": "ListenerAdd", "Listener": map[string]any{"Name": "svclistener", "Agent": "svcagent", "Items": []any{}}}}
	case "lstart":
		m = map[string]any{"Head": map[string]any{"Type": "Listener"}, "Body": map[string]any{"Type": "ListenerStart", "Listener": map[string]any{
			"Name": "svcrunning", "Protocol": "svclistener", "Host": "h", "PortBind": "1", "Error": "", "Status": "Online", "Info": "{}"}}}
	case "agentreg":
		m = map[string]any{"Head": map[string]any{"Type": "Agent"}, "Body": map[string]any{"Type": "AgentRegister",
			"AgentHeader":  map[string]any{"Size": "64", "MagicValue": "41414141", "AgentID": "2badbeef"},
			"RegisterInfo": map[string]any{"Hostname": "h", "Username": "u", "Domain": "d", "InternalIP": "1.2.3.4", "Process Path": "p", "Process Name": "n", "Process Arch": "x64", "Process ID": "1", "Process Parent ID": "1", "Process Elevated": "0", "OS Build": "b", "OS Arch": "a", "SleepDelay": "1"}}}
	case "task":
		m = map[string]any{"Head": map[string]any{"Type": "Agent"}, "Body": map[string]any{"Type": "AgentTask", "Agent": map[string]any{"NameID": agentID}, "Task": "Add", "Command": "QUJD"}}
	case "exc2":
		m = map[string]any{"Head": map[string]any{"Type": "Listener", "RequestID": "r1"}, "Body": map[string]any{"Type": "ListenerAddExC2", "Name": "svcexc2", "Endpoint": "svcexc2-endpoint"}}
	}
	b, _ := json.Marshal(m)
	return b
}

func readSvc(raw []byte, pass string) verdict {
	look := func(v any) (typ, pw string, typOK, pwOK, strictKeys bool) {
		m, ok := v.(map[string]any)
		if !ok {
			return
		}
		strictKeys = true
		get := func(m map[string]any, k string) any {
			if v, ok := m[k]; ok {
				return v
			}
			for kk, v := range m {
				if strings.EqualFold(kk, k) {
					strictKeys = false
					return v
				}
			}
			return nil
		}
		if h, ok := get(m, "Head").(map[string]any); ok {
			typ, typOK = get(h, "Type").(string)
		}
		if b, ok := get(m, "Body").(map[string]any); ok {
			pw, pwOK = get(b, "Password").(string)
		}
		return
	}
	var first any
	dec := json.NewDecoder(bytes.NewReader(raw))
	if err := dec.Decode(&first); err != nil {
		return mustReject
	}
	typ, pw, tOK, pOK, strict := look(first)
	presented := tOK && pOK && typ == "Register" && pw == pass
	if !presented {
		if ambiguousKeys(raw) {
			return either
		}
		return mustReject
	}
	var whole any
	if json.Unmarshal(raw, &whole) != nil || !strict || ambiguousKeys(raw) {
		return either // password presented, but trailing data / odd key spelling
	}
	return mustAccept
}

func genB(t *rapid.T) CaseB {
	var c CaseB
	c.Pass = rapid.SampledFrom([]string{"service-password", "p", "pässwörd", "0"}).Draw(t, "pass")
	reg := func(typ, pw any) map[string]any {
		return map[string]any{"Head": map[string]any{"Type": typ}, "Body": map[string]any{"Password": pw}}
	}
	cls := rapid.SampledFrom([]string{"valid", "wrong-password", "wrong-password", "mutate", "mutate", "other-type", "other-type", "nonjson", "operator-login"}).Draw(t, "cls")
	var msg any
	switch cls {
	case "valid":
		msg = reg("Register", c.Pass)
	case "wrong-password":
		k := rapid.SampledFrom([]string{"other", "empty", "prefix", "appended", "digest", "upper"}).Draw(t, "pw-kind")
		cls += ":" + k
		pw := map[string]string{"other": "letmein", "empty": "", "prefix": c.Pass[:len(c.Pass)-1], "appended": c.Pass + "x", "digest": wsx.Digest(c.Pass), "upper": strings.ToUpper(c.Pass) + "!"}[k]
		msg = reg("Register", pw)
	case "mutate":
		m := reg("Register", c.Pass)
		p := rapid.SampledFrom([]string{"Head", "Head.Type", "Body", "Body.Password"}).Draw(t, "path")
		how := rapid.SampledFrom([]string{"absent", "junk", "extra"}).Draw(t, "how")
		cls += ":" + p + "=" + how
		parts := strings.Split(p, ".")
		cur := m
		if len(parts) == 2 {
			cur = m[parts[0]].(map[string]any)
		}
		last := parts[len(parts)-1]
		switch how {
		case "absent":
			delete(cur, last)
		case "junk":
			cur[last] = rapid.SampledFrom(junkValues).Draw(t, "junk")
		default:
			cur["Extra"] = rapid.SampledFrom(junkValues).Draw(t, "junk")
		}
		msg = m
	case "other-type":
		// a dispatchable message as the very first one, with or without the right password inside
		k := rapid.SampledFrom([]string{"regagent", "ladd", "lstart", "agentreg", "task", "exc2", "register-lowercase", "Registered"}).Draw(t, "first-kind")
		cls += ":" + k
		switch k {
		case "register-lowercase":
			msg = reg("register", c.Pass)
		case "Registered":
			msg = reg("Registered", c.Pass)
		default:
			var m map[string]any
			json.Unmarshal(svcMsg(k, "10000001"), &m)
			if rapid.Bool().Draw(t, "with-password") {
				m["Body"].(map[string]any)["Password"] = c.Pass
			}
			msg = m
		}
	case "operator-login":
		msg = wsx.LoginPkg("alice", c.Pass)
	}
	if cls == "nonjson" {
		k := rapid.SampledFrom([]string{"empty", "null", "array", "open-brace", "truncated", "random-bytes", "valid-plus-garbage", "huge"}).Draw(t, "nonjson-kind")
		cls += ":" + k
		full, _ := json.Marshal(reg("Register", c.Pass))
		switch k {
		case "empty":
			c.Raw = []byte{}
		case "null":
			c.Raw = []byte("null")
		case "array":
			c.Raw = []byte("[" + string(full) + "]")
		case "open-brace":
			c.Raw = []byte("{")
		case "truncated":
			c.Raw = full[:rapid.IntRange(1, len(full)-1).Draw(t, "cut")]
		case "random-bytes":
			c.Raw = rapid.SliceOfN(rapid.Byte(), 1, 64).Draw(t, "bytes")
			c.Binary = true
		case "valid-plus-garbage":
			c.Raw = append(full, []byte("}{")...)
		case "huge":
			c.Raw = []byte(`{"Head":{"Type":"Register"},"Body":{"Password":"` + strings.Repeat("A", 1<<20) + `"}}`)
		}
	} else {
		c.Raw, _ = json.Marshal(msg)
	}
	if !c.Binary {
		c.Binary = rapid.Bool().Draw(t, "binary-frame")
	}
	c.Cls = cls
	c.Text = string(c.Raw)
	if len(c.Text) > 400 {
		c.Text = c.Text[:400] + "..."
	}
	n := rapid.IntRange(0, 4).Draw(t, "nfollow")
	for i := 0; i < n; i++ {
		c.Follow = append(c.Follow, rapid.SampledFrom([]string{"regagent", "ladd", "lstart", "agentreg", "task", "exc2"}).Draw(t, "fk"))
	}
	c.Pipelined = rapid.Bool().Draw(t, "pipelined")
	c.WithOp = rapid.IntRange(0, 9).Draw(t, "withop") < 7
	c.Agent = rapid.Bool().Draw(t, "agent")
	if faultShare(t, "fault?") {
		c.Fault = genFault(t, true)
		if len(c.Follow) == 0 {
			c.Follow = append(c.Follow, rapid.SampledFrom([]string{"regagent", "ladd", "lstart", "agentreg", "task", "exc2"}).Draw(t, "fault-fk"))
		}
	}
	return c
}

func checkB(c CaseB) *core.Violation { return wsx.Exec("b", c) }

func runB(raw json.RawMessage) *core.Violation {
	var c CaseB
	if err := json.Unmarshal(raw, &c); err != nil {
		return core.V("harness|decode", "%v", err)
	}
	users := []wsx.User{{Name: "alice", Password: "operator-password"}}
	fx, err := wsx.Acquire(users, c.Pass)
	if err != nil {
		return core.V("harness|fixture", "%v", err)
	}
	dirty := false
	defer func() { fx.Release(dirty) }()
	ts := fx.TS
	rd := readSvc(c.Raw, c.Pass)
	wsx.Obs("svc-reading:" + rd.String())
	agentID := "10000001"
	if c.Agent {
		a := wsx.NewAgent(0x10000001)
		ts.AgentAdd(a)
		ts.AgentSendNotify(a)
	}
	var op *wsx.Client
	alive, readers := 0, 0
	if c.WithOp {
		op, err = fx.Dial("/havoc/")
		if err != nil {
			return core.V("harness|dial", "%v", err)
		}
		alive++
		readers++
		op.SendJSON(wsx.LoginPkg("alice", "operator-password"))
		exp := []string{"init/success", "init/profile", "newuser/alice"}
		if c.Agent {
			exp = append(exp, "!newsession/"+agentID+"/"+wsx.AgentKeyB64(0x10000001))
		}
		if v := op.Expect("operator (setup)", exp, "setup"); v != nil {
			return v
		}
		op.SendJSON(wsx.BarrierPkg("alice", "barrier"))
		if v := op.Expect("operator (setup barrier)", []string{"!chat/alice/barrier"}, "setup"); v != nil {
			return v
		}
	}
	s0 := fx.Snapshot()
	if c.Fault != nil {
		return runBFault(c, fx, rd, op, s0, alive, agentID, &dirty)
	}

	s, err := fx.Dial("/" + wsx.SvcEndpoint)
	if err != nil {
		return core.V("harness|dial-service", "%v", err)
	}
	readers++
	typ := websocket.TextMessage
	if c.Binary {
		typ = websocket.BinaryMessage
	}
	s.Send(typ, c.Raw)
	sendFollow := func() {
		for _, k := range c.Follow {
			if rd != mustReject && k != "regagent" && k != "ladd" {
				// the password may be accepted: what follows is then ordinary authenticated service
				// traffic, whose robustness is not this property's subject; only the two plain
				// registrations are sent
				continue
			}
			s.Send(websocket.TextMessage, svcMsg(k, agentID))
		}
	}
	if c.Pipelined {
		sendFollow()
	}
	// the handshake ends with a reply or with the server closing the socket
	var got []wsx.Frame
	deadline := time.Now().Add(wsx.Watchdog)
	for {
		if fr, ok, _ := s.Next(200 * time.Microsecond); ok {
			got = append(got, fr)
			break
		}
		if s.Peer.ClosedByServer() {
			break
		}
		if time.Now().After(deadline) {
			dirty = true
			return core.V("service|no-answer|"+rd.String(), "neither a reply nor a close %v after the first message (%s)", wsx.Watchdog, c.Cls)
		}
	}
	success := false
	if len(got) > 0 {
		var r struct {
			Head struct{ Type string }
			Body struct{ Success bool }
		}
		if json.Unmarshal(got[0].Data, &r) == nil && r.Head.Type == "Register" && r.Body.Success {
			success = true
		}
	}
	if success {
		wsx.Obs("svc-outcome:accepted")
		if rd == mustReject {
			return core.V("service|accepted|"+clsKey(c.Cls), "the service endpoint answered Success to a first message that does not present the password (%s)", c.Cls)
		}
		// positive control: now (and only now) a registration is dispatched
		s.Send(websocket.TextMessage, svcMsg("regagent", agentID))
		s.Send(websocket.TextMessage, svcMsg("ladd", agentID))
		if op != nil {
			// (pipelined follow-ups may also have been dispatched: only look for the two registrations)
			seen := map[string]bool{}
			for !(seen["service/1"] && seen["service/2"]) {
				fr, ok, _ := op.Next(wsx.Watchdog)
				if !ok {
					return core.V("service|registration-not-announced", "after a correct password the agent/listener registrations were not announced to the operator (saw %v)", seen)
				}
				if pk, err := wsx.Decode(fr); err == nil {
					seen[wsx.Proj(pk)] = true
				}
			}
		}
		s.HalfClose()
		if !fx.WaitHandlers(alive, wsx.Watchdog) {
			dirty = true
		}
		if len(ts.Service.Agents) == 0 && len(fx.Snapshot().SvcAgents) == 0 && op == nil {
			// registrations are removed again when the service client leaves; nothing more to check
		}
		return nil
	}
	wsx.Obs("svc-outcome:refused")
	if rd == mustAccept {
		return core.V("service|refused-correct-password|"+clsKey(c.Cls), "the service handshake with the right password was refused (%s)", c.Cls)
	}
	if !c.Pipelined {
		sendFollow()
	}
	// "and the connection is closed"
	deadline = time.Now().Add(wsx.Watchdog)
	for !s.Peer.ClosedByServer() {
		if time.Now().After(deadline) {
			dirty = true
			return core.V("service|not-closed|"+clsKey(c.Cls), "the service socket was not closed by the server after a refused handshake (%s)", c.Cls)
		}
		time.Sleep(100 * time.Microsecond)
	}
	s.HalfClose()
	if !fx.WaitHandlers(alive, wsx.Watchdog) {
		dirty = true
		wsx.Obs("not-quiescent-after-service-client")
	}
	s.Peer.Kill()
	got = append(got, s.Drain()...)
	readers--
	for i, fr := range got {
		var r struct {
			Head struct{ Type string }
			Body struct{ Success *bool }
		}
		if i > 0 || json.Unmarshal(fr.Data, &r) != nil || r.Head.Type != "Register" || r.Body.Success == nil || *r.Body.Success {
			return core.V("service|frame-to-unauthenticated|"+followKindsS(c.Follow), "the unauthenticated service socket received message %d: %.300q (first message %s, follow-ups %v)", i+1, fr.Data, c.Cls, c.Follow)
		}
	}
	s1 := fx.Snapshot()
	if what, d := s0.Diff(s1); what != "" {
		return core.V("service|state-changed|"+what+"|"+followKindsS(c.Follow), "before the service password was presented (%s) follow-ups %v changed the teamserver's %s: %s", c.Cls, c.Follow, what, d)
	}
	if op != nil {
		// probe: the operator who was online is still served, and saw nothing before the probe
		ts.AgentConsole("0badc0de", 0x80, map[string]string{"Type": "Info", "Message": "probe"})
		if v := op.Expect("operator (probe after the refused service handshake)", []string{"out/0badc0de/probe"}, "service|bystander"); v != nil {
			return v
		}
		if extra := op.Pending(); len(extra) > 0 {
			ps, _ := projAll(extra)
			return core.V("service|event-emitted|"+followKindsS(c.Follow), "the operator received %v caused by an unauthenticated service socket (%s, follow-ups %v)", clip(ps), c.Cls, c.Follow)
		}
	}
	return nil
}

func followKindsS(fs []string) string {
	var f2 []Follow
	for _, k := range fs {
		f2 = append(f2, Follow{K: k})
	}
	return followKinds(f2)
}

func classifyB(c CaseB) core.Class {
	var cl core.Class
	rd := readSvc(c.Raw, c.Pass)
	key := c.Cls
	if i := strings.Index(key, ":"); i >= 0 && (strings.HasPrefix(key, "mutate") || strings.HasPrefix(key, "nonjson")) {
		key = key[:i]
	}
	cl.Labels = append(cl.Labels, "svc-cls:"+c.Cls, "svc-reading:"+rd.String())
	for _, f := range c.Follow {
		cl.Labels = append(cl.Labels, "svc-follow:"+f)
	}
	if c.Pipelined && len(c.Follow) > 0 {
		cl.Labels = append(cl.Labels, "svc-pipelined")
	}
	if c.WithOp {
		cl.Labels = append(cl.Labels, "svc-with-operator")
	}
	flt := ""
	if c.Fault != nil {
		cl.Labels = append(cl.Labels, c.Fault.label("service-handshake"), "svc-fault+reading:"+rd.String())
		flt = "|fault=" + c.Fault.Op + "/" + c.Fault.How + "/" + c.Fault.At
	}
	cl.NonTrivial = rd != mustAccept && len(c.Follow) > 0
	cl.Fingerprint = fmt.Sprintf("svc|%s|%s|pipe=%v|op=%v|%s%s", key, rd, c.Pipelined, c.WithOp, followKindsS(c.Follow), flt)
	return cl
}

func TestC06b(t *testing.T) {
	core.Run(t, core.Spec[CaseB]{
		Property: "C06", Sub: "b",
		Rule: "service endpoint of the real teamserver (profile Service block): first message from a grammar ({Head{Type:Register},Body{Password}} with the right / wrong password (other, empty, prefix, appended, its digest), per-field mutations, dispatchable messages (RegisterAgent, ListenerAdd, ListenerStart, AgentRegister, AgentTask, ListenerAddExC2) sent first with or without the password inside, an operator login, non-JSON/empty/binary/1 MiB) x 0-4 dispatchable follow-ups, pipelined behind the first message or sent after the reply x an authenticated operator watching. Oracle: unless the first message is Register with the exact password: no Success reply, at most one Register/Success=false reply and no other frame, the server closes the socket, Service.Agents/Listeners, sessions, job queues, listeners, endpoints, retained events and DB rows are unchanged and the operator receives no event; with the right password Success and a following RegisterAgent/ListenerAdd are announced. Non-trivial: refused handshake followed by at least one dispatchable message. FAULT (wave 15; about one case in four; labels fault:socket:<operation>:<how>@service-handshake[...], svc-fault+reading:<reading>): the transport of the service socket fails at the handshake, with at least one dispatchable follow-up pipelined behind the first message in the same segment: the teamserver's write of the Register answer fails (connection wrapper: at once / after K bytes; a real peer that writes everything in one segment and resets at once (SO_LINGER 0), the segment handed over after the reset; or half-closes), or its read fails in the middle of the first message / of the first follow-up (wrapper Read returns ECONNRESET / EOF; peer sends part of the announced frame and resets / half-closes). Oracle unchanged (server-side transcript of everything written to the socket): unless the first message is Register with the exact password the socket is closed by the server, was written at most (a prefix of) the one Register/Success=false answer, nothing was dispatched (Service.Agents/Listeners, sessions, job queues, listeners, endpoints, retained events, DB rows unchanged) and the watching operator received nothing but the probe; with the password presented only survival and the operator still being served are demanded (HEAD closes such a connection when its answer cannot be written)",
		Gen:   genB, Check: checkB, Classify: classifyB,
		Assumptions: []string{"a right-password Register message followed by trailing bytes in the same websocket message, or spelled with case-variant keys, may be accepted or refused"},
	})
}

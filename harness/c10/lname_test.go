package c10

// Listener KIND x NAME CLASS product.
//
// Kinds: http (plain), https (Secure=true: HTTP.Start() generates an RSA certificate and
// writes it below <loot>/listener/<name without [^a-zA-Z0-9]>/ before it announces and
// persists the listener), smb, ext.  (Operator-supplied Cert/Key paths exist for listeners
// of the profile only - the operator's Listener/Add package has no such field - and are not
// stored: not generated.)
//
// Name classes (LSpec.NC records the class the generator drew the name from):
//   ascii       letters and digits
//   sql         the SQL / case / blank / normalisation collision families of a_test.go
//   no-alnum    no ASCII letter or digit at all: CJK, punctuation only, blanks only, emoji, mixed
//   sanitise    names of one per-history base that become the SAME string once everything but
//               [a-zA-Z0-9] is removed ("a-b", "a_b", "a b", "ab", "a/b", "a.b" -> "ab")
//   long        100-400 characters; the part left after sanitising is <= 255 or > 255 bytes
//   path        path separators and dots: "../x", "a/b", "..", "/abs", "x\y", "~/x"
//
// What the unchanged tree does with these as HTTPS listeners (looked at with TestC10CertFiles):
// separators and dots are removed with everything else, so the files never leave the listener
// directory; a name that sanitises to "" gets server.crt / server.key in the listener root
// itself; two listeners whose names sanitise to the same string share one directory and the
// later one overwrites the files of the earlier one (the earlier one has usually loaded them
// by then); none of this touches TS_Listeners.  A sanitised name longer than 255 bytes makes
// the directory creation fail.

import (
	"os"
	"path/filepath"
	"regexp"
	"strings"
	"sync"

	"pgregory.net/rapid"

	"verifharness/internal/core"
)

var nameClasses = []string{"ascii", "sql", "no-alnum", "sanitise", "long", "path"}

var sanitiseRe = regexp.MustCompile("[^a-zA-Z0-9]+")

func sanitised(name string) string { return sanitiseRe.ReplaceAllString(name, "") }

var noAlnumNames = map[string][]string{
	"cjk":   {"监听器", "リスナー", "청취자", "监听器①", "слушатель", "ακροατής", "مستمع"},
	"punct": {"--", "-", "...", "%_", "!", "(*)", "##", "@@", "[]", "+", "'", `"`, "::", "~"},
	"blank": {" ", "  ", "\t", " \t ", "\u00a0", "   "},
	"emoji": {"🚀", "😀😀", "🔥-🔥", "✅", "🇩🇪"},
	"mixed": {"监听器 ①", "— 监听 —", "🚀 リスナー", "(监听器)", "№ ②", "é-ü", "üï"},
}

var noAlnumKinds = []string{"cjk", "punct", "blank", "emoji", "mixed"}

// per-history bases of the "sanitise" class (picked by the history's name family)
var sanBases = [][2]string{{"a", "b"}, {"edge", "1"}, {"redir", "eu"}, {"x", "9"}, {"L", "l"}, {"http", "s"}, {"0", "0"}, {"ab", "cd"}}

var sanSeps = []string{"-", "_", "", " ", ".", "/", "--", "é", "%", "\\", "监", ": "}

var pathShapes = []string{"../X", "X/Y", "..", ".", "./X", "X/../Y", "/X", `X\Y`, "X.Y", "../../etc/X", "~/X", "X/", "/", `..\X`, "X/./Y", "//X"}

var (
	asciiNameGen = rapid.StringMatching(`[A-Za-z][A-Za-z0-9]{0,10}`)
	tokenGen     = rapid.StringMatching(`[a-z0-9]{1,5}`)
)

// genClassName draws a listener name of the given class.
func genClassName(t *rapid.T, class string, fam int, l string) string {
	switch class {
	case "ascii":
		return asciiNameGen.Draw(t, l)
	case "sql":
		return rapid.SampledFrom(nameFamilies[fam%len(nameFamilies)]).Draw(t, l)
	case "no-alnum":
		k := rapid.SampledFrom(noAlnumKinds).Draw(t, l+"-kind")
		return rapid.SampledFrom(noAlnumNames[k]).Draw(t, l)
	case "sanitise":
		b := sanBases[fam%len(sanBases)]
		pre := rapid.SampledFrom([]string{"", "", "", "-", " ", "("}).Draw(t, l+"-pre")
		post := rapid.SampledFrom([]string{"", "", "", "!", " ", ")"}).Draw(t, l+"-post")
		return pre + b[0] + rapid.SampledFrom(sanSeps).Draw(t, l+"-sep") + b[1] + post
	case "long":
		unit := rapid.SampledFrom([]string{"A", "ab1", "x-", "监a", "é", "0"}).Draw(t, l+"-unit")
		n := rapid.SampledFrom([]int{100, 200, 254, 255, 256, 257, 300, 400}).Draw(t, l+"-len")
		s := strings.Repeat(unit, n/len([]rune(unit))+1)
		return string([]rune(s)[:n])
	case "path":
		s := rapid.SampledFrom(pathShapes).Draw(t, l)
		s = strings.ReplaceAll(s, "X", tokenGen.Draw(t, l+"-x"))
		return strings.ReplaceAll(s, "Y", tokenGen.Draw(t, l+"-y"))
	}
	return asciiNameGen.Draw(t, l)
}

// uniformBits: rapid prefers the ends of integer ranges and the first elements of SampledFrom
// lists by a wide margin, its Bool is even: n even bits make an even number below 2^n.
func uniformBits(t *rapid.T, n int, l string) int {
	v := 0
	for i := 0; i < n; i++ {
		v *= 2
		if rapid.Bool().Draw(t, l) {
			v++
		}
	}
	return v
}

// evenClass: one of the six classes, each about as often as the others.
func evenClass(t *rapid.T) string {
	v := uniformBits(t, 3, "name-class-bit")
	if v >= len(nameClasses) {
		v = uniformBits(t, 3, "name-class-bit2") % len(nameClasses)
	}
	return nameClasses[v]
}

// genProductLSpec: kind and name class drawn independently.  HTTPS is 3/32 of the product's
// adds where HTTP listeners are allowed at all (every start of such a listener - the add and
// each restore after a restart - generates an RSA key, ~0.15 s), plain HTTP 2/32.
func genProductLSpec(t *rapid.T, allowHTTP bool, fam int) *LSpec {
	kind := "smb"
	switch v := uniformBits(t, 5, "lkind-bit"); {
	case v < 3 && allowHTTP:
		kind = "https"
	case v < 5 && allowHTTP:
		kind = "http"
	case v%2 == 1:
		kind = "ext"
	}
	l := &LSpec{Kind: kind, NC: evenClass(t)}
	l.Name = genClassName(t, l.NC, fam, "lname")
	switch kind {
	case "smb":
		l.Pipe = genStr(t, "pipe")
	case "ext":
		l.Endpoint = genStr(t, "endpoint")
	case "https":
		l.Kind = "http"
		l.HTTP = genHTTP(t)
		l.HTTP.Secure = true
	case "http":
		l.HTTP = genHTTP(t)
	}
	return l
}

// kindOf: the product's kind of a listener (https = a HTTP listener with Secure).
func kindOf(l LSpec) string {
	if l.Kind == "http" && l.HTTP != nil && l.HTTP.Secure {
		return "https"
	}
	return l.Kind
}

// nameClassOf: the class a name belongs to by its own content, for signatures (most specific first).
func nameClassOf(name string) string {
	s := sanitised(name)
	switch {
	case len(s) > 255:
		return "name-sanitises-to>255-bytes"
	case len(s) == 0:
		return "name-without-ascii-letter-or-digit"
	case len(name) >= 100:
		return "long-name"
	case strings.ContainsAny(name, `/\`) || strings.Contains(name, ".."):
		return "name-with-path-separators"
	}
	return "other-name"
}

func noAlnumKindOf(name string) string {
	for _, k := range noAlnumKinds {
		for _, n := range noAlnumNames[k] {
			if n == name {
				return k
			}
		}
	}
	return "other"
}

// ---------------------------------------------------------------- evidence: the kind x class matrix

var (
	cellMu    sync.Mutex
	cellCount = map[string]int{}
)

// countCells counts, once per evaluated history, the listener adds of the product by
// "<kind> x <name class>" (adds whose name is already taken do not count) into
// extra["listener_kind_x_name_class@<shard>"].  The driver keeps the value of the last
// shard for equal keys and only the 60 most frequent labels, hence one key per shard.
func countCells(h History) {
	cellMu.Lock()
	defer cellMu.Unlock()
	seen := map[string]bool{}
	n := 0
	for _, op := range h.flat() {
		if op.K != "ladd" || op.L == nil || seen[op.L.Name] {
			continue
		}
		seen[op.L.Name] = true
		if op.L.NC == "" {
			continue
		}
		n++
		k := kindOf(*op.L)
		cellCount[k+" x "+op.L.NC]++
		switch op.L.NC {
		case "no-alnum":
			cellCount[k+" x no-alnum:"+noAlnumKindOf(op.L.Name)]++
		case "long":
			if len(sanitised(op.L.Name)) > 255 {
				cellCount[k+" x long:sanitised>255-bytes"]++
			} else {
				cellCount[k+" x long:sanitised<=255-bytes"]++
			}
		}
	}
	if n == 0 {
		return
	}
	cp := map[string]int{}
	for k, v := range cellCount {
		cp[k] = v
	}
	core.SetExtra("listener_kind_x_name_class@"+filepath.Base(os.Getenv("VERIF_OUT")), cp)
}

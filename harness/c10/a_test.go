package c10

// C10(a) fidelity: after a generated history the database file is opened afresh
// (db.DatabaseNew on the same path) and read with the calls Teamserver.Start() uses to
// restore a session (DB.AgentAll, DB.ParentOf, DB.LinksOf, DB.ListenerAll).  Oracle: what
// comes back equals what the running server held when the last operation returned.

import (
	"encoding/json"
	"fmt"
	"regexp"
	"sort"
	"strconv"
	"strings"
	"sync"
	"testing"

	"Havoc/pkg/db"
	"Havoc/pkg/handlers"

	"pgregory.net/rapid"

	"verifharness/internal/core"
	"verifharness/internal/pvx"
	"verifharness/internal/tsx"
)

var sweepOnce sync.Once

// what sqlite's NUMERIC affinity recognises as a number (leading/trailing blanks allowed)
var numericRe = regexp.MustCompile(`^[ \t\n\r\f]*[+-]?([0-9]+\.?[0-9]*([eE][+-]?[0-9]+)?|\.[0-9]+([eE][+-]?[0-9]+)?)[ \t\n\r\f]*$`)

func numericLooking(s string) bool { return numericRe.MatchString(s) }

func idInt(nameID string) int {
	v, _ := strconv.ParseInt(nameID, 16, 64)
	return int(v)
}

func checkA(h History) *core.Violation {
	countCells(h)
	return underFaultSig(h, checkA1(h), checkA1)
}

func checkA1(h History) *core.Violation {
	return onExistingFile(h, runA(h, h.dbMode()), func() *core.Violation { return runA(h, "fresh") })
}

func runA(h History, mode string) *core.Violation {
	sweepOnce.Do(func() { pvx.SweepStale("c10") })
	w, _, err := pvx.NewWorldMode("c10", mode)
	if err != nil {
		panic("harness: " + err.Error())
	}
	defer w.Close()
	r := newRun(w, h)
	defer r.finish()
	var pm *pmodel // histories with restarts at any point: the link structure is followed by the model of piv_test.go
	if hasRestartX(h) {
		pm = newPModel(h.nAgents())
	}
	for i, op := range h.flat() {
		if pm == nil {
			if h.Fault != nil && (op.K == "restart" || op.K == "restartx") && i > h.Fault.At {
				// histories with a fault: every restart after it is compared, not only the final reopen
				// (a restart takes the database's word for everything and would hide what was lost)
				if v := compareRestored(w, r, nil); v != nil {
					v.Msg = fmt.Sprintf("before the restart at operation %d: %s", i, v.Msg)
					return v
				}
			}
			r.step(i, op)
			continue
		}
		isRestart := op.K == "restart" || op.K == "restartx"
		var before []string
		if isRestart {
			before = activeIDs(w)
		}
		done := r.step(i, op)
		if !isRestart {
			pm.step(op, nil)
			continue
		}
		pm.step(op, &done)
		if !done {
			continue
		}
		when := fmt.Sprintf("after the restart at operation %d", i)
		rows, _ := pvx.LinkRows(w.SQL)
		if v := compareStructure(memView(w), before, wantView(h, pm.mem), when, rowsString(rows)); v != nil {
			return v
		}
		if v := oneRowPerChild(rows, when); v != nil {
			return v
		}
	}
	return compareRestored(w, r, pm)
}

// compareRestored opens the file again and compares with the server's memory (pm != nil:
// the link structure is compared with the model of piv_test.go instead).
func compareRestored(w *pvx.World, r *runState, pm *pmodel) *core.Violation {
	want := map[string]AgentImage{}
	for _, a := range w.TS.Agents.Agents {
		if a == nil {
			continue
		}
		if a.Active {
			want[a.NameID] = imageOf(a)
		}
	}
	pairs := memPairs(w)

	d2, err := db.DatabaseNew(tsx.DBPath(w.Dir))
	if err != nil {
		return core.V("reopen|failed", "db.DatabaseNew on the existing file: %v", err)
	}
	defer pvx.CloseDB(d2)

	// ---- agents
	got := map[string]AgentImage{}
	for _, a := range d2.AgentAll() {
		if _, dup := got[a.NameID]; dup {
			return core.V("agents|restored-twice", "agent %s is returned twice by AgentAll", a.NameID)
		}
		got[a.NameID] = imageOf(a)
	}
	for id := range r.exAgents { // fault_test.go: rows a failed statement left behind the memory
		delete(want, id)
		delete(got, id)
	}
	var ids []string
	for id := range want {
		ids = append(ids, id)
	}
	sort.Strings(ids)
	for _, id := range ids {
		if _, ok := got[id]; !ok {
			cl := "id<2^31"
			if idInt(id) >= 1<<31 {
				cl = "id>=2^31"
			}
			return core.V("agents|active-agent-not-restored|"+cl, "agent %s is active and registered but AgentAll does not return it (restored: %v)", id, keys(got))
		}
	}
	for id := range got {
		if _, ok := want[id]; !ok {
			return core.V("agents|inactive-agent-restored", "AgentAll returns %s which is not an active session of the running server (active: %v)", id, ids)
		}
	}
	for _, id := range ids {
		wi, gi := want[id], got[id]
		if wi.Key != gi.Key {
			return core.V("agent|AESKey-differs", "agent %s: key restored as %s, was %s", id, gi.Key, wi.Key)
		}
		if wi.IV != gi.IV {
			return core.V("agent|AESIv-differs", "agent %s: IV restored as %s, was %s", id, gi.IV, wi.IV)
		}
		if wi.Reason != gi.Reason {
			return core.V("agent|Reason-differs", "agent %s: Reason restored as %q, was %q", id, gi.Reason, wi.Reason)
		}
		for _, f := range agentFields {
			if wi.F[f] != gi.F[f] {
				sig := "agent|" + f + "-differs"
				if numericLooking(wi.F[f]) {
					sig += "|numeric-looking-text"
				}
				return core.V(sig, "agent %s: %s restored as %q, was %q", id, f, clipS(gi.F[f]), clipS(wi.F[f]))
			}
		}
	}

	// ---- links, read the way Start() does for every restored agent
	if pm != nil {
		rows, _ := pvx.LinkRows(w.SQL)
		if v := oneRowPerChild(rows, "at the end of the history"); v != nil {
			return v
		}
		// what Start() makes of the rows: a parent / link that is not restored is no session
		gotV := map[string]sessView{}
		for _, id := range ids {
			v := sessView{}
			if pid, err := d2.ParentOf(idInt(id)); err == nil {
				if p := fmt.Sprintf("%08x", pid); got[p].ID != "" {
					v.Parent = p
				}
			}
			for _, k := range d2.LinksOf(idInt(id)) {
				if c := fmt.Sprintf("%08x", k); got[c].ID != "" {
					v.Links = append(v.Links, c)
				}
			}
			sort.Strings(v.Links)
			gotV[id] = v
		}
		if v := compareStructure(gotV, ids, wantView(r.h, pm.afterRestart()), "reopening the file after the last operation", rowsString(rows)); v != nil {
			return v
		}
	}
	for _, id := range ids {
		if pm != nil {
			break
		}
		if r.exLinks[id] {
			continue // fault_test.go: links a failed statement left behind the memory
		}
		wantParent := ""
		var wantKids []string
		for _, p := range pairs {
			if p.C == id {
				if wantParent != "" && wantParent != p.P {
					wantParent = "<several>" // the running server itself is inconsistent: C09's subject
				} else {
					wantParent = p.P
				}
			}
			if p.P == id && !r.exLinks[p.C] {
				wantKids = append(wantKids, p.C)
			}
		}
		if wantParent == "<several>" {
			continue
		}
		pid, err := d2.ParentOf(idInt(id))
		gotParent := ""
		if err == nil {
			gotParent = fmt.Sprintf("%08x", pid)
		}
		if gotParent != wantParent {
			cl := "wrong-parent"
			if wantParent == "" {
				cl = "parent-for-unlinked-agent"
			} else if gotParent == "" {
				cl = "parent-lost"
			}
			return core.V("links|ParentOf|"+cl, "agent %s: ParentOf gives %q after reopening, the running server had %q (TS_Links: %v)", id, gotParent, wantParent, linkDump(w))
		}
		var gotKids []string
		for _, k := range d2.LinksOf(idInt(id)) {
			if c := fmt.Sprintf("%08x", k); !r.exLinks[c] { // (a session set aside is in nobody's list: a later connect may move its stale row)
				gotKids = append(gotKids, c)
			}
		}
		sort.Strings(gotKids)
		sort.Strings(wantKids)
		if strings.Join(gotKids, ",") != strings.Join(wantKids, ",") {
			cl := "different"
			if len(gotKids) > len(wantKids) {
				cl = "extra-link"
			} else if len(gotKids) < len(wantKids) {
				cl = "link-lost"
			}
			return core.V("links|LinksOf|"+cl, "agent %s: LinksOf gives %v after reopening, the running server had %v (TS_Links: %v)", id, gotKids, wantKids, linkDump(w))
		}
	}

	// ---- listeners
	rows := d2.ListenerAll()
	gotL := map[string]map[string]string{}
	for _, row := range rows {
		if _, dup := gotL[row["Name"]]; dup {
			return core.V("listeners|restored-twice", "listener %q is returned twice by ListenerAll", row["Name"])
		}
		gotL[row["Name"]] = row
	}
	for _, l := range r.lmod {
		row, ok := gotL[l.Name]
		if !ok {
			sig := "listeners|not-restored|" + l.Kind
			if kindOf(l) == "https" {
				sig = "listeners|not-restored|https|" + nameClassOf(l.Name)
			}
			return core.V(sig, "listener %q (%s) was added and not removed but ListenerAll does not return it (rows: %v)", clipS(l.Name), kindOf(l), clipS(fmt.Sprint(rows)))
		}
		var cfg map[string]any
		if err := json.Unmarshal([]byte(row["Config"]), &cfg); err != nil {
			return core.V("listener|"+l.Kind+"|config-unreadable", "listener %q: stored configuration is not JSON: %v (%q)", l.Name, err, clipS(row["Config"]))
		}
		cmp := func(field string, want any) *core.Violation {
			if fmt.Sprint(cfg[field]) != fmt.Sprint(want) || cfg[field] == nil {
				return core.V("listener|"+l.Kind+"|"+strings.ReplaceAll(field, " ", "")+"-differs", "listener %q: %s stored as %q, configured %q", l.Name, field, clipS(fmt.Sprint(cfg[field])), clipS(fmt.Sprint(want)))
			}
			return nil
		}
		switch l.Kind {
		case "smb":
			if row["Protocol"] != handlers.AGENT_PIVOT_SMB {
				return core.V("listener|smb|protocol-differs", "listener %q stored with protocol %q", l.Name, row["Protocol"])
			}
			if v := cmp("PipeName", l.Pipe); v != nil {
				return v
			}
		case "ext":
			if row["Protocol"] != handlers.AGENT_EXTERNAL {
				return core.V("listener|ext|protocol-differs", "listener %q stored with protocol %q", l.Name, row["Protocol"])
			}
			if v := cmp("Endpoint", l.Endpoint); v != nil {
				return v
			}
		case "http":
			if row["Protocol"] != handlers.AGENT_HTTP {
				return core.V("listener|http|protocol-differs", "listener %q stored with protocol %q", l.Name, row["Protocol"])
			}
			hs := l.HTTP
			checks := []struct {
				f string
				w any
			}{
				{"Hosts", strings.Join(hs.Hosts, ", ")}, {"HostBind", "127.0.0.1"}, {"HostRotation", hs.Rotation}, {"PortBind", "0"}, {"PortConn", hs.PortConn},
				{"Headers", strings.Join(hs.Headers, ", ")}, {"Uris", strings.Join(hs.Uris, ", ")}, {"HostHeader", hs.HostHeader}, {"UserAgent", hs.UserAgent},
				{"Secure", fmt.Sprint(hs.Secure)}, {"Proxy Enabled", hs.Proxy},
			}
			if hs.Proxy {
				checks = append(checks, []struct {
					f string
					w any
				}{{"Proxy Type", hs.PType}, {"Proxy Host", hs.PHost}, {"Proxy Port", hs.PPort}, {"Proxy Username", hs.PUser}, {"Proxy Password", hs.PPass}}...)
			}
			for _, c := range checks {
				if v := cmp(c.f, c.w); v != nil {
					if o, edited := r.lorig[l.Name]; edited {
						// does the row still hold the value from before the operator's edit?
						before := map[string]any{"Headers": strings.Join(o.Headers, ", "), "Uris": strings.Join(o.Uris, ", "), "UserAgent": o.UserAgent, "Proxy Enabled": o.Proxy,
							"Proxy Type": o.PType, "Proxy Host": o.PHost, "Proxy Port": o.PPort, "Proxy Username": o.PUser, "Proxy Password": o.PPass}
						if b, ok := before[c.f]; ok && fmt.Sprint(cfg[c.f]) == fmt.Sprint(b) {
							return core.V("listener|http|edit-not-persisted", "listener %q was edited by the operator (%s now %q) but the stored row still has the value from before the edit (%q)", l.Name, c.f, clipS(fmt.Sprint(c.w)), clipS(fmt.Sprint(cfg[c.f])))
						}
					}
					return v
				}
			}
		}
		delete(gotL, l.Name)
	}
	for n := range gotL {
		return core.V("listeners|removed-listener-restored", "ListenerAll returns %q which is not a listener of the running server", n)
	}
	return nil
}

func keys(m map[string]AgentImage) []string {
	var k []string
	for x := range m {
		k = append(k, x)
	}
	sort.Strings(k)
	return k
}

func clipS(s string) string {
	if len(s) > 120 {
		return s[:120] + fmt.Sprintf("...[%d bytes]", len(s))
	}
	return s
}

func linkDump(w *pvx.World) string {
	rows, _ := pvx.LinkRows(w.SQL)
	var sb strings.Builder
	for _, r := range rows {
		fmt.Fprintf(&sb, "(%08x,%08x)", r.Parent, r.Child)
	}
	return sb.String()
}

// ---------------------------------------------------------------- generators

var strGens = []*rapid.Generator[string]{
	rapid.StringMatching(`[A-Za-z][A-Za-z0-9\-]{0,14}`),                       // plain
	rapid.StringMatching(`[A-Za-z][A-Za-z0-9\-]{0,14}`),                       // plain (weight)
	rapid.StringMatching(`[1-9][0-9]{0,9}`),                                   // digit-only
	rapid.StringMatching(`0[0-9]{1,6}`),                                       // leading zeros
	rapid.StringMatching(`[1-9][0-9]?[eE][+-]?[0-9]`),                         // exponent-like
	rapid.StringMatching(`0x[0-9a-fA-F]{1,4}`),                                // hex-like
	rapid.StringMatching(`[ \t]{1,2}[0-9]{1,4}|[0-9]{1,4}[ \t\n]{1,2}| [A-Za-z]{1,5} `), // whitespace-padded
	rapid.Just(""),                                                            // empty
	rapid.SampledFrom([]string{"München", "服务器-01", "Ünïcødé", "хост", "ホスト", "😀pc", "é", "a\u00a0b"}),
	rapid.SampledFrom([]string{`a'b`, `"x"`, `it's`, `x'; DROP TABLE TS_Agents;--`, `back\slash`, "tab\there", `%s%d`, `a"b'c`}),
	rapid.SampledFrom([]string{"1.0", "3.140", ".5", "5.", "-0", "+7", "00", "9223372036854775808", "18446744073709551616", "1e400", "-12", "0.1e1", "1_0", "Infinity", "nan", "0e0", "007"}),
	rapid.Custom(func(t *rapid.T) string {
		unit := rapid.SampledFrom([]string{"A", "ab", "0", "ü", "x y"}).Draw(t, "unit")
		return strings.Repeat(unit, rapid.IntRange(300, 3000).Draw(t, "times"))
	}), // very long
}

// genStr: 4 of 5 strings are plain, the rest come from the special classes, so that a
// good share of the histories is free of numeric-looking text (an open finding on it
// would otherwise end almost every case before links and listeners are compared).
func genStr(t *rapid.T, l string) string {
	if rapid.IntRange(0, 4).Draw(t, l+"-special") != 0 {
		return strGens[0].Draw(t, l)
	}
	return rapid.OneOf(strGens...).Draw(t, l)
}

func genU32(t *rapid.T, l string) uint32 {
	return rapid.OneOf(rapid.SampledFrom([]uint32{0, 1, 2, 0x7fffffff, 0x80000000, 0xffffffff}), rapid.Uint32Range(0, 70000), rapid.Uint32()).Draw(t, l)
}

func genMeta(t *rapid.T) Meta {
	m := Meta{
		Host: genStr(t, "host"), User: genStr(t, "user"), Domain: genStr(t, "domain"), IP: genStr(t, "ip"),
		PID: genU32(t, "pid"), TID: genU32(t, "tid"), PPID: genU32(t, "ppid"),
		Arch: rapid.Uint32Range(0, 4).Draw(t, "arch"), Elev: rapid.Uint32Range(0, 2).Draw(t, "elev"),
		Base:   rapid.OneOf(rapid.SampledFrom([]uint64{0, 0x7ff600000000, 0x7fffffffffffffff, 0x8000000000000000, 0xffffffffffffffff}), rapid.Uint64()).Draw(t, "base"),
		OSArch: rapid.SampledFrom([]uint32{0, 9, 5, 12, 6, 77}).Draw(t, "osarch"),
		Sleep:  genU32(t, "sleep"), Jitter: rapid.Uint32Range(0, 100).Draw(t, "jitter"),
		Kill:   rapid.OneOf(rapid.Just(uint64(0)), rapid.Uint64Range(1, 1<<40), rapid.Uint64()).Draw(t, "kill"),
		WH:     genU32(t, "wh"),
	}
	m.OS = [5]uint32{rapid.SampledFrom([]uint32{10, 6, 5, 11}).Draw(t, "osmaj"), rapid.Uint32Range(0, 3).Draw(t, "osmin"), rapid.Uint32Range(0, 3).Draw(t, "osprod"), rapid.Uint32Range(0, 2).Draw(t, "ossp"), rapid.SampledFrom([]uint32{19045, 22000, 7601, 20348, 1}).Draw(t, "osbuild")}
	name := genStr(t, "proc")
	if rapid.Bool().Draw(t, "procpath") {
		m.Proc = `C:\Windows\System32\` + strings.ReplaceAll(name, `\`, "_")
	} else {
		m.Proc = name
	}
	return m
}

func genAgents(t *rapid.T, lo, hi int) []AgentSpec {
	n := rapid.IntRange(lo, hi).Draw(t, "agents")
	seen := map[uint32]bool{0: true}
	var out []AgentSpec
	for len(out) < n {
		id := rapid.OneOf(
			rapid.Uint32Range(1, 0x7fffffff),
			rapid.Uint32Range(0x80000000, 0xffffffff),
			rapid.SampledFrom([]uint32{1, 0x7fffffff, 0x80000000, 0xffffffff, 0x100, 0xdeadbeef}),
			rapid.Uint32Range(1, 300),
		).Draw(t, "id")
		if seen[id] {
			continue
		}
		seen[id] = true
		out = append(out, AgentSpec{ID: id, Seed: rapid.Byte().Draw(t, "seed"), Meta: genMeta(t)})
	}
	return out
}

func genItem(t *rapid.T, l string) string { // one element of a ", "-joined list: non-empty, no ", "
	s := rapid.OneOf(
		rapid.StringMatching(`[a-z]{1,8}\.[a-z]{2,3}`),
		rapid.StringMatching(`/[a-z0-9]{1,8}`),
		rapid.StringMatching(`X-[A-Z][a-z]{1,6}: [a-z0-9]{1,6}`),
		rapid.SampledFrom([]string{"0123", "1e5", "münchen.de", `a"b`, "10.0.0.1"}),
	).Draw(t, l)
	return s
}

// nameFamilies: names that are different strings (the teamserver keeps listeners apart by
// exact name) but equal under a common "equivalence" a lookup might apply by accident:
// ASCII / Unicode case, SQL LIKE or glob wildcards vs the literal character, leading or
// trailing blanks, one name a prefix of the other, Unicode normalisation, SQL quoting.
var nameFamilies = [][]string{
	{"internal", "Internal", "INTERNAL", "internal ", " internal"},
	{"edge-http", "edge_http", "edge%http", "edge?http", "edge*http", "edge http"},
	{"redirector 100 eu", "redirector 100% eu", "redirector 100_ eu", "redirector 100", "redirector 100%"},
	{"smb", "smb2", "smb-2", " smb", "smb ", "SMB"},
	{"caf\u00e9", "cafe\u0301", "CAF\u00c9", "cafe", "Caf\u00e9"},
	{"o'brien", `o"brien`, "o''brien", "o'brien'--", `o\'brien`, "o%brien"},
	{"%", "_", "%%", "a%", "a_", "a", "A", "*", "?"},
	{"Listener-1", "listener-1", "Listener_1", "Listener-10", "Listener-1 ", "Listener-%"},
}

func genCollidingName(t *rapid.T, fam int, l string) string {
	switch rapid.IntRange(0, 9).Draw(t, l+"-src") {
	case 0, 1, 2:
		return rapid.OneOf(rapid.StringMatching(`[A-Za-z][A-Za-z0-9 _\-]{0,10}`), rapid.SampledFrom([]string{"0123", "1e5", " padded ", "ünï", `q"uote`, "7"})).Draw(t, l)
	case 3:
		return rapid.SampledFrom(nameFamilies[rapid.IntRange(0, len(nameFamilies)-1).Draw(t, l+"-fam")]).Draw(t, l)
	}
	return rapid.SampledFrom(nameFamilies[fam%len(nameFamilies)]).Draw(t, l)
}

// genLSpec: fam selects the family of colliding names this history draws most of its
// listener names (and some pipe names / endpoints) from, so that two of them meet.
func genLSpec(t *rapid.T, allowHTTP bool, fam int) *LSpec {
	// KIND x NAME CLASS product (lname_test.go): about a third of the adds
	if rapid.Uint32().Draw(t, "lproduct")%60 < 20 {
		return genProductLSpec(t, allowHTTP, fam)
	}
	kinds := []string{"smb", "smb", "smb", "smb", "smb", "smb", "smb", "smb", "smb", "ext", "ext", "ext", "ext", "ext", "ext", "ext", "ext", "ext", "ext"}
	if allowHTTP {
		kinds = append(kinds, "http")
	}
	l := &LSpec{Kind: rapid.SampledFrom(kinds).Draw(t, "lkind")}
	l.Name = genCollidingName(t, fam, "lname")
	val := func(lbl string) string {
		if rapid.IntRange(0, 2).Draw(t, lbl+"-colliding") == 0 {
			return genCollidingName(t, fam, lbl)
		}
		return genStr(t, lbl)
	}
	switch l.Kind {
	case "smb":
		l.Pipe = val("pipe")
	case "ext":
		l.Endpoint = val("endpoint")
	case "http":
		l.HTTP = genHTTP(t)
	}
	return l
}

// likeMatch: SQL LIKE as sqlite evaluates it by default (ASCII case-insensitive, _ one character, % any run).
func likeMatch(pat, s string) bool {
	p, r := []rune(strings.ToLower(pat)), []rune(strings.ToLower(s))
	var rec func(i, j int) bool
	rec = func(i, j int) bool {
		for i < len(p) {
			switch p[i] {
			case '%':
				for k := j; k <= len(r); k++ {
					if rec(i+1, k) {
						return true
					}
				}
				return false
			case '_':
				if j >= len(r) {
					return false
				}
			default:
				if j >= len(r) || p[i] != r[j] {
					return false
				}
			}
			i++
			j++
		}
		return j == len(r)
	}
	return rec(0, 0)
}

// collKey folds the equivalences of nameFamilies.
func collKey(n string) string {
	n = strings.ReplaceAll(n, "e\u0301", "\u00e9")
	n = strings.ToLower(strings.TrimSpace(n))
	n = strings.Map(func(r rune) rune {
		switch r {
		case '_', '%', '*', '?', '-', ' ':
			return '_'
		case '\'', '"', '\\':
			return -1
		}
		return r
	}, n)
	return n
}

func namesCollide(a, b string) bool {
	if a == b {
		return false
	}
	return collKey(a) == collKey(b) || likeMatch(a, b) || likeMatch(b, a) || strings.HasPrefix(a, b) || strings.HasPrefix(b, a)
}

func genHTTP(t *rapid.T) *HTTPSpec {
	h := &HTTPSpec{
		Hosts:      rapid.SliceOfN(rapid.Custom(func(t *rapid.T) string { return genItem(t, "host") }), 1, 3).Draw(t, "hosts"),
		Rotation:   rapid.SampledFrom([]string{"round-robin", "random"}).Draw(t, "rotation"),
		PortConn:   rapid.SampledFrom([]string{"", "443", "8443", "0080"}).Draw(t, "portconn"),
		Headers:    rapid.SliceOfN(rapid.Custom(func(t *rapid.T) string { return genItem(t, "hdr") }), 0, 3).Draw(t, "headers"),
		Uris:       rapid.SliceOfN(rapid.Custom(func(t *rapid.T) string { return genItem(t, "uri") }), 0, 3).Draw(t, "uris"),
		HostHeader: rapid.SampledFrom([]string{"", "cdn.example.org", "0123"}).Draw(t, "hostheader"),
		UserAgent:  rapid.SampledFrom([]string{"Mozilla/5.0 (Windows NT 10.0)", "", "1e5", "ünï agent"}).Draw(t, "ua"),
		Proxy:      rapid.Bool().Draw(t, "proxy"),
	}
	if h.Proxy {
		h.PType, h.PHost, h.PPort = rapid.SampledFrom([]string{"http", "https"}).Draw(t, "ptype"), genItem(t, "phost"), rapid.SampledFrom([]string{"8080", "3128", "08080"}).Draw(t, "pport")
		h.PUser, h.PPass = genStr(t, "puser"), genStr(t, "ppass")
	}
	return h
}

var opKinds = []string{
	"reg", "reg", "reg",
	"poll", "poll",
	"connect", "connect", "connect", "connect", "connect", "connect",
	"disconnect", "disconnect", "disconnect",
	"checkin", "checkin", "checkin", "checkin",
	"sleep", "sleep", "cfgkill", "cfgwh",
	"exit", "killdate", "markdead", "markdead", "markalive", "markalive",
	"ladd", "ladd", "ladd", "ladd", "ladd", "ladd", "lremove", "lremove", "ledit",
	"restart", "restart",
}

func genOps(t *rapid.T, n, nagents int, allowHTTP bool) []Op {
	var ops []Op
	fam := rapid.IntRange(0, len(nameFamilies)-1).Draw(t, "name-family")
	for i := 0; i < n; i++ {
		op := Op{K: rapid.SampledFrom(opKinds).Draw(t, "kind")}
		fillOp(t, &op, nagents, allowHTTP, fam)
		ops = append(ops, op)
	}
	return ops
}

// fillOp draws the arguments of an operation of kind op.K.
func fillOp(t *rapid.T, op *Op, nagents int, allowHTTP bool, fam int) {
	switch op.K {
	case "ladd":
		op.L = genLSpec(t, allowHTTP, fam)
	case "ledit":
		if !allowHTTP {
			op.K = "poll"
			op.A = rapid.IntRange(0, nagents-1).Draw(t, "agent")
			break
		}
		op.L = &LSpec{Kind: "http", HTTP: genHTTP(t)}
	case "lremove":
		op.A = rapid.IntRange(0, 5).Draw(t, "lidx")
	case "restart":
	default:
		op.A = rapid.IntRange(0, nagents-1).Draw(t, "agent")
	}
	switch op.K {
	case "connect", "disconnect":
		op.B = rapid.IntRange(0, nagents-1).Draw(t, "named")
	case "checkin":
		m := genMeta(t)
		op.M = &m
		op.S = rapid.Byte().Draw(t, "newseed")
	case "sleep":
		op.V = uint64(genU32(t, "delay"))
		op.W = rapid.Uint32Range(0, 100).Draw(t, "jitter")
	case "cfgkill":
		op.V = rapid.OneOf(rapid.Just(uint64(0)), rapid.Uint64()).Draw(t, "killdate")
	case "cfgwh":
		op.V = uint64(genU32(t, "wh"))
	}
}

func genA(t *rapid.T) History {
	var h History
	if uniformBits(t, 8, "scale-bit") == 0 {
		return genScaleHistory(t, "a") // scale_test.go: 1 history in 256 (one such history costs about a hundred ordinary ones)
	}
	if rapid.IntRange(0, 3).Draw(t, "pivot-trees") == 0 {
		return genPivotHistory(t, 6, 14) // piv_test.go
	}
	h.Agents = genAgents(t, 1, 5)
	h.DB = rapid.SampledFrom([]string{"fresh", "existed", "golden"}).Draw(t, "db")
	// a few registrations first so that the rest of the history has somebody to act on
	nreg := rapid.IntRange(1, len(h.Agents)).Draw(t, "nreg")
	for i := 0; i < nreg; i++ {
		h.Ops = append(h.Ops, Op{K: "reg", A: i})
	}
	n := rapid.IntRange(0, 25).Draw(t, "nops")
	h.Ops = append(h.Ops, genOps(t, n, len(h.Agents), true)...)
	h.Ops = withCrafted(t, h.Ops, nreg)
	return withFault(t, h, nreg, true) // fault_test.go
}

// ---------------------------------------------------------------- classification (model of which events take effect)

type hsum struct {
	death, linkAdd, linkDel, numeric, hiID, reparent bool
	numClass                                         string
	lkinds                                           map[string]bool
	ledit, lremove, checkin, markalive, lcollide      bool
	tags                                             map[string]bool
	cells                                            map[string]bool // listener kind x name class cells and what comes with them (lname_test.go)
	craftedLast                                      bool
	restarts                                         int
	opsAfterRestart, reregUnrestored, reregRestored, newAfterRestart bool
	effective                                        int
}

func numClassOf(s string) string {
	t := strings.TrimSpace(s)
	switch {
	case t != s:
		return "padded"
	case strings.ContainsAny(s, "eE"):
		return "exponent"
	case strings.ContainsAny(s, "."):
		return "decimal"
	case len(s) > 1 && (s[0] == '0' || (len(s) > 2 && (s[0] == '+' || s[0] == '-') && s[1] == '0')):
		return "leading-zero"
	case s[0] == '+' || s[0] == '-':
		return "signed"
	case len(s) > 18:
		return "huge"
	}
	return "digits"
}

func summarizeH(h History) hsum {
	s := hsum{lkinds: map[string]bool{}, tags: map[string]bool{}, cells: map[string]bool{}}
	if n := len(h.Ops); n > 0 && h.Ops[n-1].T != "" && !strings.HasPrefix(h.Ops[n-1].T, "bulk") {
		s.craftedLast = true
	}
	known := map[int]bool{}
	parent := map[int]int{}
	active := map[int]bool{}     // as stored: what a restart would bring back
	unrestored := map[int]bool{} // registered once, inactive at a restart, therefore unknown to the restarted server
	everKnown := map[int]bool{}
	note := func(m Meta) {
		name := m.Proc
		if i := strings.LastIndex(name, `\`); i >= 0 {
			name = name[i+1:]
		}
		for _, v := range []string{m.Host, m.User, m.Domain, m.IP, name} {
			if numericLooking(v) {
				s.numeric = true
				c := numClassOf(v)
				if s.numClass == "" || c < s.numClass {
					s.numClass = c
				}
			}
		}
	}
	var lnames []string
	var lk []string
	var lsec []bool
	for _, op := range h.flat() {
		switch op.K {
		case "ladd":
			if op.L == nil {
				continue
			}
			dup := false
			for _, n := range lnames {
				if n == op.L.Name {
					dup = true
				}
			}
			if !dup {
				for _, n := range lnames {
					if namesCollide(n, op.L.Name) {
						s.lcollide = true // two listeners present at the same time whose names meet under an equivalence
					}
				}
				for i, n := range lnames {
					if n != op.L.Name && sanitised(n) == sanitised(op.L.Name) {
						s.cells["listener-names-sanitise-to-the-same-string"] = true
						if lsec[i] && kindOf(*op.L) == "https" {
							s.cells["two-https-listeners-share-a-certificate-directory"] = true
						}
					}
				}
				if op.L.NC != "" {
					// the evidence keeps the 60 most frequent labels only: the full kind x class matrix is
					// counted into extra.listener_kind_x_name_class (countCells); labels for the HTTPS cells
					s.cells["listener-kind-x-name-class-product"] = true
					if kindOf(*op.L) == "https" {
						s.cells["lcell:https x "+op.L.NC] = true
					}
				}
				if kindOf(*op.L) == "https" {
					s.cells["listener:https"] = true
				}
				lnames = append(lnames, op.L.Name)
				lk = append(lk, op.L.Kind)
				lsec = append(lsec, kindOf(*op.L) == "https")
				s.lkinds[op.L.Kind] = true
				s.effective++
			}
			continue
		case "lremove":
			if len(lnames) > 0 && lk[op.A%len(lnames)] != "http" {
				i := op.A % len(lnames)
				lnames = append(lnames[:i], lnames[i+1:]...)
				lk = append(lk[:i], lk[i+1:]...)
				lsec = append(lsec[:i], lsec[i+1:]...)
				s.lremove = true
				s.effective++
			}
			continue
		case "ledit":
			for _, k := range lk {
				if k == "http" {
					s.ledit = true
				}
			}
			continue
		case "restart", "restartx":
			ok := true
			for c, p := range parent {
				if !active[c] || !active[p] {
					ok = false
				}
			}
			if !ok && op.K == "restart" {
				continue
			}
			s.restarts++
			for a := range known {
				if !active[a] {
					delete(known, a)
					delete(parent, a)
					unrestored[a] = true
				}
			}
			continue
		}
		if s.restarts > 0 {
			s.opsAfterRestart = true
		}
		if op.A < 0 || op.A >= h.nAgents() {
			continue
		}
		if op.K == "reg" {
			if !known[op.A] {
				known[op.A] = true
				active[op.A] = true
				if unrestored[op.A] {
					s.reregUnrestored = true
					delete(unrestored, op.A)
				} else if s.restarts > 0 && !everKnown[op.A] {
					s.newAfterRestart = true
				}
				everKnown[op.A] = true
				note(h.spec(op.A).Meta)
				if h.spec(op.A).ID >= 1<<31 {
					s.hiID = true
				}
				s.effective++
			}
			continue
		}
		if !known[op.A] {
			continue
		}
		s.effective++
		if op.T != "" {
			s.tags[strings.TrimSuffix(op.T, "/noop")] = true
			if strings.HasSuffix(op.T, "/noop") {
				s.tags["noop-update"] = true
			}
		}
		switch op.K {
		case "connect":
			if op.B < 0 || op.B >= h.nAgents() || op.B == op.A {
				continue
			}
			anc := false
			for cur, ok := op.A, true; ok; cur, ok = parent[cur] {
				if cur == op.B {
					anc = true
					break
				}
			}
			if anc {
				continue
			}
			active[op.B] = true
			if !known[op.B] {
				known[op.B] = true
				if unrestored[op.B] {
					s.reregUnrestored = true
					delete(unrestored, op.B)
				} else if s.restarts > 0 && !everKnown[op.B] {
					s.newAfterRestart = true
				}
				everKnown[op.B] = true
				note(h.spec(op.B).Meta)
				if h.spec(op.B).ID >= 1<<31 {
					s.hiID = true
				}
			} else if p, ok := parent[op.B]; ok && p != op.A {
				s.reparent = true
			}
			parent[op.B] = op.A
			s.linkAdd = true
		case "disconnect":
			if op.B >= 0 && op.B < h.nAgents() && known[op.B] {
				active[op.B] = false // LinkRemove marks the named session "Disconnected"
			}
			if p, ok := parent[op.B]; ok && p == op.A {
				delete(parent, op.B)
				s.linkDel = true
			}
		case "checkin":
			if op.M != nil {
				note(*op.M)
				s.checkin = true
				active[op.A] = true // the check-in handler sets Active
			}
		case "exit", "killdate", "markdead":
			s.death = true
			if _, ok := parent[op.A]; ok {
				s.linkDel = true
			}
			delete(parent, op.A)
			active[op.A] = false
			for c, p := range parent {
				if p == op.A {
					delete(parent, c)
					active[c] = false
					s.linkDel = true
				}
			}
		case "markalive":
			s.markalive = true
			active[op.A] = true
		}
	}
	return s
}

func classifyH(h History) core.Class {
	s := summarizeH(h)
	var cl core.Class
	add := func(b bool, l string) {
		if b {
			cl.Labels = append(cl.Labels, l)
		}
	}
	add(s.death, "death")
	add(s.linkAdd, "link-added")
	add(s.linkDel, "link-removed")
	add(s.reparent, "re-parented")
	add(s.numeric, "numeric-looking-text")
	add(s.numeric, "numeric:"+s.numClass)
	add(s.hiID, "id>=2^31")
	add(s.checkin, "checkin")
	add(s.markalive, "markalive")
	add(s.ledit, "listener-edit")
	add(s.lremove, "listener-removed")
	add(s.lcollide, "listener-names-colliding")
	add(s.restarts > 0, "restart-in-the-middle")
	add(s.restarts > 1, "restarts:2+")
	add(s.opsAfterRestart, "operations-after-restart")
	add(s.reregUnrestored, "re-registration-of-unrestored-inactive-id")
	add(s.newAfterRestart, "new-id-registered-after-restart")
	for tg := range s.tags {
		cl.Labels = append(cl.Labels, "upd:"+tg)
	}
	for c := range s.cells {
		cl.Labels = append(cl.Labels, c)
	}
	add(s.craftedLast && len(s.tags) > 0, "upd:reopen-right-after")
	add(true, "db:"+h.dbMode())
	pivL, pivBucket := pivotLabels(h) // piv_test.go: histories with restarts at any point
	cl.Labels = append(cl.Labels, pivL...)
	scaleL := scaleLabels(h) // scale_test.go
	cl.Labels = append(cl.Labels, scaleL...)
	cl.Labels = append(cl.Labels, faultLabels(h)...) // fault_test.go
	var lk []string
	for k := range s.lkinds {
		lk = append(lk, k)
		cl.Labels = append(cl.Labels, "listener:"+k)
	}
	sort.Strings(lk)
	for _, a := range h.Agents {
		for _, v := range []string{a.Meta.Host, a.Meta.User, a.Meta.Domain, a.Meta.IP} {
			switch {
			case v == "":
				add(true, "text:empty")
			case len(v) > 250:
				add(true, "text:long")
			case strings.HasPrefix(v, "0x"):
				add(true, "text:hex-like")
			case strings.ContainsAny(v, `'"`):
				add(true, "text:quotes")
			default:
				for _, r := range v {
					if r > 127 {
						add(true, "text:non-ascii")
						break
					}
				}
			}
		}
	}
	cl.Labels = dedup(cl.Labels)
	cl.NonTrivial = s.death || s.linkAdd || s.linkDel || s.numeric
	link := "none"
	if s.linkAdd {
		link = "add"
	}
	if s.linkDel {
		link = "add+remove"
	}
	num := "none"
	switch s.numClass {
	case "":
	case "leading-zero", "padded":
		num = "rewritten-as-int"
	case "exponent", "decimal", "huge":
		num = "rewritten-as-real"
	default:
		num = "digits"
	}
	lst := "none"
	if len(lk) > 0 {
		lst = "smb/ext"
	}
	if s.lkinds["http"] {
		lst = "http"
		if s.ledit {
			lst = "http-edited"
		}
	}
	rs := "none"
	if s.restarts > 0 {
		rs = "restart"
	}
	if s.reregUnrestored {
		rs = "restart+rereg"
	}
	cl.Fingerprint = fmt.Sprintf("death=%v|link=%s|num=%s|listeners=%s|collide=%v|restart=%s", s.death, link, num, lst, s.lcollide, rs)
	if pivBucket != "" {
		cl.Fingerprint += "|any-point-restart=" + pivBucket
	}
	if len(scaleL) > 0 {
		cl.Fingerprint += "|" + scaleL[0]
	}
	if h.Fault != nil {
		cl.Fingerprint += "|fault"
	}
	return cl
}

func dedup(in []string) []string {
	seen := map[string]bool{}
	var out []string
	for _, x := range in {
		if !seen[x] {
			seen[x] = true
			out = append(out, x)
		}
	}
	return out
}

func TestC10a(t *testing.T) {
	core.Run(t, core.Spec[History]{
		Property: "C10", Sub: "a",
		Rule: "histories of 1-5 registrations followed by 0-25 operations over 1-5 agents (database file, a third each: fresh / created by the current code and opened again / a copy of the committed testdata/golden-schema.db made by the unchanged tree - labels db:fresh|existed|golden; a violation on the golden file only, while its schema differs from a fresh one, is reported as schema|existing-database-differs-from-fresh|<tables>; ids over the whole 32-bit range incl. >= 2^31; metadata strings from {plain, digit-only, leading zeros, exponent-like, hex-like, whitespace-padded, empty, non-ASCII, quotes/SQL, decimal/signed/huge numbers, 300-9000 bytes}): reg, poll, pivot connect/disconnect, COMMAND_CHECKIN with new metadata and key, sleep / kill-date / working-hours callbacks, exit, kill-date, operator mark dead/alive, listener add (SMB, External; HTTP on an ephemeral port at ~1/20 of adds; names, and a third of the pipe names / endpoints, mostly from one per-history family of strings that differ but collide under ASCII/Unicode case, LIKE/glob wildcards vs literal characters, leading/trailing blanks, prefixes, Unicode normalisation or SQL quoting - label listener-names-colliding = two such listeners coexist) / remove / HTTP edit through the operator's DispatchEvent path; about half of the histories also contain one family of crafted updates of one agent (labels upd:*), mostly as the last operations so that the reopen follows at once: BOUNDARY SHIFT - two consecutive updates (key-preserving check-ins, or sleep callbacks) whose rows differ only by characters/digits moved across the boundary of two columns adjacent in the write order of db.AgentUpdate or in agent.AgentInfo (e.g. Username|DomainName bob|'' -> ''|bob, SleepDelay|SleepJitter 1|20 -> 12|0, ProcessName|BaseAddress svc1|23 -> svc|123), everything else incl. LastCallIn byte-identical; SWAP of two same-typed columns; NO-OP update(s) followed by a real one; REVERT A->B->A; each optionally interleaved with repeated identical updates; RESTART operations in the middle (a new Teamserver on the same file restores sessions, links and listeners as Start() does - in (a)/(b) a transcription of its restore loops, in (c) the real Start() in a new process - then the history goes on with registrations of new ids, of restored ids and of ids that were NOT restored because they were inactive, updates, deaths, marks, link and listener changes; several restarts allowed; only performed while every stored link joins two active sessions; labels restart-in-the-middle, restarts:2+, operations-after-restart, re-registration-of-unrestored-inactive-id, new-id-registered-after-restart); then a fresh db.DatabaseNew on the same file read with AgentAll/ParentOf/LinksOf/ListenerAll. Oracle: restored agents == active sessions of the running server, 25 columns equal byte for byte incl. key and IV; ParentOf/LinksOf == the server's Links lists; listener rows == listeners present with every operator-configured field equal. Non-trivial: a death, a link change or a numeric-looking string before the reopen; distinct = (death, link none/add/add+remove, numeric class bucket, listeners none/smb-ext/http/http-edited, colliding names, none/restart/restart+re-registration) ADDED - PIVOT TREES UNDER RESTARTS AT ANY POINT (a quarter of the histories, piv_test.go; label pivot-trees-with-restarts-at-any-point): 3-6 agents, a forest of depth up to 3 built through the real connect path (1-2 registered roots, every other session through the SMB-connect callback of its parent, some registered top-level first and then linked), then 3-14 events aimed by a model of the history at sessions for which they mean something: disconnect of an existing UPPER link (the child has links of its own) or LOWER link, a disconnect reported by a non-parent, death (exit / kill-date / mark dead) of any session, mark alive (preferably of an inactive session), check-in, poll, sleep, registration of an id that has no session in memory (not restored by the last restart), connect of ANY agent below any active session - preferably of a session whose STORED parent has no session in memory since the last restart, and of ids that are not in memory themselves -, listener add/remove, the old conditional restart, and 'restartx' = a restart at ANY point (several per history), i.e. also while a stored link names a session that is stored inactive (the start then restores the child without its parent and leaves the row). Labels: disconnect-of-upper-link, disconnect-of-lower-link, disconnect-reported-by-non-parent, restart-after-upper-link-disconnect, restart-leaves-child-of-unrestored-parent-as-root, reconnect-of-agent-whose-stored-parent-is-not-in-memory (reconnect-path:session-in-memory,stored-parent-not / connect-as-new:stored-parent-not-in-memory), restart-after-reconnect-of-agent-whose-stored-parent-was-not-in-memory, re-parented-after-restart, registration-of-unrestored-id, registration-of-unrestored-parent-with-stored-children, unrestored-id-registers-through-a-pivot, mark-alive-of-inactive-session, death-after-restart, connect-reported-by-inactive-session, restarts-at-any-point:2+, pivot-depth:n. Oracle for these histories (agents, 25 columns, key/IV and listeners as before): after EVERY restart the restored sessions == the sessions active before it, and the parent and the Links of every restored session == the pairs given by the link events of the history (connect(A,B) makes A the one stored parent of B; a disconnect reported by the parent or a death of either end while the server holds the link removes it; a session whose parent is not restored comes back as a root and gets its parent back when the parent is active again at a later start - what the unchanged tree does, followed operation by operation by pmodel, validated against it by TestC10PivModel); TS_Links never holds two rows for one child (signature links|two-rows-for-one-child); the final reopen is compared with the same model (signatures any-point-restart|...). The fingerprint of these histories gets a suffix any-point-restart=<plain | orphan+restart | upper-cut+restart | dangling-reconnect | dangling-reconnect+restart>[+parent-back] ADDED - LISTENER KIND x NAME CLASS PRODUCT (about a third of the listener adds, lname_test.go; label listener-kind-x-name-class-product): kind from {smb, ext, http, https = HTTP with Secure=true, for which HTTP.Start() generates an RSA certificate and writes it below <loot>/listener/<name without [^a-zA-Z0-9]>/ BEFORE it announces and stores the listener; HTTPS 3/32 and plain HTTP 2/32 of these adds} drawn independently of the name class from {ascii; sql = the collision families above; no-alnum = no ASCII letter or digit at all: CJK / Cyrillic / Greek / Arabic, punctuation only, blanks only, emoji, mixed; sanitise = names of one per-history base that become the SAME string once everything but [a-zA-Z0-9] is removed (a-b, a_b, a b, ab, a/b, a.b; label listener-names-sanitise-to-the-same-string when two such listeners coexist, two-https-listeners-share-a-certificate-directory); long = 100-400 characters, the sanitised rest <= 255 or > 255 bytes; path = ../x, a/b, .., ., /abs, x\\y, ~/x, x/, //x}; both drawn so that every cell is about equally likely (rapid prefers range ends). Labels lcell:https x <class>, listener:https; because the evidence keeps the 60 most frequent labels only, the whole matrix is counted into extra.listener_kind_x_name_class@<shard> (one key per shard, to be summed; each https x class cell >= 20 per quick run). Oracle unchanged: every listener the server holds after the add (t.Listeners) has its row with every operator-configured field incl. Secure, nothing else has; a missing HTTPS listener is reported as listeners|not-restored|https|<name-sanitises-to>255-bytes | name-without-ascii-letter-or-digit | long-name | name-with-path-separators | other-name> ADDED - SCALE (1 history in 256, scale_test.go; labels scale, scale:<what>:<bucket> with what in {sessions-restored, links-restored, inactive-sessions-stored, listeners, restarts, value-bytes} and buckets 64-129 / 255-513 / 999-1025 / 2047-4097 / 8191+): 2-3 listed agents plus a BULK of derived agents (ids BulkBase+j with BulkBase in {0x400, 0x100000, 0x7ffffe00 = across 2^31, 0xfff00000}); bulk operations (bulkreg, bulktree star / chains of 2-16 / random parents, bulkmark markdead|exit|markalive, bulkladd smb|ext|mixed, bulkrestart) are expanded by History.flat() into the ordinary operations, so every one of them takes the same real path as in the small histories (DEMON_INIT through handlers.(*External).Request, SMB-connect callbacks of the parents, operator packages); the count is drawn from the threshold-adjacent pool {63,64,65,127,128,129,255,256,257,511,512,513,999,1000,1001,1023,1024,1025,2047,2048,2049,4095,4096,4097} cut at what one case can afford (quick: 1025 sessions / 1025 listeners / 129 restarts / 8193 bytes of one stored host name; thorough: 4097 sessions and listeners), half of the draws from the six largest affordable values, half from the whole pool; combinations {sessions with links (half of the cases), sessions, sessions + a pool-sized number of INACTIVE sessions (the first or the last registered ones marked dead / exited), listeners, sessions + listeners, restarts}; the bulk brings the number of ACTIVE sessions to the pool value exactly (optionally in two parts with ordinary operations in the middle); ordinary operations of the existing generator (on the listed agents and on random bulk agents) run before, in the middle of and after the bulk; a restart at any point follows the bulk, then 1-4 ordinary operations, then (half of the cases) another restart. Oracle unchanged (agents and all 25 columns, key/IV, links by the model of the link events after every restart and at the end, one row per child, listeners) ADDED - FAULT INJECTION (a third of the ordinary histories = a quarter of all, fault_test.go; labels fault, fault:<dependency>:<operation>:<how>@<operation kind>, operations-after-fault, restart-operation-after-fault, fault-at-last-operation; every class >= 20 times per quick run except the 5 s one, counted per shard in extra.fault_classes@<shard>): ONE operation of the history runs while the database - the dependency of the persistence path - fails, then the fault is lifted and the history continues with ordinary operations, restarts and the final reopen. Injected from outside through the real dependency: (1) trigger - the fixture's second connection installs CREATE TRIGGER verif_fault BEFORE <INSERT|UPDATE|DELETE> ON <TS_Listeners|TS_Agents|TS_Links> BEGIN SELECT RAISE(FAIL, 'database or disk is full'); END for the operation and drops it afterwards; the operation is one that reaches such a statement (INSERT TS_Listeners @ladd/ledit, DELETE TS_Listeners @lremove/ledit, INSERT TS_Agents @reg/connect, UPDATE TS_Agents @poll/checkin/sleep/cfgkill/exit/markdead/markalive/disconnect/connect, INSERT TS_Links @connect, DELETE TS_Links @disconnect/exit/markdead/re-parenting connect; UPDATE TS_Listeners, UPDATE TS_Links, DELETE TS_Agents are issued by no operation and must change nothing), either an operation the history already has or one inserted at a drawn position together with what makes it effective (a listener to remove, a HTTP listener to edit, a link to disconnect, a new agent to register); (2) readonly - the data directory gets mode 0555 and the OS thread the operation runs on loses CAP_DAC_OVERRIDE / CAP_DAC_READ_SEARCH for its duration, so sqlite cannot create its rollback journal and every write statement fails (@reg/connect/disconnect/markdead/checkin/ladd/lremove); (3) lock-released - a second connection holds BEGIN IMMEDIATE when the operation starts and rolls back 20 ms later, inside the 5 s busy timeout the teamserver's connection has: the operation must succeed completely; (4) lock-held - the lock is held across the whole operation, its single write statement fails with 'database is locked' after 5 s (@lremove/reg/ladd; about 1 faulted history in 512 because of the wait). ORACLE UNCHANGED, evaluated before every restart that follows the fault and at the final reopen: restored == what the running server holds and has told the operators. A listener removal counts as acknowledged only when the server no longer has a listener of that name (the condition under which dispatch.go announces the removal; the unchanged tree keeps the listener when it cannot delete the row) as an add counts only when it has one (the unchanged tree takes the listener back when it cannot store the row): a listener the operator saw removed must not be restored (listeners|removed-listener-restored), one he saw added must be. What the unchanged tree does when a statement of a session's callback fails is followed as it is: cmd/server AgentUpdate / LinkAdd / LinkRemove log the error and the session goes on as the agent reported it, the row (written whole by the next successful AgentUpdate) or the link stays behind; sessions that HAVE a row which differs from the memory right after the operation under the fault, and both ends of links stored-but-not-held or held-but-not-stored at that moment, are set aside (extra.fault_left_stored_sessions_or_links_behind_memory) - everything else (all other sessions, links and every listener) is compared as always; a conditional restart is then not performed while a stored link names a session set aside. A violation of a history with a fault that does not show without the fault is reported as fault|<dependency>:<operation>:<how>|<class of the difference>",
		Gen:   genA, Check: checkA, Classify: classifyH,
		Assumptions: []string{
			"reference for 'what had happened' is the state the running server holds in memory when the last operation returned; callbacks are delivered through agent.TaskDispatch, registrations and polls through handlers.(*External).Request",
			"self/ancestor pivot connects are not generated here (C09); removing an HTTP listener is not exercised (HTTP.Stop always sleeps 5 s)",
			"histories with restarts at any point: a connect naming a session that is an ancestor of the sender by the STORED rows (possible once a stored parent came back by registration without its link) is not delivered either - on the unchanged tree it stores a cycle that the next start turns into a cyclic Parent chain (C09's subject; shown by TestC10PivCycle)",
			"for histories with restarts at any point the reference for the parent/child pairs is the sequence of link events (model pmodel in piv_test.go), not the server's Links lists: after such a restart the lists lack the links whose parent was not restored while their rows are still stored",
			"HTTPS listeners: certificates generated by the server only (the operator's Listener/Add package has no Cert/Key field; paths given in the profile are not stored); where the certificate files go is not part of the oracle (looked at with TestC10CertFiles: always inside <loot>/listener, in its root for names without ASCII letter or digit, shared by names that sanitise to the same string)",
			"(a) and (b) restart through pvx.(*World).Reopen, a transcription of the restore loops of (*Teamserver).Start() (AgentAll -> AgentAdd, ParentOf / LinksOf per agent, ListenerAll -> ListenerStart): a change inside Start() itself - e.g. another way of reading the links - is visible to (c) only, which runs the real Start() in a child process",
			"scale histories: counts are cut at what one case can afford (see Rule); the teamserver's own per-operation cost grows with the number of sessions (table scans without index, linear searches), about 2 s for 1025 registrations and 10-30 s for 4097",
			"list-valued listener fields contain no empty element and no ', ' (the operator dialog joins and the server splits on ', ')",
			"database on tmpfs when available; reopening happens in the same process after closing nothing (the server's handle stays open, as after a crash the file is all there is)",
			"fault injection: one fault per history, one operation long; the database is the only dependency of the persistence path (the certificate files of HTTPS listeners are not C10's subject); 'disk full' is a trigger raising that message (RAISE(FAIL)), not a full file system; the read-only directory is enforced by dropping CAP_DAC_OVERRIDE on the locked thread of the operation (cgo calls run on the calling thread), where that is not possible the case runs without fault (extra.fault_readonly_not_available)",
			"fault injection: the unchanged tree logs a failed AgentUpdate / LinkAdd / LinkRemove and goes on (the agent HAS slept, died, disconnected); the sessions and links this leaves behind in the database are set aside, not reported - what IS reported on the unchanged tree is listed in known.d/C10.jsonl (a registration acknowledged although its INSERT failed; an operator's listener edit whose DELETE or INSERT failed)",
		},
	})
}

package c10

// Crafted metadata updates aimed at shortcuts in the persistence path (change detection,
// digests, diffs, memos): the rows written by two consecutive updates of one agent differ
// in a way such a shortcut is likely to overlook.
//
// Column order of db.AgentUpdate / db.AgentAdd (pkg/db/agents.go):
//   Active Reason AESKey AESIv Hostname Username DomainName ExternalIP InternalIP ProcessName
//   BaseAddress ProcessPID ProcessTID ProcessPPID ProcessArch Elevated OSVersion OSArch
//   SleepDelay SleepJitter KillDate WorkingHours FirstCallIn LastCallIn
// (agent.AgentInfo declares the same fields in a different order; the pairs below are
// adjacent in one of the two orders and settable together by one callback.)
// The updates are COMMAND_CHECKIN callbacks that keep the key (op.KK) or COMMAND_SLEEP
// callbacks: neither touches LastCallIn, so everything but the crafted columns is
// byte-identical between the two rows.

import (
	"strconv"
	"strings"

	"pgregory.net/rapid"
)

var boundaries = []string{
	"Hostname|Username", "Username|DomainName", "DomainName|InternalIP", "InternalIP|ProcessName", "ProcessName|BaseAddress",
	"BaseAddress|ProcessPID", "ProcessPID|ProcessTID", "ProcessTID|ProcessPPID", "SleepDelay|SleepJitter", "SleepJitter|KillDate", "KillDate|WorkingHours",
	"Hostname|DomainName", "ProcessPID|ProcessPPID", // adjacent in agent.AgentInfo's field order
}

func atou(s string) uint64 { v, _ := strconv.ParseUint(s, 10, 64); return v }

// setPair writes the two sides of a boundary into m.
func setPair(m *Meta, b, left, right string) {
	f := strings.Split(b, "|")
	for i, side := range []string{left, right} {
		switch f[i] {
		case "Hostname":
			m.Host = side
		case "Username":
			m.User = side
		case "DomainName":
			m.Domain = side
		case "InternalIP":
			m.IP = side
		case "ProcessName":
			m.Proc = side // no path separator: the recorded name is the whole string
		case "BaseAddress":
			m.Base = atou(side)
		case "ProcessPID":
			m.PID = uint32(atou(side))
		case "ProcessTID":
			m.TID = uint32(atou(side))
		case "ProcessPPID":
			m.PPID = uint32(atou(side))
		case "SleepDelay":
			m.Sleep = uint32(atou(side))
		case "SleepJitter":
			m.Jitter = uint32(atou(side))
		case "KillDate":
			m.Kill = atou(side)
		case "WorkingHours":
			m.WH = uint32(atou(side))
		}
	}
}

func isText(col string) bool {
	switch col {
	case "Hostname", "Username", "DomainName", "InternalIP", "ProcessName":
		return true
	}
	return false
}

// genShift returns the boundary and two (left,right) splits of the same concatenated text.
func genShift(t *rapid.T) (b string, l1, r1, l2, r2 string) {
	b = rapid.SampledFrom(boundaries).Draw(t, "boundary")
	f := strings.Split(b, "|")
	letters := rapid.StringMatching(`[A-Za-z]{2,6}`)
	digits := rapid.StringMatching(`[1-9]{3,7}`)
	var text string
	lo, hi := 0, 0
	switch {
	case isText(f[0]) && isText(f[1]):
		text = letters.Draw(t, "text") + rapid.SampledFrom([]string{"", "1", "-a", "bob"}).Draw(t, "tail")
		lo, hi = 0, len(text) // either side may become empty
	case isText(f[0]): // text | number: letters then digits, the number keeps at least one digit
		pre := letters.Draw(t, "text")
		d := digits.Draw(t, "digits")
		text = pre + d
		lo, hi = len(pre), len(text)-1
	default: // number | number
		text = digits.Draw(t, "digits")
		lo, hi = 1, len(text)-1
	}
	i := rapid.IntRange(lo, hi).Draw(t, "split1")
	j := rapid.IntRange(lo, hi-1).Draw(t, "split2")
	if j >= i {
		j++
	}
	return b, text[:i], text[i:], text[:j], text[j:]
}

func plainMeta(t *rapid.T) Meta {
	m := genMeta(t)
	// a quiet base row: plain text everywhere, so that only the crafted columns matter
	m.Host, m.User, m.Domain, m.IP, m.Proc = "WS1", "admin", "corp", "10.0.0.5", "svchost.exe"
	return m
}

// genCrafted returns the operations of one crafted update family for agent a.
func genCrafted(t *rapid.T, a int) []Op {
	ck := func(m Meta, tag string) Op { mm := m; return Op{K: "checkin", A: a, M: &mm, KK: true, T: tag} }
	var ops []Op
	noops := func(m Meta, tag string) {
		for n := rapid.IntRange(0, 2).Draw(t, "noops"); n > 0; n-- {
			ops = append(ops, ck(m, tag+"/noop"))
		}
	}
	base := plainMeta(t)
	switch rapid.SampledFrom([]string{"shift", "shift", "shift", "shift-sleep", "swap", "noop-then-real", "revert", "rereg", "rereg"}).Draw(t, "crafted") {
	case "rereg": // become inactive, restart (the session is not restored), register again under the same id
		how := rapid.SampledFrom([]string{"markdead", "markdead", "exit", "killdate"}).Draw(t, "inactive-by")
		ops = append(ops, Op{K: how, A: a, T: "rereg"}, Op{K: "restart", T: "rereg"}, Op{K: "reg", A: a, T: "rereg"})
		if rapid.Bool().Draw(t, "then-restart-again") {
			ops = append(ops, Op{K: "restart", T: "rereg"})
		}
	case "shift":
		b, l1, r1, l2, r2 := genShift(t)
		m1, m2 := base, base
		setPair(&m1, b, l1, r1)
		setPair(&m2, b, l2, r2)
		tag := "shift:" + b
		ops = append(ops, ck(m1, tag))
		noops(m1, tag)
		ops = append(ops, ck(m2, tag))
		noops(m2, tag)
	case "shift-sleep": // the same through the COMMAND_SLEEP callback (two columns, one update)
		d := rapid.StringMatching(`[1-9]{2,6}`).Draw(t, "digits") + rapid.SampledFrom([]string{"0", "5", ""}).Draw(t, "last")
		if len(d) < 3 {
			d += "0" // e.g. 1|20 -> 12|0
		}
		i := rapid.IntRange(1, len(d)-1).Draw(t, "split1")
		j := rapid.IntRange(1, len(d)-2).Draw(t, "split2")
		if j >= i {
			j++
		}
		if len(d[i:]) > 1 && d[i] == '0' || len(d[j:]) > 1 && d[j] == '0' {
			i, j = 1, len(d)-1
		}
		tag := "shift:SleepDelay|SleepJitter(sleep)"
		ops = append(ops, Op{K: "sleep", A: a, V: atou(d[:i]), W: uint32(atou(d[i:])), T: tag})
		if rapid.Bool().Draw(t, "noop") {
			ops = append(ops, Op{K: "sleep", A: a, V: atou(d[:i]), W: uint32(atou(d[i:])), T: tag + "/noop"})
		}
		ops = append(ops, Op{K: "sleep", A: a, V: atou(d[:j]), W: uint32(atou(d[j:])), T: tag})
	case "swap":
		m1 := base
		m1.Host, m1.User, m1.Domain = "alpha", "bravo", "alpha2"
		m1.PID, m1.TID, m1.PPID, m1.Sleep, m1.Jitter = 111, 222, 333, 7, 70
		m2 := m1
		which := rapid.SampledFrom([]string{"Hostname<>Username", "Username<>DomainName", "ProcessPID<>ProcessTID", "ProcessTID<>ProcessPPID", "SleepDelay<>SleepJitter", "Hostname<>InternalIP"}).Draw(t, "swap")
		switch which {
		case "Hostname<>Username":
			m2.Host, m2.User = m1.User, m1.Host
		case "Username<>DomainName":
			m2.User, m2.Domain = m1.Domain, m1.User
		case "ProcessPID<>ProcessTID":
			m2.PID, m2.TID = m1.TID, m1.PID
		case "ProcessTID<>ProcessPPID":
			m2.TID, m2.PPID = m1.PPID, m1.TID
		case "SleepDelay<>SleepJitter":
			m2.Sleep, m2.Jitter = m1.Jitter, m1.Sleep
		case "Hostname<>InternalIP":
			m2.Host, m2.IP = m1.IP, m1.Host
		}
		tag := "swap:" + which
		ops = append(ops, ck(m1, tag))
		noops(m1, tag)
		ops = append(ops, ck(m2, tag))
	case "noop-then-real":
		m1 := base
		m2 := base
		m2.Host = base.Host + "x"
		m2.Sleep = base.Sleep + 1
		ops = append(ops, ck(m1, "noop-then-real"), ck(m1, "noop-then-real/noop"))
		noops(m1, "noop-then-real")
		ops = append(ops, ck(m2, "noop-then-real"))
	case "revert":
		m1 := base
		m2 := base
		m2.User = "other"
		m2.PID = base.PID ^ 1
		ops = append(ops, ck(m1, "revert"), ck(m2, "revert"))
		noops(m2, "revert")
		ops = append(ops, ck(m1, "revert"))
	}
	return ops
}

// withCrafted inserts (in about half of the histories) one crafted family for one of the
// first nreg agents: mostly at the very end, so that the reopen follows immediately,
// otherwise somewhere in the middle.
func withCrafted(t *rapid.T, ops []Op, nreg int) []Op {
	if rapid.Bool().Draw(t, "crafted-updates") {
		return ops
	}
	fam := genCrafted(t, rapid.IntRange(0, nreg-1).Draw(t, "crafted-agent"))
	if rapid.IntRange(0, 2).Draw(t, "crafted-at-end") != 0 {
		return append(ops, fam...)
	}
	pos := rapid.IntRange(nreg, len(ops)).Draw(t, "crafted-pos")
	out := append([]Op{}, ops[:pos]...)
	out = append(out, fam...)
	return append(out, ops[pos:]...)
}

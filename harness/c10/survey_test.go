package c10

import (
	"encoding/json"
	"os"
	"sort"
	"testing"

	"pgregory.net/rapid"

	"verifharness/internal/core"
)

// TestC10Survey is a development aid (skipped unless VERIF_C10_SURVEY=<out.json>): runs
// generated histories without stopping at violations and lists every distinct
// signature with its count and the smallest case seen.
func TestC10Survey(t *testing.T) {
	out := os.Getenv("VERIF_C10_SURVEY")
	if out == "" {
		t.Skip("VERIF_C10_SURVEY not set")
	}
	type ent struct {
		Sig   string  `json:"sig"`
		Count int     `json:"count"`
		First History `json:"first"`
		Msg   string  `json:"msg"`
		size  int
	}
	found := map[string]*ent{}
	n := 0
	rapid.Check(t, func(rt *rapid.T) {
		var h History
		var v *core.Violation
		if os.Getenv("VERIF_C10_SURVEY_SUB") == "c" {
			h = genC(rt)
			v = core.Guard(func() *core.Violation { return checkC(h) })
		} else {
			h = genA(rt)
			v = core.Guard(func() *core.Violation { return checkA(h) })
		}
		n++
		if v == nil {
			return
		}
		sz := len(mustJSON(h))
		e := found[v.Sig]
		if e == nil {
			e = &ent{Sig: v.Sig, First: h, Msg: v.Msg, size: sz}
			found[v.Sig] = e
		} else if sz < e.size {
			e.First, e.Msg, e.size = h, v.Msg, sz
		}
		e.Count++
	})
	var l []*ent
	for _, e := range found {
		l = append(l, e)
	}
	sort.Slice(l, func(i, j int) bool { return l[i].Sig < l[j].Sig })
	b, _ := json.MarshalIndent(map[string]any{"cases": n, "findings": l}, "", " ")
	os.WriteFile(out, b, 0o644)
}

package c10

// C10(c) real restart: the history runs in this process (as in (a)); then a child
// process calls the real (*Teamserver).Start() on the same directory and reports the
// sessions and listeners it restored.  Oracle: the restarted server holds the same
// active sessions (same 25 recorded values, key, IV), the same parent/child structure
// and the same listeners with the configuration the operator gave them.

import (
	"sync"
	"bufio"
	"encoding/json"
	"fmt"
	"os"
	"os/exec"
	"path/filepath"
	"sort"
	"strings"
	"syscall"
	"testing"
	"time"

	"Havoc/cmd/server"
	"Havoc/pkg/db"
	"Havoc/pkg/handlers"
	"Havoc/pkg/packager"

	"pgregory.net/rapid"

	"verifharness/internal/core"
	"verifharness/internal/pvx"
	"verifharness/internal/tsx"
)

type restoredAgent struct {
	Image  AgentImage `json:"image"`
	Parent string     `json:"parent"` // "" none
	Links  []string   `json:"links"`  // "<nil>" for a nil entry
}

type restoredListener struct {
	Name string               `json:"name"`
	Kind string               `json:"kind"`
	HTTP *handlers.HTTPConfig `json:"http,omitempty"`
	SMB  *handlers.SMBConfig  `json:"smb,omitempty"`
	Ext  *handlers.ExternalConfig `json:"ext,omitempty"`
}

type restartReport struct {
	Agents    []restoredAgent    `json:"agents"`
	Listeners []restoredListener `json:"listeners"`
	StartMS   int64              `json:"start_ms"` // time the real Start() took to restore (until it appended the profile event)
}

// startReal runs the real (*Teamserver).Start() on dir and waits until it has finished
// restoring (nil: already reported why not).
func startReal(dir string, say func(string)) *server.Teamserver {
	cfg := childCfg{Dir: dir}
	if err := os.Chdir(cfg.Dir); err != nil {
		say("ERROR " + err.Error())
		return nil
	}
	tsx.Quiet()
	tsx.SetLoot(filepath.Join(cfg.Dir, "loot"))
	d, err := db.DatabaseNew("data/teamserver.db") // Start() re-opens <cwd>/<this path>
	if err != nil {
		say("ERROR " + err.Error())
		return nil
	}
	ts := &server.Teamserver{DB: d, Profile: tsx.BasicProfile(map[string]string{"op": "pw"}, nil)}
	returned := make(chan struct{})
	go func() { ts.Start(); close(returned) }() // normally never returns: blocks on its ServerFinished channel after the restore
	deadline := time.Now().Add(60 * time.Second)
	done := false
	for !done && time.Now().Before(deadline) {
		select {
		case <-returned:
			say("RETURNED") // Start() gave up before the end of the restore
			return nil
		case <-time.After(2 * time.Millisecond):
		}
		for _, e := range ts.EventsList {
			// the last thing Start() does before blocking: EventAppend(events.SendProfile(...))
			if e.Head.Event == packager.Type.InitConnection.Type && e.Body.SubEvent == packager.Type.InitConnection.Profile {
				done = true
			}
		}
	}
	if !done {
		say("TIMEOUT")
		return nil
	}
	time.Sleep(5 * time.Millisecond)
	return ts
}

func restartChild(cfg childCfg, say func(string)) {
	t0 := time.Now()
	ts := startReal(cfg.Dir, say)
	if ts == nil {
		return
	}
	startMS := time.Since(t0).Milliseconds()
	if cfg.Mode == "segment" {
		segmentChild(cfg, ts, say, startMS)
		return
	}
	var rep restartReport
	rep.StartMS = startMS
	for _, a := range ts.Agents.Agents {
		if a == nil {
			rep.Agents = append(rep.Agents, restoredAgent{Image: AgentImage{ID: "<nil>"}})
			continue
		}
		ra := restoredAgent{Image: imageOf(a)}
		if a.Pivots.Parent != nil {
			ra.Parent = a.Pivots.Parent.NameID
		}
		for _, l := range a.Pivots.Links {
			if l == nil {
				ra.Links = append(ra.Links, "<nil>")
			} else {
				ra.Links = append(ra.Links, l.NameID)
			}
		}
		rep.Agents = append(rep.Agents, ra)
	}
	for _, l := range ts.Listeners {
		rl := restoredListener{Name: l.Name}
		switch c := l.Config.(type) {
		case *handlers.HTTP:
			rl.Kind = "http"
			cc := c.Config
			rl.HTTP = &cc
		case *handlers.SMB:
			rl.Kind = "smb"
			cc := c.Config
			rl.SMB = &cc
		case *handlers.External:
			rl.Kind = "ext"
			cc := c.Config
			rl.Ext = &cc
		default:
			rl.Kind = fmt.Sprintf("%T", l.Config)
		}
		rep.Listeners = append(rep.Listeners, rl)
	}
	say("REPORT " + mustJSON(rep))
}

// errInfra marks a failure of the harness machinery (not of the teamserver).
type errInfra struct{ error }

// segState is what the harness carries across a restart (the teamserver carries nothing but its files).
type segState struct {
	Seeds map[int]byte        `json:"seeds"`
	Req   uint32              `json:"req"`
	Lmod  []LSpec             `json:"lmod"`
	Lorig map[string]HTTPSpec `json:"lorig"`
	ExAgents map[string]bool  `json:"ex_agents,omitempty"` // fault_test.go
	ExLinks  map[string]bool  `json:"ex_links,omitempty"`
}

type segReport struct {
	Next  int                   `json:"next"` // index of the first operation of the next segment (len(ops): done)
	St    segState              `json:"st"`
	Want  map[string]AgentImage `json:"want"`
	Pairs []pair                `json:"pairs"`
	Restored map[string]sessView `json:"restored"` // the sessions right after Start(), before the segment's operations
	Rows     []pvx.LinkRow       `json:"rows"`     // TS_Links at that moment
	StartMS  int64               `json:"start_ms"`
	Stopped  bool                `json:"stopped"`  // the segment ended at a restart that is to be performed (operation Next-1)
	V        *core.Violation     `json:"v,omitempty"` // histories with a fault: the comparison made before that restart
}

// segmentChild: under the real Start(), apply the operations from cfg.From up to the next
// effective restart (or the end) and report the state the server holds.
func segmentChild(cfg childCfg, ts *server.Teamserver, say func(string), startMS int64) {
	w, err := pvx.WrapTS(cfg.Dir, ts)
	if err != nil {
		say("ERROR " + err.Error())
		return
	}
	r := newRun(w, cfg.H)
	if cfg.St.Seeds != nil {
		r.seeds = cfg.St.Seeds
	}
	r.req, r.lmod, r.lorig = cfg.St.Req+0x100, cfg.St.Lmod, cfg.St.Lorig
	r.exAgents, r.exLinks = cfg.St.ExAgents, cfg.St.ExLinks
	stop := false
	r.restartFn = func(forced bool) bool {
		if !forced && !r.restartable() {
			return false
		}
		stop = true
		return true
	}
	ops := cfg.H.flat()
	rep := segReport{Next: len(ops)}
	rep.StartMS = startMS
	rep.Restored = memView(w)
	rep.Rows, _ = pvx.LinkRows(w.SQL)
	for i := cfg.From; i < len(ops); i++ {
		r.step(i, ops[i])
		if stop {
			rep.Next = i + 1
			rep.Stopped = true
			if f := cfg.H.Fault; f != nil && !hasRestartX(cfg.H) && f.At >= cfg.From && f.At < i {
				// histories with a fault: the state is compared before every restart that follows it
				rep.V = core.Guard(func() *core.Violation { return compareRestored(w, r, nil) })
				if rep.V != nil {
					rep.V.Msg = fmt.Sprintf("before the restart at operation %d: %s", i, rep.V.Msg)
				}
			}
			break
		}
	}
	rep.St = segState{Seeds: r.seeds, Req: r.req, Lmod: r.lmod, Lorig: r.lorig, ExAgents: r.exAgents, ExLinks: r.exLinks}
	rep.Want = map[string]AgentImage{}
	for _, a := range ts.Agents.Agents {
		if a != nil && a.Active {
			rep.Want[a.NameID] = imageOf(a)
		}
	}
	rep.Pairs = memPairs(w)
	say("SEGMENT " + mustJSON(rep))
}

func runSegment(dir string, h History, from int, st segState) (segReport, error) {
	var rep segReport
	line, err := runChild(dir, childCfg{Mode: "segment", Dir: dir, H: h, From: from, St: st}, "SEGMENT ")
	if err != nil {
		return rep, err
	}
	return rep, json.Unmarshal([]byte(line), &rep)
}

func runRestart(dir string) (restartReport, error) {
	var rep restartReport
	line, err := runChild(dir, childCfg{Mode: "restart", Dir: dir}, "REPORT ")
	if _, infra := err.(errInfra); err != nil && !infra {
		// a start that only restores and reports changes nothing on disk, so it can be repeated: a
		// defect in Start() for this state shows again, a child lost to the machine (seen once in
		// forty loaded runs, not reproducible from the saved case) does not
		statsMu.Lock()
		statsB["restart_child_lost_once"]++
		core.SetExtra("restart_child_lost_once", statsB["restart_child_lost_once"])
		statsMu.Unlock()
		first := err
		if line, err = runChild(dir, childCfg{Mode: "restart", Dir: dir}, "REPORT "); err != nil {
			if _, infra := err.(errInfra); !infra {
				err = fmt.Errorf("%v (first attempt: %v)", err, first)
			}
		}
	}
	if err != nil {
		return rep, err
	}
	return rep, json.Unmarshal([]byte(line), &rep)
}

func runChild(dir string, cfg childCfg, prefix string) (string, error) {
	cf := filepath.Join(dir, "child-cfg.json")
	os.WriteFile(cf, []byte(mustJSON(cfg)), 0o644)
	pr, pw, err := os.Pipe()
	if err != nil {
		return "", err
	}
	self, err := os.Executable()
	if err != nil {
		return "", err
	}
	cmd := exec.Command(self, "-test.run=^TestC10Child$", "-test.count=1", "-test.timeout=120s")
	cmd.Env = append(os.Environ(), "VERIF_C10_CHILD="+cf, "VERIF_OUT=", "VERIF_REPLAY=")
	cmd.ExtraFiles = []*os.File{pw}
	cmd.Dir = dir
	var errOut tailBuf
	cmd.Stderr = &errOut
	cmd.Stdout = &errOut
	if err := cmd.Start(); err != nil {
		pr.Close()
		pw.Close()
		return "", err
	}
	pw.Close()
	defer func() { cmd.Process.Signal(syscall.SIGKILL); cmd.Wait(); pr.Close() }()
	guard := time.AfterFunc(90*time.Second, func() { cmd.Process.Signal(syscall.SIGKILL) })
	defer guard.Stop()
	rd := bufio.NewReaderSize(pr, 1<<20)
	for {
		ln, err := rd.ReadString('\n')
		ln = strings.TrimSpace(ln)
		if strings.HasPrefix(ln, prefix) {
			return ln[len(prefix):], nil
		}
		if strings.HasPrefix(ln, "ERROR") || ln == "TIMEOUT" {
			return "", errInfra{fmt.Errorf("child: %s", ln)}
		}
		if ln == "RETURNED" {
			return "", fmt.Errorf("Start() returned before it had restored the sessions")
		}
		if err != nil {
			cmd.Wait()
			return "", fmt.Errorf("child ended without a report: %v (%v); its last output: %q", err, cmd.ProcessState, errOut.String())
		}
	}
}

// tailBuf keeps the last 2 KiB written to it.
type tailBuf struct {
	mu sync.Mutex
	b  []byte
}

func (t *tailBuf) Write(p []byte) (int, error) {
	t.mu.Lock()
	defer t.mu.Unlock()
	t.b = append(t.b, p...)
	if len(t.b) > 2048 {
		t.b = t.b[len(t.b)-2048:]
	}
	return len(p), nil
}

func (t *tailBuf) String() string { t.mu.Lock(); defer t.mu.Unlock(); return string(t.b) }

func checkC(h History) *core.Violation {
	countCells(h)
	return underFaultSig(h, checkC1(h), checkC1)
}

func checkC1(h History) *core.Violation {
	return onExistingFile(h, runC(h, h.dbMode()), func() *core.Violation { return runC(h, "fresh") })
}

func runC(h History, mode string) *core.Violation {
	sweepOnce.Do(func() { pvx.SweepStale("c10") })
	w, _, err := pvx.NewWorldMode("c10", mode)
	if err != nil {
		panic("harness: " + err.Error())
	}
	defer w.Close()
	r := newRun(w, h)
	// the first segment runs in this process; at every effective restart the rest of the
	// history moves to a new child process that runs the real Start() first
	handover := -1
	ops := h.flat()
	var pm *pmodel // histories with restarts at any point: the link structure is followed by the model of piv_test.go
	if hasRestartX(h) {
		pm = newPModel(h.nAgents())
	}
	// pmTo advances the model over ops[from:to]; when restarted, ops[to-1] is the restart that was performed
	pmTo := func(from, to int, restarted bool) {
		if pm == nil {
			return
		}
		no, yes := false, true
		for i := from; i < to; i++ {
			switch {
			case i == to-1 && restarted:
				pm.step(ops[i], &yes)
			case ops[i].K == "restart" || ops[i].K == "restartx":
				pm.step(ops[i], &no)
			default:
				pm.step(ops[i], nil)
			}
		}
	}
	for i, op := range ops {
		if op.K == "restart" || op.K == "restartx" {
			if op.K == "restartx" || r.restartable() {
				handover = i + 1
				break
			}
			continue
		}
		r.step(i, op)
	}
	if h.Fault != nil && pm == nil && handover > h.Fault.At {
		// histories with a fault: the state is compared before every restart that follows it
		if v := compareRestored(w, r, nil); v != nil {
			r.finish()
			v.Msg = fmt.Sprintf("before the restart at operation %d: %s", handover-1, v.Msg)
			return v
		}
	}
	r.finish() // the restarted server binds its own ephemeral ports
	if handover >= 0 {
		pmTo(0, handover, true)
	} else {
		pmTo(0, len(ops), false)
	}

	want := map[string]AgentImage{}
	for _, a := range w.TS.Agents.Agents {
		if a != nil && a.Active {
			want[a.NameID] = imageOf(a)
		}
	}
	pairs := memPairs(w)

	nseg := 0
	st := segState{Seeds: r.seeds, Req: r.req, Lmod: r.lmod, Lorig: r.lorig, ExAgents: r.exAgents, ExLinks: r.exLinks}
	for handover >= 0 && err == nil {
		var sr segReport
		sr, err = runSegment(w.Dir, h, handover, st)
		if err != nil {
			break
		}
		nseg++
		noteStartTime(len(sr.Restored), sr.StartMS)
		if sr.V != nil {
			return sr.V
		}
		if pm != nil {
			// the real Start() at the head of this segment: restored sessions and structure
			var before []string
			for id := range want {
				before = append(before, id)
			}
			sort.Strings(before)
			when := fmt.Sprintf("after the restart at operation %d (real Start())", handover-1)
			if v := compareStructure(sr.Restored, before, wantView(h, pm.mem), when, rowsString(sr.Rows)); v != nil {
				return v
			}
			if v := oneRowPerChild(sr.Rows, when); v != nil {
				return v
			}
			pmTo(handover, sr.Next, sr.Stopped)
		}
		want, pairs, st = sr.Want, sr.Pairs, sr.St
		r.lmod, r.lorig = st.Lmod, st.Lorig
		r.exAgents, r.exLinks = st.ExAgents, st.ExLinks
		handover = -1
		if sr.Next < len(ops) {
			handover = sr.Next
		}
	}
	if nseg > 0 {
		statsMu.Lock()
		statsB["segments_under_real_start"] += nseg
		core.SetExtra("segments_under_real_start", statsB["segments_under_real_start"])
		statsMu.Unlock()
	}
	var rep restartReport
	if err == nil {
		rep, err = runRestart(w.Dir)
	}
	if _, infra := err.(errInfra); infra {
		// the child could not be observed (machine overloaded): no verdict for this case
		statsMu.Lock()
		statsB["restart_not_observed"]++
		core.SetExtra("restart_not_observed", statsB["restart_not_observed"])
		statsMu.Unlock()
		return nil
	}
	if err != nil {
		// Start() gave up (it returns early on a listener it cannot start) or crashed
		return core.V("restart|did-not-complete", "the restarted teamserver did not finish restoring: %v", err)
	}

	noteStartTime(len(rep.Agents), rep.StartMS)
	got := map[string]restoredAgent{}
	for _, a := range rep.Agents {
		if _, dup := got[a.Image.ID]; dup {
			return core.V("restart|agents|restored-twice", "session %s exists twice after the restart", a.Image.ID)
		}
		got[a.Image.ID] = a
	}
	for id := range r.exAgents { // fault_test.go: rows a failed statement left behind the memory
		delete(want, id)
		delete(got, id)
	}
	var ids []string
	for id := range want {
		ids = append(ids, id)
	}
	sort.Strings(ids)
	for _, id := range ids {
		if _, ok := got[id]; !ok {
			return core.V("restart|agents|active-agent-not-restored", "active session %s is missing after the restart", id)
		}
	}
	for id := range got {
		if _, ok := want[id]; !ok {
			return core.V("restart|agents|inactive-agent-restored", "session %s appears after the restart but was not an active session before", id)
		}
	}
	// (the recorded values themselves come from DB.AgentAll, which sub-check (a) compares field by field)
	// structure among the restored sessions
	if pm != nil {
		gotV := map[string]sessView{}
		for id, g := range got {
			l := append([]string{}, g.Links...)
			sort.Strings(l)
			if len(l) == 0 {
				l = nil
			}
			gotV[id] = sessView{Parent: g.Parent, Links: l}
		}
		rows, _ := pvx.LinkRows(w.SQL)
		if v := compareStructure(gotV, ids, wantView(h, pm.afterRestart()), "after the final restart (real Start())", rowsString(rows)); v != nil {
			return v
		}
		if v := oneRowPerChild(rows, "at the end of the history"); v != nil {
			return v
		}
	}
	for _, id := range ids {
		if pm != nil {
			break
		}
		if r.exLinks[id] {
			continue // fault_test.go: links a failed statement left behind the memory
		}
		wantParent := ""
		wantKids := []string{}
		for _, p := range pairs {
			_, pa := want[p.P]
			_, ca := want[p.C]
			if !pa || !ca {
				continue // an end that is not restored cannot be linked
			}
			if p.C == id {
				wantParent = p.P
			}
			if p.P == id && !r.exLinks[p.C] {
				wantKids = append(wantKids, p.C)
			}
		}
		g := got[id]
		for _, l := range g.Links {
			if l == "<nil>" {
				return core.V("restart|links|nil-entry", "session %s has a nil entry in Pivots.Links after the restart (links %v)", id, g.Links)
			}
		}
		if r.exAgents[g.Parent] {
			continue
		}
		if g.Parent != wantParent {
			return core.V("restart|links|parent-differs", "session %s: parent %q after the restart, %q before", id, g.Parent, wantParent)
		}
		gk := []string{}
		for _, l := range g.Links {
			if !r.exAgents[l] && !r.exLinks[l] {
				gk = append(gk, l)
			}
		}
		sort.Strings(gk)
		sort.Strings(wantKids)
		if strings.Join(gk, ",") != strings.Join(wantKids, ",") {
			return core.V("restart|links|children-differ", "session %s: links %v after the restart, %v before", id, gk, wantKids)
		}
	}
	// listeners
	gotL := map[string]restoredListener{}
	for _, l := range rep.Listeners {
		if _, dup := gotL[l.Name]; dup {
			return core.V("restart|listeners|started-twice", "listener %q runs twice after the restart", l.Name)
		}
		gotL[l.Name] = l
	}
	eqList := func(a, b []string) bool { return strings.Join(a, "\x00") == strings.Join(b, "\x00") && len(a) == len(b) }
	for _, l := range r.lmod {
		g, ok := gotL[l.Name]
		if !ok {
			sig := "restart|listeners|not-restored|" + l.Kind
			if kindOf(l) == "https" {
				sig = "restart|listeners|not-restored|https|" + nameClassOf(l.Name)
			}
			return core.V(sig, "listener %q (%s) is not running after the restart", clipS(l.Name), kindOf(l))
		}
		if g.Kind != l.Kind {
			return core.V("restart|listener|kind-differs", "listener %q is a %s listener after the restart, was %s", l.Name, g.Kind, l.Kind)
		}
		diff := func(f string, gv, wv any) *core.Violation {
			if o, edited := r.lorig[l.Name]; edited && l.Kind == "http" {
				// is it the value from before the operator's edit?
				before := map[string]string{"UserAgent": o.UserAgent, "Headers": fmt.Sprintf("%q", o.Headers), "Uris": fmt.Sprintf("%q", o.Uris), "ProxyEnabled": fmt.Sprint(o.Proxy)}
				if b, ok := before[f]; ok && (fmt.Sprint(gv) == b || (b == "[]" && fmt.Sprint(gv) == `[""]`)) {
					return core.V("restart|listener|http|edit-not-persisted", "listener %q was edited by the operator (%s now %q) but comes back with the value from before the edit (%q)", l.Name, f, clipS(fmt.Sprint(wv)), clipS(fmt.Sprint(gv)))
				}
			}
			return core.V("restart|listener|"+l.Kind+"|"+f+"-differs", "listener %q: %s is %q after the restart, the operator configured %q", l.Name, f, clipS(fmt.Sprint(gv)), clipS(fmt.Sprint(wv)))
		}
		switch l.Kind {
		case "smb":
			if g.SMB.PipeName != l.Pipe {
				return diff("PipeName", g.SMB.PipeName, l.Pipe)
			}
		case "ext":
			if g.Ext.Endpoint != l.Endpoint {
				return diff("Endpoint", g.Ext.Endpoint, l.Endpoint)
			}
		case "http":
			hs, gc := l.HTTP, g.HTTP
			switch {
			case !eqList(gc.Hosts, hs.Hosts):
				return diff("Hosts", gc.Hosts, hs.Hosts)
			case gc.HostBind != "127.0.0.1":
				return diff("HostBind", gc.HostBind, "127.0.0.1")
			case gc.HostRotation != hs.Rotation:
				return diff("HostRotation", gc.HostRotation, hs.Rotation)
			case gc.PortBind != "0":
				return diff("PortBind", gc.PortBind, "0")
			case gc.UserAgent != hs.UserAgent:
				return diff("UserAgent", gc.UserAgent, hs.UserAgent)
			case !eqList(gc.Headers, hs.Headers):
				return diff("Headers", fmt.Sprintf("%q", gc.Headers), fmt.Sprintf("%q", hs.Headers))
			case !eqList(gc.Uris, hs.Uris):
				return diff("Uris", fmt.Sprintf("%q", gc.Uris), fmt.Sprintf("%q", hs.Uris))
			case gc.Secure != hs.Secure:
				return diff("Secure", gc.Secure, hs.Secure)
			case gc.PortConn != hs.PortConn:
				return diff("PortConn", gc.PortConn, hs.PortConn)
			case gc.HostHeader != hs.HostHeader:
				return diff("HostHeader", gc.HostHeader, hs.HostHeader)
			case gc.Proxy.Enabled != hs.Proxy:
				return diff("ProxyEnabled", gc.Proxy.Enabled, hs.Proxy)
			case hs.Proxy && (gc.Proxy.Type != hs.PType || gc.Proxy.Host != hs.PHost || gc.Proxy.Port != hs.PPort || gc.Proxy.Username != hs.PUser || gc.Proxy.Password != hs.PPass):
				return diff("ProxySettings", gc.Proxy, []string{hs.PType, hs.PHost, hs.PPort, hs.PUser, hs.PPass})
			}
		}
		delete(gotL, l.Name)
	}
	for n := range gotL {
		return core.V("restart|listeners|removed-listener-restored", "listener %q runs after the restart but was removed (or never added) before", n)
	}
	return nil
}

func genC(t *rapid.T) History {
	var h History
	if uniformBits(t, 2, "scale-bit") == 0 {
		return genScaleHistory(t, "c") // scale_test.go: 1 history in 4 - only here the real Start() restores the large database
	}
	if rapid.IntRange(0, 3).Draw(t, "pivot-trees") == 0 {
		return genPivotHistory(t, 5, 8) // piv_test.go (every restart is a child process here: shorter histories)
	}
	h.Agents = genAgents(t, 1, 4)
	h.DB = rapid.SampledFrom([]string{"fresh", "existed", "golden"}).Draw(t, "db")
	nreg := rapid.IntRange(1, len(h.Agents)).Draw(t, "nreg")
	for i := 0; i < nreg; i++ {
		h.Ops = append(h.Ops, Op{K: "reg", A: i})
	}
	n := rapid.IntRange(0, 16).Draw(t, "nops")
	ops := genOps(t, n, len(h.Agents), true)
	// HTTP listeners matter most here (it is their restore that maps many fields): make a third of the adds HTTP
	for i := range ops {
		if ops[i].K == "ladd" && ops[i].L != nil && ops[i].L.Kind != "http" && rapid.IntRange(0, 2).Draw(t, "http-instead") == 0 {
			ops[i].L = &LSpec{Kind: "http", Name: ops[i].L.Name, NC: ops[i].L.NC, HTTP: genHTTP(t)}
			// ... and some of those HTTPS (the restarted server generates the certificate again)
			ops[i].L.HTTP.Secure = rapid.IntRange(0, 7).Draw(t, "https-instead") == 0
		}
	}
	h.Ops = append(h.Ops, ops...)
	h.Ops = withCrafted(t, h.Ops, nreg)
	return withFault(t, h, nreg, false) // fault_test.go
}

func TestC10c(t *testing.T) {
	if os.Getenv("VERIF_C10_CHILD") != "" {
		t.Skip("child process")
	}
	core.Run(t, core.Spec[History]{
		Property: "C10", Sub: "c",
		Rule: "histories as in (a) (1-4 agents, 0-16 operations, one third of the listener adds HTTP on ephemeral ports) plus restart operations in the middle and the crafted update / re-registration families; the first segment is applied in-process, at every effective restart the rest of the history moves to a NEW child process that first runs the real (*Teamserver).Start() on the directory and then applies the following operations to that server (extra.segments_under_real_start); finally a child process runs the real (*Teamserver).Start() on the same directory and reports its sessions (25 recorded values, key, IV, Parent, Links) and its listeners (handlers.HTTPConfig / SMBConfig / ExternalConfig as started). Oracle: restarted state == state of the server before the restart: same active sessions and values, same parent/child structure among them (no nil entries), same listeners with every operator-configured field (Hosts, HostBind, HostRotation, PortBind, PortConn, UserAgent, Headers, Uris, HostHeader, Secure, Proxy; PipeName; Endpoint). Non-trivial as in (a) ADDED: a quarter of the histories are pivot-tree histories with restarts at any point as in (a) (3-5 agents, 3-8 events): every restartx hands the rest of the history to a new child process under the real Start(); each child reports the sessions, Parent and Links it holds right after Start() and the rows of TS_Links, which are compared with the sessions active before that restart and the model of the link events; the final real restart is compared in the same way (signatures any-point-restart|..., links|two-rows-for-one-child) ADDED: listener names also from the kind x name class product of (a); one in eight of the HTTP listeners is HTTPS (Secure=true: the restarted server generates the certificate again); Secure is compared; a missing HTTPS listener is reported as restart|listeners|not-restored|https|<name class> ADDED - SCALE (1 history in 4: only here the REAL Start() restores a large database - (a) and (b) use the transcription of its restore loops in pvx.Reopen and cannot see a defect inside Start() itself): as in (a), pool cut at 1025 sessions / 1025 listeners in the quick tier (4097 / 1025 thorough), no bulk restarts; every restart of such a history is a child process under the real Start() which reports sessions, Parent, Links and TS_Links rows right after Start(); extra.real_start_ms_max@sessions:<bucket> is the longest real Start() seen per number of restored sessions (the child has 60 s to finish restoring) ADDED - FAULT INJECTION as in (a) (a third of the ordinary histories; no lock-held cases): the operation under the fault runs wherever the history has it - in this process or, after a restart, in the child process under the real Start() (the child installs the trigger / takes the lock / makes the directory read-only through its own second connection); the state is compared before every restart that follows the fault (in the parent and in the child) and after the final real Start(); sessions and links left behind by a failed statement of a session's callback are carried over the restarts as in (a); signatures fault|<dependency>:<operation>:<how>|restart|...",
		Gen:   genC, Check: checkC, Classify: classifyH,
		Assumptions: []string{
			"the restarted server is observed through its exported fields (Agents, Listeners) once Start() has appended the profile event, its last action before blocking",
			"the process before the restart is not killed but simply abandoned (its handle stays open); crash points are sub-check (b)",
		},
	})
}

// noteStartTime records the longest real Start() seen per number of restored sessions
// (extra.real_start_ms_max@<bucket>), for the scale histories.
func noteStartTime(sessions int, ms int64) {
	b := scaleBucket(sessions)
	if b == "" {
		b = "<63"
	}
	k := "real_start_ms_max@sessions:" + b
	statsMu.Lock()
	if int(ms) > statsB[k] {
		statsB[k] = int(ms)
	}
	core.SetExtra(k, statsB[k])
	statsMu.Unlock()
}

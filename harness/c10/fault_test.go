package c10

// FAULT dimension: in about a quarter of the histories of (a) and (c) ONE operation runs while the
// database - the one dependency the persistence path has - fails, then the fault is lifted and the
// history goes on.  The fault is injected from outside the code under test, through the real
// dependency:
//
//	trigger        a second connection (the fixture's reader, w.SQL) installs
//	               CREATE TRIGGER verif_fault BEFORE <INSERT|UPDATE|DELETE> ON <table>
//	               BEGIN SELECT RAISE(FAIL, 'database or disk is full'); END
//	               for one table and one statement kind and drops it after the operation
//	readonly       the data directory is made read-only for the operation (mode 0555 and, because the
//	               harness runs as root, CAP_DAC_OVERRIDE / CAP_DAC_READ_SEARCH taken out of the
//	               effective set of the locked OS thread the operation runs on): sqlite cannot
//	               create its rollback journal, every write statement fails
//	lock-released  a second connection holds the write lock (BEGIN IMMEDIATE) when the operation
//	               starts and gives it up ~20 ms later, i.e. within sqlite's busy timeout (5 s, the
//	               default of the driver; the teamserver opens the file without parameters): the
//	               operation is slow but must succeed completely
//	lock-held      the lock is held across the whole operation: every write statement of it fails
//	               with 'database is locked' after the 5 s busy timeout (few cases)
//
// The oracle is unchanged: what a fresh open / a restart restores == what the running server
// holds in memory (sessions, links) and has told the operators (listeners: a removal counts as
// acknowledged when the server no longer has a listener of that name, the condition under which
// dispatch.go announces the removal; an add when it has one).

import (
	"context"
	"fmt"
	"os"
	"path/filepath"
	"runtime"
	"strings"
	"syscall"
	"time"
	"unsafe"

	"pgregory.net/rapid"

	"Havoc/pkg/db"

	"verifharness/internal/core"
	"verifharness/internal/pvx"
	"verifharness/internal/tsx"
)

type Fault struct {
	At    int    `json:"at"`              // index into History.flat(): the operation that runs under the fault
	How   string `json:"how"`             // trigger | readonly | lock-released | lock-held
	Table string `json:"table,omitempty"` // trigger: TS_Listeners | TS_Agents | TS_Links
	Stmt  string `json:"stmt,omitempty"`  // trigger: INSERT | UPDATE | DELETE
}

// what: the <dependency>:<operation>:<how> part of the label.
func (f Fault) what() string {
	switch f.How {
	case "trigger":
		return "db:" + f.Stmt + " " + f.Table + ":trigger-raises-disk-full"
	case "readonly":
		return "fs:create-journal-in-data-directory:directory-read-only"
	case "lock-released":
		return "db:write-lock:held-by-second-connection-released-within-busy-timeout"
	case "lock-held":
		return "db:write-lock:held-by-second-connection-past-busy-timeout"
	}
	return "db:?:" + f.How
}

func faultLabels(h History) []string {
	f := h.Fault
	if f == nil {
		return nil
	}
	ops := h.flat()
	if f.At < 0 || f.At >= len(ops) {
		return nil
	}
	out := []string{"fault", "fault:" + f.what() + "@" + ops[f.At].K}
	rest := ops[f.At+1:]
	if len(rest) == 0 {
		out = append(out, "fault-at-last-operation")
	} else {
		out = append(out, "operations-after-fault")
	}
	for _, op := range rest {
		if op.K == "restart" || op.K == "restartx" {
			out = append(out, "restart-operation-after-fault")
			break
		}
	}
	return out
}

// step applies operation i of the history, under the history's fault if it is the one.
func (r *runState) step(i int, op Op) bool {
	f := r.h.Fault
	if f == nil || f.At != i || op.K == "restart" || op.K == "restartx" {
		return r.apply(op)
	}
	var done bool
	r.inFault = true
	r.underFault(*f, func() { done = r.apply(op) })
	r.inFault = false
	countFault(r.h, done)
	if f.How != "lock-released" && op.K != "ladd" && op.K != "lremove" && op.K != "ledit" {
		r.noteLeftBehind()
	}
	return done
}

// noteLeftBehind: what the unchanged tree does when a statement of a session's callback fails
// (cmd/server/agent.go AgentUpdate, LinkAdd, LinkRemove: the error is logged, the session goes
// on as the agent reported it) leaves the stored row of that session, or a stored link, behind
// the memory until the next successful write (AgentUpdate writes the whole row).  Sessions that
// HAVE a row which differs from the memory right after the operation under the fault, and both
// ends of every link that is stored but not held or held but not stored, are set aside: they
// are not compared any more.  A session without any row is not set aside (its registration was
// acknowledged / announced), nor is any listener (ListenerStart / ListenerRemove keep the
// listener table in step with the database when a statement fails).
func (r *runState) noteLeftBehind() {
	w := r.w
	d2, err := db.DatabaseNew(tsx.DBPath(w.Dir))
	if err != nil {
		return
	}
	defer pvx.CloseDB(d2)
	got := map[string]AgentImage{}
	for _, a := range d2.AgentAll() {
		got[a.NameID] = imageOf(a)
	}
	hasRow := map[int64]bool{}
	if rows, err := w.SQL.Query(`SELECT AgentID FROM TS_Agents`); err == nil {
		for rows.Next() {
			var id int64
			if rows.Scan(&id) == nil {
				hasRow[id] = true
			}
		}
		rows.Close()
	}
	if r.exAgents == nil {
		r.exAgents, r.exLinks = map[string]bool{}, map[string]bool{}
	}
	for _, a := range w.TS.Agents.Agents {
		if a == nil || !hasRow[int64(idInt(a.NameID))] {
			continue
		}
		gi, stored := got[a.NameID]
		switch {
		case a.Active != stored:
			r.exAgents[a.NameID] = true
		case a.Active:
			mi := imageOf(a)
			same := mi.Key == gi.Key && mi.IV == gi.IV && mi.Reason == gi.Reason
			for _, f := range agentFields {
				same = same && mi.F[f] == gi.F[f]
			}
			if !same {
				r.exAgents[a.NameID] = true
			}
		}
	}
	held := map[[2]int64]bool{}
	for _, p := range memPairs(w) {
		held[[2]int64{int64(idInt(p.P)), int64(idInt(p.C))}] = true
	}
	rows, _ := pvx.LinkRows(w.SQL)
	storedL := map[[2]int64]bool{}
	for _, lr := range rows {
		k := [2]int64{lr.Parent, lr.Child}
		storedL[k] = true
		if !held[k] {
			r.exLinks[fmt.Sprintf("%08x", lr.Parent)], r.exLinks[fmt.Sprintf("%08x", lr.Child)] = true, true
		}
	}
	for k := range held {
		if !storedL[k] {
			r.exLinks[fmt.Sprintf("%08x", k[0])], r.exLinks[fmt.Sprintf("%08x", k[1])] = true, true
		}
	}
	if len(r.exAgents)+len(r.exLinks) > 0 {
		noteFaultExtra("fault_left_stored_sessions_or_links_behind_memory")
	}
}

const faultTrigger = "verif_fault"

func (r *runState) underFault(f Fault, run func()) {
	q := r.w.SQL
	switch f.How {
	case "trigger":
		if _, err := q.Exec(fmt.Sprintf(`CREATE TRIGGER %s BEFORE %s ON %s BEGIN SELECT RAISE(FAIL, 'database or disk is full'); END`, faultTrigger, f.Stmt, f.Table)); err != nil {
			panic("harness: cannot install the fault trigger: " + err.Error())
		}
		defer func() {
			if _, err := q.Exec(`DROP TRIGGER ` + faultTrigger); err != nil {
				panic("harness: cannot drop the fault trigger: " + err.Error())
			}
		}()
		run()
	case "lock-held", "lock-released":
		ctx := context.Background()
		c, err := q.Conn(ctx)
		if err != nil {
			panic("harness: second connection: " + err.Error())
		}
		if _, err := c.ExecContext(ctx, `BEGIN IMMEDIATE`); err != nil {
			c.Close()
			panic("harness: second connection cannot take the write lock: " + err.Error())
		}
		release := func() {
			c.ExecContext(ctx, `ROLLBACK`)
			c.Close()
		}
		if f.How == "lock-held" {
			defer release()
			run()
			return
		}
		released := make(chan struct{})
		time.AfterFunc(20*time.Millisecond, func() { release(); close(released) })
		defer func() { <-released }()
		run()
	case "readonly":
		dataDir := filepath.Dir(tsx.DBPath(r.w.Dir))
		restore, ok := dropDACOverride()
		if !ok {
			noteFaultExtra("fault_readonly_not_available")
			run()
			return
		}
		defer restore()
		if err := os.Chmod(dataDir, 0o555); err != nil {
			panic("harness: chmod: " + err.Error())
		}
		defer os.Chmod(dataDir, 0o755)
		run()
	default:
		run()
	}
}

// restartable: reopenable() takes "active" from the server's memory; where a failed statement
// left a stored Active flag behind the memory, a stored link naming that session may join a
// session that is stored inactive - the state in which the conditional restart is not performed.
func (r *runState) restartable() bool {
	if !reopenable(r.w) {
		return false
	}
	if len(r.exAgents) == 0 {
		return true
	}
	rows, err := pvx.LinkRows(r.w.SQL)
	if err != nil {
		return false
	}
	for _, lr := range rows {
		if r.exAgents[fmt.Sprintf("%08x", lr.Parent)] || r.exAgents[fmt.Sprintf("%08x", lr.Child)] {
			return false
		}
	}
	return true
}

// ---------------------------------------------------------------- capabilities of the calling thread

type capHdr struct {
	version uint32
	pid     int32
}
type capData struct{ effective, permitted, inheritable uint32 }

const (
	capV3              = 0x20080522
	capDacOverride     = 1
	capDacReadSearch   = 2
)

// dropDACOverride locks the goroutine to its OS thread and takes CAP_DAC_OVERRIDE and
// CAP_DAC_READ_SEARCH out of the thread's EFFECTIVE set (they stay permitted, so restore can
// raise them again).  cgo calls - sqlite - run on the calling thread.  Without the drop a
// read-only directory does not stop root.
func dropDACOverride() (restore func(), ok bool) {
	runtime.LockOSThread()
	hdr := capHdr{version: capV3}
	var data, saved [2]capData
	if _, _, e := syscall.RawSyscall(syscall.SYS_CAPGET, uintptr(unsafe.Pointer(&hdr)), uintptr(unsafe.Pointer(&data[0])), 0); e != 0 {
		runtime.UnlockOSThread()
		return nil, false
	}
	saved = data
	if os.Geteuid() != 0 || data[0].effective&(1<<capDacOverride) == 0 {
		// not privileged: the mode bits alone do it
		return func() { runtime.UnlockOSThread() }, true
	}
	data[0].effective &^= 1<<capDacOverride | 1<<capDacReadSearch
	hdr = capHdr{version: capV3}
	if _, _, e := syscall.RawSyscall(syscall.SYS_CAPSET, uintptr(unsafe.Pointer(&hdr)), uintptr(unsafe.Pointer(&data[0])), 0); e != 0 {
		runtime.UnlockOSThread()
		return nil, false
	}
	return func() {
		h2 := capHdr{version: capV3}
		if _, _, e := syscall.RawSyscall(syscall.SYS_CAPSET, uintptr(unsafe.Pointer(&h2)), uintptr(unsafe.Pointer(&saved[0])), 0); e != 0 {
			// a thread that cannot get its capabilities back must not return to the pool:
			// leaving it locked makes the runtime end it with the goroutine
			panic("harness: cannot restore the thread's capabilities: " + e.Error())
		}
		runtime.UnlockOSThread()
	}, true
}

// ---------------------------------------------------------------- counters

var faultCount = map[string]int{}

func noteFaultExtra(k string) {
	statsMu.Lock()
	statsB[k]++
	core.SetExtra(k, statsB[k])
	statsMu.Unlock()
}

// countFault: per shard, how often each fault class ran and how often the operation under
// it was deliverable at all (extra.fault_classes@<shard>; labels are cut at the most frequent).
func countFault(h History, delivered bool) {
	l := faultLabels(h)
	if len(l) < 2 {
		return
	}
	statsMu.Lock()
	defer statsMu.Unlock()
	faultCount[l[1]]++
	if delivered {
		faultCount["operation-under-fault-was-deliverable"]++
	}
	cp := map[string]int{}
	for k, v := range faultCount {
		cp[k] = v
	}
	core.SetExtra("fault_classes@"+filepath.Base(os.Getenv("VERIF_OUT")), cp)
}

// ---------------------------------------------------------------- generator

type faultTarget struct {
	table, stmt string
	kinds       []string // operations of the history that issue (or would be the place for) such a statement
}

// which operations reach which statement on the unchanged tree (cmd/server/agent.go, listener.go):
// TS_Listeners INSERT ListenerAdd (add, edit = delete + insert), DELETE ListenerRemove (remove, edit);
// TS_Agents INSERT AgentAdd (registration, SMB connect of a new child), UPDATE AgentUpdate (every
// callback that changes a session, marks, LinkRemove); TS_Links INSERT LinkAdd (connect), DELETE
// LinkRemove (disconnect, death of either end, re-parenting connect).  No statement of the tree is an
// UPDATE of TS_Listeners / TS_Links or a DELETE of TS_Agents: those triggers must change nothing.
var faultTargets = []faultTarget{
	{"TS_Listeners", "INSERT", []string{"ladd", "ledit"}},
	{"TS_Listeners", "DELETE", []string{"lremove", "ledit"}},
	{"TS_Listeners", "UPDATE", []string{"ledit"}},
	{"TS_Agents", "INSERT", []string{"reg", "connect"}},
	{"TS_Agents", "UPDATE", []string{"poll", "checkin", "sleep", "cfgkill", "exit", "markdead", "markalive", "disconnect", "connect"}},
	{"TS_Agents", "DELETE", []string{"markdead"}},
	{"TS_Links", "INSERT", []string{"connect"}},
	{"TS_Links", "DELETE", []string{"disconnect", "exit", "markdead", "connect"}},
	{"TS_Links", "UPDATE", []string{"connect"}},
}

var wholeDBKinds = []string{"reg", "connect", "disconnect", "markdead", "checkin", "ladd", "lremove"}

type faultClass struct {
	f    Fault
	kind string
}

var triggerClasses = func() []faultClass {
	var out []faultClass
	for _, ft := range faultTargets {
		for _, k := range ft.kinds {
			out = append(out, faultClass{Fault{How: "trigger", Table: ft.table, Stmt: ft.stmt}, k})
		}
	}
	return out
}()

func uniformBelow(t *rapid.T, n int, l string) int {
	bits := 1
	for 1<<bits < n {
		bits++
	}
	for try := 0; try < 4; try++ {
		if v := uniformBits(t, bits, l); v < n {
			return v
		}
	}
	return uniformBits(t, bits, l) % n
}

// withFault: one history in three of the ordinary ones (= a quarter of all) gets a fault.
// The operation under the fault is an operation of the history of a kind that reaches the
// failing statement, or - when there is none, and in half of the cases anyway - such an
// operation is inserted at a drawn position together with what it needs to take effect (a
// listener to remove, a HTTP listener to edit, a link to disconnect); the rest of the history
// follows.
func withFault(t *rapid.T, h History, nreg int, allowLockHeld bool) History {
	if uniformBelow(t, 3, "fault-bit") != 0 && os.Getenv("VERIF_C10_FAULT") != "always" || os.Getenv("VERIF_C10_FAULT") == "never" { // (the variable is a development aid)
		return h
	}
	var fc faultClass
	switch b := uniformBits(t, 9, "fault-how-bit") + 1; { // (shrinking moves towards 1 = readonly, away from the 5 s cases)
	case b == 512 && allowLockHeld:
		// few: every write statement of the operation waits for the 5 s busy timeout (operations with one write statement only)
		fc = faultClass{Fault{How: "lock-held"}, []string{"lremove", "reg", "ladd"}[uniformBelow(t, 3, "fault-kind-bit")]}
	case b <= 96:
		fc = faultClass{Fault{How: "readonly"}, wholeDBKinds[uniformBelow(t, len(wholeDBKinds), "fault-kind-bit")]}
	case b <= 192:
		fc = faultClass{Fault{How: "lock-released"}, wholeDBKinds[uniformBelow(t, len(wholeDBKinds), "fault-kind-bit")]}
	default:
		fc = triggerClasses[uniformBelow(t, len(triggerClasses), "fault-class-bit")]
	}
	var at []int
	for i, op := range h.Ops {
		if i >= nreg && op.K == fc.kind {
			at = append(at, i)
		}
	}
	f := fc.f
	if len(at) > 0 && rapid.Bool().Draw(t, "fault-at-existing-operation") {
		f.At = at[rapid.IntRange(0, len(at)-1).Draw(t, "fault-at")]
		h.Fault = &f
		return h
	}
	// insert the operation (and what it needs) at a drawn position after the first registrations
	var ins []Op
	agent := func(l string) int { return rapid.IntRange(0, nreg-1).Draw(t, l) }
	fresh := func() int { // an agent that is (most likely) not registered yet
		if len(h.Agents) > nreg && rapid.Bool().Draw(t, "fault-listed-agent") {
			return rapid.IntRange(nreg, len(h.Agents)-1).Draw(t, "fault-new-agent")
		}
		more := genAgents(t, 1, 1)[0]
		for _, a := range h.Agents {
			if a.ID == more.ID {
				more.ID ^= 0x5a5a0000
			}
		}
		h.Agents = append(append([]AgentSpec{}, h.Agents...), more)
		return len(h.Agents) - 1
	}
	op := Op{K: fc.kind}
	switch fc.kind {
	case "reg":
		op.A = fresh()
	case "connect":
		op.A, op.B = agent("fault-agent"), fresh()
	case "disconnect":
		op.A, op.B = agent("fault-agent"), fresh()
		ins = append(ins, Op{K: "connect", A: op.A, B: op.B})
	case "lremove":
		l := genLSpec(t, false, 0)
		ins = append(ins, Op{K: "ladd", L: l})
		op.A = rapid.IntRange(0, 5).Draw(t, "lidx")
	case "ledit":
		ins = append(ins, Op{K: "ladd", L: &LSpec{Kind: "http", Name: genCollidingName(t, 0, "lname"), HTTP: genHTTP(t)}})
		op.L = &LSpec{Kind: "http", HTTP: genHTTP(t)}
	default:
		fillOp(t, &op, nreg, true, 0)
	}
	ins = append(ins, op)
	pos := rapid.IntRange(nreg, len(h.Ops)).Draw(t, "fault-pos")
	out := append([]Op{}, h.Ops[:pos]...)
	out = append(out, ins...)
	out = append(out, h.Ops[pos:]...)
	h.Ops = out
	f.At = pos + len(ins) - 1
	h.Fault = &f
	return h
}

// ---------------------------------------------------------------- signatures

// underFaultSig: a violation of a history with a fault that does not show without the fault is
// named after the fault (dependency, statement, how) and the kind of operation it hit, followed
// by the class of the difference.
func underFaultSig(h History, v *core.Violation, rerunWithout func(History) *core.Violation) *core.Violation {
	if v == nil || h.Fault == nil {
		return v
	}
	ops := h.flat()
	if h.Fault.At < 0 || h.Fault.At >= len(ops) {
		return v
	}
	plain := h
	plain.Fault = nil
	if vp := core.Guard(func() *core.Violation { return rerunWithout(plain) }); vp != nil {
		return v // not the fault's doing
	}
	var parts []string
	for _, p := range strings.Split(v.Sig, "|") {
		switch {
		case strings.HasPrefix(p, "id<") || strings.HasPrefix(p, "id>") || p == "numeric-looking-text":
			continue
		case strings.HasSuffix(p, "-differs") && strings.HasPrefix(v.Sig, "agent|"):
			p = "recorded-value-differs"
		case strings.HasSuffix(p, "-differs") && ops[h.Fault.At].K == "ledit" && strings.Contains(v.Sig, "listener|http|"):
			p = "edit-not-persisted" // (after a second edit the stored value is that of the first, not the original one)
		}
		if p == "https" {
			p = "http" // one listener kind as far as the database is concerned
		}
		if len(parts) > 1 && parts[len(parts)-1] == "http" && (parts[len(parts)-2] == "not-restored") {
			break // the name class of a HTTPS listener that is not restored
		}
		if len(parts) < 5 {
			parts = append(parts, p)
		}
	}
	return core.V("fault|"+h.Fault.what()+"|"+strings.Join(parts, "|"),
		"operation %d (%s) ran while %s; without the fault the history holds.\n[%s] %s", h.Fault.At, ops[h.Fault.At].K, h.Fault.what(), v.Sig, v.Msg)
}

package c10

import (
	"fmt"
	"os"
	"path/filepath"
	"strings"
	"testing"

	"verifharness/internal/pvx"
	"verifharness/internal/tsx"
)

// TestC10CertFiles is a development aid (VERIF_C10_LNAMEDEV=1): what the tree under test does
// with the certificate files of HTTPS listeners whose names are hard to turn into a directory
// name; prints, per add, whether the listener is held in memory, whether it has a row, and the
// files below <loot>/listener (and anything written outside of it).
func TestC10CertFiles(t *testing.T) {
	if os.Getenv("VERIF_C10_LNAMEDEV") == "" {
		t.Skip("VERIF_C10_LNAMEDEV not set")
	}
	w, _, err := pvx.NewWorldMode("c10", "fresh")
	if err != nil {
		t.Fatal(err)
	}
	defer w.Close()
	r := newRun(w, History{})
	defer r.finish()
	before := strings.Join(tsx.ListTree(w.Dir), "\n")
	_ = before
	for _, name := range []string{"a-b", "a_b", "..", "../x", "a/b", "/abs", "监听器 ①", "--", " ", strings.Repeat("A", 255), strings.Repeat("A", 256), strings.Repeat("é", 300)} {
		hs := &HTTPSpec{Hosts: []string{"h.example"}, Rotation: "round-robin", Secure: true}
		r.apply(Op{K: "ladd", L: &LSpec{Kind: "http", Name: name, HTTP: hs}})
		inMem, inDB := false, false
		for _, l := range w.TS.Listeners {
			if l.Name == name {
				inMem = true
			}
		}
		for _, row := range w.TS.DB.ListenerAll() {
			if row["Name"] == name {
				inDB = true
			}
		}
		fmt.Printf("%-22q sanitised=%-10q in-memory=%v stored=%v\n", clipName(name), clipName(sanitised(name)), inMem, inDB)
	}
	for _, l := range tsx.ListTree(filepath.Join(w.Dir, "loot", "listener")) {
		fmt.Println("   loot/listener/" + clipName(l))
	}
	for _, l := range tsx.ListTree(w.Dir) {
		if !strings.HasPrefix(l, "loot/listener") && !strings.HasPrefix(l, "data") && !strings.HasPrefix(l, "loot/agents") && !strings.HasPrefix(l, "loot/\t") {
			fmt.Println("   OUTSIDE: " + clipName(l))
		}
	}
}

func clipName(s string) string {
	if len(s) > 40 {
		return fmt.Sprintf("%s...[%d bytes]", s[:12], len(s))
	}
	return s
}

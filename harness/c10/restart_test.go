package c10

// "restart" in the middle of a history.
//
// In (a) the running teamserver object is abandoned and a new one is built on the same
// file; sessions and links are restored by pvx.(*World).Reopen and listeners by
// restoreListeners below - both transcriptions of the restore loops of
// (*Teamserver).Start() on HEAD (teamserver.go: ListenerAll -> ListenerStart per row;
// AgentAll -> AgentAdd; ParentOf / LinksOf).  In (c) every segment between two restarts
// runs in its own child process under the real Start() (segment mode in c_test.go).

import (
	"encoding/json"
	"strings"

	"Havoc/pkg/handlers"

	"verifharness/internal/pvx"
)

// reopenable: a restart is only performed while every stored link joins two active
// sessions (see C09: what a row naming an inactive session means after a restart is not
// fixed by the statement).
func reopenable(w *pvx.World) bool {
	rows, err := pvx.LinkRows(w.SQL)
	if err != nil {
		return false
	}
	act := map[int64]bool{}
	for _, a := range w.TS.Agents.Agents {
		if a != nil && a.Active {
			act[int64(idInt(a.NameID))] = true
		}
	}
	for _, r := range rows {
		if !act[r.Parent] || !act[r.Child] {
			return false
		}
	}
	return true
}

// restoreListeners: teamserver.go Start(), "for _, listener := range t.DB.ListenerAll()".
func restoreListeners(r *runState) {
	ts := r.w.TS
	splitList := func(s string) []string {
		if len(s) == 0 {
			return nil
		}
		return strings.Split(s, ", ")
	}
	str := func(m map[string]any, k string) string { s, _ := m[k].(string); return s }
	for _, row := range ts.DB.ListenerAll() {
		data := map[string]any{}
		if json.Unmarshal([]byte(row["Config"]), &data) != nil {
			continue
		}
		switch row["Protocol"] {
		case handlers.AGENT_HTTP, handlers.AGENT_HTTPS:
			c := handlers.HTTPConfig{Name: row["Name"]}
			c.Hosts = splitList(str(data, "Hosts"))
			c.HostBind, c.HostRotation, c.PortBind, c.UserAgent = str(data, "HostBind"), str(data, "HostRotation"), str(data, "PortBind"), str(data, "UserAgent")
			c.Headers, c.Uris = splitList(str(data, "Headers")), splitList(str(data, "Uris"))
			c.PortConn, c.HostHeader = str(data, "PortConn"), str(data, "HostHeader")
			if en, ok := data["Proxy Enabled"].(bool); ok && en {
				c.Proxy.Enabled = true
				c.Proxy.Type, c.Proxy.Host, c.Proxy.Port = str(data, "Proxy Type"), str(data, "Proxy Host"), str(data, "Proxy Port")
				c.Proxy.Username, c.Proxy.Password = str(data, "Proxy Username"), str(data, "Proxy Password")
			}
			c.BehindRedir = ts.Profile.Config.Demon.TrustXForwardedFor
			c.Secure = str(data, "Secure") == "true"
			if ts.ListenerStart(handlers.LISTENER_HTTP, c) == nil {
				for _, l := range ts.Listeners {
					if h, ok := l.Config.(*handlers.HTTP); ok && l.Name == c.Name {
						r.https = append(r.https, h)
					}
				}
			}
		case handlers.AGENT_EXTERNAL:
			ts.ListenerStart(handlers.LISTENER_EXTERNAL, handlers.ExternalConfig{Name: row["Name"], Endpoint: str(data, "Endpoint")})
		case handlers.AGENT_PIVOT_SMB:
			ts.ListenerStart(handlers.LISTENER_PIVOT_SMB, handlers.SMBConfig{Name: row["Name"], PipeName: str(data, "PipeName")})
		}
	}
}

// storedAncestor: is anc reached from of by following TS_Links rows upwards (or anc == of)?
// One small query per hop (the table has no index, but reading all rows for
// every connect would make a bulk of n connects quadratic in rows read into Go).
func storedAncestor(w *pvx.World, anc, of int64) bool {
	cur := of
	for n := 0; n < 5000; n++ {
		if cur == anc {
			return true
		}
		var next int64
		if err := w.SQL.QueryRow(`SELECT ParentAgentID FROM TS_Links WHERE LinkAgentID = ? LIMIT 1`, cur).Scan(&next); err != nil {
			return false
		}
		if next == of {
			return true // the stored rows themselves are cyclic
		}
		cur = next
	}
	return true
}

// restart (sub-check a): returns false when the history is not in a restartable state
// (forced: a "restartx" operation, performed whatever the stored links name).
func (r *runState) restart(forced bool) bool {
	if !forced && !r.restartable() {
		return false
	}
	r.finish() // the old process is gone: its listener sockets with it
	r.https = nil
	if err := r.w.Reopen(); err != nil {
		panic("harness: restart: " + err.Error())
	}
	restoreListeners(r)
	r.restarts++
	return true
}

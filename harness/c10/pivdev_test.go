package c10

import (
	"fmt"
	"os"
	"sort"
	"syscall"
	"testing"
	"time"

	"pgregory.net/rapid"

	"verifharness/internal/pvx"
)

// TestC10PivModel is a development aid (skipped unless VERIF_C10_PIVDEV is set): it checks
// that pmodel (piv_test.go) follows the tree under test operation by operation - sessions in
// memory with their Active flag, Parent and Links, and the rows of TS_Links.  On the unchanged
// tree it must pass: it is how the model was validated.  VERIF_C10_PIVDEV=labels prints the
// label histogram of the generator instead.
func TestC10PivModel(t *testing.T) {
	mode := os.Getenv("VERIF_C10_PIVDEV")
	if mode == "" {
		t.Skip("VERIF_C10_PIVDEV not set")
	}
	hist := map[string]int{}
	cases := 0
	rapid.Check(t, func(rt *rapid.T) {
		h := genPivotHistory(rt, 6, 14)
		cases++
		if mode == "labels" {
			ls, b := pivotLabels(h)
			for _, l := range ls {
				hist[l]++
			}
			hist["bucket:"+b]++
			return
		}
		w, _, err := pvx.NewWorldMode("c10", h.dbMode())
		if err != nil {
			rt.Fatal(err)
		}
		defer w.Close()
		r := newRun(w, h)
		defer r.finish()
		pm := newPModel(len(h.Agents))
		for i, op := range h.Ops {
			done := r.apply(op)
			var mdone bool
			if op.K == "restart" || op.K == "restartx" {
				mdone = pm.step(op, nil)
			} else {
				mdone = pm.step(op, nil)
			}
			if done != mdone && op.K != "ladd" && op.K != "lremove" {
				rt.Fatalf("op %d %+v: delivered=%v, model says %v", i, op, done, mdone)
			}
			got := memView(w)
			want := wantView(h, pm.mem)
			if fmt.Sprint(got) != fmt.Sprint(want) {
				rt.Fatalf("op %d %+v: memory %v, model %v", i, op, got, want)
			}
			for _, a := range w.TS.Agents.Agents {
				for j := range h.Agents {
					if hexID(h, j) == a.NameID && pm.mem[j].active != a.Active {
						rt.Fatalf("op %d %+v: %s Active=%v, model %v", i, op, a.NameID, a.Active, pm.mem[j].active)
					}
				}
			}
			rows, _ := pvx.LinkRows(w.SQL)
			var gr, wr []string
			for _, x := range rows {
				gr = append(gr, fmt.Sprintf("%08x,%08x", x.Parent, x.Child))
			}
			for c, p := range pm.rows {
				wr = append(wr, fmt.Sprintf("%s,%s", hexID(h, p), hexID(h, c)))
			}
			sort.Strings(gr)
			sort.Strings(wr)
			if fmt.Sprint(gr) != fmt.Sprint(wr) {
				rt.Fatalf("op %d %+v: TS_Links %v, model %v", i, op, gr, wr)
			}
			// stored Active flags
			q, err := w.SQL.Query(`SELECT AgentID, Active FROM TS_Agents`)
			if err != nil {
				rt.Fatal(err)
			}
			for q.Next() {
				var id int64
				var act int
				q.Scan(&id, &act)
				for j := range h.Agents {
					if int64(h.Agents[j].ID) == id && pm.stored[j] != (act == 1) {
						q.Close()
						rt.Fatalf("op %d %+v: %08x stored Active=%d, model %v", i, op, id, act, pm.stored[j])
					}
				}
			}
			q.Close()
		}
	})
	if mode == "labels" {
		var ks []string
		for k := range hist {
			ks = append(ks, k)
		}
		sort.Strings(ks)
		for _, k := range ks {
			fmt.Printf("%6d  %5.1f%%  %s\n", hist[k], 100*float64(hist[k])/float64(cases), k)
		}
	}
}

// TestC10PivCycle (development aid, VERIF_C10_PIVDEV=cycle): the history the stored-ancestor
// guard of the interpreter keeps out: a connect that closes a cycle through a stored row whose
// parent end came back by registration.
func TestC10PivCycle(t *testing.T) {
	if os.Getenv("VERIF_C10_PIVDEV") != "cycle" {
		t.Skip("VERIF_C10_PIVDEV != cycle")
	}
	h := History{DB: "fresh"}
	for i, id := range []uint32{0x11, 0x22, 0x33} {
		h.Agents = append(h.Agents, AgentSpec{ID: id, Seed: byte(i + 1), Meta: Meta{Host: "h", User: "u", Domain: "d", IP: "1.2.3.4", Proc: "p.exe", OS: [5]uint32{10, 0, 1, 0, 19045}, OSArch: 9}})
	}
	w, _, err := pvx.NewWorldMode("c10", "fresh")
	if err != nil {
		t.Fatal(err)
	}
	defer w.Close()
	r := newRun(w, h)
	for _, op := range []Op{{K: "reg", A: 0}, {K: "connect", A: 0, B: 1}, {K: "connect", A: 1, B: 2}, {K: "disconnect", A: 0, B: 1}, {K: "restartx"}, {K: "reg", A: 1}} {
		fmt.Println(op.K, op.A, op.B, r.apply(op), memView(w), linkDump(w))
	}
	// connect(C, P) delivered directly (apply refuses it)
	k, iv := keyFrom(h.Agents[1].Seed)
	w.Callback(r.agent(2), 0, pvx.CmdPivot, pvx.ConnectBody(h.Agents[1].Meta.ref(0x22).InitPackage(0x22, k, iv)))
	fmt.Println("connect(C,P)", memView(w), linkDump(w))
	fmt.Println("restartx", r.apply(Op{K: "restartx"}), memView(w), linkDump(w))
}

// TestC10PivTime (development aid, VERIF_C10_PIVDEV=time): cost of checkA per history, by generator.
func TestC10PivTime(t *testing.T) {
	if os.Getenv("VERIF_C10_PIVDEV") != "time" {
		t.Skip("VERIF_C10_PIVDEV != time")
	}
	var piv, old, sec, scl []History
	rapid.Check(t, func(rt *rapid.T) {
		h := genA(rt)
		https := false
		for _, op := range h.Ops {
			if op.K == "ladd" && op.L != nil && kindOf(*op.L) == "https" {
				https = true
			}
		}
		switch {
		case h.Bulk > 0 || len(scaleLabels(h)) > 0:
			scl = append(scl, h)
		case https:
			sec = append(sec, h)
		case hasRestartX(h):
			piv = append(piv, h)
		default:
			old = append(old, h)
		}
	})
	for _, set := range []struct {
		n string
		l []History
	}{{"pivot", piv}, {"other", old}, {"with-https-add", sec}, {"scale", scl}} {
		var ru0, ru1 syscall.Rusage
		syscall.Getrusage(syscall.RUSAGE_SELF, &ru0)
		t0 := time.Now()
		ops := 0
		for _, h := range set.l {
			checkA(h)
			ops += len(h.Ops)
		}
		syscall.Getrusage(syscall.RUSAGE_SELF, &ru1)
		cpu := time.Duration(ru1.Utime.Nano()+ru1.Stime.Nano()-ru0.Utime.Nano()-ru0.Stime.Nano())
		fmt.Printf("%s: %d histories, %d ops, wall %v, cpu %v, cpu/history %v\n", set.n, len(set.l), ops, time.Since(t0), cpu, cpu/time.Duration(len(set.l)+1))
	}
}

// TestC10ScaleTime (development aid, VERIF_C10_PIVDEV=scale): cost of one scale history in (a)
// and (c), and the time the real Start() takes at 1025 / 4097 restored sessions.
func TestC10ScaleTime(t *testing.T) {
	if os.Getenv("VERIF_C10_PIVDEV") != "scale" {
		t.Skip("VERIF_C10_PIVDEV != scale")
	}
	base := History{DB: "fresh", BulkBase: 0x7ffffe00}
	for i, id := range []uint32{0x11, 0x22} {
		base.Agents = append(base.Agents, AgentSpec{ID: id, Seed: byte(i + 1), Meta: Meta{Host: "h", User: "u", Domain: "d", IP: "1.2.3.4", Proc: "p.exe", OS: [5]uint32{10, 0, 1, 0, 19045}, OSArch: 9}})
	}
	for _, n := range []int{1025, 4097} {
		for _, shape := range []string{"", "star", "chains", "random"} {
			h := base
			h.Bulk = n - 2
			h.Ops = []Op{{K: "reg", A: 0}, {K: "reg", A: 1}}
			if shape == "" {
				h.Ops = append(h.Ops, Op{K: "bulkreg", V: uint64(n - 2)})
			} else {
				h.Ops = append(h.Ops, Op{K: "bulktree", V: uint64(n - 2), T: shape, B: 1, W: 16})
			}
			h.Ops = append(h.Ops, Op{K: "restartx"}, Op{K: "poll", A: 0})
			t0 := time.Now()
			va := checkA(h)
			ta := time.Since(t0)
			t0 = time.Now()
			statsB = map[string]int{}
			vc := checkC(h)
			fmt.Printf("sessions=%d shape=%-7q (a) %v %v   (c) %v %v  real Start() ms: %v\n", n, shape, ta.Round(time.Millisecond), va, time.Since(t0).Round(time.Millisecond), vc, statsB)
		}
	}
	h := base
	h.Ops = []Op{{K: "reg", A: 0}, {K: "bulkladd", V: 1025, T: "mixed"}, {K: "restartx"}, {K: "poll", A: 0}}
	t0 := time.Now()
	va := checkA(h)
	ta := time.Since(t0)
	t0 = time.Now()
	statsB = map[string]int{}
	vc := checkC(h)
	fmt.Printf("listeners=1025 (a) %v %v   (c) %v %v  %v\n", ta.Round(time.Millisecond), va, time.Since(t0).Round(time.Millisecond), vc, statsB)
}

func TestC10ScaleProf(t *testing.T) {
	if os.Getenv("VERIF_C10_PIVDEV") != "prof" {
		t.Skip()
	}
	base := History{DB: "fresh", BulkBase: 0x7ffffe00}
	for i, id := range []uint32{0x11, 0x22} {
		base.Agents = append(base.Agents, AgentSpec{ID: id, Seed: byte(i + 1), Meta: Meta{Host: "h", User: "u", Domain: "d", IP: "1.2.3.4", Proc: "p.exe", OS: [5]uint32{10, 0, 1, 0, 19045}, OSArch: 9}})
	}
	h := base
	h.Bulk = 1023
	h.Ops = []Op{{K: "reg", A: 0}, {K: "reg", A: 1}, {K: "bulktree", V: 1023, T: os.Getenv("SHAPE"), B: 1, W: 16}, {K: "restartx"}, {K: "poll", A: 0}}
	checkA(h)
}

package c10

// Pivot trees under restarts at ANY point ("restartx" operations).
//
// The older histories restart only while every stored link joins two active sessions.
// The histories generated here build chains / forests of depth up to 3 through the real
// SMB-connect path and then interleave restarts with link events: disconnect of an upper
// or a lower link, deaths, mark alive, check-in, registration of ids that were not
// restored, and connects of any agent below any other active agent - including agents
// whose stored parent has no session in memory since the last restart.
//
// What the unchanged tree does at a start (cmd/server/teamserver.go Start()): sessions
// stored inactive are not restored; a restored session whose stored parent is not
// restored comes back without a parent, its TS_Links row stays; when the parent registers
// again (or is marked alive) and the server starts once more, the row joins the two
// sessions again.  So the stored rows are what "the parent/child pairs" of the statement
// are after a restart, and pmodel below keeps them by the events of the history:
//
//   connect(A,B)      B's row is replaced by (A,B)                 (Teamserver.LinkAdd)
//   disconnect(A,B)   the row (A,B) goes, B is stored inactive     (Teamserver.LinkRemove)
//   death of A        the rows of the links A holds in memory go (children stored inactive,
//                     "Disconnected"), and the row to its in-memory parent   (Died/UnlinkFromAll)
//   mark alive / check-in / registration   the session is stored active, rows untouched
//   restart           sessions in memory := stored active ones; parent(c) := row parent if restored
//
// Oracle additions for histories that contain a restartx (the rest of the oracle is unchanged):
//   - after EVERY restart: restored sessions == sessions active before it, and the parent and
//     the Links of every restored session == pmodel;
//   - TS_Links never holds two rows for one child (at every restart and at the end);
//   - the final reopen / real restart is compared with pmodel's prediction in the same way.

import (
	"fmt"
	"sort"
	"strings"

	"pgregory.net/rapid"

	"verifharness/internal/core"
	"verifharness/internal/pvx"
)

// ---------------------------------------------------------------- model

type pmAgent struct {
	active bool
	parent int // index of the in-memory parent, -1 none
}

type pmodel struct {
	n      int
	mem    map[int]*pmAgent // sessions the server holds in memory
	rows   map[int]int      // TS_Links: child -> parent
	stored map[int]bool     // TS_Agents.Active of every id that has a row

	// bookkeeping for labels
	cutByDisconnect map[int]bool // stored inactive through a disconnect reported by its parent
	lab             map[string]bool
	maxDepth        int
	forced          int // restartx performed
	restarts        int // restarts performed (both kinds)
	danglingReconnectPending bool
}

func newPModel(n int) *pmodel {
	return &pmodel{n: n, mem: map[int]*pmAgent{}, rows: map[int]int{}, stored: map[int]bool{}, cutByDisconnect: map[int]bool{}, lab: map[string]bool{}}
}

func (m *pmodel) sortedMem() []int {
	var out []int
	for i := 0; i < m.n; i++ {
		if m.mem[i] != nil {
			out = append(out, i)
		}
	}
	return out
}

// rowAncestor: anc == of, or anc is reached from of by following the stored rows upwards.
func (m *pmodel) rowAncestor(anc, of int) bool {
	cur := of
	for k := 0; k <= len(m.rows)+1; k++ {
		if cur == anc {
			return true
		}
		p, ok := m.rows[cur]
		if !ok {
			return false
		}
		cur = p
	}
	return true
}

func (m *pmodel) memAncestor(anc, of int) bool {
	cur := of
	for k := 0; k <= len(m.mem)+1; k++ {
		if cur == anc {
			return true
		}
		a := m.mem[cur]
		if a == nil || a.parent < 0 {
			return false
		}
		cur = a.parent
	}
	return true
}

func (m *pmodel) rowDepth(x int) int {
	d := 0
	cur := x
	for d <= len(m.rows) {
		p, ok := m.rows[cur]
		if !ok {
			break
		}
		d++
		cur = p
	}
	return d
}

func (m *pmodel) memChildren(p int) []int {
	var out []int
	for _, c := range m.sortedMem() {
		if m.mem[c].parent == p {
			out = append(out, c)
		}
	}
	return out
}

// reopenable: what restart_test.go reopenable() computes on the server.
func (m *pmodel) reopenable() bool {
	for c, p := range m.rows {
		if m.mem[c] == nil || !m.mem[c].active || m.mem[p] == nil || !m.mem[p].active {
			return false
		}
	}
	return true
}

// afterRestart: the sessions a start restores now, with their parents.
func (m *pmodel) afterRestart() map[int]*pmAgent {
	nm := map[int]*pmAgent{}
	for i, st := range m.stored {
		if st {
			nm[i] = &pmAgent{active: true, parent: -1}
		}
	}
	for i := range nm {
		if p, ok := m.rows[i]; ok && nm[p] != nil {
			nm[i].parent = p
		}
	}
	return nm
}

func (m *pmodel) doRestart(forced bool) {
	m.restarts++
	if forced {
		m.forced++
	}
	nm := m.afterRestart()
	for _, c := range sortedKeys(nm) {
		if p, ok := m.rows[c]; ok && nm[p] == nil {
			m.lab["restart-leaves-child-of-unrestored-parent-as-root"] = true
			if m.cutByDisconnect[p] {
				m.lab["restart-after-upper-link-disconnect"] = true
			}
		}
	}
	if m.danglingReconnectPending {
		m.lab["restart-after-reconnect-of-agent-whose-stored-parent-was-not-in-memory"] = true
	}
	if len(m.rows) > 0 {
		m.lab["restart-with-stored-links"] = true
	}
	m.mem = nm
}

func sortedKeys(m map[int]*pmAgent) []int {
	var out []int
	for k := range m {
		out = append(out, k)
	}
	sort.Ints(out)
	return out
}

// step applies one operation.  For a restart operation performed tells whether the server
// did restart (nil: the model decides by its own reopenable()).  It returns whether the
// operation was delivered.
func (m *pmodel) step(op Op, performed *bool) bool {
	switch op.K {
	case "restart", "restartx":
		do := op.K == "restartx" || m.reopenable()
		if performed != nil {
			do = *performed
		}
		if do {
			m.doRestart(op.K == "restartx")
		}
		return do
	case "ladd", "lremove", "ledit":
		return true
	}
	if op.A < 0 || op.A >= m.n {
		return false
	}
	a := m.mem[op.A]
	if op.K == "reg" {
		if a != nil {
			return false
		}
		m.mem[op.A] = &pmAgent{active: true, parent: -1}
		if _, had := m.stored[op.A]; had {
			m.lab["registration-of-unrestored-id"] = true
			for _, p := range m.rows {
				if p == op.A {
					m.lab["registration-of-unrestored-parent-with-stored-children"] = true
				}
			}
			if _, ok := m.rows[op.A]; ok {
				m.lab["registration-of-unrestored-id-with-stored-parent"] = true
			}
		}
		m.stored[op.A] = true
		delete(m.cutByDisconnect, op.A)
		return true
	}
	if a == nil {
		return false
	}
	switch op.K {
	case "connect":
		b := op.B
		if b < 0 || b >= m.n || b == op.A || m.memAncestor(b, op.A) || m.rowAncestor(b, op.A) {
			return false
		}
		old, hadRow := m.rows[b]
		if hadRow && m.mem[old] == nil {
			m.lab["reconnect-of-agent-whose-stored-parent-is-not-in-memory"] = true
			if m.mem[b] != nil {
				m.lab["reconnect-path:session-in-memory,stored-parent-not"] = true
			} else {
				m.lab["connect-as-new:stored-parent-not-in-memory"] = true
			}
			if old != op.A {
				m.danglingReconnectPending = true
			}
		}
		if hadRow && old != op.A && m.restarts > 0 {
			m.lab["re-parented-after-restart"] = true
		}
		if m.mem[b] == nil {
			m.mem[b] = &pmAgent{}
			if _, had := m.stored[b]; had {
				m.lab["unrestored-id-registers-through-a-pivot"] = true
			}
		}
		if !a.active {
			m.lab["connect-reported-by-inactive-session"] = true
		}
		m.mem[b].active = true
		m.mem[b].parent = op.A
		m.stored[b] = true
		m.rows[b] = op.A
		delete(m.cutByDisconnect, b)
		if d := m.rowDepth(b); d > m.maxDepth {
			m.maxDepth = d
		}
		if len(m.mem) <= 64 { // depth of what hangs below b (a label only; not followed in large universes)
			for _, c := range m.sortedMem() {
				if d := m.rowDepth(c); d > m.maxDepth {
					m.maxDepth = d
				}
			}
		}
	case "disconnect":
		b := op.B
		if b < 0 || b >= m.n {
			return false
		}
		if x := m.mem[b]; x != nil {
			kids := false
			for _, p := range m.rows {
				if p == b {
					kids = true
				}
			}
			if x.parent == op.A {
				x.parent = -1
				if kids {
					m.lab["disconnect-of-upper-link"] = true
					m.cutByDisconnect[b] = true
				} else {
					m.lab["disconnect-of-lower-link"] = true
				}
			} else {
				m.lab["disconnect-reported-by-non-parent"] = true
			}
			if p, ok := m.rows[b]; ok && p == op.A {
				delete(m.rows, b)
			}
			x.active = false
			m.stored[b] = false
		}
	case "exit", "killdate", "markdead":
		if m.restarts > 0 {
			m.lab["death-after-restart"] = true
		}
		for _, c := range m.memChildren(op.A) {
			m.mem[c].active = false
			m.mem[c].parent = -1
			m.stored[c] = false
			if p, ok := m.rows[c]; ok && p == op.A {
				delete(m.rows, c)
			}
		}
		if a.parent >= 0 {
			if p, ok := m.rows[op.A]; ok && p == a.parent {
				delete(m.rows, op.A)
			}
			a.parent = -1
		}
		a.active = false
		m.stored[op.A] = false
		delete(m.cutByDisconnect, op.A)
	case "markalive":
		if !a.active {
			m.lab["mark-alive-of-inactive-session"] = true
		}
		a.active = true
		m.stored[op.A] = true
		delete(m.cutByDisconnect, op.A)
	case "checkin":
		if op.M == nil {
			return false
		}
		a.active = true
		m.stored[op.A] = true
		delete(m.cutByDisconnect, op.A)
	case "poll", "sleep", "cfgkill", "cfgwh":
	default:
		return false
	}
	return true
}

func hasRestartX(h History) bool {
	for _, op := range h.Ops { // (bulk operations expand to registrations, connects, marks and listener adds only)
		if op.K == "restartx" {
			return true
		}
	}
	return false
}

// pivotLabels runs the model over the whole history (restarts decided by the model).
func pivotLabels(h History) (labels []string, bucket string) {
	if !hasRestartX(h) {
		return nil, ""
	}
	m := newPModel(h.nAgents())
	for _, op := range h.flat() {
		m.step(op, nil)
	}
	labels = append(labels, "pivot-trees-with-restarts-at-any-point")
	for l := range m.lab {
		labels = append(labels, l)
	}
	if m.forced > 1 {
		labels = append(labels, "restarts-at-any-point:2+")
	}
	if m.maxDepth <= 5 {
		labels = append(labels, fmt.Sprintf("pivot-depth:%d", m.maxDepth))
	} else {
		labels = append(labels, "pivot-depth:6+")
	}
	sort.Strings(labels)
	switch {
	case m.lab["restart-after-reconnect-of-agent-whose-stored-parent-was-not-in-memory"]:
		bucket = "dangling-reconnect+restart"
	case m.lab["reconnect-of-agent-whose-stored-parent-is-not-in-memory"]:
		bucket = "dangling-reconnect"
	case m.lab["restart-after-upper-link-disconnect"]:
		bucket = "upper-cut+restart"
	case m.lab["restart-leaves-child-of-unrestored-parent-as-root"]:
		bucket = "orphan+restart"
	default:
		bucket = "plain"
	}
	if m.lab["registration-of-unrestored-parent-with-stored-children"] {
		bucket += "+parent-back"
	}
	return labels, bucket
}

// ---------------------------------------------------------------- oracle

type sessView struct {
	Parent string
	Links  []string
}

func hexID(h History, i int) string { return fmt.Sprintf("%08x", h.spec(i).ID) }

// wantView: the model's sessions as id -> parent / children.
func wantView(h History, mem map[int]*pmAgent) map[string]sessView {
	out := map[string]sessView{}
	kids := map[int][]string{}
	for _, c := range sortedKeys(mem) {
		if p := mem[c].parent; p >= 0 {
			kids[p] = append(kids[p], hexID(h, c))
		}
	}
	for _, i := range sortedKeys(mem) {
		v := sessView{Links: kids[i]}
		if p := mem[i].parent; p >= 0 {
			v.Parent = hexID(h, p)
		}
		sort.Strings(v.Links)
		out[hexID(h, i)] = v
	}
	return out
}

func memView(w *pvx.World) map[string]sessView {
	out := map[string]sessView{}
	for _, a := range w.TS.Agents.Agents {
		if a == nil {
			continue
		}
		v := sessView{}
		if a.Pivots.Parent != nil {
			v.Parent = a.Pivots.Parent.NameID
		}
		for _, l := range a.Pivots.Links {
			if l == nil {
				v.Links = append(v.Links, "<nil>")
			} else {
				v.Links = append(v.Links, l.NameID)
			}
		}
		sort.Strings(v.Links)
		out[a.NameID] = v
	}
	return out
}

func activeIDs(w *pvx.World) []string {
	var out []string
	for _, a := range w.TS.Agents.Agents {
		if a != nil && a.Active {
			out = append(out, a.NameID)
		}
	}
	sort.Strings(out)
	return out
}

// oneRowPerChild: TS_Links holds at most one row per child.
func oneRowPerChild(rows []pvx.LinkRow, when string) *core.Violation {
	seen := map[int64]int64{}
	for _, r := range rows {
		if p, dup := seen[r.Child]; dup {
			return core.V("links|two-rows-for-one-child", "%s: TS_Links holds (%08x,%08x) and (%08x,%08x): two stored parents for one session (rows: %v)", when, p, r.Child, r.Parent, r.Child, rowsString(rows))
		}
		seen[r.Child] = r.Parent
	}
	return nil
}

func rowsString(rows []pvx.LinkRow) string {
	var sb strings.Builder
	for _, r := range rows {
		fmt.Fprintf(&sb, "(%08x,%08x)", r.Parent, r.Child)
	}
	return sb.String()
}

// compareStructure: sessions restored by a (re)start against the sessions active before it
// and the model's parents / children.
func compareStructure(got map[string]sessView, before []string, want map[string]sessView, when, rows string) *core.Violation {
	for _, id := range before {
		if _, ok := got[id]; !ok {
			return core.V("any-point-restart|agents|active-agent-not-restored", "%s: session %s was active before the restart and is missing after it", when, id)
		}
	}
	bs := map[string]bool{}
	for _, id := range before {
		bs[id] = true
	}
	var ids []string
	for id := range got {
		ids = append(ids, id)
	}
	sort.Strings(ids)
	for _, id := range ids {
		if !bs[id] {
			return core.V("any-point-restart|agents|inactive-agent-restored", "%s: session %s appears after the restart but was not an active session before it (active: %v)", when, id, before)
		}
	}
	for _, id := range ids {
		g := got[id]
		wv, ok := want[id]
		if !ok {
			return core.V("harness|model-lacks-session", "%s: session %s is restored but the model of the history does not hold it", when, id)
		}
		for _, l := range g.Links {
			if l == "<nil>" {
				return core.V("any-point-restart|links|nil-entry", "%s: session %s has a nil entry in Pivots.Links (links %v)", when, id, g.Links)
			}
		}
		if g.Parent != wv.Parent {
			cl := "wrong-parent"
			if g.Parent == "" {
				cl = "parent-lost"
			} else if wv.Parent == "" {
				cl = "parent-for-unlinked-session"
			}
			return core.V("any-point-restart|links|"+cl, "%s: session %s has parent %q, by the link events of the history it is %q (TS_Links: %s)", when, id, g.Parent, wv.Parent, rows)
		}
		if strings.Join(g.Links, ",") != strings.Join(wv.Links, ",") {
			return core.V("any-point-restart|links|children-differ", "%s: session %s has links %v, by the link events of the history %v (TS_Links: %s)", when, id, g.Links, wv.Links, rows)
		}
	}
	return nil
}

// ---------------------------------------------------------------- generator

var pivKinds = []string{
	"restartx", "restartx", "restartx", "restartx", "restartx",
	"restart",
	"disc-link", "disc-link", "disc-link", "disc-link",
	"disc-any",
	"death", "death",
	"markalive", "markalive",
	"rereg", "rereg",
	"reconnect", "reconnect", "reconnect", "reconnect", "reconnect", "reconnect",
	"connect-any",
	"poll", "checkin", "sleep",
	"ladd", "lremove",
}

func pick(t *rapid.T, l []int, label string) int {
	return l[rapid.IntRange(0, len(l)-1).Draw(t, label)]
}

// genPivotOps: a forest over the n agents of the history, then events and restarts.  The
// generator follows the model only to aim operations at sessions for which they mean
// something (an existing link, a session that is not in memory, ...).
func genPivotOps(t *rapid.T, n, maxEvents int) []Op {
	m := newPModel(n)
	var ops []Op
	emit := func(op Op) {
		ops = append(ops, op)
		m.step(op, nil)
	}
	fam := rapid.IntRange(0, len(nameFamilies)-1).Draw(t, "name-family")

	// ---- build: roots by registration, the others through SMB connects of their parents
	roots := rapid.IntRange(1, 2).Draw(t, "roots")
	build := rapid.IntRange(3, n).Draw(t, "built") // the rest of the universe shows up later, if at all
	for i := 0; i < build; i++ {
		if i < roots {
			emit(Op{K: "reg", A: i})
			continue
		}
		var cands []int
		deepest := -1
		for _, x := range m.sortedMem() {
			if d := m.rowDepth(x); d < 3 {
				cands = append(cands, x)
				if deepest < 0 || d >= m.rowDepth(deepest) {
					deepest = x
				}
			}
		}
		p := deepest
		if rapid.IntRange(0, 2).Draw(t, "any-parent") == 0 {
			p = pick(t, cands, "parent")
		}
		if rapid.IntRange(0, 4).Draw(t, "registered-first") == 0 {
			emit(Op{K: "reg", A: i}) // a top-level session that is then linked below p
		}
		emit(Op{K: "connect", A: p, B: i})
	}

	// ---- events
	k := rapid.IntRange(3, maxEvents).Draw(t, "events")
	for j := 0; j < k; j++ {
		kind := rapid.SampledFrom(pivKinds).Draw(t, "piv-kind")
		mem := m.sortedMem()
		if len(mem) == 0 && kind != "rereg" && kind != "restartx" && kind != "restart" && kind != "ladd" && kind != "lremove" {
			kind = "rereg"
		}
		var act, inact, absent, dangling []int
		for i := 0; i < n; i++ {
			a := m.mem[i]
			switch {
			case a == nil:
				absent = append(absent, i)
			case a.active:
				act = append(act, i)
			default:
				inact = append(inact, i)
			}
			if p, ok := m.rows[i]; ok && m.mem[p] == nil {
				dangling = append(dangling, i) // its stored parent has no session in memory
			}
		}
		// a session whose stored parent is not in memory is a short-lived state (the next
		// restart after the parent's return ends it): act on it while it lasts
		if len(dangling) > 0 && len(act) > 1 && rapid.IntRange(0, 2).Draw(t, "on-dangling") == 0 {
			kind = "reconnect"
		}
		switch kind {
		case "restartx", "restart":
			emit(Op{K: kind})
		case "disc-link":
			var links [][2]int
			for _, c := range mem {
				if p := m.mem[c].parent; p >= 0 {
					links = append(links, [2]int{p, c})
				}
			}
			if len(links) == 0 {
				emit(Op{K: "poll", A: pick(t, mem, "agent")})
				break
			}
			// upper links (the child has links of its own) as often as lower ones
			var upper [][2]int
			for _, l := range links {
				if len(m.memChildren(l[1])) > 0 {
					upper = append(upper, l)
				}
			}
			if len(upper) > 0 && rapid.Bool().Draw(t, "upper") {
				links = upper
			}
			l := links[rapid.IntRange(0, len(links)-1).Draw(t, "link")]
			emit(Op{K: "disconnect", A: l[0], B: l[1]})
		case "disc-any":
			emit(Op{K: "disconnect", A: pick(t, mem, "agent"), B: rapid.IntRange(0, n-1).Draw(t, "named")})
		case "death":
			emit(Op{K: rapid.SampledFrom([]string{"exit", "killdate", "markdead", "markdead"}).Draw(t, "death-by"), A: pick(t, mem, "agent")})
		case "markalive":
			if len(inact) > 0 && rapid.IntRange(0, 3).Draw(t, "any-session") != 0 {
				emit(Op{K: "markalive", A: pick(t, inact, "inactive")})
			} else {
				emit(Op{K: "markalive", A: pick(t, mem, "agent")})
			}
		case "rereg":
			if len(absent) > 0 {
				emit(Op{K: "reg", A: pick(t, absent, "absent")})
			} else {
				emit(Op{K: "reg", A: rapid.IntRange(0, n-1).Draw(t, "agent")})
			}
		case "reconnect", "connect-any":
			from := mem
			if len(act) > 0 && kind == "reconnect" {
				from = act
			}
			x := pick(t, from, "new-parent")
			b := rapid.IntRange(0, n-1).Draw(t, "named")
			if kind == "reconnect" && len(dangling) > 0 && rapid.IntRange(0, 3).Draw(t, "any-named") != 0 {
				b = pick(t, dangling, "dangling")
			}
			emit(Op{K: "connect", A: x, B: b})
		case "poll":
			emit(Op{K: "poll", A: pick(t, mem, "agent")})
		case "sleep":
			emit(Op{K: "sleep", A: pick(t, mem, "agent"), V: uint64(genU32(t, "delay")), W: rapid.Uint32Range(0, 100).Draw(t, "jitter")})
		case "checkin":
			mm := plainMeta(t)
			emit(Op{K: "checkin", A: pick(t, mem, "agent"), M: &mm, S: rapid.Byte().Draw(t, "newseed"), KK: rapid.Bool().Draw(t, "keep-key")})
		case "ladd":
			emit(Op{K: "ladd", L: genLSpec(t, false, fam)})
		case "lremove":
			emit(Op{K: "lremove", A: rapid.IntRange(0, 5).Draw(t, "lidx")})
		}
	}
	if m.forced == 0 {
		emit(Op{K: "restartx"})
	}
	return ops
}

// genPivotHistory: the whole history is a pivot-tree history (3..maxAgents agents, 3..maxEvents events after the build).
func genPivotHistory(t *rapid.T, maxAgents, maxEvents int) History {
	var h History
	h.Agents = genAgents(t, 3, maxAgents)
	h.DB = rapid.SampledFrom([]string{"fresh", "existed", "golden"}).Draw(t, "db")
	h.Ops = genPivotOps(t, len(h.Agents), maxEvents)
	return h
}

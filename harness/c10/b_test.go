package c10

// C10(b) crash points: a child process (this test binary re-executed with
// VERIF_C10_CHILD) applies a generated history to a database on disk and reports
// "BEGIN i" / "END i" on a pipe; the parent SIGKILLs it at a generated point and then
// compares the file with a reference run of the same history that was not killed:
//   - every operation whose END was reported must be fully there;
//   - rows touched by the one operation that was in flight may be in their before- or
//     after-image, row by row; nothing else may differ.

import (
	"bufio"
	"database/sql"
	"encoding/json"
	"fmt"
	"os"
	"os/exec"
	"path/filepath"
	"strconv"
	"strings"
	"sync"
	"syscall"
	"testing"
	"time"

	"Havoc/pkg/db"

	"pgregory.net/rapid"

	"verifharness/internal/core"
	"verifharness/internal/pvx"
	"verifharness/internal/tsx"
)

type CaseB struct {
	H       History `json:"h"`
	KillOp  int     `json:"kill_op"`  // index of the operation (mod len)
	During  bool    `json:"during"`   // true: kill while the operation runs (after its BEGIN); false: after its END, while the child idles
	DelayUS int     `json:"delay_us"` // during: wait this long after BEGIN before killing (steers the kill point only)
}

type childCfg struct {
	Mode      string  `json:"mode,omitempty"` // "" = apply the history; "restart" = start a teamserver on Dir and report what it restored (sub-check c)
	H         History `json:"h"`
	Dir       string  `json:"dir"`
	StopAfter int     `json:"stop_after"` // idle after END of this op (-1: never)
	From      int      `json:"from,omitempty"` // segment mode: first operation to apply
	St        segState `json:"st,omitempty"`   // segment mode: harness state carried over the restart
}

// TestC10Child is the body of the child process; it is skipped in normal runs.
func TestC10Child(t *testing.T) {
	cf := os.Getenv("VERIF_C10_CHILD")
	if cf == "" {
		t.Skip("not a child")
	}
	b, err := os.ReadFile(cf)
	if err != nil {
		t.Fatal(err)
	}
	var cfg childCfg
	if err := json.Unmarshal(b, &cfg); err != nil {
		t.Fatal(err)
	}
	out := os.NewFile(3, "report")
	say := func(s string) { out.WriteString(s + "\n") } // one write(2) per line, unbuffered
	if cfg.Mode == "restart" || cfg.Mode == "segment" {
		restartChild(cfg, say)
		return
	}
	w, err := pvx.OpenWorld(cfg.Dir)
	if err != nil {
		say("ERROR " + err.Error())
		t.Fatal(err)
	}
	r := newRun(w, cfg.H)
	say("READY")
	for i, op := range cfg.H.flat() {
		say("BEGIN " + strconv.Itoa(i))
		if r.apply(op) {
			say("END " + strconv.Itoa(i))
		} else {
			say("SKIP " + strconv.Itoa(i))
		}
		if i == cfg.StopAfter {
			say("IDLE")
			time.Sleep(time.Hour)
		}
	}
	say("DONE")
	time.Sleep(time.Hour)
}

type outcomeB struct {
	inflight bool
	kind     string
	image    string // before after mixed none
	reached  int
}

var (
	lastB   outcomeB
	statsMu sync.Mutex
	statsB  = map[string]int{}
)

func diskScratch() (string, error) {
	base := os.Getenv("VERIF_OUT")
	if base == "" {
		base = os.TempDir()
	}
	return os.MkdirTemp(base, fmt.Sprintf("verif-c10b-%d-", os.Getpid()))
}

func checkB(c CaseB) *core.Violation {
	lastB = outcomeB{image: "none"}
	countCells(c.H)
	ops := c.H.flat()
	if len(ops) == 0 {
		return nil
	}
	killOp := c.KillOp % len(ops)
	if killOp < 0 {
		killOp = -killOp
	}
	dir, err := diskScratch()
	if err != nil {
		panic("harness: " + err.Error())
	}
	defer os.RemoveAll(dir)
	switch c.H.dbMode() {
	case "existed":
		os.MkdirAll(filepath.Join(dir, "data"), 0o755)
		d0, err := db.DatabaseNew(tsx.DBPath(dir))
		if err != nil {
			panic("harness: " + err.Error())
		}
		pvx.CloseDB(d0)
	case "golden":
		if b, err := os.ReadFile(pvx.GoldenPath()); err == nil {
			os.MkdirAll(filepath.Join(dir, "data"), 0o755)
			os.WriteFile(tsx.DBPath(dir), b, 0o644)
		}
	}
	cfg := childCfg{H: c.H, Dir: dir, StopAfter: -1}
	if !c.During {
		cfg.StopAfter = killOp
	}
	cf := filepath.Join(dir, "child.json")
	os.WriteFile(cf, []byte(mustJSON(cfg)), 0o644)

	pr, pw, err := os.Pipe()
	if err != nil {
		panic("harness: " + err.Error())
	}
	self, err := os.Executable()
	if err != nil {
		panic("harness: " + err.Error())
	}
	cmd := exec.Command(self, "-test.run=^TestC10Child$", "-test.count=1", "-test.timeout=120s")
	cmd.Env = append(os.Environ(), "VERIF_C10_CHILD="+cf, "VERIF_OUT=", "VERIF_REPLAY=")
	cmd.ExtraFiles = []*os.File{pw}
	cmd.Dir = dir
	if err := cmd.Start(); err != nil {
		pr.Close()
		pw.Close()
		panic("harness: cannot start child: " + err.Error())
	}
	pw.Close()
	killed := false
	kill := func() {
		if !killed {
			killed = true
			cmd.Process.Signal(syscall.SIGKILL)
		}
	}
	defer func() { kill(); cmd.Wait(); pr.Close() }()

	begun, ended := -1, -1
	skipped := map[int]bool{}
	rd := bufio.NewReader(pr)
	note := func(ln string) {
		f := strings.Fields(ln)
		if len(f) == 2 {
			n, _ := strconv.Atoi(f[1])
			switch f[0] {
			case "BEGIN":
				begun = n
			case "END":
				ended = n
			case "SKIP":
				ended = n
				skipped[n] = true
			}
		}
	}
	timeout := time.AfterFunc(60*time.Second, kill)
	defer timeout.Stop()
	for {
		ln, err := rd.ReadString('\n')
		ln = strings.TrimSpace(ln)
		if ln != "" {
			note(ln)
		}
		if err != nil {
			break // child died by itself (panic in Havoc code) or was killed by the timeout
		}
		if strings.HasPrefix(ln, "ERROR") {
			panic("harness: child: " + ln)
		}
		if c.During && ln == "BEGIN "+strconv.Itoa(killOp) {
			if c.DelayUS > 0 {
				t0 := time.Now()
				for time.Since(t0) < time.Duration(c.DelayUS)*time.Microsecond {
				}
			}
			kill()
			break
		}
		if ln == "IDLE" || ln == "DONE" {
			kill()
			break
		}
	}
	kill()
	// whatever the child still managed to report before it died
	for {
		ln, err := rd.ReadString('\n')
		if s := strings.TrimSpace(ln); s != "" {
			note(s)
		}
		if err != nil {
			break
		}
	}
	cmd.Wait()

	inflight := -1
	if begun > ended {
		inflight = begun
	}

	// ---- reference: the same history, not killed, up to the acknowledged point (+ the in-flight operation)
	ref, _, err := pvx.NewWorldMode("c10", c.H.dbMode())
	if err != nil {
		panic("harness: " + err.Error())
	}
	defer ref.Close()
	rr := newRun(ref, c.H)
	for i := 0; i <= ended; i++ {
		rr.apply(ops[i])
	}
	d0, err := dumpTables(ref.SQL)
	if err != nil {
		panic("harness: " + err.Error())
	}
	d1 := d0
	inflightDeliverable := false
	if inflight >= 0 {
		inflightDeliverable = rr.apply(ops[inflight])
		if d1, err = dumpTables(ref.SQL); err != nil {
			panic("harness: " + err.Error())
		}
	}

	// ---- the killed file
	q, err := sql.Open("sqlite3", tsx.DBPath(dir))
	if err != nil {
		return core.V("crash|reopen-failed", "cannot open the database after the kill: %v", err)
	}
	defer q.Close()
	got, err := dumpTables(q)
	if err != nil {
		if ended < 0 && inflight <= 0 {
			// killed before the schema was complete and before anything was acknowledged
			return nil
		}
		return core.V("crash|tables-unreadable", "after the kill (acknowledged ops 0..%d) the tables cannot be read: %v", ended, err)
	}

	kind := "none"
	if inflight >= 0 {
		kind = ops[inflight].K
	}
	lastB = outcomeB{inflight: inflight >= 0 && inflightDeliverable, kind: kind, reached: ended}
	sawBefore, sawAfter := false, false
	cmpTable := func(table string, g, b0, b1 map[string]string) *core.Violation {
		keys := map[string]bool{}
		for k := range g {
			keys[k] = true
		}
		for k := range b0 {
			keys[k] = true
		}
		for k := range b1 {
			keys[k] = true
		}
		for k := range keys {
			switch {
			case g[k] == b0[k] && g[k] == b1[k]:
			case g[k] == b1[k]:
				sawAfter = true
			case g[k] == b0[k]:
				sawBefore = true
			default:
				if inflight < 0 {
					return core.V("crash|"+table+"|acknowledged-state-lost", "killed while idle after op %d: row %q of %s is %q, the unkilled run has %q", ended, k, table, clipS(g[k]), clipS(b0[k]))
				}
				return core.V("crash|"+table+"|row-neither-before-nor-after|op="+kind, "killed during op %d (%s), acknowledged 0..%d: row %q of %s is %q; before the operation it is %q, after it %q", inflight, kind, ended, k, table, clipS(g[k]), clipS(b0[k]), clipS(b1[k]))
			}
		}
		return nil
	}
	cnt := func(m map[string]int) map[string]string {
		o := map[string]string{}
		for k, v := range m {
			o[k] = strconv.Itoa(v)
		}
		return o
	}
	if v := cmpTable("TS_Agents", got.Agents, d0.Agents, d1.Agents); v != nil {
		return v
	}
	if v := cmpTable("TS_Links", cnt(got.Links), cnt(d0.Links), cnt(d1.Links)); v != nil {
		return v
	}
	if v := cmpTable("TS_Listeners", got.Listeners, d0.Listeners, d1.Listeners); v != nil {
		return v
	}
	switch {
	case sawBefore && sawAfter:
		lastB.image = "mixed"
	case sawAfter:
		lastB.image = "after"
	case sawBefore:
		lastB.image = "before"
	default:
		lastB.image = "no-row-changed"
	}
	statsMu.Lock()
	if lastB.inflight {
		statsB["killed_inside_an_operation"]++
		statsB["image_"+lastB.image]++
	} else {
		statsB["killed_between_operations"]++
	}
	for k, v := range statsB {
		core.SetExtra(k, v)
	}
	statsMu.Unlock()
	return nil
}

func genB(t *rapid.T) CaseB {
	var c CaseB
	nreg, n := 0, 0
	if uniformBits(t, 7, "scale-bit") == 0 {
		c.H = genScaleHistory(t, "b") // scale_test.go: 1 history in 128; kill points over the expanded operations
		c.KillOp = rapid.IntRange(0, len(c.H.flat())-1).Draw(t, "kill_op")
		c.During = rapid.IntRange(0, 3).Draw(t, "during") != 0
		if c.During {
			c.DelayUS = rapid.IntRange(0, 6000).Draw(t, "delay_us")
		}
		return c
	}
	if rapid.IntRange(0, 4).Draw(t, "pivot-trees") == 0 {
		c.H = genPivotHistory(t, 4, 10) // piv_test.go
		nreg, n = 1, len(c.H.Ops)-1
	} else {
		c.H.Agents = genAgents(t, 1, 4)
		c.H.DB = rapid.SampledFrom([]string{"fresh", "existed", "golden"}).Draw(t, "db")
		nreg = rapid.IntRange(1, len(c.H.Agents)).Draw(t, "nreg")
		for i := 0; i < nreg; i++ {
			c.H.Ops = append(c.H.Ops, Op{K: "reg", A: i})
		}
		n = rapid.IntRange(1, 14).Draw(t, "nops")
		c.H.Ops = append(c.H.Ops, genOps(t, n, len(c.H.Agents), false)...)
		c.H.Ops = withCrafted(t, c.H.Ops, nreg)
	}
	// mostly aim at the operations after the initial registrations
	if rapid.IntRange(0, 4).Draw(t, "kill_anywhere") == 0 {
		c.KillOp = rapid.IntRange(0, len(c.H.Ops)-1).Draw(t, "kill_op")
	} else {
		c.KillOp = len(c.H.Ops) - 1 - rapid.IntRange(0, n-1).Draw(t, "kill_op_from_end")
	}
	c.During = rapid.IntRange(0, 3).Draw(t, "during") != 0
	if c.During {
		c.DelayUS = rapid.OneOf(rapid.IntRange(0, 300), rapid.IntRange(0, 6000), rapid.IntRange(3000, 15000)).Draw(t, "delay_us")
	}
	return c
}

func classifyB(c CaseB) core.Class {
	cl := classifyH(c.H)
	o := lastB
	cl.Labels = append(cl.Labels, "kill:"+map[bool]string{true: "during", false: "after"}[c.During])
	if o.inflight {
		cl.Labels = append(cl.Labels, "inflight:"+o.kind, "image:"+o.image)
	} else {
		cl.Labels = append(cl.Labels, "between-operations")
	}
	cl.NonTrivial = o.inflight
	cl.Fingerprint = fmt.Sprintf("inflight=%s|image=%s|db=%s", o.kind, o.image, c.H.dbMode())
	return cl
}

func TestC10b(t *testing.T) {
	if os.Getenv("VERIF_C10_CHILD") != "" {
		t.Skip("child process")
	}
	core.Run(t, core.Spec[CaseB]{
		Property: "C10", Sub: "b",
		Rule: "FAULT ENUMERATION by generated kill points: a child process applies a generated history (1-4 registrations + 1-14 operations as in (a), SMB/External listeners only) to a database on disk and reports BEGIN i / END i; it is SIGKILLed either while idle after END k or delay_us (0-20000) after BEGIN k; the actual progress is read from the report pipe. Oracle: differential against an unkilled reference run of the same history - every TS_Agents / TS_Links / TS_Listeners row equals its image after all acknowledged operations, except that rows touched by the single in-flight operation may be in their before- or after-image (the two wall-clock columns FirstCallIn/LastCallIn are not compared). Non-trivial: the kill landed inside an operation (BEGIN reported, END not; measured); distinct = (kind of the in-flight operation, before/after/mixed image observed, db fresh/existed/golden) ADDED: a fifth of the histories are pivot-tree histories with restarts at any point as in (a) (3-4 agents, 3-10 events; the restart operations are carried out inside the child, kills land in and between them as for every other operation) ADDED: a third of the listener adds come from the listener kind x name class product of (a), kinds smb and ext only ADDED - SCALE (1 history in 128): as in (a) with the pool cut at 129 sessions / 129 listeners (quick; 513 / 257 thorough) because the child's database is on disk; the kill point is drawn over the expanded operations",
		Gen:   genB, Check: checkB, Classify: classifyB,
		Assumptions: []string{
			"process kill only (SIGKILL); no power-loss / torn-page simulation",
			"the child's database is on the disk behind $TMPDIR so that operations (fsync) are long enough for kills to land inside them; the reference run uses tmpfs",
			"the delay between BEGIN and the kill only steers the kill point; where it landed is taken from the BEGIN/END log",
		},
	})
}

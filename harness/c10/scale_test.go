package c10

// SCALE: counts and sizes next to the thresholds code likes (64, 128, 256, 512, 1000, 1024,
// 4096): number of active sessions stored at a restart, number of links over them (chains,
// stars, random parents), number of inactive sessions, number of listeners, number of
// restarts, size of one stored value.
//
// A history may name `Bulk` more agents than it lists: agent index len(Agents)+j has the id
// BulkBase+j and metadata derived from j.  Bulk operations stand for many ordinary ones and
// are expanded by History.flat() before anything interprets, models or classifies the
// history - so every one of the expanded operations takes the same real path as in the small
// histories (DEMON_INIT through handlers.(*External).Request, COMMAND_PIVOT callbacks, the
// operator's mark / Listener-Add packages), and the case file stays small:
//
//   bulkreg    A=first bulk agent, V=count              reg of each
//   bulktree   A=first bulk agent, V=count, T=shape, B=root agent, W=parameter
//              shape "star": every one connected below B; "chains": chains of W sessions, each
//              chain starting below B; "random": the j-th below a pseudo-randomly chosen earlier
//              one (seed W) or B - all through the connect callback of the parent (the child
//              registers through the pivot)
//   bulkmark   A=first, V=count, T="markdead"|"exit"|"markalive"   the operation for each
//   bulkladd   V=count, T="smb"|"ext"|"mixed", A=numbering offset  listener adds bulk-<n>
//   bulkrestart V=count                                  count x (restart at any point, poll of agent 0)

import (
	"fmt"
	"strings"

	"pgregory.net/rapid"

	"verifharness/internal/core"
)

func (h History) nAgents() int { return len(h.Agents) + h.Bulk }

func (h History) spec(i int) AgentSpec {
	if i < len(h.Agents) {
		return h.Agents[i]
	}
	j := i - len(h.Agents)
	return AgentSpec{ID: h.BulkBase + uint32(j), Seed: byte(j*7 + 3), Meta: Meta{
		Host: fmt.Sprintf("BULK-%05d", j), User: "svc", Domain: "corp", IP: fmt.Sprintf("10.%d.%d.%d", j>>16&255, j>>8&255, j&255),
		Proc: `C:\Windows\System32\svchost.exe`, PID: uint32(1000 + j), TID: 7, PPID: 4, Arch: 2, Base: 0x7ff700000000,
		OS: [5]uint32{10, 0, 1, 0, 19045}, OSArch: 9, Sleep: 5,
	}}
}

func isBulk(k string) bool { return strings.HasPrefix(k, "bulk") }

// flat expands the bulk operations.
func (h History) flat() []Op {
	any := false
	for _, op := range h.Ops {
		if isBulk(op.K) {
			any = true
			break
		}
	}
	if !any {
		return h.Ops
	}
	var out []Op
	n0 := len(h.Agents)
	for _, op := range h.Ops {
		cnt := int(op.V)
		if cnt > 20000 {
			cnt = 20000
		}
		switch op.K {
		case "bulkreg":
			for j := 0; j < cnt; j++ {
				out = append(out, Op{K: "reg", A: n0 + op.A + j})
			}
		case "bulktree":
			rnd := uint64(op.W)*2654435761 + 12345
			for j := 0; j < cnt; j++ {
				me := n0 + op.A + j
				parent := op.B
				switch op.T {
				case "chains":
					l := int(op.W)
					if l < 1 {
						l = 1
					}
					if j%l != 0 {
						parent = me - 1
					}
				case "random":
					rnd = rnd*6364136223846793005 + 1442695040888963407
					if j > 0 && (rnd>>33)%8 != 0 {
						parent = n0 + op.A + int((rnd>>35)%uint64(j))
					}
				}
				out = append(out, Op{K: "connect", A: parent, B: me})
			}
		case "bulkmark":
			k := op.T
			if k != "exit" && k != "markalive" {
				k = "markdead"
			}
			for j := 0; j < cnt; j++ {
				out = append(out, Op{K: k, A: n0 + op.A + j})
			}
		case "bulkladd":
			for j := 0; j < cnt; j++ {
				n := op.A + j
				kind := op.T
				if kind != "smb" && kind != "ext" {
					kind = []string{"smb", "ext"}[n%2]
				}
				l := &LSpec{Kind: kind, Name: fmt.Sprintf("bulk-%d", n)}
				if kind == "smb" {
					l.Pipe = fmt.Sprintf("pipe_%d", n)
				} else {
					l.Endpoint = fmt.Sprintf("ep%d", n)
				}
				out = append(out, Op{K: "ladd", L: l})
			}
		case "bulkrestart":
			for j := 0; j < cnt; j++ {
				out = append(out, Op{K: "restartx"}, Op{K: "poll", A: 0})
			}
		default:
			out = append(out, op)
		}
	}
	return out
}

// ---------------------------------------------------------------- generator

var scalePool = []int{63, 64, 65, 127, 128, 129, 255, 256, 257, 511, 512, 513, 999, 1000, 1001, 1023, 1024, 1025, 2047, 2048, 2049, 4095, 4096, 4097}

func scaleBucket(n int) string {
	switch {
	case n >= 8191:
		return "8191+"
	case n >= 2047:
		return "2047-4097"
	case n >= 999:
		return "999-1025"
	case n >= 255:
		return "255-513"
	case n >= 63:
		return "64-129"
	}
	return ""
}

// poolValue: a threshold-adjacent value <= max.  Half of the draws take one of the (up to six)
// largest affordable values - a count that large has also passed every smaller threshold, which
// is what a cap, an index or a batch size needs -, the other half any value of the pool (the
// exact neighbourhood of the smaller thresholds: a buffer filled exactly).
func poolValue(t *rapid.T, max int, l string) int {
	n := 0
	for n < len(scalePool) && scalePool[n] <= max {
		n++
	}
	if uniformBits(t, 1, l+"-any-bit") == 0 {
		top := 6
		if top > n {
			top = n
		}
		v := uniformBits(t, 3, l+"-top-bit")
		if v >= top {
			v = uniformBits(t, 3, l+"-top-bit2") % top
		}
		return scalePool[n-1-v]
	}
	v := uniformBits(t, 5, l+"-bit")
	if v >= n {
		v = uniformBits(t, 5, l+"-bit2") % n
	}
	return scalePool[n-1-v]
}

// scaleCap: how far one case of a sub-check may go (quick / thorough tier).
type scaleCap struct {
	sessions, listeners, restarts, valueSize int
	allowHTTP                               bool
}

func capFor(sub string) scaleCap {
	thorough := core.Tier() == "thorough"
	switch sub {
	case "a":
		if thorough {
			return scaleCap{4097, 4097, 129, 8193, true}
		}
		return scaleCap{1025, 1025, 129, 8193, true}
	case "b": // the child's database is on disk (an fsync per statement)
		if thorough {
			return scaleCap{513, 257, 0, 8193, false}
		}
		return scaleCap{129, 129, 0, 8193, false}
	}
	// c: every restart is a process under the real Start()
	if thorough {
		return scaleCap{4097, 1025, 0, 8193, true}
	}
	return scaleCap{1025, 1025, 0, 8193, true}
}

// genScaleHistory: small-scale operations before, in the middle of and after a bulk that
// brings one or two counts to a threshold-adjacent value; a restart at any point follows the
// bulk (and one more ordinary step and another restart follow that).
func genScaleHistory(t *rapid.T, sub string) History {
	cp := capFor(sub)
	var h History
	h.Agents = genAgents(t, 2, 3)
	h.DB = rapid.SampledFrom([]string{"fresh", "existed", "golden"}).Draw(t, "db")
	n0 := len(h.Agents)
	h.BulkBase = []uint32{0x00100000, 0x7ffffe00, 0xfff00000, 0x00000400}[uniformBits(t, 2, "bulk-base-bit")]
	for i := range h.Agents { // the listed agents stay out of the bulk's id range
		if d := h.Agents[i].ID - h.BulkBase; d < 0x10000 {
			id := h.BulkBase - 1
			for taken := true; taken; {
				taken = false
				for j := range h.Agents {
					if j != i && h.Agents[j].ID == id {
						taken = true
						id--
					}
				}
			}
			h.Agents[i].ID = id
		}
	}

	// (rapid's first cases of a run prefer false bits, and a quick run of (c) has few cases per
	// shard: index 0 is the combination that exercises most - many sessions with links)
	what := []string{"sessions+links", "sessions+links", "sessions", "sessions+links", "sessions+links", "sessions+inactive", "listeners", "sessions+listeners"}[uniformBits(t, 3, "scale-what-bit")]
	if cp.restarts > 0 && uniformBits(t, 3, "scale-restarts-bit") == 0 {
		what = "restarts"
	}

	small := func(n int) []Op { // ordinary operations over the listed agents and the first bulk agents
		ops := genOps(t, n, n0, false)
		for i := range ops {
			switch ops[i].K {
			case "restart":
				if uniformBits(t, 1, "at-any-point-bit") == 1 {
					ops[i].K = "restartx"
				}
			case "connect", "disconnect":
				if h.Bulk > 0 && uniformBits(t, 1, "on-bulk-bit") == 1 {
					ops[i].B = n0 + int(rapid.Uint32().Draw(t, "bulk-agent"))%h.Bulk
				}
			case "exit", "killdate", "markdead", "markalive", "checkin", "poll":
				if h.Bulk > 0 && uniformBits(t, 1, "on-bulk-bit") == 1 {
					ops[i].A = n0 + int(rapid.Uint32().Draw(t, "bulk-agent"))%h.Bulk
				}
			}
		}
		return ops
	}

	h.Ops = append(h.Ops, Op{K: "reg", A: 0}, Op{K: "reg", A: 1})
	h.Ops = append(h.Ops, small(rapid.IntRange(0, 4).Draw(t, "before"))...)

	// one stored value of a threshold-adjacent size
	if uniformBits(t, 2, "big-value-bit") == 0 {
		m := plainMeta(t)
		size := poolValue(t, cp.valueSize, "value-size")
		unit := rapid.SampledFrom([]string{"h", "é", "7"}).Draw(t, "value-unit")
		m.Host = string([]rune(strings.Repeat(unit, size))[:size])
		h.Ops = append(h.Ops, Op{K: "checkin", A: 0, M: &m, KK: true, T: "bulk-value"})
	}

	sessions, listeners := 0, 0
	if strings.Contains(what, "sessions") {
		sessions = poolValue(t, cp.sessions, "sessions")
	}
	if strings.Contains(what, "listeners") {
		listeners = poolValue(t, cp.listeners, "listeners")
		if strings.Contains(what, "sessions") && sessions > 257 && listeners > 257 {
			listeners = poolValue(t, 257, "listeners-with-sessions")
		}
	}
	inactive := 0
	if what == "sessions+inactive" {
		inactive = poolValue(t, cp.sessions/2, "inactive")
	}

	// sessions: the two listed agents count; the bulk brings the ACTIVE sessions to the pool value
	if sessions > 0 {
		total := sessions - 2 + inactive
		h.Bulk = total
		first := total
		if uniformBits(t, 2, "in-two-parts-bit") == 0 && total > 8 {
			first = total / 2
		}
		part := func(from, cnt int) {
			if cnt <= 0 {
				return
			}
			if !strings.Contains(what, "links") {
				h.Ops = append(h.Ops, Op{K: "bulkreg", A: from, V: uint64(cnt)})
				return
			}
			shape := []string{"star", "chains", "random", "random"}[uniformBits(t, 2, "shape-bit")]
			op := Op{K: "bulktree", A: from, V: uint64(cnt), T: shape, B: uniformBits(t, 1, "tree-root-bit")}
			switch shape {
			case "chains":
				op.W = uint32([]int{2, 3, 8, 16}[uniformBits(t, 2, "chain-length-bit")])
			case "random":
				op.W = rapid.Uint32Range(0, 1000).Draw(t, "tree-seed")
			}
			h.Ops = append(h.Ops, op)
		}
		part(0, first)
		if first < total {
			h.Ops = append(h.Ops, small(rapid.IntRange(1, 3).Draw(t, "middle"))...)
			part(first, total-first)
		}
		if inactive > 0 {
			// the LAST registered ones become inactive, or the first ones
			from := total - inactive
			if uniformBits(t, 1, "inactive-first-bit") == 1 {
				from = 0
			}
			h.Ops = append(h.Ops, Op{K: "bulkmark", A: from, V: uint64(inactive), T: rapid.SampledFrom([]string{"markdead", "markdead", "exit"}).Draw(t, "inactive-by")})
		}
	}
	if listeners > 0 {
		h.Ops = append(h.Ops, Op{K: "bulkladd", V: uint64(listeners), T: []string{"smb", "ext", "mixed", "mixed"}[uniformBits(t, 2, "lkind-bit")]})
	}
	if what == "restarts" {
		h.Ops = append(h.Ops, Op{K: "connect", A: 0, B: 2 % n0}, Op{K: "bulkrestart", V: uint64(poolValue(t, cp.restarts, "restarts"))})
	}

	// reach the count, restart; one more ordinary step, restart again
	h.Ops = append(h.Ops, Op{K: "restartx"})
	h.Ops = append(h.Ops, small(rapid.IntRange(1, 4).Draw(t, "after"))...)
	if uniformBits(t, 1, "again-bit") == 1 {
		h.Ops = append(h.Ops, Op{K: "restartx"})
		h.Ops = append(h.Ops, small(rapid.IntRange(0, 2).Draw(t, "at-the-end"))...)
	}
	return h
}

// scaleLabels: what a history reached, by the exact model (active sessions / links /
// inactive sessions stored at a restart, listeners, restarts, size of a stored value).
func scaleLabels(h History) []string {
	if h.Bulk == 0 {
		big := false
		for _, op := range h.Ops {
			if isBulk(op.K) || op.T == "bulk-value" {
				big = true
			}
		}
		if !big {
			return nil
		}
	}
	m := newPModel(h.nAgents())
	maxAct, maxLinks, maxInact, maxL, restarts, maxVal := 0, 0, 0, 0, 0, 0
	names := map[string]bool{}
	for _, op := range h.flat() {
		done := m.step(op, nil)
		switch op.K {
		case "restart", "restartx":
			if !done {
				continue
			}
			restarts++
			if n := len(m.mem); n > maxAct {
				maxAct = n
			}
			links := 0
			for _, a := range m.mem {
				if a.parent >= 0 {
					links++
				}
			}
			if links > maxLinks {
				maxLinks = links
			}
			inact := 0
			for _, st := range m.stored {
				if !st {
					inact++
				}
			}
			if inact > maxInact {
				maxInact = inact
			}
			if len(names) > maxL {
				maxL = len(names)
			}
		case "ladd":
			if op.L != nil {
				names[op.L.Name] = true
			}
		case "checkin":
			if op.M != nil && done && len(op.M.Host) > maxVal {
				maxVal = len(op.M.Host)
			}
		}
	}
	var out []string
	add := func(what string, n int) {
		if b := scaleBucket(n); b != "" {
			out = append(out, "scale:"+what+":"+b)
		}
	}
	add("sessions-restored", maxAct)
	add("links-restored", maxLinks)
	add("inactive-sessions-stored", maxInact)
	add("listeners", maxL)
	add("restarts", restarts)
	add("value-bytes", maxVal)
	if len(out) > 0 {
		out = append(out, "scale")
	}
	return out
}

package c10

// History type, interpreter and state dumps shared by the three sub-checks of C10.
//
// Every operation goes through the code path it takes in production:
//   reg        DEMON_INIT through handlers.(*External).Request (parseAgentRequest -> handleDemonAgent
//              -> Teamserver.AgentAdd -> db.AgentAdd, then the acknowledgement is written)
//   poll       an empty GET_JOB request of a known agent (UpdateLastCallback -> AgentUpdate)
//   connect / disconnect      COMMAND_PIVOT callbacks (child registration, LinkAdd / LinkRemove)
//   checkin    COMMAND_CHECKIN callback with new metadata and a new key/IV (-> AgentUpdate)
//   sleep, cfgkill, cfgwh     COMMAND_SLEEP / COMMAND_CONFIG callbacks (-> AgentUpdate)
//   exit, killdate            COMMAND_EXIT / COMMAND_KILL_DATE callbacks (-> Died)
//   markdead, markalive       operator package through Teamserver.DispatchEvent
//   ladd, lremove, ledit      operator Listener/Add, /Remove, /Edit packages through DispatchEvent
//   restart, restartx         a new teamserver on the same file (restart_test.go)

import (
	"database/sql"
	"encoding/base64"
	"encoding/json"
	"fmt"
	"sort"
	"strings"
	"time"

	"Havoc/pkg/agent"
	"Havoc/pkg/handlers"
	"Havoc/pkg/packager"

	"verifharness/internal/core"
	"verifharness/internal/demonref"
	"verifharness/internal/pvx"
)

type Meta struct {
	Host   string    `json:"host"`
	User   string    `json:"user"`
	Domain string    `json:"domain"`
	IP     string    `json:"ip"`
	Proc   string    `json:"proc"` // full process path (UTF-16 on the wire); the server records the last component
	PID    uint32    `json:"pid"`
	TID    uint32    `json:"tid"`
	PPID   uint32    `json:"ppid"`
	Arch   uint32    `json:"arch"`
	Elev   uint32    `json:"elev"`
	Base   uint64    `json:"base"`
	OS     [5]uint32 `json:"os"`
	OSArch uint32    `json:"osarch"`
	Sleep  uint32    `json:"sleep"`
	Jitter uint32    `json:"jitter"`
	Kill   uint64    `json:"kill"`
	WH     uint32    `json:"wh"`
}

func (m Meta) ref(id uint32) demonref.MetaData {
	return demonref.MetaData{AgentID: id, Hostname: m.Host, Username: m.User, Domain: m.Domain, InternalIP: m.IP, ProcessPath: m.Proc,
		PID: m.PID, TID: m.TID, PPID: m.PPID, ProcessArch: m.Arch, Elevated: m.Elev, BaseAddress: m.Base,
		OSMajor: m.OS[0], OSMinor: m.OS[1], OSProduct: m.OS[2], OSServicePck: m.OS[3], OSBuild: m.OS[4], OSArch: m.OSArch,
		Sleep: m.Sleep, Jitter: m.Jitter, KillDate: m.Kill, WorkingHours: m.WH}
}

type AgentSpec struct {
	ID   uint32 `json:"id"`
	Seed byte   `json:"seed"` // key/IV material
	Meta Meta   `json:"meta"`
}

type HTTPSpec struct {
	Hosts      []string `json:"hosts"`
	Rotation   string   `json:"rotation"`
	PortConn   string   `json:"portconn"`
	Headers    []string `json:"headers"`
	Uris       []string `json:"uris"`
	HostHeader string   `json:"hostheader"`
	UserAgent  string   `json:"useragent"`
	Proxy      bool     `json:"proxy"`
	Secure     bool     `json:"secure,omitempty"` // HTTPS: the server generates a certificate below <loot>/listener/<sanitised name>/
	PType      string   `json:"ptype,omitempty"`
	PHost      string   `json:"phost,omitempty"`
	PPort      string   `json:"pport,omitempty"`
	PUser      string   `json:"puser,omitempty"`
	PPass      string   `json:"ppass,omitempty"`
}

type LSpec struct {
	Kind     string    `json:"kind"` // smb ext http
	Name     string    `json:"name"`
	Pipe     string    `json:"pipe,omitempty"`
	Endpoint string    `json:"endpoint,omitempty"`
	HTTP     *HTTPSpec `json:"http,omitempty"`
	NC       string    `json:"nc,omitempty"` // name class the generator drew the name from (lname_test.go), for the evidence
}

type Op struct {
	K string `json:"k"`
	A int    `json:"a,omitempty"` // acting agent / listener index
	B int    `json:"b,omitempty"` // named agent (connect, disconnect)
	M *Meta  `json:"m,omitempty"` // checkin: new metadata
	S byte   `json:"s,omitempty"` // checkin: new key seed
	V uint64 `json:"v,omitempty"` // sleep delay / kill date / working hours
	W uint32 `json:"w,omitempty"` // sleep jitter
	L *LSpec `json:"l,omitempty"` // ladd, ledit
	KK bool  `json:"kk,omitempty"` // checkin: keep the agent's current key/IV (only the metadata changes)
	T string `json:"t,omitempty"`  // generator class of a crafted update (boundary shift, swap, no-op, revert), for the evidence
}

type History struct {
	Agents  []AgentSpec `json:"agents"`
	Bulk     int        `json:"bulk,omitempty"`      // scale_test.go: this many more agents (indices len(Agents)..) with derived ids and metadata
	BulkBase uint32     `json:"bulk_base,omitempty"` // id of the first of them
	Existed bool        `json:"existed,omitempty"`
	DB      string      `json:"db,omitempty"` // "fresh" | "existed" | "golden" (copy of testdata/golden-schema.db); "" = Existed decides
	Ops     []Op        `json:"ops"`
	Fault   *Fault      `json:"fault,omitempty"` // fault_test.go: one operation runs while the database fails
}

func (h History) dbMode() string {
	switch {
	case h.DB != "":
		return h.DB
	case h.Existed:
		return "existed"
	}
	return "fresh"
}

// onExistingFile: a violation that shows on the golden (pre-existing) file only, while the
// schema of that file differs from what the code under test creates today, is named
// after the schema difference.
func onExistingFile(h History, v *core.Violation, rerunFresh func() *core.Violation) *core.Violation {
	if v == nil || h.dbMode() != "golden" {
		return v
	}
	diff := pvx.SchemaDiff()
	if len(diff) == 0 {
		return v
	}
	if vf := core.Guard(rerunFresh); vf != nil {
		return v
	}
	return core.V("schema|existing-database-differs-from-fresh|"+strings.Join(diff, "+"),
		"on a database file that existed before this teamserver opened it (schema of the unchanged tree, harness/testdata/golden-schema.sql) the history violates the property, on a freshly created file it does not; tables whose definition differs: %v.\n[%s] %s", diff, v.Sig, v.Msg)
}

func keyFrom(seed byte) ([]byte, []byte) {
	k := make([]byte, 32)
	v := make([]byte, 16)
	for j := range k {
		k[j] = seed*31 + byte(j)*7 + 1
	}
	for j := range v {
		v[j] = seed*17 + byte(j)*3 + 2
	}
	k[0] |= 1 // never the all-zero key (the "no encryption" mode)
	return k, v
}

// ---------------------------------------------------------------- interpreter

type runState struct {
	w     *pvx.World
	h     History
	seeds map[int]byte // current key seed per agent index
	req   uint32
	lmod  []LSpec // listeners as configured by the operator (after edits), in creation order
	lorig map[string]HTTPSpec // HTTP listeners that were edited: the configuration before the first edit
	https []*handlers.HTTP
	restarts int
	restartFn func(forced bool) bool // how a "restart" operation is carried out (nil: in-process transcription)
	inFault  bool            // fault_test.go: the operation being applied runs while the database fails
	exAgents map[string]bool // fault_test.go: sessions whose stored row the failed operation left behind the memory
	exLinks  map[string]bool // ... and sessions whose stored links it left behind
}

func newRun(w *pvx.World, h History) *runState {
	return &runState{w: w, h: h, seeds: map[int]byte{}, req: 0x4000}
}

func (r *runState) agent(i int) *agent.Agent {
	if i < 0 || i >= r.h.nAgents() {
		return nil
	}
	return r.w.Agent(r.h.spec(i).ID)
}

func (r *runState) seed(i int) byte {
	if s, ok := r.seeds[i]; ok {
		return s
	}
	return r.h.spec(i).Seed
}

func (r *runState) listenerPk(sub int, info map[string]any) packager.Package {
	var pk packager.Package
	pk.Head.Event = packager.Type.Listener.Type
	pk.Head.User = "op"
	pk.Head.Time = "01/01/2026 00:00:00"
	pk.Body.SubEvent = sub
	pk.Body.Info = info
	return pk
}

func httpInfo(l LSpec) map[string]any {
	hs := l.HTTP
	info := map[string]any{
		"Protocol": handlers.AGENT_HTTP, "Name": l.Name, "HostBind": "127.0.0.1", "PortBind": "0",
		"Hosts": strings.Join(hs.Hosts, ", "), "Headers": strings.Join(hs.Headers, ", "), "Uris": strings.Join(hs.Uris, ", "),
		"HostRotation": hs.Rotation, "PortConn": hs.PortConn, "HostHeader": hs.HostHeader, "UserAgent": hs.UserAgent,
		"Secure": "false", "Proxy Enabled": "false",
	}
	if hs.Secure {
		info["Secure"] = "true"
	}
	if hs.Proxy {
		info["Proxy Enabled"] = "true"
		info["Proxy Type"] = hs.PType
		info["Proxy Host"] = hs.PHost
		info["Proxy Port"] = hs.PPort
		info["Proxy Username"] = hs.PUser
		info["Proxy Password"] = hs.PPass
	}
	return info
}

// apply runs one operation; it reports whether the operation was deliverable at all
// (skipped operations leave no trace and are not acknowledged).
func (r *runState) apply(op Op) bool {
	w := r.w
	switch op.K {
	case "restart", "restartx":
		// "restart" is only performed while every stored link joins two active sessions;
		// "restartx" (piv_test.go) is a restart at any point
		forced := op.K == "restartx"
		if r.restartFn != nil {
			return r.restartFn(forced)
		}
		return r.restart(forced)
	case "ladd":
		if op.L == nil {
			return false
		}
		for _, l := range r.lmod {
			if l.Name == op.L.Name {
				return false // the operator UI refuses a second listener of that name; so does ListenerStart
			}
		}
		switch op.L.Kind {
		case "smb":
			w.TS.DispatchEvent(r.listenerPk(packager.Type.Listener.Add, map[string]any{"Protocol": handlers.AGENT_PIVOT_SMB, "Name": op.L.Name, "PipeName": op.L.Pipe}))
		case "ext":
			w.TS.DispatchEvent(r.listenerPk(packager.Type.Listener.Add, map[string]any{"Protocol": handlers.AGENT_EXTERNAL, "Name": op.L.Name, "Endpoint": op.L.Endpoint}))
		case "http":
			w.TS.DispatchEvent(r.listenerPk(packager.Type.Listener.Add, httpInfo(*op.L)))
			for _, l := range w.TS.Listeners {
				if h, ok := l.Config.(*handlers.HTTP); ok && l.Name == op.L.Name {
					r.https = append(r.https, h)
				}
			}
		default:
			return false
		}
		// the add is acknowledged only if the server now runs a listener of that name (it refuses
		// e.g. a second External listener on an endpoint that is taken: the operator gets an error)
		accepted := false
		for _, l := range w.TS.Listeners {
			if l.Name == op.L.Name {
				accepted = true
			}
		}
		if !accepted {
			return true
		}
		r.lmod = append(r.lmod, *op.L)
		return true
	case "lremove":
		if len(r.lmod) == 0 {
			// removing a listener that does not exist
			w.TS.DispatchEvent(r.listenerPk(packager.Type.Listener.Remove, map[string]any{"Name": "no-such-listener"}))
			return true
		}
		i := op.A % len(r.lmod)
		if r.lmod[i].Kind == "http" {
			return false // HTTP.Stop() always sleeps 5 s; not exercised
		}
		w.TS.DispatchEvent(r.listenerPk(packager.Type.Listener.Remove, map[string]any{"Name": r.lmod[i].Name}))
		// the removal is acknowledged only if the server no longer has a listener of that name: that is
		// when dispatch.go announces the removal to the operators (a server that could not delete the
		// row keeps the listener and says nothing)
		for _, l := range w.TS.Listeners {
			if l.Name == r.lmod[i].Name {
				return true
			}
		}
		r.lmod = append(append([]LSpec{}, r.lmod[:i]...), r.lmod[i+1:]...)
		return true
	case "ledit":
		if op.L == nil || op.L.HTTP == nil {
			return false
		}
		for i := range r.lmod {
			if r.lmod[i].Kind == "http" {
				e := *op.L
				e.Name, e.Kind = r.lmod[i].Name, "http"
				// the edit dialog sends the whole form; ListenerEdit takes UserAgent, Headers, Uris, Proxy from it
				eff := *r.lmod[i].HTTP
				eff.UserAgent, eff.Headers, eff.Uris = e.HTTP.UserAgent, e.HTTP.Headers, e.HTTP.Uris
				eff.Proxy, eff.PType, eff.PHost, eff.PPort, eff.PUser, eff.PPass = e.HTTP.Proxy, e.HTTP.PType, e.HTTP.PHost, e.HTTP.PPort, e.HTTP.PUser, e.HTTP.PPass
				send := eff
				if r.lorig == nil {
					r.lorig = map[string]HTTPSpec{}
				}
				if _, ok := r.lorig[e.Name]; !ok {
					r.lorig[e.Name] = *r.lmod[i].HTTP
				}
				w.TS.DispatchEvent(r.listenerPk(packager.Type.Listener.Edit, httpInfo(LSpec{Kind: "http", Name: e.Name, HTTP: &send})))
				// as with add and remove, the edit counts when the server's listener shows it (a server that
				// cannot store an edit may leave the listener as it was)
				for _, l := range w.TS.Listeners {
					if h, ok := l.Config.(*handlers.HTTP); ok && l.Name == e.Name {
						c := h.Config
						shown := c.UserAgent == eff.UserAgent && strings.Join(c.Headers, ", ") == strings.Join(eff.Headers, ", ") && strings.Join(c.Uris, ", ") == strings.Join(eff.Uris, ", ") && c.Proxy.Enabled == eff.Proxy
						if shown && eff.Proxy {
							shown = c.Proxy.Type == eff.PType && c.Proxy.Host == eff.PHost && c.Proxy.Port == eff.PPort && c.Proxy.Username == eff.PUser && c.Proxy.Password == eff.PPass
						}
						if !shown && r.inFault {
							return true
						}
					}
				}
				r.lmod[i].HTTP = &eff
				return true
			}
		}
		return false
	}

	if op.A < 0 || op.A >= r.h.nAgents() {
		return false
	}
	spec := r.h.spec(op.A)
	a := r.agent(op.A)
	if op.K == "reg" {
		if a != nil {
			return false
		}
		k, iv := keyFrom(r.seed(op.A))
		if !w.Register(spec.ID, k, iv, spec.Meta.ref(spec.ID)) {
			if r.inFault {
				// a teamserver that cannot store the session may refuse the registration: the agent gets no
				// acknowledgement and asks again later (the unchanged tree acknowledges: known.d/C10.jsonl)
				return true
			}
			panic(fmt.Sprintf("harness: DEMON_INIT of %08x not acknowledged", spec.ID))
		}
		return true
	}
	if a == nil {
		return false
	}
	switch op.K {
	case "poll":
		k, iv := keyFrom(r.seed(op.A))
		w.Post(demonref.Batch(spec.ID, 0, nil, k, iv))
	case "connect":
		if op.B < 0 || op.B >= r.h.nAgents() || op.B == op.A {
			return false
		}
		// no self/ancestor connects here: they are C09's subject and make later operations hang
		for p := a; p != nil; p = p.Pivots.Parent {
			if p.NameID == fmt.Sprintf("%08x", r.h.spec(op.B).ID) {
				return false
			}
		}
		// ... nor an ancestor by the stored links (after a restart at any point a stored link can
		// name a session that is not in memory; without such restarts rows and Links lists agree)
		if storedAncestor(w, int64(r.h.spec(op.B).ID), int64(spec.ID)) {
			return false
		}
		ch := r.h.spec(op.B)
		k, iv := keyFrom(r.seed(op.B))
		w.Callback(a, 0, pvx.CmdPivot, pvx.ConnectBody(ch.Meta.ref(ch.ID).InitPackage(ch.ID, k, iv)))
	case "disconnect":
		if op.B < 0 || op.B >= r.h.nAgents() {
			return false
		}
		w.Callback(a, 0, pvx.CmdPivot, pvx.DisconnectBody(true, r.h.spec(op.B).ID))
	case "checkin":
		if op.M == nil {
			return false
		}
		r.req++
		pvx.Outstanding(a, r.req, pvx.CmdCheckin)
		seed := op.S
		if op.KK {
			seed = r.seed(op.A)
		}
		k, iv := keyFrom(seed)
		w.Callback(a, r.req, pvx.CmdCheckin, op.M.ref(spec.ID).InitBody(k, iv, false))
		r.seeds[op.A] = seed
	case "sleep":
		r.req++
		pvx.Outstanding(a, r.req, pvx.CmdSleep)
		w.Callback(a, r.req, pvx.CmdSleep, pvx.SleepBody(uint32(op.V), op.W))
	case "cfgkill":
		r.req++
		pvx.Outstanding(a, r.req, pvx.CmdConfig)
		w.Callback(a, r.req, pvx.CmdConfig, pvx.ConfigKillDateBody(op.V))
	case "cfgwh":
		r.req++
		pvx.Outstanding(a, r.req, pvx.CmdConfig)
		w.Callback(a, r.req, pvx.CmdConfig, pvx.ConfigWorkingHoursBody(uint32(op.V)))
	case "exit":
		r.req++
		pvx.Outstanding(a, r.req, pvx.CmdExit)
		w.Callback(a, r.req, pvx.CmdExit, pvx.ExitBody(1))
	case "killdate":
		r.req++
		pvx.Outstanding(a, r.req, pvx.CmdKillDate)
		w.Callback(a, r.req, pvx.CmdKillDate, nil)
	case "markdead":
		w.Mark(a.NameID, "Dead")
	case "markalive":
		w.Mark(a.NameID, "Alive")
	default:
		return false
	}
	return true
}

// finish closes the sockets of HTTP listeners started by the history.
func (r *runState) finish() {
	for _, h := range r.https {
		deadline := time.Now().Add(3 * time.Second)
		if h.Config.Secure {
			// HTTP.Start() sets Server before it returns; nil = the certificate could not be written, nothing runs
			deadline = time.Now()
		}
		for h.Server == nil && time.Now().Before(deadline) {
			time.Sleep(200 * time.Microsecond)
		}
		if h.Server != nil {
			h.Server.Close()
		}
	}
}

// ---------------------------------------------------------------- what the server holds

// AgentImage is the persisted part of a session (the 25 columns of TS_Agents).
type AgentImage struct {
	ID     string `json:"id"`
	Active bool   `json:"active"`
	Reason string `json:"reason"`
	Key    string `json:"key"`
	IV     string `json:"iv"`
	F      map[string]string `json:"f"` // column -> rendered value
}

var agentFields = []string{"Hostname", "Username", "DomainName", "ExternalIP", "InternalIP", "ProcessName", "BaseAddress", "ProcessPID", "ProcessTID", "ProcessPPID", "ProcessArch", "Elevated", "OSVersion", "OSArch", "SleepDelay", "SleepJitter", "KillDate", "WorkingHours", "FirstCallIn", "LastCallIn"}

func imageOf(a *agent.Agent) AgentImage {
	im := AgentImage{ID: a.NameID, Active: a.Active, Reason: a.Reason,
		Key: base64.StdEncoding.EncodeToString(a.Encryption.AESKey), IV: base64.StdEncoding.EncodeToString(a.Encryption.AESIv), F: map[string]string{}}
	i := a.Info
	im.F["Hostname"], im.F["Username"], im.F["DomainName"] = i.Hostname, i.Username, i.DomainName
	im.F["ExternalIP"], im.F["InternalIP"], im.F["ProcessName"] = i.ExternalIP, i.InternalIP, i.ProcessName
	im.F["BaseAddress"] = fmt.Sprint(i.BaseAddress)
	im.F["ProcessPID"], im.F["ProcessTID"], im.F["ProcessPPID"] = fmt.Sprint(i.ProcessPID), fmt.Sprint(i.ProcessTID), fmt.Sprint(i.ProcessPPID)
	im.F["ProcessArch"], im.F["Elevated"], im.F["OSVersion"], im.F["OSArch"] = i.ProcessArch, i.Elevated, i.OSVersion, i.OSArch
	im.F["SleepDelay"], im.F["SleepJitter"] = fmt.Sprint(i.SleepDelay), fmt.Sprint(i.SleepJitter)
	im.F["KillDate"], im.F["WorkingHours"] = fmt.Sprint(i.KillDate), fmt.Sprint(i.WorkingHours)
	im.F["FirstCallIn"], im.F["LastCallIn"] = i.FirstCallIn, i.LastCallIn
	return im
}

type pair struct{ P, C string }

// memPairs: the links the server holds, taken from the Links lists.
func memPairs(w *pvx.World) []pair {
	var out []pair
	for _, p := range w.TS.Agents.Agents {
		if p == nil {
			continue
		}
		for _, c := range p.Pivots.Links {
			if c != nil {
				out = append(out, pair{p.NameID, c.NameID})
			}
		}
	}
	sort.Slice(out, func(i, j int) bool { return out[i].P+out[i].C < out[j].P+out[j].C })
	return out
}

// ---------------------------------------------------------------- raw table dump (sub-check b)

type tableDump struct {
	Agents    map[string]string `json:"agents"`    // AgentID -> all columns except the two wall-clock ones
	Links     map[string]int    `json:"links"`     // "parent,child" -> count
	Listeners map[string]string `json:"listeners"` // Name -> protocol + config
}

func dumpTables(q *sql.DB) (tableDump, error) {
	d := tableDump{Agents: map[string]string{}, Links: map[string]int{}, Listeners: map[string]string{}}
	rows, err := q.Query(`SELECT * FROM TS_Agents`)
	if err != nil {
		return d, err
	}
	cols, _ := rows.Columns()
	for rows.Next() {
		vals := make([]any, len(cols))
		ptrs := make([]any, len(cols))
		for i := range vals {
			ptrs[i] = &vals[i]
		}
		if err := rows.Scan(ptrs...); err != nil {
			rows.Close()
			return d, err
		}
		var sb strings.Builder
		id := ""
		for i, c := range cols {
			if c == "FirstCallIn" || c == "LastCallIn" {
				continue // wall-clock values of the run
			}
			v := vals[i]
			if b, ok := v.([]byte); ok {
				v = string(b)
			}
			if c == "AgentID" {
				id = fmt.Sprint(v)
			}
			fmt.Fprintf(&sb, "%s=%T:%v|", c, v, v)
		}
		if _, dup := d.Agents[id]; dup {
			id = id + "#dup"
		}
		d.Agents[id] = sb.String()
	}
	rows.Close()
	lr, err := pvx.LinkRows(q)
	if err != nil {
		return d, err
	}
	for _, r := range lr {
		d.Links[fmt.Sprintf("%d,%d", r.Parent, r.Child)]++
	}
	rows, err = q.Query(`SELECT Name, Protocol, Config FROM TS_Listeners`)
	if err != nil {
		return d, err
	}
	for rows.Next() {
		var n, p, c string
		if err := rows.Scan(&n, &p, &c); err != nil {
			rows.Close()
			return d, err
		}
		d.Listeners[n] = p + "|" + c
	}
	rows.Close()
	return d, nil
}

func mustJSON(v any) string { b, _ := json.Marshal(v); return string(b) }

package c15

// C15(c) table consistency under concurrent use (built with -race).
//
// The concurrent parties are the ones the teamserver really has: ONE agent (its callbacks
// arrive one request at a time, so all TaskDispatch calls of a case come from one goroutine),
// one or two operators (TaskPrepare: socks add / list / kill / clear), one or two SOCKS
// client programs (each opening, using and closing connections), plus the goroutines Havoc
// itself starts (accept loop, connection handler, relay reader, forward reader).
//
// During the concurrent phase the harness touches Havoc's state only through TaskPrepare /
// TaskDispatch and through the three tables under their own mutexes (never JobQueue, never
// SocksClient.Connected from a foreign goroutine), so that every race report that names a
// Havoc frame is a race of Havoc with itself.
//
// Oracle: no panic; after the parties have finished and the relays have come to rest the
// tables hold no duplicate key, every socket belongs to a proxy that still exists, sockets
// that must be gone (closed by the agent, reset by a connected client, or present before a
// kill/clear of their proxy began) are gone and sockets that nothing touched are there, the
// proxy table agrees with every linearisation of the add/kill/clear commands, the forward
// table is exactly what the agent opened and did not remove, the three mutexes are free.
// Race reports are collected by the driver (signature race|f1|f2).

import (
	"fmt"
	"net"
	"os"
	"runtime"
	"sort"
	"strings"
	"sync"
	"sync/atomic"
	"testing"
	"time"

	"pgregory.net/rapid"

	"verifharness/internal/core"
)

type OpC struct {
	Op   string `json:"op"`
	Sel  int    `json:"sel,omitempty"`
	K    int    `json:"k,omitempty"` // proxy slot 0..2
	OK   bool   `json:"ok,omitempty"`
	Data []byte `json:"data,omitempty"`
	Kind string `json:"kind,omitempty"` // fin | rst
	ID   uint32 `json:"id,omitempty"`   // forward id
}

type CaseC struct {
	Pre   int   `json:"pre"` // proxies started (slots 0..pre-1) before the parties start
	Agent []OpC `json:"agent"`
	Oper1 []OpC `json:"oper1"`
	Oper2 []OpC `json:"oper2"`
	Cli1  []OpC `json:"cli1"`
	Cli2  []OpC `json:"cli2"`
}

func genAgentOps(t *rapid.T, n int) []OpC {
	var out []OpC
	for i := 0; i < n; i++ {
		k := rapid.SampledFrom([]string{"answer", "answer", "read", "close", "answer", "pf-open", "pf-read", "pf-remove", "read", "answer"}).Draw(t, "agent_op")
		op := OpC{Op: k, Sel: rapid.IntRange(0, 5).Draw(t, "sel")}
		switch k {
		case "answer":
			op.OK = rapid.SampledFrom([]bool{true, true, true, false}).Draw(t, "ok")
		case "read", "pf-read":
			op.Data = rapid.SliceOfN(rapid.Byte(), 1, 40).Draw(t, "data")
		}
		if strings.HasPrefix(k, "pf-") {
			op.ID = rapid.SampledFrom([]uint32{1, 2, 0x80000003}).Draw(t, "fwd_id")
		}
		out = append(out, op)
	}
	return out
}

func genOperOps(t *rapid.T, n int) []OpC {
	var out []OpC
	for i := 0; i < n; i++ {
		k := rapid.SampledFrom([]string{"add", "kill", "list", "add", "kill", "add", "kill", "add", "list", "kill", "add", "clear", "add", "kill"}).Draw(t, "oper_op")
		out = append(out, OpC{Op: k, K: rapid.IntRange(0, 2).Draw(t, "slot")})
	}
	return out
}

func genCliOps(t *rapid.T, n int) []OpC {
	var out []OpC
	for i := 0; i < n; i++ {
		k := rapid.SampledFrom([]string{"connect", "connect", "write", "close", "connect", "write"}).Draw(t, "cli_op")
		op := OpC{Op: k, Sel: rapid.IntRange(0, 5).Draw(t, "sel"), K: rapid.IntRange(0, 2).Draw(t, "slot")}
		switch k {
		case "write":
			op.Data = rapid.SliceOfN(rapid.Byte(), 1, 60).Draw(t, "data")
		case "close":
			op.Kind = rapid.SampledFrom([]string{"rst", "rst", "fin"}).Draw(t, "kind")
		}
		out = append(out, op)
	}
	return out
}

func genC(t *rapid.T) CaseC {
	var c CaseC
	c.Pre = rapid.SampledFrom([]int{1, 2, 1, 0, 2}).Draw(t, "pre")
	c.Agent = genAgentOps(t, rapid.IntRange(2, 8).Draw(t, "n_agent"))
	c.Cli1 = genCliOps(t, rapid.IntRange(2, 6).Draw(t, "n_cli1"))
	c.Oper1 = genOperOps(t, rapid.IntRange(0, 5).Draw(t, "n_oper1"))
	if rapid.Bool().Draw(t, "oper2") {
		c.Oper2 = genOperOps(t, rapid.IntRange(1, 4).Draw(t, "n_oper2"))
	}
	if rapid.Bool().Draw(t, "cli2") {
		c.Cli2 = genCliOps(t, rapid.IntRange(1, 5).Draw(t, "n_cli2"))
	}
	return c
}

// ---------------------------------------------------------------------------- run state

type pev struct {
	slot       int    // -1: clear
	kind       string // add kill clear
	start, end int64
}

type cconn struct {
	conn              *net.TCPConn
	addr              string
	slot              int
	tDial             int64
	done              bool // greeting answered 05 00 and the full CONNECT request written
	replyBuf          []byte
	connected         bool // success reply read
	refused           bool // failure reply read / stream ended
	closeKind         string
	rstWhileConnected bool
}

type runC struct {
	f     *fixture
	ports []string
	clock atomic.Int64

	mu        sync.Mutex
	events    []pev
	conns     []*cconn
	panics    []*core.Violation
	uncertain bool // a command panicked half way: proxy expectations are void

	// agent-goroutine-local
	answered    map[uint32]bool
	answeredOK  map[uint32]bool
	agentClosed map[uint32]bool
	seenAt      map[uint32]int64 // socket id -> tick at which the agent saw it registered
	fwdOpen     map[uint32]bool
	fwdDialled  map[uint32]bool

	sink   net.Listener
	sinkWG sync.WaitGroup
	sinkMu sync.Mutex
	sinkCs []net.Conn
}

func (x *runC) tick() int64 { return x.clock.Add(1) }

// call runs one Havoc entry point; a panic becomes a violation and the mutex it may have left
// locked is released so that the other parties can finish.
func (x *runC) call(what string, f func()) {
	v := core.Guard(func() *core.Violation { f(); return nil })
	if v != nil {
		v.Sig += "|c|" + what
		x.mu.Lock()
		x.panics = append(x.panics, v)
		x.uncertain = true
		x.mu.Unlock()
		unstickNow(&x.f.a.SocksSvrMtx)
		unstickNow(&x.f.a.SocksCliMtx)
		unstickNow(&x.f.a.PortFwdsMtx)
	}
}

type tblEntry struct {
	id     uint32
	remote string
	lport  string
}

func (e tblEntry) key() string { return e.remote + "->" + e.lport }

func (x *runC) table() []tblEntry {
	x.f.a.SocksCliMtx.Lock()
	defer x.f.a.SocksCliMtx.Unlock()
	var out []tblEntry
	for _, c := range x.f.a.SocksCli {
		if c == nil {
			continue
		}
		e := tblEntry{id: uint32(c.SocketID)}
		if c.Conn != nil {
			if ra := c.Conn.RemoteAddr(); ra != nil {
				e.remote = ra.String()
			}
			if la, ok := c.Conn.LocalAddr().(*net.TCPAddr); ok && la != nil {
				e.lport = fmt.Sprint(la.Port)
			}
		}
		out = append(out, e)
	}
	return out
}

// ---------------------------------------------------------------------------- parties

func (x *runC) agent(ops []OpC) {
	for _, op := range ops {
		switch op.Op {
		case "answer":
			x.sweep(func(int) bool { return op.OK })
		case "read", "close":
			var ids []uint32
			for _, e := range x.table() {
				if x.answeredOK[e.id] && !x.agentClosed[e.id] {
					ids = append(ids, e.id)
				}
			}
			if len(ids) == 0 {
				continue
			}
			sort.Slice(ids, func(i, j int) bool { return ids[i] < ids[j] })
			id := ids[op.Sel%len(ids)]
			if op.Op == "close" {
				x.agentClosed[id] = true
				x.call("agent-close", func() { x.f.dispatch(cbClose(id)) })
			} else {
				x.call("agent-read", func() { x.f.dispatch(cbRead(id, typeProxy, op.Data)) })
			}
		case "pf-open":
			tp := uint32(x.sink.Addr().(*net.TCPAddr).Port)
			x.call("pf-open", func() { x.f.dispatch(cbOpen(op.ID, 0x0100007F, 4444, 0x0100007F, tp)) })
			x.fwdOpen[op.ID] = true
		case "pf-read":
			x.call("pf-read", func() { x.f.dispatch(cbRead(op.ID, typeClient, op.Data)) })
		case "pf-remove":
			tp := uint32(x.sink.Addr().(*net.TCPAddr).Port)
			x.call("pf-remove", func() { x.f.dispatch(cbRemove(op.ID, typeClient, 0x0100007F, 4444, 0x0100007F, tp)) })
			delete(x.fwdOpen, op.ID)
		}
	}
}

// sweep answers every connect task the agent has not answered yet (the agent learns the ids
// from the table; the job queue is deliberately left alone, see the file comment).
func (x *runC) sweep(ok func(i int) bool) {
	for i, e := range x.table() {
		if x.answered[e.id] {
			continue
		}
		x.answered[e.id] = true
		x.seenAt[e.id] = x.tick()
		if ok(i) {
			x.answeredOK[e.id] = true
			x.call("agent-connect-ok", func() { x.f.dispatch(cbConnect(e.id, true, 0)) })
		} else {
			x.agentClosed[e.id] = true
			x.call("agent-connect-fail", func() { x.f.dispatch(cbConnect(e.id, false, 10061)) })
		}
	}
}

func (x *runC) operator(ops []OpC) {
	for _, op := range ops {
		ev := pev{slot: op.K, kind: op.Op}
		port := x.ports[op.K%len(x.ports)]
		ev.slot = op.K % len(x.ports)
		ev.start = x.tick()
		switch op.Op {
		case "add":
			var err error
			x.call("socks-add", func() { _, err = x.f.operator("socks add", port) })
			if err == nil {
				// a human would not type the next command before the listener is up
				waitFor(5*time.Second, func() bool {
					n := count()
					return n.startPending == 0 && n.starts == n.startsListening
				})
			}
		case "kill":
			x.call("socks-kill", func() { x.f.operator("socks kill", port) })
		case "clear":
			ev.slot = -1
			x.call("socks-clear", func() { x.f.operator("socks clear", "") })
		case "list":
			x.call("socks-list", func() { x.f.operator("socks list", "") })
		}
		ev.end = x.tick()
		if op.Op != "list" {
			x.mu.Lock()
			x.events = append(x.events, ev)
			x.mu.Unlock()
		}
	}
}

func (x *runC) client(ops []OpC) {
	var mine []*cconn
	for _, op := range ops {
		switch op.Op {
		case "connect":
			slot := op.K % len(x.ports)
			cc := &cconn{slot: slot, tDial: x.tick()}
			c, err := net.DialTimeout("tcp4", "127.0.0.1:"+x.ports[slot], 2*time.Second)
			if err != nil {
				continue
			}
			cc.conn = c.(*net.TCPConn)
			cc.addr = c.LocalAddr().String() + "->" + x.ports[slot]
			x.mu.Lock()
			x.conns = append(x.conns, cc)
			x.mu.Unlock()
			mine = append(mine, cc)
			c.SetDeadline(time.Now().Add(5 * time.Second))
			if _, err := c.Write([]byte{5, 1, 0}); err != nil {
				cc.refused = true
				continue
			}
			rep := make([]byte, 2)
			if _, err := readFull(c, rep); err != nil || rep[0] != 5 || rep[1] != 0 {
				cc.refused = true
				continue
			}
			req := request(5, 1, 0, 1, []byte{10, 0, byte(slot), byte(len(mine))}, 8000+uint16(len(mine)))
			if _, err := c.Write(req); err != nil {
				cc.refused = true
				continue
			}
			c.SetDeadline(time.Time{})
			cc.done = true
		case "write":
			if len(mine) == 0 {
				continue
			}
			cc := mine[op.Sel%len(mine)]
			x.pollReply(cc)
			if cc.connected && cc.closeKind == "" {
				cc.conn.SetWriteDeadline(time.Now().Add(2 * time.Second))
				cc.conn.Write(op.Data)
			}
		case "close":
			if len(mine) == 0 {
				continue
			}
			cc := mine[op.Sel%len(mine)]
			if cc.closeKind != "" {
				continue
			}
			x.pollReply(cc)
			cc.closeKind = op.Kind
			if op.Kind == "rst" {
				cc.rstWhileConnected = cc.connected
				cc.conn.SetLinger(0)
			}
			cc.conn.Close()
		}
	}
}

// pollReply takes a short look for the SOCKS reply (10 bytes: the client asked for an IPv4 target).
func (x *runC) pollReply(cc *cconn) {
	if !cc.done || cc.connected || cc.refused || cc.closeKind != "" {
		return
	}
	cc.conn.SetReadDeadline(time.Now().Add(3 * time.Millisecond))
	buf := make([]byte, 10-len(cc.replyBuf))
	n, err := cc.conn.Read(buf)
	cc.conn.SetReadDeadline(time.Time{})
	cc.replyBuf = append(cc.replyBuf, buf[:n]...)
	if len(cc.replyBuf) == 10 {
		if cc.replyBuf[1] == 0 {
			cc.connected = true
		} else {
			cc.refused = true
		}
		return
	}
	if err != nil && !isTimeout(err) {
		cc.refused = true
	}
}

func (x *runC) runSink() {
	defer x.sinkWG.Done()
	for {
		c, err := x.sink.Accept()
		if err != nil {
			return
		}
		x.sinkMu.Lock()
		x.sinkCs = append(x.sinkCs, c)
		x.sinkMu.Unlock()
		x.sinkWG.Add(1)
		go func() {
			defer x.sinkWG.Done()
			buf := make([]byte, 4096)
			for {
				if _, err := c.Read(buf); err != nil {
					return
				}
			}
		}()
	}
}

// slotPort hands out the ports of the three proxy slots.  A slot stays unbound for long
// stretches of a case (until some operator adds it), so an ephemeral port would invite
// another process (another shard of this very check, or a second run of it) to bind it
// meanwhile, and our client would then talk to a foreign proxy.  Slots therefore come from
// below the ephemeral range: 12000-31999 is cut into 40 blocks of 500 ports, and a process
// owns the block whose lock port (11900+block) it managed to bind for its lifetime.
var (
	slotBlock = -1
	slotLock  net.Listener
	slotSeq   int
)

func slotPort() string {
	if slotBlock == -2 {
		return ""
	}
	if slotBlock < 0 {
		start := os.Getpid() % 40
		for i := 0; i < 40; i++ {
			b := (start + i) % 40
			if l, err := net.Listen("tcp4", fmt.Sprintf("127.0.0.1:%d", 11900+b)); err == nil {
				slotBlock, slotLock = b, l
				break
			}
		}
		if slotBlock < 0 {
			slotBlock = -2 // 40 other processes of this check are running
			return ""
		}
	}
	slotSeq++
	p := 12000 + slotBlock*500 + slotSeq%500
	l, err := net.Listen("tcp4", fmt.Sprintf("0.0.0.0:%d", p))
	if err != nil {
		return ""
	}
	l.Close()
	return fmt.Sprint(p)
}

// ---------------------------------------------------------------------------- check

// checkC runs the program once; when a recorded case is replayed (./check --replay, or the
// driver confirming the in-flight case of a process that died) the same program is run again
// and again for up to a minute, because what it reproduces is a schedule, not an input.
func checkC(c CaseC) *core.Violation {
	if os.Getenv("VERIF_REPLAY") == "" {
		return runC1(c)
	}
	t0 := time.Now()
	for i := 0; i < 3000 && time.Since(t0) < 60*time.Second; i++ {
		if v := runC1(c); v != nil {
			return v
		}
	}
	return nil
}

func runC1(c CaseC) (v *core.Violation) {
	defer slowLog("c", c)()
	if censusSane() != "" {
		return skip("goroutine-model-mismatch")
	}
	x := &runC{f: newFixture(), answered: map[uint32]bool{}, answeredOK: map[uint32]bool{}, agentClosed: map[uint32]bool{},
		seenAt: map[uint32]int64{}, fwdOpen: map[uint32]bool{}, fwdDialled: map[uint32]bool{}}
	var err error
	x.sink, err = core.ListenLoopback("tcp4")
	if err != nil {
		return skip("no-port")
	}
	x.sinkWG.Add(1)
	go x.runSink()
	defer func() {
		for _, cc := range x.conns {
			if cc.conn != nil {
				cc.conn.SetLinger(0) // no TIME_WAIT left behind
				cc.conn.Close()
			}
		}
		x.f.live = x.f.proxyPorts()
		x.f.cleanup(nil)
		x.sink.Close()
		x.sinkMu.Lock()
		for _, sc := range x.sinkCs {
			sc.Close()
		}
		x.sinkMu.Unlock()
		x.sinkWG.Wait()
	}()

	for tries := 0; len(x.ports) < 3; tries++ {
		if tries > 60 {
			return skip("no-port")
		}
		if p := slotPort(); p != "" {
			x.ports = append(x.ports, p)
		}
	}
	// proxies that exist before the parties start
	x.operator(func() []OpC {
		var ops []OpC
		for i := 0; i < c.Pre; i++ {
			ops = append(ops, OpC{Op: "add", K: i})
		}
		return ops
	}())

	var wg sync.WaitGroup
	party := func(f func()) {
		wg.Add(1)
		go func() { defer wg.Done(); f() }()
	}
	party(func() { x.agent(c.Agent) })
	party(func() { x.client(c.Cli1) })
	if len(c.Oper1) > 0 {
		party(func() { x.operator(c.Oper1) })
	}
	if len(c.Oper2) > 0 {
		party(func() { x.operator(c.Oper2) })
	}
	if len(c.Cli2) > 0 {
		party(func() { x.client(c.Cli2) })
	}
	joined := make(chan struct{})
	go func() { wg.Wait(); close(joined) }()
	select {
	case <-joined:
	case <-time.After(2 * time.Minute):
		// a party is stuck on a mutex nobody will release
		buf := make([]byte, 1<<20)
		n := runtimeStack(buf)
		unstick(&x.f.a.SocksSvrMtx)
		unstick(&x.f.a.SocksCliMtx)
		unstick(&x.f.a.PortFwdsMtx)
		<-joined
		return core.V("c|hang|party-blocked|"+core.HavocFrame(string(buf[:n])), "a party did not finish within 2 minutes\n%s", string(buf[:min(n, 5000)]))
	}
	if len(x.panics) > 0 {
		return x.panics[0]
	}

	// ---- coming to rest: handlers finish, the agent answers what is still pending, relays park
	if !waitFor(waitBound, func() bool { return count().handlers == 0 }) {
		return skip("handlers-did-not-finish")
	}
	x.sweep(func(int) bool { return true })
	if len(x.panics) > 0 {
		return x.panics[0]
	}
	// sockets whose client had already reset the connection can never become connected (finding
	// of sub-check (b)); take them out so that the relays can come to rest
	// a 4-tuple can be used again after a reset; only the last connection on a tuple can own a
	// socket that is registered now
	lastOn := map[string]*cconn{}
	for _, cc := range x.conns {
		lastOn[cc.addr] = cc
	}
	closedByClient := map[string]string{}
	for _, cc := range x.conns {
		if cc.closeKind != "" && lastOn[cc.addr] == cc {
			closedByClient[cc.addr] = cc.closeKind
		}
	}
	x.f.a.SocksCliMtx.Lock()
	var stuck []uint32
	for _, sc := range x.f.a.SocksCli {
		// Connected is written only by TaskDispatch, i.e. by this goroutine's own calls and by the
		// agent party that has been joined
		if sc != nil && !sc.Connected && sc.Conn != nil && closedByClient[connKey(sc.Conn)] != "" {
			stuck = append(stuck, uint32(sc.SocketID))
		}
	}
	x.f.a.SocksCliMtx.Unlock()
	for _, id := range stuck {
		x.f.a.SocksClientClose(int32(id))
		x.agentClosed[id] = true
	}
	if !waitFor(waitBound, func() bool { n := count(); return n.handlers == 0 && n.readers == n.readersInRead }) {
		return skip("relays-did-not-come-to-rest")
	}

	// ---- the tables at rest
	tbl := x.table()
	ids := map[uint32]int{}
	byAddr := map[string]tblEntry{}
	for _, e := range tbl {
		ids[e.id]++
		if ids[e.id] > 1 {
			return core.V("c|rest|duplicate-socket-id", "socket id %08x occurs twice in the socket table", e.id)
		}
		byAddr[e.key()] = e
	}
	proxies := x.f.proxyPorts()
	pset := map[string]int{}
	for _, p := range proxies {
		pset[p]++
		if pset[p] > 1 {
			return core.V("c|rest|duplicate-proxy-port", "port %s occurs twice in the proxy table %v", p, proxies)
		}
	}
	fw := x.f.fwdIDs()
	fset := map[uint32]int{}
	for _, id := range fw {
		fset[uint32(id)]++
		if fset[uint32(id)] > 1 {
			return core.V("c|rest|duplicate-forward-id", "forward id %08x occurs twice in the forward table", uint32(id))
		}
	}
	for id := range x.fwdOpen {
		if fset[id] == 0 {
			return core.V("c|rest|forward-missing", "forward %08x was opened and never removed by the agent, the forward table holds %x", id, fw)
		}
	}
	for id := range fset {
		if !x.fwdOpen[id] {
			return core.V("c|rest|forward-stays", "forward %08x was removed by the agent, the forward table holds %x", id, fw)
		}
	}
	// an accept loop whose listener a kill has just closed ends asynchronously: give it time; one
	// that is still there after the bound will be there for ever
	if !x.uncertain {
		waitFor(waitBound, func() bool { return count().starts <= len(proxies) })
	}
	if n := count().starts; n > len(proxies) && !x.uncertain {
		return core.V("c|rest|listener-without-proxy", "%d accept loops are running, the proxy table holds %v", n, proxies)
	}
	for _, e := range tbl {
		if e.lport != "" && pset[e.lport] == 0 {
			if x.uncertain {
				continue
			}
			return core.V("c|rest|socket-of-removed-proxy", "socket %08x (client %s) belongs to proxy %s which is no longer in the proxy table %v", e.id, e.remote, e.lport, proxies)
		}
	}
	// removals of a proxy slot, for the socket expectations
	removesOf := func(slot int) []pev {
		var out []pev
		for _, ev := range x.events {
			if ev.kind == "clear" || (ev.kind == "kill" && ev.slot == slot) {
				out = append(out, ev)
			}
		}
		return out
	}
	slotOf := map[string]int{}
	for i, p := range x.ports {
		slotOf[p] = i
	}
	for _, e := range tbl {
		why := ""
		if x.agentClosed[e.id] {
			why = "closed-by-agent"
		}
		if t, ok := x.seenAt[e.id]; ok && !x.uncertain {
			if slot, ok := slotOf[e.lport]; ok {
				for _, ev := range removesOf(slot) {
					if ev.start > t {
						why = "registered-before-" + ev.kind
					}
				}
			}
		}
		if cc := lastOn[e.key()]; cc != nil && cc.rstWhileConnected {
			why = "reset-by-connected-client"
		}
		if why != "" {
			return core.V("c|rest|socket-stays|"+why, "socket %08x (client %s) is still registered at rest: %s", e.id, e.key(), why)
		}
	}
	for _, cc := range x.conns {
		if _, present := byAddr[cc.addr]; present || lastOn[cc.addr] != cc {
			continue
		}
		if cc.done && cc.closeKind == "" && !x.uncertain {
			touched := false
			for _, ev := range removesOf(cc.slot) {
				if ev.end > cc.tDial {
					touched = true
				}
			}
			// a socket that is gone has no id left to look up, so "the agent ended it" is recognised by
			// the client having seen the failure reply or the end of its stream
			x.pollReply(cc)
			if !touched && !cc.refused && !x.endedByAgent(cc) {
				return core.V("c|rest|socket-missing", "client %s (proxy slot %d) completed its CONNECT request, nobody closed it and its proxy was not removed, but no socket is registered for it", cc.addr, cc.slot)
			}
		}
	}
	// every socket the agent was told to open and was not told to close (nor ended itself) is
	// registered.  (Order inside the queue is not judged here: a kill can queue its close task
	// just before the handler queues the connect task.)
	if !x.uncertain {
		queued, tv := x.f.takeTasks()
		if tv != nil {
			return tv
		}
		closeTask := map[uint32]bool{}
		for _, t := range queued {
			if t.Sub == scClose {
				closeTask[t.ID] = true
			}
		}
		for _, t := range queued {
			if t.Sub == scConnect && !closeTask[t.ID] && !x.agentClosed[t.ID] && ids[t.ID] == 0 {
				return core.V("c|rest|connect-task-without-close", "the agent was handed a connect task for socket %08x; at rest that socket is not registered, the agent did not end it and no close task for it was queued", t.ID)
			}
		}
	}
	// the proxy table against every linearisation of the commands
	if !x.uncertain {
		for slot, port := range x.ports {
			var adds, rems []pev
			for _, ev := range x.events {
				switch {
				case ev.kind == "add" && ev.slot == slot:
					adds = append(adds, ev)
				case ev.kind == "clear", ev.kind == "kill" && ev.slot == slot:
					rems = append(rems, ev)
				}
			}
			// two overlapping adds of one port can both pass the "already exists" test (finding
			// duplicate-proxy-port); a later kill then removes only one of the two entries
			overlap := false
			for i := range adds {
				for j := range adds {
					if i != j && adds[i].start < adds[j].end && adds[j].start < adds[i].end {
						overlap = true
					}
				}
			}
			mustHave, mustLack := false, len(adds) == 0
			for _, a := range adds {
				all := true
				for _, r := range rems {
					if r.end >= a.start {
						all = false
					}
				}
				if all {
					mustHave = true
				}
			}
			for _, r := range rems {
				all := true
				for _, a := range adds {
					if a.end >= r.start {
						all = false
					}
				}
				if all {
					mustLack = true
				}
			}
			if mustHave && pset[port] == 0 {
				return core.V("c|rest|proxy-missing", "proxy slot %d (%s) was added after every kill/clear had finished, the proxy table holds %v", slot, port, proxies)
			}
			if mustLack && pset[port] != 0 && !overlap {
				return core.V("c|rest|proxy-stays", "proxy slot %d (%s) was killed/cleared after every add had finished, the proxy table holds %v", slot, port, proxies)
			}
		}
	}
	return x.f.mutexesFree("c|rest")
}

// endedByAgent: the client's stream has ended (the agent's failure answer or CLOSE callback
// closes the connection).
func (x *runC) endedByAgent(cc *cconn) bool {
	cc.conn.SetReadDeadline(time.Now().Add(20 * time.Millisecond))
	defer cc.conn.SetReadDeadline(time.Time{})
	buf := make([]byte, 256)
	for {
		_, err := cc.conn.Read(buf)
		if err != nil {
			return !isTimeout(err)
		}
	}
}

func connKey(c net.Conn) string {
	lp := ""
	if la, ok := c.LocalAddr().(*net.TCPAddr); ok && la != nil {
		lp = fmt.Sprint(la.Port)
	}
	return c.RemoteAddr().String() + "->" + lp
}

func runtimeStack(buf []byte) int { return runtime.Stack(buf, true) }

func classifyC(c CaseC) core.Class {
	var cl core.Class
	parties := 2
	for _, p := range [][]OpC{c.Oper1, c.Oper2, c.Cli2} {
		if len(p) > 0 {
			parties++
		}
	}
	kinds := map[string]bool{}
	connects := 0
	for who, ops := range map[string][]OpC{"agent": c.Agent, "oper": append(append([]OpC(nil), c.Oper1...), c.Oper2...), "cli": append(append([]OpC(nil), c.Cli1...), c.Cli2...)} {
		for _, op := range ops {
			kinds[who+":"+op.Op] = true
			cl.Labels = append(cl.Labels, who+":"+op.Op)
			if who == "cli" && op.Op == "connect" {
				connects++
			}
		}
	}
	cl.Labels = append(cl.Labels, fmt.Sprintf("parties:%d", parties), fmt.Sprintf("pre:%d", c.Pre))
	if connects >= 2 {
		cl.Labels = append(cl.Labels, "clients>=2")
	}
	cl.NonTrivial = connects >= 2
	var ks []string
	for k := range kinds {
		if strings.HasPrefix(k, "oper:") || k == "agent:close" || k == "agent:pf-remove" || k == "cli:close" {
			ks = append(ks, k)
		}
	}
	sort.Strings(ks)
	cl.Fingerprint = fmt.Sprintf("parties=%d|pre=%d|%s", parties, c.Pre, strings.Join(ks, ","))
	return cl
}

func TestC15c(t *testing.T) {
	defer censusVerdict()
	core.Run(t, core.Spec[CaseC]{
		Property: "C15", Sub: "c",
		Rule: "concurrent program, 2-5 parties on their own goroutines: one agent (2-8 callbacks: answer pending connects ok/fail, READ and CLOSE for sockets it connected, forward OPEN / READ type CLIENT / REMOVE on 3 ids), 0-2 operators (socks add / kill on 3 port slots, list, clear), 1-2 client programs (connect = full handshake + CONNECT request, write after the reply, close FIN/RST), 0-2 proxies pre-started; built with -race. Oracle: no panic, no party blocked, and at rest no duplicate key in any table, every socket's proxy still listed, sockets closed by the agent / reset by a connected client / seen registered before a kill or clear of their proxy began are gone, untouched sockets are present, proxy table consistent with every linearisation of add/kill/clear, forward table = opened minus removed, mutexes free; race reports with a Havoc frame are violations (driver). Non-trivial: >=2 client connections; distinct = parties x pre-started x set of removing step kinds",
		Gen:  genC, Check: checkC, Classify: classifyC,
		Assumptions: []string{
			"callbacks of one agent are sequential (one TaskDispatch at a time), as in the HTTP listener where a Demon has one request in flight",
			"an operator does not issue the next command before the listener of a fresh `socks add` accepts connections",
			"schedules are sampled, not enumerated; the harness reads the tables only under their own mutexes and never reads the job queue while parties run",
		},
	})
}

var _ = testing.Short

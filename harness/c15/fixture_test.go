package c15

// C15 — the SOCKS5 and port-forward relays speak the protocol and move bytes intact.
//
// Fixture shared by the three sub-checks.
//
//   * The code under test is reached exactly as the teamserver reaches it: a proxy is
//     started with a.TaskPrepare(COMMAND_SOCKET, {"Command":"socks add","Params":port}),
//     a real TCP client talks to 127.0.0.1:port, the Demon is played by the harness
//     (tasks taken with a.GetQueuedJobs(), callbacks injected with a.TaskDispatch()).
//   * Havoc does not synchronise a.JobQueue (relay goroutines append to it while the
//     HTTP handler slices it).  Sub-checks (a) and (b) are about protocol and byte
//     integrity, not about that race, so they read the queue only at points where the
//     harness has *established* that no relay goroutine can be appending:
//       - no connection-handler goroutine is alive (goroutine dump, "created by
//         socks.(*Socks).Start"),
//       - for every connected client all bytes the client wrote have arrived at the
//         server socket (TCP_INFO.tcpi_bytes_received of the server-side fd) and have
//         been consumed by the relay (FIONREAD == 0), and only then
//       - every relay reader goroutine of a connected client is parked in conn.Read
//         ("IO wait" below agent.SocksClientRead) and the number of reader goroutines is
//         the number the history explains.
//     These are facts about states, never about elapsed time; the time bounds below only
//     say how long the harness is prepared to wait for a state before it gives up on the
//     case (counted as skipped, never as a violation).
//   * Effects that the property statement *requires* (a reply, a connect task, a socket
//     leaving the table) are decided at such quiescent points: "the goroutine that had to
//     produce the effect has finished / is parked and the effect is not there" — not
//     "the effect did not show up within n seconds".

import (
	"bytes"
	"encoding/binary"
	"encoding/json"
	"errors"
	"fmt"
	"io"
	"net"
	"os"
	"regexp"
	"runtime"
	"strconv"
	"strings"
	"sync"
	"sync/atomic"
	"syscall"
	"time"
	"unsafe"

	"Havoc/pkg/agent"
	"Havoc/pkg/common/parser"

	"verifharness/internal/core"
	"verifharness/internal/demonref"
	"verifharness/internal/tsx"
)

const (
	// how long the harness waits for a *state* (see above) before giving up on the case
	waitBound = 30 * time.Second
	// how long a client waits for bytes the server has certainly already written, or
	// for an EOF the statement requires
	readBound = 20 * time.Second
	// pause between two client writes, to provoke separate TCP segments (never part of an oracle)
	segPause = 500 * time.Microsecond
	pollStep = 150 * time.Microsecond
)

// ---------------------------------------------------------------------------- counters (evidence extras)

var (
	skipMu sync.Mutex
	skips  = map[string]int{}
	caseNo int64
	// skipTotal / caseNo: a run in which the harness had to give up on a large share of its cases
	// has not explored what its evidence claims; censusVerdict turns that into "inconclusive"
	skipTotal int
)

func skip(why string) *core.Violation {
	skipMu.Lock()
	skips[why]++
	skipTotal++
	cp := map[string]int{}
	for k, v := range skips {
		cp[k] = v
	}
	skipMu.Unlock()
	core.SetExtra("skipped_cases", cp)
	return nil
}

func skipCount() int {
	skipMu.Lock()
	defer skipMu.Unlock()
	return skipTotal
}

// ---------------------------------------------------------------------------- known findings inside one history

// A history of sub-check (b)/(c) has many steps; a step that hits an *open known finding*
// must not hide the steps behind it.  verdicts remembers the first known violation, lets
// the interpreter repair the fixture and go on, and stops at the first violation that is
// not known.  (core.Run does the final matching again; this only decides "continue or not".)
var (
	knownOnce sync.Once
	knownSigs map[string]bool
)

func isKnown(sig string) bool {
	knownOnce.Do(func() {
		knownSigs = map[string]bool{}
		b, err := os.ReadFile(os.Getenv("VERIF_KNOWN"))
		if err != nil {
			return
		}
		for _, ln := range strings.Split(string(b), "\n") {
			var k struct{ Property, Signature, Status string }
			if json.Unmarshal([]byte(strings.TrimSpace(ln)), &k) == nil && k.Property == "C15" && k.Status == "open" {
				knownSigs[k.Signature] = true
			}
		}
	})
	return knownSigs[sig]
}

type verdicts struct {
	known *core.Violation // first known finding met
	fatal *core.Violation // first violation that is not known
}

// stop records v and reports whether the history must end here.
func (r *verdicts) stop(v *core.Violation) bool {
	if v == nil {
		return false
	}
	if isKnown(v.Sig) {
		if r.known == nil {
			r.known = v
		}
		return false
	}
	r.fatal = v
	return true
}

func (r *verdicts) result() *core.Violation {
	if r.fatal != nil {
		return r.fatal
	}
	return r.known
}

// ---------------------------------------------------------------------------- goroutine census

type gInfo struct {
	state string // text between [] of the header, without the ", N minutes" suffix
	kind  string // start | handler | reader | pfreader | other
	stack string
}

var (
	reCreator = regexp.MustCompile(`\ncreated by (\S+) in goroutine`)
	dumpBuf   = make([]byte, 4<<20)
	dumpMu    sync.Mutex
)

// census classifies the goroutines Havoc has started by where they come from, not by the
// names of the functions they run (a repair may rename or split those):
//
//	handler   created by code of package socks (the accept loop starts one per connection)
//	start     has a frame of package socks on its own stack (the accept loop / its launcher)
//	pending   created by TaskPrepare itself and not yet inside package socks
//	pfreader  created by TaskDispatch (the reader of a reverse port forward)
//	reader    created by any other code of package agent (the relay of a socks client)
//
// censusSane() verifies once per process that this picture matches the code under test.
func census() []gInfo {
	dumpMu.Lock()
	defer dumpMu.Unlock()
	n := runtime.Stack(dumpBuf, true)
	var out []gInfo
	for _, g := range strings.Split(string(dumpBuf[:n]), "\n\n") {
		if !strings.HasPrefix(g, "goroutine ") {
			continue
		}
		hdrEnd := strings.IndexByte(g, '\n')
		if hdrEnd < 0 {
			continue
		}
		hdr := g[:hdrEnd]
		st := ""
		if i := strings.IndexByte(hdr, '['); i >= 0 {
			st = strings.TrimSuffix(hdr[i+1:], "]:")
			if j := strings.IndexByte(st, ','); j >= 0 {
				st = st[:j]
			}
		}
		gi := gInfo{state: st, kind: "other", stack: g}
		creator := ""
		if m := reCreator.FindStringSubmatch(g); m != nil {
			creator = m[1]
		}
		switch {
		case strings.HasPrefix(creator, "Havoc/pkg/socks."):
			gi.kind = "handler"
		case strings.Contains(g, "\nHavoc/pkg/socks."):
			gi.kind = "start"
		case creator == "Havoc/pkg/agent.(*Agent).TaskPrepare":
			gi.kind = "pending"
		case strings.HasPrefix(creator, "Havoc/pkg/agent.") && strings.Contains(creator, "TaskDispatch"):
			gi.kind = "pfreader"
		case strings.HasPrefix(creator, "Havoc/pkg/agent."):
			gi.kind = "reader"
		}
		out = append(out, gi)
	}
	return out
}

type counts struct {
	starts, startsListening int
	startPending            int // goroutine created by TaskPrepare that has not entered Socks.Start yet
	handlers                int
	readers, readersInRead  int
	pfreaders, pfInRead     int // pfInRead: parked in io.Copy's Read
	pfPastAppend            int // has a PortFwdRead/PortFwdGet frame (i.e. not between Read and AddJobToQueue)
}

// leakedStarts: accept loops that earlier cases could not end (Havoc lost the only reference
// to their listener: `socks add` racing with kill/clear).  They stay for the life of the
// process and are subtracted from every census.
var leakedStarts int

func count() counts {
	c := rawCount()
	c.starts -= leakedStarts
	c.startsListening -= leakedStarts
	return c
}

func rawCount() counts {
	var c counts
	for _, g := range census() {
		switch g.kind {
		case "start":
			c.starts++
			if g.state == "IO wait" && strings.Contains(g.stack, ".Accept(") {
				c.startsListening++
			}
		case "pending":
			c.startPending++
		case "handler":
			c.handlers++
		case "reader":
			c.readers++
			if g.state == "IO wait" && strings.Contains(g.stack, ".Read(") {
				c.readersInRead++
			}
		case "pfreader":
			c.pfreaders++
			if g.state == "IO wait" {
				c.pfInRead++
			}
			if strings.Contains(g.stack, ".PortFwdRead(") || strings.Contains(g.stack, ".PortFwdGet(") {
				c.pfPastAppend++
			}
		}
	}
	return c
}

// waitFor polls cond until it holds or the bound expires.
func waitFor(bound time.Duration, cond func() bool) bool {
	dl := time.Now().Add(bound)
	step := pollStep
	for i := 0; ; i++ {
		if cond() {
			return true
		}
		if time.Now().After(dl) {
			return false
		}
		time.Sleep(step)
		if i > 50 && step < 5*time.Millisecond {
			step *= 2
		}
	}
}

// censusSane checks, once per process, that the goroutine picture above is the one the code
// under test produces: one proxy => one accept loop parked in Accept; a client in the middle
// of its greeting => one handler; a registered, unanswered client => one relay goroutine and
// no handler; after the agent's answer the relay is parked in Read.  If it does not hold the sub-checks cannot establish quiescence and must not run.
var (
	saneOnce sync.Once
	saneErr  string
)

func censusSane() string {
	saneOnce.Do(func() {
		f := newFixture()
		var cl *cli
		defer func() {
			if cl != nil {
				f.cleanup([]*cli{cl})
			} else {
				f.cleanup(nil)
			}
		}()
		port, ok := f.startProxy()
		if !ok {
			saneErr = "no proxy could be started: " + lastStartErr
			return
		}
		if n := count(); n.starts != 1 || n.startsListening != 1 || n.handlers != 0 || n.readers != 0 {
			saneErr = fmt.Sprintf("after socks add: %+v", n)
			return
		}
		var err error
		if cl, err = dialProxy(port); err != nil {
			saneErr = "cannot connect to the proxy: " + err.Error()
			return
		}
		cl.send([]byte{5}, nil)
		if !waitFor(waitBound, func() bool { return count().handlers == 1 }) {
			saneErr = fmt.Sprintf("client in the middle of its greeting: %+v", count())
			return
		}
		cl.send([]byte{1, 0}, nil)
		if rep, err := cl.recv(2, true); err != nil || rep[1] != 0 {
			saneErr = fmt.Sprintf("greeting not answered: % x %v", rep, err)
			return
		}
		cl.send(request(5, 1, 0, 1, []byte{10, 0, 0, 1}, 80), nil)
		if !waitFor(waitBound, func() bool { n := count(); return n.handlers == 0 && n.readers == 1 && n.readersInRead == 0 }) {
			saneErr = fmt.Sprintf("registered, unanswered client: %+v", count())
			return
		}
		ids := f.socketIDs()
		if len(ids) != 1 {
			saneErr = fmt.Sprintf("socket table after one CONNECT: %x", ids)
			return
		}
		f.dispatch(cbConnect(ids[0], true, 0))
		if !waitFor(waitBound, func() bool { n := count(); return n.readers == 1 && n.readersInRead == 1 }) {
			saneErr = fmt.Sprintf("connected client: %+v", count())
			return
		}
		// what kill / close do to these goroutines is the property's business, not this check's:
		// the deferred cleanup ends the scenario
	})
	return saneErr
}

// censusVerdict ends the test process with an infrastructure status (the driver reports
// "inconclusive") when the goroutine picture did not match: every case was skipped.
// The check runs inside the first case, not before rapid.Check, because in the -race build
// the scenario itself provokes race reports and rapid refuses a *testing.T that has failed.
func censusVerdict() {
	if saneErr != "" {
		fmt.Printf("INFRASTRUCTURE: the harness cannot recognise Havoc's relay goroutines (%s); every case was skipped\n", saneErr)
		os.Exit(3)
	}
	skipMu.Lock()
	n, total, why := skipTotal, atomic.LoadInt64(&caseNo), fmt.Sprint(skips)
	skipMu.Unlock()
	if total >= 20 && int64(n)*5 > total {
		fmt.Printf("INFRASTRUCTURE: the harness gave up on %d of %d cases (%s); the run is not conclusive\n", n, total, why)
		os.Exit(3)
	}
}

// ---------------------------------------------------------------------------- socket introspection (Linux)

const (
	ioctlFIONREAD = 0x541B
	tcpInfoOpt    = 11 // TCP_INFO
)

type sockStat struct {
	inq      int    // unread bytes in the receive queue
	received uint64 // tcpi_bytes_received
	ok       bool
}

func statConn(c net.Conn) sockStat {
	var s sockStat
	tc, ok := c.(*net.TCPConn)
	if !ok || tc == nil {
		return s
	}
	rc, err := tc.SyscallConn()
	if err != nil {
		return s
	}
	rc.Control(func(fd uintptr) {
		var n int32
		if _, _, e := syscall.Syscall(syscall.SYS_IOCTL, fd, ioctlFIONREAD, uintptr(unsafe.Pointer(&n))); e != 0 {
			return
		}
		var info [256]byte
		l := uint32(len(info))
		if _, _, e := syscall.Syscall6(syscall.SYS_GETSOCKOPT, fd, syscall.IPPROTO_TCP, tcpInfoOpt, uintptr(unsafe.Pointer(&info[0])), uintptr(unsafe.Pointer(&l)), 0); e != 0 {
			return
		}
		if l < 136 {
			return
		}
		s.inq = int(n)
		s.received = binary.LittleEndian.Uint64(info[128:136]) // struct tcp_info: tcpi_bytes_received
		s.ok = true
	})
	return s
}

// ---------------------------------------------------------------------------- fixture

type fixture struct {
	a    *agent.Agent
	rec  *tsx.Recorder
	key  []byte
	iv   []byte
	live []string // ports of proxies the harness started and has not killed
	log  []sockTask

	// configuration / environment dimension (cfg_test.go)
	cfg     Cfg
	parent  *agent.Agent // the agent is a pivot child of this one
	extras  []*fixture   // further agents with proxies of their own
	restore []func()     // undo what the configuration changed process-wide
}

func newFixture() *fixture {
	tsx.Quiet()
	n := atomic.AddInt64(&caseNo, 1)
	if n%200 == 0 {
		// the connection handler never closes the sockets of connections it abandons; they are
		// reclaimed by finalizers.  Keep the descriptor table small across 20k cases.
		runtime.GC()
	}
	leakedStarts = rawCount().starts
	parkedHandlers = 0
	f := &fixture{rec: tsx.NewRecorder(), key: make([]byte, 32), iv: make([]byte, 16)}
	for i := range f.key {
		f.key[i] = byte(i*7 + 3)
	}
	for i := range f.iv {
		f.iv[i] = byte(i*13 + 1)
	}
	f.a = &agent.Agent{NameID: "5ac15ac1", Active: true, Info: &agent.AgentInfo{}}
	f.a.Encryption.AESKey = f.key
	f.a.Encryption.AESIv = f.iv
	return f
}

// operator runs one operator command the way cmd/server/dispatch.go does.
func (f *fixture) operator(cmd, params string) (map[string]string, error) {
	var msg map[string]string
	_, err := f.a.TaskPrepare(agent.COMMAND_SOCKET, map[string]interface{}{"Command": cmd, "Params": params}, &msg, "client", f.rec)
	return msg, err
}

func freePort() string {
	l, err := core.ListenLoopback("tcp4")
	if err != nil {
		return ""
	}
	p := l.Addr().(*net.TCPAddr).Port
	l.Close()
	return strconv.Itoa(p)
}

var lastStartErr string

// parkedHandlers: connection handlers that are known to be parked in a read, waiting for the
// next bytes of a client the harness is holding in the middle of its handshake (staged step
// of sub-check b).  Such a handler cannot queue anything until the harness lets the client
// write, so a state with exactly these handlers alive is quiescent.
var parkedHandlers int

// startProxy issues `socks add <port>` on a free port and waits until the accept loop of
// that proxy is parked in Accept.  ok=false: no port could be bound (another process took
// it between our probe and Havoc's Listen) — an infrastructure condition, not a verdict.
func (f *fixture) startProxy() (string, bool) { return f.startProxyAt("") }

// startProxyAt: on the given port (one attempt) or, with "", on a free one.
func (f *fixture) startProxyAt(fixed string) (string, bool) {
	for attempt := 0; attempt < 6; attempt++ {
		port := fixed
		if fixed != "" && attempt > 0 {
			return "", false
		}
		if port == "" {
			port = freePort()
		}
		if port == "" {
			lastStartErr = "net.Listen(127.0.0.1:0) failed: no free port"
			continue
		}
		before := count().starts
		if _, err := f.operator("socks add", port); err != nil {
			lastStartErr = "TaskPrepare(socks add " + port + ") returned: " + err.Error()
			continue
		}
		listening := false
		ok := waitFor(waitBound, func() bool {
			c := count()
			if c.startsListening >= before+1 {
				listening = true
				return true
			}
			// the goroutine running Socks.Start has returned: Listen failed
			return c.starts <= before && c.startPending == 0
		})
		if ok && listening {
			f.live = append(f.live, port)
			return port, true
		}
		if !refused(port) {
			lastStartErr = fmt.Sprintf("port %s accepts connections after `socks add` but no goroutine with a frame of package Havoc/pkg/socks parked in Accept was found (census %+v)", port, count())
		} else {
			lastStartErr = fmt.Sprintf("`socks add %s` returned no error but nothing listens on the port (bind lost to another process?) (census %+v)", port, count())
		}
		f.operator("socks kill", port) // drop the dead table entry
	}
	return "", false
}

func (f *fixture) forget(port string) {
	for i, p := range f.live {
		if p == port {
			f.live = append(f.live[:i], f.live[i+1:]...)
			return
		}
	}
}

// cleanup ends the case: every mutex a panicking command left locked is released, every proxy
// is killed, every remaining socket / forward is closed, and the relay goroutines are awaited.
func (f *fixture) cleanup(clients []*cli) {
	for _, c := range clients {
		if c != nil && c.conn != nil {
			c.conn.SetLinger(0) // abortive: leaves no TIME_WAIT socket behind (see a_test.go closeA)
			c.conn.Close()
		}
	}
	for _, e := range f.extras {
		e.cleanupTables()
	}
	defer func() {
		for i := len(f.restore) - 1; i >= 0; i-- {
			f.restore[i]()
		}
		f.restore = nil
	}()
	f.cleanupTables()
	waitFor(waitBound, func() bool {
		c := count()
		return c.startPending == 0 && c.handlers == 0 && c.readers == 0 && c.pfreaders == 0
	})
	// an accept loop that survives the kill of every listed proxy is unreachable (see leakedStarts)
	waitFor(150*time.Millisecond, func() bool { return count().starts == 0 })
}

// cleanupTables: kill / close whatever one agent still has registered.
func (f *fixture) cleanupTables() {
	unstick(&f.a.SocksSvrMtx)
	unstick(&f.a.SocksCliMtx)
	unstick(&f.a.PortFwdsMtx)
	func() {
		defer func() { recover() }()
		for _, p := range append([]string(nil), f.live...) {
			f.operator("socks kill", p)
		}
	}()
	unstick(&f.a.SocksSvrMtx)
	// whatever is still registered (sockets the code failed to remove) is closed so that the
	// goroutines serving it end
	f.a.SocksSvrMtx.Lock()
	for _, s := range f.a.SocksSvr {
		if s != nil && s.Server != nil {
			s.Server.Close()
		}
	}
	f.a.SocksSvr = nil
	f.a.SocksSvrMtx.Unlock()
	for _, id := range f.socketIDs() {
		f.a.SocksClientClose(int32(id))
	}
	for _, id := range f.fwdIDs() {
		f.a.PortFwdClose(id)
	}
}

// lockFree reports whether m can be acquired within the bound.  (TryLock is useless here: the
// relay goroutines of unconnected sockets take SocksCliMtx in a tight loop, which keeps the
// mutex in starvation mode where TryLock always fails; a real Lock is served in FIFO order.)
// The helper goroutine ends as soon as the mutex is released, also after the bound.
func lockFree(m *sync.Mutex, bound time.Duration) (bool, chan struct{}) {
	done := make(chan struct{})
	go func() { m.Lock(); m.Unlock(); close(done) }()
	select {
	case <-done:
		return true, done
	case <-time.After(bound):
		return false, done
	}
}

// unstick releases a mutex that a command left locked when it panicked or returned.  Only
// called when no command is running, so nobody can be holding it legitimately for longer
// than the few instructions of a table walk.
func unstick(m *sync.Mutex) { unstickWithin(m, 2*time.Second) }

// unstickNow: right after a command panicked on this goroutine (whatever it held stays held).
func unstickNow(m *sync.Mutex) { unstickWithin(m, 300*time.Millisecond) }

func unstickWithin(m *sync.Mutex, bound time.Duration) {
	free, done := lockFree(m, bound)
	if free {
		return
	}
	func() {
		defer func() { recover() }()
		m.Unlock()
	}()
	<-done
}

// locked: the mutex is still held 10 s after the command returned.
func locked(m *sync.Mutex) bool {
	free, done := lockFree(m, 10*time.Second)
	if free {
		return false
	}
	func() {
		defer func() { recover() }()
		m.Unlock()
	}()
	<-done
	return true
}

// socketIDs returns the ids in a.SocksCli (as unsigned), read under the table's own mutex.
func (f *fixture) socketIDs() []uint32 {
	f.a.SocksCliMtx.Lock()
	defer f.a.SocksCliMtx.Unlock()
	var out []uint32
	for _, c := range f.a.SocksCli {
		if c != nil {
			out = append(out, uint32(c.SocketID))
		}
	}
	return out
}

func (f *fixture) hasSocket(id uint32) bool {
	for _, x := range f.socketIDs() {
		if x == id {
			return true
		}
	}
	return false
}

func (f *fixture) fwdIDs() []int {
	f.a.PortFwdsMtx.Lock()
	defer f.a.PortFwdsMtx.Unlock()
	var out []int
	for _, p := range f.a.PortFwds {
		if p != nil {
			out = append(out, p.SocktID)
		}
	}
	return out
}

func (f *fixture) proxyPorts() []string {
	f.a.SocksSvrMtx.Lock()
	defer f.a.SocksSvrMtx.Unlock()
	var out []string
	for _, s := range f.a.SocksSvr {
		if s != nil {
			out = append(out, s.Addr)
		}
	}
	return out
}

// serverConn returns the server-side net.Conn of the socket whose peer is the given client
// address (read under the table mutex).
func (f *fixture) serverConn(clientAddr string) (net.Conn, uint32, bool) {
	f.a.SocksCliMtx.Lock()
	defer f.a.SocksCliMtx.Unlock()
	for _, c := range f.a.SocksCli {
		if c != nil && c.Conn != nil && c.Conn.RemoteAddr() != nil && c.Conn.RemoteAddr().String() == clientAddr {
			return c.Conn, uint32(c.SocketID), true
		}
	}
	return nil, 0, false
}

// ---------------------------------------------------------------------------- the Demon side

const (
	scOpen    = agent.SOCKET_COMMAND_OPEN
	scRead    = agent.SOCKET_COMMAND_READ
	scWrite   = agent.SOCKET_COMMAND_WRITE
	scClose   = agent.SOCKET_COMMAND_CLOSE
	scConnect = agent.SOCKET_COMMAND_CONNECT
	scRemove  = agent.SOCKET_COMMAND_RPORTFWD_REMOVE

	typeFwd    = agent.SOCKET_TYPE_REVERSE_PORTFWD
	typeProxy  = agent.SOCKET_TYPE_REVERSE_PROXY
	typeClient = agent.SOCKET_TYPE_CLIENT
)

// dispatch injects one COMMAND_SOCKET callback (payloads/Demon/src/core/Socket.c, Command.c
// CommandSocket: PackageCreate(DEMON_COMMAND_SOCKET) + PackageAddInt32(sub) + ...).
func (f *fixture) dispatch(body []byte) {
	f.a.TaskDispatch(0, agent.COMMAND_SOCKET, parser.NewParser(body), f.rec)
}

// Command.c:3014-3025  Socket::Connect reply: [sub][success][socket id][error code]
func cbConnect(id uint32, ok bool, code uint32) []byte {
	e := &demonref.Enc{}
	e.Int32(scConnect).Bool(ok).Int32(id).Int32(code)
	return e.B
}

// Socket.c:380-392  [READ][id][type][TRUE][bytes]
func cbRead(id uint32, typ uint32, data []byte) []byte {
	e := &demonref.Enc{}
	e.Int32(scRead).Int32(id).Int32(typ).Int32(1).Bytes(data)
	return e.B
}

// Socket.c:459-467  [CLOSE][id][SOCKET_TYPE_REVERSE_PROXY]
func cbClose(id uint32) []byte {
	e := &demonref.Enc{}
	e.Int32(scClose).Int32(id).Int32(typeProxy)
	return e.B
}

// Socket.c:248-263  [OPEN][id][lcl addr][lcl port][fwd addr][fwd port]
func cbOpen(id, lclAddr, lclPort, fwdAddr, fwdPort uint32) []byte {
	e := &demonref.Enc{}
	e.Int32(scOpen).Int32(id).Int32(lclAddr).Int32(lclPort).Int32(fwdAddr).Int32(fwdPort)
	return e.B
}

// Socket.c:435-451  [RPORTFWD_REMOVE][id][type][lcl addr][lcl port][fwd addr][fwd port]
func cbRemove(id, typ, lclAddr, lclPort, fwdAddr, fwdPort uint32) []byte {
	e := &demonref.Enc{}
	e.Int32(scRemove).Int32(id).Int32(typ).Int32(lclAddr).Int32(lclPort).Int32(fwdAddr).Int32(fwdPort)
	return e.B
}

// sockTask is one COMMAND_SOCKET task as the Demon's CommandSocket reads it
// (Command.c:2746 Command = ParserGetInt32; CONNECT :2956-2959 Int32,Byte,Bytes,Int16;
// WRITE :2886-2887 Int32,Bytes; CLOSE :3041 Int32).
type sockTask struct {
	Sub  uint32
	ID   uint32
	Atyp byte
	Addr []byte
	Port uint16
	Data []byte
	body string // the decrypted task body as the Demon reads it
}

// takeTasks empties the job queue through the real accessor and decodes every job both from
// Job.Data and — through agent.BuildPayloadMessage and the reference reader — from the bytes
// the Demon would receive.  MUST only be called at a quiescent point.
func (f *fixture) takeTasks() ([]sockTask, *core.Violation) {
	var out []sockTask
	for {
		jobs := f.a.GetQueuedJobs()
		if len(jobs) == 0 {
			break
		}
		for _, j := range jobs {
			t, v := f.decodeJob(j)
			if v != nil {
				return nil, v
			}
			out = append(out, t)
		}
	}
	f.log = append(f.log, out...)
	if f.parent != nil {
		var own []string
		for _, t := range out {
			own = append(own, t.body)
		}
		if v := f.pivotAgrees(own); v != nil {
			return nil, v
		}
	}
	return out, nil
}

func (f *fixture) decodeJob(j agent.Job) (sockTask, *core.Violation) {
	var t sockTask
	if j.Command != agent.COMMAND_SOCKET {
		return t, core.V("task|foreign-command-in-queue", "job with command %d in the queue of a socks-only history", j.Command)
	}
	wire := agent.BuildPayloadMessage([]agent.Job{j}, f.key, f.iv)
	tasks, clean := demonref.ReadTasks(wire, f.key, f.iv, 0, "")
	if !clean || len(tasks) != 1 || tasks[0].Cmd != agent.COMMAND_SOCKET {
		return t, core.V("task|wire|not-one-socket-task", "BuildPayloadMessage of one socket job does not read back as one COMMAND_SOCKET task (clean=%v n=%d)", clean, len(tasks))
	}
	d := &demonref.Dec{B: tasks[0].Body}
	t.body = string(tasks[0].Body)
	t.Sub = d.Int32()
	switch t.Sub {
	case scConnect:
		t.ID = d.Int32()
		t.Atyp = d.Byte()
		t.Addr = append([]byte(nil), d.Bytes()...)
		t.Port = d.Int16()
	case scWrite:
		t.ID = d.Int32()
		t.Data = append([]byte(nil), d.Bytes()...)
	case scClose:
		t.ID = d.Int32()
	default:
		return t, core.V("task|unexpected-subcommand", "socket task with sub-command %#x queued by the relay", t.Sub)
	}
	if d.Err || d.Len() != 0 {
		return t, core.V(fmt.Sprintf("task|wire|sub=%#x|layout", t.Sub), "socket task %#x does not match the Demon's ParserGet* sequence (short=%v, %d bytes left): % x", t.Sub, d.Err, d.Len(), tasks[0].Body)
	}
	// the same through Job.Data (what the design calls "inspect Job.Data")
	bad := func() (sockTask, *core.Violation) {
		return t, core.V(fmt.Sprintf("task|data|sub=%#x|shape", t.Sub), "Job.Data of socket task %#x has an unexpected shape: %#v", t.Sub, j.Data)
	}
	if len(j.Data) < 2 {
		return bad()
	}
	if s, ok := j.Data[0].(int); !ok || uint32(s) != t.Sub {
		return bad()
	}
	var id uint32
	switch x := j.Data[1].(type) {
	case int32:
		id = uint32(x)
	case int:
		id = uint32(x)
	case uint32:
		id = x
	default:
		return bad()
	}
	if id != t.ID {
		return t, core.V("task|data-vs-wire|id", "socket id %#x in Job.Data, %#x on the wire", id, t.ID)
	}
	return t, nil
}

// ---------------------------------------------------------------------------- the SOCKS client

type cli struct {
	conn      *net.TCPConn
	addr      string // local address = the peer address the server sees
	written   uint64 // bytes written on this connection so far
	id        uint32 // socket id learnt from the connect task
	hasID     bool
	connected bool   // success reply received
	closed    bool   // closed by the client
	reader    string // "", spin, read, gone : what the history says about this connection's relay goroutine
}

func dialProxy(port string) (*cli, error) { return dialProxyBuf(port, 0) }

// dialProxyBuf: with rcvbuf > 0 the client socket gets that SO_RCVBUF before it connects (the
// window offered in the SYN already reflects it) - a peer that can take little at a time.
func dialProxyBuf(port string, rcvbuf int) (*cli, error) {
	d := net.Dialer{Timeout: 10 * time.Second}
	if rcvbuf > 0 {
		d.Control = func(network, address string, rc syscall.RawConn) error {
			var e error
			if err := rc.Control(func(fd uintptr) {
				e = syscall.SetsockoptInt(int(fd), syscall.SOL_SOCKET, syscall.SO_RCVBUF, rcvbuf)
			}); err != nil {
				return err
			}
			return e
		}
	}
	c, err := d.Dial("tcp4", "127.0.0.1:"+port)
	if err != nil {
		return nil, err
	}
	tc := c.(*net.TCPConn)
	tc.SetNoDelay(true)
	return &cli{conn: tc, addr: tc.LocalAddr().String()}, nil
}

// send writes msg in the given pieces (cuts are offsets into msg), pausing between pieces so
// that each piece leaves as its own segment.
func (c *cli) send(msg []byte, cuts []int) error {
	prev := 0
	for _, p := range append(append([]int(nil), cuts...), len(msg)) {
		if p <= prev || p > len(msg) {
			continue
		}
		if prev > 0 {
			time.Sleep(segPause)
		}
		n, err := c.conn.Write(msg[prev:p])
		c.written += uint64(n)
		if err != nil {
			return err
		}
		prev = p
	}
	return nil
}

var errHandlerGone = errors.New("the connection handler ended without sending the bytes")

// recv reads exactly n bytes.  While waiting it watches the connection-handler goroutines:
// when handlerWrites is set (the awaited bytes are written by the handler goroutine) and no
// handler goroutine exists any more, whatever has not arrived after a final grace read will
// never arrive.
func (c *cli) recv(n int, handlerWrites bool) ([]byte, error) {
	buf := make([]byte, n)
	got := 0
	start := time.Now()
	dl := start.Add(readBound)
	gone := false
	seen := false // a handler goroutine was observed while we waited
	for got < n {
		c.conn.SetReadDeadline(time.Now().Add(20 * time.Millisecond))
		m, err := c.conn.Read(buf[got:])
		got += m
		if got == n {
			break
		}
		if err != nil {
			var ne net.Error
			if errors.As(err, &ne) && ne.Timeout() {
				if gone {
					return buf[:got], errHandlerGone
				}
				if handlerWrites {
					// "no handler goroutine" means "ended" only if one was there, or if the accept loop
					// has had ample time to start it: on a loaded machine the connection can sit in the
					// accept queue for a while before its handler exists (false alarm seen once in a
					// thorough run at load 107: greeting "answered with nothing" 40 ms after connect)
					if h := count().handlers; h > 0 {
						seen = true
					} else if (seen && time.Since(start) > 500*time.Millisecond) || time.Since(start) > 5*time.Second {
						gone = true // one more round: bytes written just before the goroutine ended are already in our queue
					}
				}
				if time.Now().After(dl) {
					return buf[:got], fmt.Errorf("timeout after %v", readBound)
				}
				continue
			}
			return buf[:got], err
		}
	}
	c.conn.SetReadDeadline(time.Time{})
	return buf, nil
}

// expectEOF: the next thing on the connection must be end of stream (a reset counts: the
// server closed a socket that still had our unread bytes).  extra = bytes that arrived instead.
func (c *cli) expectEOF() (extra []byte, closed bool) {
	c.conn.SetReadDeadline(time.Now().Add(readBound))
	defer c.conn.SetReadDeadline(time.Time{})
	buf := make([]byte, 4096)
	for {
		n, err := c.conn.Read(buf)
		if n > 0 {
			extra = append(extra, buf[:n]...)
			if len(extra) > 1<<16 {
				return extra, false
			}
			continue
		}
		if err == nil {
			continue
		}
		var ne net.Error
		if errors.As(err, &ne) && ne.Timeout() {
			return extra, false
		}
		return extra, true // io.EOF or ECONNRESET
	}
}

// nothingPending: a short non-blocking look for bytes that should not be there.
func (c *cli) pending() []byte {
	c.conn.SetReadDeadline(time.Now().Add(time.Millisecond))
	defer c.conn.SetReadDeadline(time.Time{})
	buf := make([]byte, 4096)
	n, _ := c.conn.Read(buf)
	return buf[:n]
}

// sendChunks writes each chunk with its own write call, pausing in between.
func (c *cli) sendChunks(chunks [][]byte) error {
	for i, ch := range chunks {
		if len(ch) == 0 {
			continue
		}
		if i > 0 {
			time.Sleep(segPause)
		}
		n, err := c.conn.Write(ch)
		c.written += uint64(n)
		if err != nil {
			return err
		}
	}
	return nil
}

func (c *cli) closeFIN() {
	c.conn.Close()
	c.closed = true
}

func (c *cli) closeRST() {
	c.conn.SetLinger(0)
	c.conn.Close()
	c.closed = true
}

// ---------------------------------------------------------------------------- SOCKS5 messages (RFC 1928)

func greeting(ver byte, methods []byte) []byte {
	b := []byte{ver, byte(len(methods))}
	return append(b, methods...)
}

// request builds VER CMD RSV ATYP DST.ADDR DST.PORT.  For atyp 3 the length octet is len(addr).
func request(ver, cmd, rsv, atyp byte, addr []byte, port uint16) []byte {
	b := []byte{ver, cmd, rsv, atyp}
	if atyp == 3 {
		b = append(b, byte(len(addr)))
	}
	b = append(b, addr...)
	return append(b, byte(port>>8), byte(port))
}

// addrSpan returns [from,to) of the address octets inside a request built by request().
func addrSpan(atyp byte, addr []byte) (int, int) {
	from := 4
	if atyp == 3 {
		from = 5
	}
	return from, from + len(addr)
}

// expectedReply is the reply the statement asks for: VER=5, REP, RSV=0, and ATYP / address /
// port of the request echoed.
func expectedReply(rep, atyp byte, addr []byte, port uint16) []byte {
	return request(5, rep, 0, atyp, addr, port)
}

// repFor is the REP code socks/util.go documents for an agent error code.
func repFor(code uint32) byte {
	switch code {
	case 10060: // WSAETIMEDOUT
		return 6
	case 10061: // WSAECONNREFUSED
		return 5
	case 10065: // WSAEHOSTUNREACH
		return 4
	case 10051: // WSAENETUNREACH
		return 3
	}
	return 1
}

// readReply reads one RFC 1928 reply of whatever address type the server chose.
func (c *cli) readReply(handlerWrites bool) ([]byte, error) {
	h, err := c.recv(4, handlerWrites)
	if err != nil {
		return h, err
	}
	var rest int
	switch h[3] {
	case 1:
		rest = 4 + 2
	case 4:
		rest = 16 + 2
	case 3:
		l, err := c.recv(1, handlerWrites)
		if err != nil {
			return append(h, l...), err
		}
		h = append(h, l...)
		rest = int(l[0]) + 2
	default:
		return h, fmt.Errorf("reply with address type %d", h[3])
	}
	r, err := c.recv(rest, handlerWrites)
	return append(h, r...), err
}

// ---------------------------------------------------------------------------- quiescence

// quiesce waits for the state described at the top of this file.  clients = every client
// connection of the case that reached the point where a relay goroutine exists for it.
func (f *fixture) quiesce(clients []*cli) bool {
	return waitFor(waitBound, func() bool {
		if count().handlers != parkedHandlers {
			return false
		}
		spin, read := 0, 0
		for _, c := range clients {
			switch c.reader {
			case "spin":
				spin++
			case "read":
				read++
				if c.closed {
					continue
				}
				sc, _, ok := f.serverConn(c.addr)
				if !ok {
					continue // already removed; its goroutine is on the way out and is counted below
				}
				st := statConn(sc)
				if st.ok && (st.received != c.written || st.inq != 0) {
					return false
				}
			}
		}
		n := count()
		return n.handlers == parkedHandlers && n.readers == spin+read && n.readersInRead == read
	})
}

// readersGone waits until exactly want relay reader goroutines exist, of which wantInRead are
// parked in Read.
func waitReaders(want, wantInRead int) bool {
	return waitFor(waitBound, func() bool {
		n := count()
		return n.handlers == parkedHandlers && n.readers == want && n.readersInRead == wantInRead
	})
}

// ---------------------------------------------------------------------------- misc

var (
	opMu    sync.Mutex
	opTotal = map[string]time.Duration{}
	opN     = map[string]int{}
)

// opTime (development aid, VERIF_C15_DEBUG=1): accumulated wall time per step kind.
func opTime(kind string, t0 time.Time) {
	if os.Getenv("VERIF_C15_DEBUG") == "" {
		return
	}
	opMu.Lock()
	opTotal[kind] += time.Since(t0)
	opN[kind]++
	if n := opN[kind]; n%200 == 0 {
		fmt.Fprintf(os.Stderr, "OPTIME %s n=%d avg=%v\n", kind, n, opTotal[kind]/time.Duration(n))
	}
	opMu.Unlock()
}

// slowLog (development aid, VERIF_C15_DEBUG=1): report cases that took more than a second.
func slowLog(sub string, c any) func() {
	if os.Getenv("VERIF_C15_DEBUG") == "" {
		return func() {}
	}
	t0 := time.Now()
	return func() {
		if d := time.Since(t0); d > time.Second {
			b, _ := json.Marshal(c)
			skipMu.Lock()
			fmt.Fprintf(os.Stderr, "SLOW %s %v skips=%v case=%s\n", sub, d, skips, b)
			skipMu.Unlock()
		}
	}
}

func hexs(b []byte) string {
	if len(b) > 48 {
		return fmt.Sprintf("%x..(%d bytes)", b[:48], len(b))
	}
	return fmt.Sprintf("%x", b)
}

func firstDiff(a, b []byte) int {
	n := len(a)
	if len(b) < n {
		n = len(b)
	}
	for i := 0; i < n; i++ {
		if a[i] != b[i] {
			return i
		}
	}
	if len(a) != len(b) {
		return n
	}
	return -1
}

func refused(port string) bool {
	c, err := net.DialTimeout("tcp4", "127.0.0.1:"+port, 5*time.Second)
	if err != nil {
		return true
	}
	c.Close()
	return false
}

var _ = bytes.Equal
var _ = io.EOF
var _ = os.Getenv

package c15

// C15(d) aged connections: the oracle of (b) on connections that are *old* when things
// happen to them.  A case opens several SOCKS connections (and optionally a reverse port
// forward) at the start; for each one the age at which the agent answers the CONNECT and the
// age at which data flows (both directions) are part of the case.  All connections age
// concurrently, so a case lasts as long as its largest age.  The waiting is the input (the
// age), never the oracle: every expectation is decided exactly as in (b).
//
// Covers lifetime-dependent behaviour (deadlines left armed on a connection, idle timeouts)
// up to the largest generated age: 11.5 s in the quick tier, 130 s in the thorough tier.
// A timeout longer than that is not covered.

import (
	"bytes"
	"fmt"
	"net"
	"sort"
	"testing"
	"time"

	"pgregory.net/rapid"

	"verifharness/internal/core"
)

type ConnD struct {
	Atyp      byte    `json:"atyp"`
	Addr      []byte  `json:"addr"`
	Port      uint16  `json:"port"`
	AnswerAge float64 `json:"answer_age"` // seconds after the connection was opened at which the agent answers ok
	DataAge   float64 `json:"data_age"`   // seconds after the connection was opened at which data flows both ways
	ToClient  []byte  `json:"to_client"`
	ToAgent   []byte  `json:"to_agent"`
}

type CaseD struct {
	Conns   []ConnD `json:"conns"`
	Fwd     bool    `json:"fwd"`      // a reverse port forward whose target connection is opened at the start ...
	FwdAge  float64 `json:"fwd_age"`  // ... and used again at this age, then answered by the target and closed
	FwdData []byte  `json:"fwd_data"` // agent -> target at FwdAge
	FwdBack []byte  `json:"fwd_back"` // target -> agent at FwdAge
}

func agesOfTier() []float64 {
	if core.Tier() == "thorough" {
		return []float64{0.5, 3, 11.5, 31, 65, 130}
	}
	return []float64{0.5, 3, 11.5}
}

func genD(t *rapid.T) CaseD {
	ages := agesOfTier()
	var c CaseD
	// every age of the tier occurs as a data age, and the largest ones also as an answer age
	n := len(ages) + rapid.IntRange(0, 2).Draw(t, "extra")
	late := 0
	for i := 0; i < n; i++ {
		var k ConnD
		k.Atyp = rapid.SampledFrom([]byte{1, 3, 4}).Draw(t, "atyp")
		switch k.Atyp {
		case 1:
			k.Addr = rapid.SliceOfN(rapid.Byte(), 4, 4).Draw(t, "ipv4")
		case 4:
			k.Addr = rapid.SliceOfN(rapid.Byte(), 16, 16).Draw(t, "ipv6")
		default:
			k.Addr = genDomain(t)
		}
		k.Port = rapid.Uint16().Draw(t, "port")
		if i < len(ages) {
			k.DataAge = ages[i]
		} else {
			k.DataAge = rapid.SampledFrom(ages).Draw(t, "data_age")
		}
		// an unanswered connection keeps a relay goroutine spinning: at most two answer late
		k.AnswerAge = 0
		if late < 2 && (i == len(ages)-1 || rapid.SampledFrom([]bool{false, false, true}).Draw(t, "late_answer")) {
			late++
			k.AnswerAge = k.DataAge
			if i != len(ages)-1 {
				var le []float64
				for _, a := range ages {
					if a <= k.DataAge {
						le = append(le, a)
					}
				}
				k.AnswerAge = rapid.SampledFrom(le).Draw(t, "answer_age")
			}
		}
		k.ToClient = rapid.SliceOfN(rapid.Byte(), 1, 200).Draw(t, "to_client")
		k.ToAgent = rapid.SliceOfN(rapid.Byte(), 1, 200).Draw(t, "to_agent")
		c.Conns = append(c.Conns, k)
	}
	c.Fwd = rapid.SampledFrom([]bool{true, true, false}).Draw(t, "fwd")
	if c.Fwd {
		c.FwdAge = rapid.SampledFrom(ages[len(ages)-2:]).Draw(t, "fwd_age")
		c.FwdData = rapid.SliceOfN(rapid.Byte(), 1, 200).Draw(t, "fwd_data")
		c.FwdBack = rapid.SliceOfN(rapid.Byte(), 1, 200).Draw(t, "fwd_back")
	}
	return c
}

func ageLabel(a float64) string { return fmt.Sprintf("age=%gs", a) }

type evD struct {
	at   time.Time
	kind string // answer data fwd
	i    int
}

func checkD(c CaseD) (v *core.Violation) {
	defer slowLog("d", c)()
	if censusSane() != "" {
		return skip("goroutine-model-mismatch")
	}
	x := &runB{f: newFixture()}
	defer func() { x.f.cleanup(x.clis()) }()
	if _, ok := x.f.startProxy(); !ok {
		return skip("no-port")
	}
	var evs []evD
	var opened []time.Time
	for i, k := range c.Conns {
		op := OpB{Op: "connect", Atyp: k.Atyp, Addr: k.Addr, Port: k.Port, Answer: "defer"}
		t0 := time.Now()
		sv, skipped := x.opConnect(op)
		if skipped != "" {
			return skip(skipped)
		}
		if sv != nil {
			sv.Msg = fmt.Sprintf("connection %d at the start: %s", i, sv.Msg)
			return sv
		}
		opened = append(opened, t0)
		evs = append(evs, evD{t0.Add(time.Duration(k.AnswerAge * float64(time.Second))), "answer", i})
		evs = append(evs, evD{t0.Add(time.Duration(k.DataAge * float64(time.Second))), "data", i})
	}
	if len(x.clients) != len(c.Conns) {
		return skip("connections-not-opened")
	}

	// the reverse port forward: its target connection is dialled by the first data, at the start
	const loop = 0x0100007F
	var (
		ln      net.Listener
		target  net.Conn
		fwdID   = uint32(0x0d0d0001)
		tport   uint32
		fwdOpen time.Time
	)
	if c.Fwd {
		var err error
		if ln, err = core.ListenLoopback("tcp4"); err != nil {
			return skip("no-port")
		}
		defer ln.Close()
		tport = uint32(ln.Addr().(*net.TCPAddr).Port)
		x.f.dispatch(cbOpen(fwdID, loop, 4444, loop, tport))
		x.f.dispatch(cbRead(fwdID, typeClient, []byte("hello")))
		ln.(*net.TCPListener).SetDeadline(time.Now().Add(readBound))
		if target, err = ln.Accept(); err != nil {
			return core.V("d|pf|target-not-dialled", "forward target not connected: %v", err)
		}
		defer target.Close()
		fwdOpen = time.Now()
		buf := make([]byte, 5)
		target.SetReadDeadline(time.Now().Add(readBound))
		if n, err := readFull(target, buf); err != nil || string(buf[:n]) != "hello" {
			return core.V("d|pf|a2t|bytes-differ|age=0s", "fresh forward: target read %q (%v)", buf[:n], err)
		}
		evs = append(evs, evD{fwdOpen.Add(time.Duration(c.FwdAge * float64(time.Second))), "fwd", 0})
	}

	sort.SliceStable(evs, func(i, j int) bool { return evs[i].at.Before(evs[j].at) })
	for _, e := range evs {
		if d := time.Until(e.at); d > 0 {
			time.Sleep(d) // the age is the input of the case
		}
		switch e.kind {
		case "answer":
			cl := x.clients[e.i]
			sv, skipped := x.answer(cl, true, 0)
			if skipped != "" {
				return skip(skipped)
			}
			if sv != nil {
				return core.V("d|answer|"+ageLabel(c.Conns[e.i].AnswerAge)+"|"+sv.Sig, "connection %d, agent answers the CONNECT %gs after the connection was opened: %s", e.i, c.Conns[e.i].AnswerAge, sv.Msg)
			}
		case "data":
			cl, k := x.clients[e.i], c.Conns[e.i]
			if !usable(cl) {
				return core.V("d|data|"+ageLabel(k.DataAge)+"|connection-not-usable", "connection %d is no longer connected %gs after it was opened although nobody closed it", e.i, k.DataAge)
			}
			sv, skipped := x.a2cOn(cl, [][]byte{k.ToClient}, "b")
			if skipped == "" && sv == nil {
				sv, skipped = x.c2aOn(cl, [][]byte{k.ToAgent}, false, "b")
			}
			if skipped != "" {
				return skip(skipped)
			}
			if sv != nil {
				return core.V("d|data|"+ageLabel(k.DataAge)+"|"+sv.Sig, "connection %d, data %gs after the connection was opened: %s", e.i, k.DataAge, sv.Msg)
			}
			if !x.f.hasSocket(cl.id) {
				return core.V("d|data|"+ageLabel(k.DataAge)+"|socket-gone", "connection %d: socket %08x left the table after relaying data at age %gs", e.i, cl.id, k.DataAge)
			}
		case "fwd":
			al := ageLabel(c.FwdAge)
			x.f.dispatch(cbRead(fwdID, typeClient, c.FwdData))
			buf := make([]byte, len(c.FwdData))
			target.SetReadDeadline(time.Now().Add(readBound))
			if n, err := readFull(target, buf); err != nil || !bytes.Equal(buf[:n], c.FwdData) {
				return core.V("d|pf|a2t|bytes-differ|"+al, "forward used again %gs after its target connection was opened: the agent sent %d bytes, the target read %d (%v)", c.FwdAge, len(c.FwdData), n, err)
			}
			l0 := x.queueLen()
			target.SetWriteDeadline(time.Now().Add(readBound))
			if _, err := target.Write(c.FwdBack); err != nil {
				return skip("target-write-failed")
			}
			target.Close()
			if !waitFor(waitBound, func() bool {
				if x.queueLen() <= l0 {
					return false
				}
				n := count()
				return n.pfreaders == 1 && n.pfPastAppend == 1
			}) {
				n := count()
				if x.queueLen() <= l0 && n.pfInRead == 0 {
					return core.V("d|pf|t2a|no-write-task|"+al, "forward aged %gs: the target answered %d bytes and closed; no write task was queued", c.FwdAge, len(c.FwdBack))
				}
				return skip("no-quiescence-after-target-close")
			}
			x.f.dispatch(cbRemove(fwdID, typeClient, loop, 4444, loop, tport))
			if !waitFor(waitBound, func() bool { return count().pfreaders == 0 }) {
				return skip("forward-reader-did-not-end")
			}
			if ids := x.f.fwdIDs(); len(ids) != 0 {
				return core.V("d|pf|remove|forward-stays|"+al, "forward table after REMOVE: %x", ids)
			}
			tasks, tv := x.f.takeTasks()
			if tv != nil {
				return tv
			}
			var got []byte
			for _, t := range tasks {
				if t.Sub != scWrite || t.ID != fwdID {
					return core.V("d|pf|foreign-task|"+al, "task %#x for socket %08x queued during the forward's exchange", t.Sub, t.ID)
				}
				got = append(got, t.Data...)
			}
			if !bytes.Equal(got, c.FwdBack) {
				return core.V("d|pf|t2a|bytes-differ|"+al, "forward aged %gs: the target answered %d bytes, the write tasks carry %d", c.FwdAge, len(c.FwdBack), len(got))
			}
		}
	}
	// the end as in (b): the operator kills the proxy, nothing stays registered
	sv, skipped := x.opKill(append([]string(nil), x.f.live...), false)
	if skipped != "" {
		return skip(skipped)
	}
	if sv != nil {
		return core.V("d|end|"+sv.Sig, "%s", sv.Msg)
	}
	if ids := x.f.socketIDs(); len(ids) != 0 {
		return core.V("d|end|socket-table-not-empty", "socket table after kill: %x", ids)
	}
	_ = opened
	return nil
}

func classifyD(c CaseD) core.Class {
	var cl core.Class
	maxAge := 0.0
	lateAns := 0.0
	for _, k := range c.Conns {
		cl.Labels = append(cl.Labels, "data:"+ageLabel(k.DataAge), "answer:"+ageLabel(k.AnswerAge))
		if k.DataAge > maxAge {
			maxAge = k.DataAge
		}
		if k.AnswerAge > lateAns {
			lateAns = k.AnswerAge
		}
	}
	if c.Fwd {
		cl.Labels = append(cl.Labels, "fwd:"+ageLabel(c.FwdAge))
	}
	cl.NonTrivial = len(c.Conns) >= 2
	cl.Fingerprint = fmt.Sprintf("conns=%d|max=%g|late-answer=%g|fwd=%v/%g", len(c.Conns), maxAge, lateAns, c.Fwd, c.FwdAge)
	return cl
}

func TestC15d(t *testing.T) {
	defer censusVerdict()
	core.Run(t, core.Spec[CaseD]{
		Property: "C15", Sub: "d",
		Rule: "aged connections: one proxy, 3-8 SOCKS connections opened at the start (all ageing concurrently, a case lasts as long as its largest age) and optionally a reverse port forward whose target connection is opened at the start; per connection the age at which the agent answers the CONNECT (0 or one of the tier's ages, at most two late answers) and the age at which data flows both ways are generated from {0.5, 3, 11.5} s in the quick tier and {0.5, 3, 11.5, 31, 65, 130} s in the thorough tier, every age of the tier occurring in every case. Oracle as in (b): reply echoes the request, client reads exactly the agent's bytes, write tasks (fetched through GetQueuedJobs + BuildPayloadMessage + the Demon's reader) carry exactly the client's bytes, the socket stays registered while nobody closed it, forward bytes intact both ways, kill empties the tables. Behaviour that depends on a connection being older than the largest generated age (130 s thorough, 11.5 s quick) is NOT covered. Non-trivial: >=2 connections; distinct = connections x largest age x latest answer x forward age",
		Gen:  genD, Check: checkD, Classify: classifyD,
		Assumptions: []string{
			"sleeping until a connection has the generated age is part of the input, not of the oracle; expectations are decided at established quiescent states as in (b)",
			"timeouts longer than the largest generated age (quick 11.5 s, thorough 130 s) are not exercised",
		},
	})
}

package c15

// C15 configuration / environment dimension (sub-checks a and b).
//
// The fixture of a case is built from a GENERATED configuration: everything on the agent object
// that code on the relay paths could consult (working hours, kill date, sleep / jitter, marked
// dead, pivot child, all-zero session key), the process's time zone, the form of the address the
// operator gives `socks add`, further proxies on the same agent, further agents with proxies of
// their own, and a lowered file-descriptor limit for one accept / one dial.  About half of the
// cases keep the default configuration.
//
// What a setting legitimately changes, per HEAD (verified by reading pkg/agent/demons.go,
// pkg/agent/agent.go, pkg/socks and by the runs of this check on HEAD):
//
//   - Info.WorkingHours, Info.KillDate, Info.SleepDelay/SleepJitter, Active, the key material and
//     time.Local are not looked at by any relay path (SleepDelay only changes the text of the
//     operator message of `socks add`): the oracles of (a) and (b) hold unchanged.  Working hours
//     and kill date are evaluated by the AGENT, on the agent's clock; the teamserver only stores
//     and displays them.
//   - a pivot child: AddJobToQueue appends the job to the child's own queue as for a direct agent
//     AND queues one COMMAND_PIVOT job on the parent whose body is [DEMON_PIVOT_SMB_COMMAND]
//     [child id][bytes: [child id][bytes: the task message for the child]].  The unchanged
//     oracles run on the child's queue; in addition the parent's queue must carry exactly the
//     same tasks (as a multiset: the two appends are not one atomic step) and nothing else.
//   - `socks add` accepts a port number 1..65535 only; any address form (127.0.0.1:p, 0.0.0.0:p,
//     [::1]:p) is refused with an error and leaves the proxy table alone.
//   - Accept failing with EMFILE ends the accept loop of that proxy (Socks.Serve returns the
//     error); the proxy stays listed and `socks kill` removes it.  A forward whose target cannot
//     be dialled (EMFILE) stays in the forward table until the agent's REMOVE.  Both steps run on
//     a proxy / forward of their own, before the history; they have no verdict beyond "the tables
//     are cleaned up by the command that follows and the mutexes are free".

import (
	"bytes"
	"fmt"
	"math"
	"net"
	"os"
	"sort"
	"strconv"
	"sync"
	"syscall"
	"time"

	"pgregory.net/rapid"

	"Havoc/pkg/agent"
	"Havoc/pkg/common"

	"verifharness/internal/core"
	"verifharness/internal/demonref"
)

type Cfg struct {
	NonDefault bool   `json:"non_default,omitempty"`
	WH         string `json:"wh,omitempty"`       // working hours: "" unset | contains-now | excl-now-hours | excl-now-minutes | whole-day | cross-midnight | agent-zone-window
	WHp        int    `json:"wh_p,omitempty"`     // distance (hours resp. minutes) between now and the window / half width
	AgentTZ    string `json:"agent_tz,omitempty"` // the zone the agent lives in (agent-zone-window)
	Kill       string `json:"kill,omitempty"`     // "" unset | future | past | now-1s | now+1s
	Sleep      string `json:"sleep,omitempty"`    // "" 0/0 | typical | max | one
	Dead       bool   `json:"dead,omitempty"`     // Active = false
	Pivot      bool   `json:"pivot,omitempty"`    // the agent is a pivot child
	ZeroKey    bool   `json:"zero_key,omitempty"` // all-zero AES key and IV
	TZ         string `json:"tz,omitempty"`       // time.Local for the case: "" untouched | UTC | +05:30 | -08:00 | +12:00 | +14:00
	Bind       string `json:"bind,omitempty"`     // an address form tried with `socks add` first: "" none | 127.0.0.1 | 0.0.0.0 | [::1]
	Proxies    int    `json:"proxies,omitempty"`  // further proxies on the same agent
	Agents     int    `json:"agents,omitempty"`   // further agents, each with one proxy
	Fd         string `json:"fd,omitempty"`       // "" | accept | dial : RLIMIT_NOFILE exhausted for that one step
}

var (
	whClasses = []string{"contains-now", "excl-now-hours", "excl-now-minutes", "whole-day", "cross-midnight", "agent-zone-window"}
	tzClasses = []string{"UTC", "+05:30", "-08:00", "+12:00", "+14:00"}
)

func genCfg(t *rapid.T) Cfg {
	var c Cfg
	if !rapid.Bool().Draw(t, "cfg_non_default") {
		return c
	}
	c.NonDefault = true
	c.WH = rapid.SampledFrom(whClasses).Draw(t, "cfg_wh")
	c.WHp = rapid.IntRange(1, 3).Draw(t, "cfg_wh_p")
	if c.WH == "agent-zone-window" {
		c.AgentTZ = rapid.SampledFrom(tzClasses).Draw(t, "cfg_agent_tz")
	}
	c.Kill = rapid.SampledFrom([]string{"", "future", "past", "now-1s", "now+1s"}).Draw(t, "cfg_kill")
	c.Sleep = rapid.SampledFrom([]string{"", "typical", "max", "one"}).Draw(t, "cfg_sleep")
	c.Dead = rapid.SampledFrom([]bool{false, false, true}).Draw(t, "cfg_dead")
	c.Pivot = rapid.SampledFrom([]bool{false, false, true}).Draw(t, "cfg_pivot")
	c.ZeroKey = rapid.SampledFrom([]bool{false, false, true}).Draw(t, "cfg_zero_key")
	c.TZ = rapid.SampledFrom(tzClasses).Draw(t, "cfg_tz")
	c.Bind = rapid.SampledFrom([]string{"", "127.0.0.1", "0.0.0.0", "[::1]"}).Draw(t, "cfg_bind")
	c.Proxies = rapid.SampledFrom([]int{0, 0, 1, 2}).Draw(t, "cfg_proxies")
	c.Agents = rapid.SampledFrom([]int{0, 0, 1, 2}).Draw(t, "cfg_agents")
	c.Fd = rapid.SampledFrom([]string{"", "", "accept", "dial"}).Draw(t, "cfg_fd")
	return c
}

func (c Cfg) labels() []string {
	if !c.NonDefault {
		return []string{"cfg:default"}
	}
	l := []string{"cfg:non-default"}
	if c.WH != "" {
		l = append(l, "cfg:workinghours="+c.WH)
	}
	if c.Kill != "" {
		l = append(l, "cfg:killdate="+c.Kill)
	}
	if c.Sleep != "" {
		l = append(l, "cfg:sleep="+c.Sleep)
	}
	if c.Dead {
		l = append(l, "cfg:active=false")
	}
	if c.Pivot {
		l = append(l, "cfg:agent=pivot-child")
	}
	if c.ZeroKey {
		l = append(l, "cfg:key=all-zero")
	}
	if c.TZ != "" {
		l = append(l, "env:tz="+c.TZ)
	}
	if c.Bind != "" {
		l = append(l, "cfg:bind="+c.Bind+":port")
	}
	if c.Proxies > 0 {
		l = append(l, fmt.Sprintf("cfg:proxies=+%d", c.Proxies))
	}
	if c.Agents > 0 {
		l = append(l, fmt.Sprintf("cfg:agents=+%d", c.Agents))
	}
	if c.Fd != "" {
		l = append(l, "env:fd-limit="+c.Fd)
	}
	return l
}

func zone(name string) *time.Location {
	switch name {
	case "UTC":
		return time.UTC
	case "+05:30":
		return time.FixedZone(name, 5*3600+1800)
	case "-08:00":
		return time.FixedZone(name, -8*3600)
	case "+12:00":
		return time.FixedZone(name, 12*3600)
	case "+14:00":
		return time.FixedZone(name, 14*3600)
	}
	return nil
}

// packWH: payloads/Demon/src/core/Command.c InWorkingHours / teamserver common.ParseWorkingHours:
// bit 22 enabled, bits 21-17 start hour, 16-11 start minute, 10-6 end hour, 5-0 end minute.
func packWH(sh, sm, eh, em int) int32 {
	return 1<<22 | int32(sh&0x1f)<<17 | int32(sm&0x3f)<<11 | int32(eh&0x1f)<<6 | int32(em&0x3f)
}

// workingHours computes the packed value for the class, relative to the wall clock: now is the
// time in the zone the window is meant for (the teamserver's local zone, or the agent's).
func workingHours(c Cfg, now time.Time) int32 {
	h, m := now.Hour(), now.Minute()
	p := c.WHp
	if p < 1 {
		p = 1
	}
	switch c.WH {
	case "contains-now":
		sh, eh, em := h-p, h+p, m
		if sh < 0 {
			sh = 0
		}
		if eh > 23 {
			eh, em = 23, 59
		}
		return packWH(sh, 0, eh, em)
	case "agent-zone-window":
		an := now
		if z := zone(c.AgentTZ); z != nil {
			an = now.In(z)
		}
		sh, eh := an.Hour()-1, an.Hour()+1
		if sh < 0 {
			sh = 0
		}
		if eh > 23 {
			eh = 23
		}
		return packWH(sh, 0, eh, 59)
	case "excl-now-hours":
		// a window that begins p+1 hours from now, or, late in the day, ended p+1 hours ago
		if h+p+2 <= 23 {
			return packWH(h+p+1, 0, h+p+2, 30)
		}
		return packWH(h-p-2, 0, h-p-1, 30)
	case "excl-now-minutes":
		// the same hour, a few minutes off (the case is over long before the clock gets there)
		if m+p+2 <= 59 {
			return packWH(h, m+p+2, h, 59)
		}
		return packWH(h, 0, h, m-p-2)
	case "whole-day":
		return packWH(0, 0, 23, 59)
	case "cross-midnight":
		// what an agent may report although the builder refuses it: end before start
		return packWH((h+12+p)%24, 0, (h+12+p+20)%24, 0)
	}
	return 0
}

func killDate(class string, now time.Time) int64 {
	switch class {
	case "future":
		return common.EpochTimeToSystemTime(now.Unix() + 365*86400)
	case "past":
		return common.EpochTimeToSystemTime(now.Unix() - 86400)
	case "now-1s":
		return common.EpochTimeToSystemTime(now.Unix() - 1)
	case "now+1s":
		return common.EpochTimeToSystemTime(now.Unix() + 1)
	}
	return 0
}

// applyInfo puts the agent-side settings on an agent object.
func applyInfo(a *agent.Agent, c Cfg) {
	now := time.Now()
	a.Info.WorkingHours = workingHours(c, now)
	a.Info.KillDate = killDate(c.Kill, now)
	switch c.Sleep {
	case "typical":
		a.Info.SleepDelay, a.Info.SleepJitter = 5, 20
	case "max":
		a.Info.SleepDelay, a.Info.SleepJitter = math.MaxInt32, 100
	case "one":
		a.Info.SleepDelay, a.Info.SleepJitter = 1, 0
	}
	if c.Dead {
		a.Active = false
	}
}

// newFixtureCfg: the fixture of sub-checks (a) and (b), built from the generated configuration.
// Everything process-wide it changes is put back by cleanup().
func newFixtureCfg(c Cfg) *fixture {
	f := newFixture()
	f.cfg = c
	if !c.NonDefault {
		return f
	}
	if z := zone(c.TZ); z != nil {
		saved := time.Local
		time.Local = z
		f.restore = append(f.restore, func() { time.Local = saved })
	}
	if c.ZeroKey {
		f.key, f.iv = make([]byte, 32), make([]byte, 16)
		f.a.Encryption.AESKey, f.a.Encryption.AESIv = f.key, f.iv
	}
	applyInfo(f.a, c)
	if c.Pivot {
		p := &agent.Agent{NameID: "0badc0de", Active: true, Info: &agent.AgentInfo{}}
		p.Encryption.AESKey = bytes.Repeat([]byte{0x5c}, 32)
		p.Encryption.AESIv = bytes.Repeat([]byte{0xc5}, 16)
		p.Pivots.Links = append(p.Pivots.Links, f.a)
		f.a.Pivots.Parent = p
		f.parent = p
	}
	return f
}

// note counts what the configuration steps met (evidence extra "cfg_steps").
var (
	noteMu sync.Mutex
	notes  = map[string]int{}
)

func note(what string) {
	noteMu.Lock()
	notes[what]++
	cp := map[string]int{}
	for k, v := range notes {
		cp[k] = v
	}
	noteMu.Unlock()
	core.SetExtra("cfg_steps", cp)
}

// ---------------------------------------------------------------------------- pivot child: the parent's queue

// parentTasks empties the parent's queue and returns the socket tasks wrapped in it, decoded
// the way the two Demons would: the parent's CommandPivot (Command.c DEMON_PIVOT_SMB_COMMAND:
// ParserGetInt32 DemonId, ParserGetBytes Data), the pipe message [child id][bytes], and the
// child's task reader.
func (f *fixture) parentTasks() ([]string, *core.Violation) {
	var out []string
	childID, _ := strconv.ParseUint(f.a.NameID, 16, 32)
	for {
		jobs := f.parent.GetQueuedJobs()
		if len(jobs) == 0 {
			break
		}
		for _, j := range jobs {
			if j.Command != agent.COMMAND_PIVOT {
				return nil, core.V("cfg|pivot|foreign-command-in-parent-queue", "job with command %d in the queue of the parent of a pivot child that only relays", j.Command)
			}
			wire := agent.BuildPayloadMessage([]agent.Job{j}, f.parent.Encryption.AESKey, f.parent.Encryption.AESIv)
			tasks, clean := demonref.ReadTasks(wire, f.parent.Encryption.AESKey, f.parent.Encryption.AESIv, 0, "")
			if !clean || len(tasks) != 1 || tasks[0].Cmd != agent.COMMAND_PIVOT {
				return nil, core.V("cfg|pivot|wire|not-one-pivot-task", "the parent's job does not read back as one COMMAND_PIVOT task (clean=%v n=%d)", clean, len(tasks))
			}
			d := &demonref.Dec{B: tasks[0].Body}
			sub, id := d.Int32(), d.Int32()
			data := d.Bytes()
			if d.Err || d.Len() != 0 || sub != agent.DEMON_PIVOT_SMB_COMMAND || uint64(id) != childID {
				return nil, core.V("cfg|pivot|wire|envelope", "pivot task for the parent: sub=%d id=%08x short=%v rest=%d (want sub %d, id %08x)", sub, id, d.Err, d.Len(), agent.DEMON_PIVOT_SMB_COMMAND, childID)
			}
			p := &demonref.Dec{B: data}
			pid := p.Int32()
			msg := p.Bytes()
			if p.Err || p.Len() != 0 || uint64(pid) != childID {
				return nil, core.V("cfg|pivot|wire|pipe-message", "pipe message for the child: id=%08x short=%v rest=%d", pid, p.Err, p.Len())
			}
			inner, clean := demonref.ReadTasks(msg, f.key, f.iv, 0, "")
			if !clean || len(inner) != 1 || inner[0].Cmd != agent.COMMAND_SOCKET {
				return nil, core.V("cfg|pivot|wire|not-one-socket-task", "the message for the pivot child does not read back as one COMMAND_SOCKET task (clean=%v n=%d)", clean, len(inner))
			}
			out = append(out, string(inner[0].Body))
		}
	}
	return out, nil
}

// pivotAgrees: the tasks the child's own queue held and the tasks routed through the parent are
// the same multiset.
func (f *fixture) pivotAgrees(own []string) *core.Violation {
	via, v := f.parentTasks()
	if v != nil {
		return v
	}
	a, b := append([]string(nil), own...), append([]string(nil), via...)
	sort.Strings(a)
	sort.Strings(b)
	if len(a) != len(b) {
		return core.V("cfg|pivot|task-count-differs", "pivot child: %d socket task(s) in the child's queue, %d routed through the parent", len(a), len(b))
	}
	for i := range a {
		if a[i] != b[i] {
			return core.V("cfg|pivot|task-body-differs", "pivot child: a socket task routed through the parent differs from the one in the child's queue: % x vs % x", hexs([]byte(b[i])), hexs([]byte(a[i])))
		}
	}
	return nil
}

// ---------------------------------------------------------------------------- steps before the history

// preSteps runs what the configuration asks for before the case proper.  skipped != "": the
// harness could not continue (no verdict).
func (f *fixture) preSteps(sub string) (*core.Violation, string) {
	c := f.cfg
	if !c.NonDefault {
		return nil, ""
	}
	if c.Bind != "" {
		if v := f.bindForm(sub, c.Bind); v != nil {
			return v, ""
		}
	}
	for i := 0; i < c.Agents; i++ {
		e := &fixture{rec: f.rec, key: f.key, iv: f.iv}
		e.a = &agent.Agent{NameID: fmt.Sprintf("0e%06x", i+1), Active: true, Info: &agent.AgentInfo{}}
		e.a.Encryption.AESKey, e.a.Encryption.AESIv = f.key, f.iv
		applyInfo(e.a, c)
		f.extras = append(f.extras, e)
		if _, ok := e.startProxy(); !ok {
			return nil, "no-port"
		}
	}
	if c.Fd == "accept" {
		if v, sk := f.fdAccept(sub); v != nil || sk != "" {
			return v, sk
		}
	}
	if c.Fd == "dial" {
		if v, sk := f.fdDial(sub); v != nil || sk != "" {
			return v, sk
		}
	}
	for i := 0; i < c.Proxies; i++ {
		if _, ok := f.startProxy(); !ok {
			return nil, "no-port"
		}
	}
	return nil, ""
}

// bindForm: the operator gives `socks add` an address instead of a port.
func (f *fixture) bindForm(sub, host string) *core.Violation {
	port := freePort()
	if port == "" {
		return nil
	}
	param := host + ":" + port
	before, starts := f.proxyPorts(), count().starts
	_, err := f.operator("socks add", param)
	if err == nil {
		// a tree that takes the address form: no verdict; remove it again
		waitFor(2*time.Second, func() bool { n := count(); return n.startPending == 0 && n.startsListening > starts })
		f.operator("socks kill", param)
		waitFor(waitBound, func() bool { n := count(); return n.startPending == 0 && n.starts <= starts })
		note("bind:address-form-accepted")
		return nil
	}
	note("bind:address-form-refused")
	if after := f.proxyPorts(); fmt.Sprint(before) != fmt.Sprint(after) {
		return core.V(sub+"|cfg|bind|refused-but-listed", "socks add %s was refused (%v) but the proxy table went from %v to %v", param, err, before, after)
	}
	return f.mutexesFree(sub + "|cfg|bind")
}

// fdExhaust lowers RLIMIT_NOFILE so that exactly free descriptors can still be opened.
func fdExhaust(free int) (release func(), ok bool) {
	var old syscall.Rlimit
	if syscall.Getrlimit(syscall.RLIMIT_NOFILE, &old) != nil {
		return nil, false
	}
	ents, err := os.ReadDir("/proc/self/fd")
	if err != nil {
		return nil, false
	}
	maxfd := 0
	for _, e := range ents {
		if n, err := strconv.Atoi(e.Name()); err == nil && n > maxfd {
			maxfd = n
		}
	}
	lim := old
	lim.Cur = uint64(maxfd + 1 + free + 1)
	if lim.Cur >= old.Cur || syscall.Setrlimit(syscall.RLIMIT_NOFILE, &lim) != nil {
		return nil, false
	}
	var fill []int
	for {
		fd, err := syscall.Open("/dev/null", syscall.O_RDONLY|syscall.O_CLOEXEC, 0)
		if err != nil {
			break
		}
		fill = append(fill, fd)
		if len(fill) > 1<<16 {
			break
		}
	}
	release = func() {
		syscall.Setrlimit(syscall.RLIMIT_NOFILE, &old)
		for _, fd := range fill {
			syscall.Close(fd)
		}
		fill = nil
	}
	if len(fill) < free {
		release()
		return nil, false
	}
	for i := 0; i < free; i++ {
		syscall.Close(fill[len(fill)-1])
		fill = fill[:len(fill)-1]
	}
	return release, true
}

// fdAccept: a proxy of its own gets a connection while the process has no descriptor left for
// the accepted socket.  Afterwards the operator kills that proxy: it must go away as any other.
func (f *fixture) fdAccept(sub string) (*core.Violation, string) {
	port, ok := f.startProxy()
	if !ok {
		return nil, "no-port"
	}
	starts := count().starts
	release, ok := fdExhaust(1)
	if !ok {
		f.killAndCheck(port, sub)
		return nil, "fd-limit-not-lowered"
	}
	cl, err := dialProxy(port) // takes the one descriptor that is left
	if err == nil {
		// HEAD: Accept fails, the accept loop ends.  Another tree may go on accepting: bounded wait.
		waitFor(time.Second, func() bool { return count().starts < starts })
	}
	release()
	if err != nil {
		f.killAndCheck(port, sub)
		return nil, "fd-limit-dial-failed"
	}
	cl.closeRST()
	waitFor(waitBound, func() bool { return count().handlers == 0 })
	loopEnded := count().starts < starts
	if loopEnded {
		note("fd-accept:accept-loop-ended")
	} else {
		note("fd-accept:accept-loop-went-on")
	}
	// the proxy is still listed; the operator removes it
	msg, err := f.operator("socks kill", port)
	f.forget(port)
	if err != nil {
		return core.V(sub+"|cfg|fd-accept|kill|error", "socks kill %s after an accept without descriptors: %v", port, err), ""
	}
	if msg["Message"] != "Closed socks proxy "+port {
		return core.V(sub+"|cfg|fd-accept|kill|not-found", "socks kill %s after an accept without descriptors answered %q", port, msg["Message"]), ""
	}
	for _, p := range f.proxyPorts() {
		if p == port {
			return core.V(sub+"|cfg|fd-accept|kill|proxy-stays", "proxy %s still listed after socks kill", port), ""
		}
	}
	if !loopEnded && !waitFor(waitBound, func() bool { return count().starts < starts }) {
		return core.V(sub+"|cfg|fd-accept|kill|listener-open", "the accept loop of proxy %s is still running after socks kill", port), ""
	}
	if !refusedSoon(port) {
		return core.V(sub+"|cfg|fd-accept|kill|port-still-bound", "port %s still accepts connections after socks kill", port), ""
	}
	if v := f.mutexesFree(sub + "|cfg|fd-accept"); v != nil {
		return v, ""
	}
	// whatever the accepted-or-not connection left behind is not part of the history
	if ids := f.socketIDs(); len(ids) != 0 {
		return core.V(sub+"|cfg|fd-accept|socket-registered", "socket table holds %x after a connection that never sent a byte", ids), ""
	}
	return nil, ""
}

func refusedSoon(port string) bool {
	return waitFor(5*time.Second, func() bool { return refused(port) })
}

// fdDial: the first data of a reverse port forward arrives while the process has no descriptor
// for the connection to the forward target.  The agent's REMOVE must still empty the table.
func (f *fixture) fdDial(sub string) (*core.Violation, string) {
	ln, err := core.ListenLoopback("tcp4")
	if err != nil {
		return nil, "no-port"
	}
	defer ln.Close()
	tport := uint32(ln.Addr().(*net.TCPAddr).Port)
	const loop = 0x0100007F
	const id = 0x0fd0fd01
	f.dispatch(cbOpen(id, loop, 4445, loop, tport))
	remove := cbRemove(id, typeClient, loop, 4445, loop, tport)
	release, ok := fdExhaust(0)
	if !ok {
		f.dispatch(remove)
		return nil, "fd-limit-not-lowered"
	}
	pv := core.Guard(func() *core.Violation {
		f.dispatch(cbRead(id, typeClient, []byte("data for a target that cannot be dialled")))
		return nil
	})
	release()
	if pv != nil {
		pv.Sig += "|cfg|fd-dial"
		return pv, ""
	}
	note(fmt.Sprintf("fd-dial:target-connections=%d", pendingConns(ln)))
	f.dispatch(remove)
	if ids := f.fwdIDs(); len(ids) != 0 {
		for _, i := range ids {
			f.a.PortFwdClose(i)
		}
		return core.V(sub+"|cfg|fd-dial|forward-stays", "after the REMOVE callback the forward table holds %x", ids), ""
	}
	if !waitFor(waitBound, func() bool { return count().pfreaders == 0 }) {
		return nil, "forward-reader-did-not-end"
	}
	// tasks this step queued (none on HEAD) are not part of the history
	f.takeTasks()
	f.log = nil
	return f.mutexesFree(sub + "|cfg|fd-dial"), ""
}

// pendingConns: how many connections are waiting on the listener right now.
func pendingConns(ln net.Listener) int {
	n := 0
	for {
		ln.(*net.TCPListener).SetDeadline(time.Now().Add(time.Millisecond))
		c, err := ln.Accept()
		if err != nil {
			return n
		}
		c.Close()
		n++
	}
}

// ---------------------------------------------------------------------------- after the history

// postSteps: the case proper is over and quiescent.  Every proxy still alive on the agent is
// killed and must go away; the other agents have been handed nothing, hold no socket, and their
// proxies are killed as well.
func (f *fixture) postSteps(sub string) *core.Violation {
	for _, p := range append([]string(nil), f.live...) {
		if v := f.killAndCheck(p, sub+"|cfg|extra-proxy"); v != nil {
			return v
		}
	}
	if f.parent != nil {
		note("pivot:queues-compared")
		// takeTasks compares the child's queue with what was routed through the parent
		if _, v := f.takeTasks(); v != nil {
			return v
		}
	}
	for _, e := range f.extras {
		if jobs := e.a.GetQueuedJobs(); len(jobs) != 0 {
			return core.V(sub+"|cfg|other-agent|task-queued", "%d job(s) (first: command %d) in the queue of agent %s, which no client talked to", len(jobs), jobs[0].Command, e.a.NameID)
		}
		if ids := e.socketIDs(); len(ids) != 0 {
			return core.V(sub+"|cfg|other-agent|socket-registered", "agent %s, which no client talked to, holds sockets %x", e.a.NameID, ids)
		}
		want := append([]string(nil), e.live...)
		if got := e.proxyPorts(); fmt.Sprint(got) != fmt.Sprint(want) {
			return core.V(sub+"|cfg|other-agent|proxy-table", "agent %s started proxies %v, its table holds %v after the history on another agent", e.a.NameID, want, got)
		}
		for _, p := range want {
			if v := e.killAndCheck(p, sub+"|cfg|other-agent"); v != nil {
				return v
			}
		}
	}
	return nil
}

package c15

// DOMAINNAME (ATYP 3) texts for sub-checks (a), (b) and (d).  The relay has to hand the agent
// exactly the bytes the client sent, as ATYP 3; the classes below are texts that some layer
// might be tempted to reinterpret (IP literals in all their spellings, host:port, names with
// unusual characters) next to plain names, random bytes, the empty name and 255 bytes.

import (
	"fmt"
	"net"
	"strings"

	"pgregory.net/rapid"
)

var domainKinds = []string{
	"name", "ipv4", "ipv4-odd", "ipv6", "ipv6-mapped", "ipv6-zone", "ipv6-bracketed", "host:port",
	"name-odd", "random-bytes", "empty", "len255", "name", "ipv4", "ipv6", "ipv6-mapped",
}

func genDomain(t *rapid.T) []byte {
	kind := rapid.SampledFrom(domainKinds).Draw(t, "domain_kind")
	oct := func(l string) int { return rapid.SampledFrom([]int{0, 1, 7, 10, 127, 192, 255, 99}).Draw(t, l) }
	quad := func() string { return fmt.Sprintf("%d.%d.%d.%d", oct("o1"), oct("o2"), oct("o3"), oct("o4")) }
	hex := func(l string) string {
		return fmt.Sprintf("%x", rapid.SampledFrom([]int{0, 1, 0xdb8, 0xfe80, 0xffff, 0x2001, 0xabcd}).Draw(t, l))
	}
	name := func() string {
		n := rapid.IntRange(1, 20).Draw(t, "nlen")
		return string(rapid.SliceOfN(rapid.ByteRange('a', 'z'), n, n).Draw(t, "label")) + rapid.SampledFrom([]string{".com", ".example", "", ".internal.corp"}).Draw(t, "tld")
	}
	var s string
	switch kind {
	case "name":
		s = name()
	case "ipv4":
		s = quad()
	case "ipv4-odd":
		s = rapid.SampledFrom([]string{"010.1.2.3", "0x7f.1", "127.1", "10.1.2.3.", "1.2.3.4 ", " 1.2.3.4", "0177.0.0.1", "2130706433", "1.2.3", "256.1.1.1", "1.2.3.4.5", "0.0.0.0", "255.255.255.255"}).Draw(t, "odd4")
	case "ipv6":
		s = rapid.SampledFrom([]string{"::1", "::", "fe80::1", "2001:db8::1", "2001:0db8:0000:0000:0000:0000:0000:0001", "FE80::ABCD", "1:2:3:4:5:6:7:8", "::1.2.3.4", "64:ff9b::10.0.0.1"}).Draw(t, "lit6")
		if rapid.Bool().Draw(t, "built6") {
			s = hex("h1") + ":" + hex("h2") + "::" + hex("h3")
		}
	case "ipv6-mapped":
		s = rapid.SampledFrom([]string{"::ffff:", "::FFFF:", "0:0:0:0:0:ffff:"}).Draw(t, "mapped_prefix") + quad()
	case "ipv6-zone":
		s = rapid.SampledFrom([]string{"fe80::1%eth0", "fe80::1%25eth0", "fe80::1%1", "::1%lo"}).Draw(t, "zone")
	case "ipv6-bracketed":
		s = rapid.SampledFrom([]string{"[::1]", "[fe80::1]", "[2001:db8::1]", "[::ffff:10.1.2.3]", "[10.1.2.3]"}).Draw(t, "bracketed")
	case "host:port":
		s = rapid.SampledFrom([]string{"example.com:80", "10.0.0.1:8080", "[::1]:443", "localhost:0", "a:b", ":80"}).Draw(t, "hostport")
	case "name-odd":
		s = rapid.SampledFrom([]string{"EXAMPLE.COM", "Example.Com", "example.com.", "exa mple.com", " example.com", "example.com ", "exa\x00mple.com", "\x00", "b\xc3\xbccher.example", "b\xfccher.example", "xn--bcher-kva.example", "_srv._tcp.example", "a..b", "-a.example", "ex\tample", "localhost", "LOCALHOST", "%65xample.com", "example.com/path", "user@example.com"}).Draw(t, "odd_name")
	case "random-bytes":
		n := rapid.IntRange(1, 254).Draw(t, "rlen")
		return rapid.SliceOfN(rapid.Byte(), n, n).Draw(t, "random")
	case "empty":
		return []byte{}
	case "len255":
		b := rapid.SliceOfN(rapid.OneOf(rapid.ByteRange('a', 'z'), rapid.Byte()), 255, 255).Draw(t, "d255")
		return b
	}
	if len(s) > 255 {
		s = s[:255]
	}
	return []byte(s)
}

// domainClass abstracts a DOMAINNAME text for labels and fingerprints (derived from the
// bytes, so a replayed case is labelled the same way).
func domainClass(b []byte) string {
	s := string(b)
	switch {
	case len(b) == 0:
		return "empty"
	case len(b) == 255:
		return "len255"
	}
	if ip := net.ParseIP(s); ip != nil {
		switch {
		case !strings.Contains(s, ":"):
			return "ipv4-literal"
		case strings.Contains(strings.ToLower(s), "ffff:") && strings.Contains(s, "."):
			return "ipv4-mapped-ipv6-literal"
		}
		return "ipv6-literal"
	}
	ascii, lower := true, true
	for _, c := range b {
		if c >= 0x80 {
			ascii = false
		}
		if c < 'a' || c > 'z' {
			if c != '.' && c != '-' && (c < '0' || c > '9') {
				lower = false
			}
		}
	}
	digitsDots := strings.Trim(s, "0123456789.xX ") == ""
	switch {
	case strings.HasPrefix(s, "["):
		return "bracketed-literal"
	case strings.Contains(s, "%") && strings.Contains(s, ":"):
		return "ipv6-literal-with-zone"
	case digitsDots:
		return "ipv4-like-text"
	case strings.Contains(s, ":"):
		return "host:port-or-colon"
	case strings.ContainsRune(s, 0):
		return "name-with-NUL"
	case !ascii:
		return "non-ascii"
	case strings.ContainsAny(s, " \t"):
		return "name-with-space"
	case strings.HasPrefix(s, "xn--"):
		return "punycode"
	case strings.HasSuffix(s, ".") || strings.Contains(s, ".."):
		return "name-with-odd-dots"
	case lower:
		return "plain-name"
	case strings.ToLower(s) != s && strings.Trim(strings.ToLower(s), "abcdefghijklmnopqrstuvwxyz0123456789.-") == "":
		return "name-with-upper-case"
	}
	return "other-text"
}

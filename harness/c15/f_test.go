package c15

// C15(f) a relay backlog that does not fit into one reply.  While the agent sleeps a SOCKS
// client uploads a generated volume - small, 1-6 MiB, or around / above one and two times
// the size the teamserver puts into one reply to a check-in (DEMON_MAX_RESPONSE_LENGTH,
// 30 MiB): 29-31, 31-45, 61-70 MiB - in writes of generated sizes, so that write tasks of
// different sizes sit in the queue (many near the relay's 64 KiB read buffer, shorter ones
// where a read caught less, a short tail awaited into the queue as its own task).  Behind
// (and in front of) that backlog more is queued before the agent checks in again: the
// client's close (FIN / RST / half-close), a second socket's small traffic, operator tasks,
// the answer of a reverse-port-forward target (one task of any size).  Then the agent checks
// in until the queue is empty; every reply is taken through GetQueuedJobs, built with
// BuildPayloadMessage as the HTTP handler does, and read with the Demon's reader.
//
// Oracle: that of (b), over the concatenation of ALL replies: per socket id the write tasks
// in hand-out order carry exactly the bytes that socket's client wrote, in order (the
// streams are position-dependent patterns verified on the fly - no copy is kept), nothing
// is handed out for a socket after its close task, the close task is there exactly when the
// client closed, the forward target's answer arrives complete under the forward's id, and a
// reply that carries more than one task stays below the reply limit.  The statement orders
// bytes per socket; the order ACROSS sockets and operator tasks is not judged.

import (
	"fmt"
	"net"
	"sort"
	"strings"
	"testing"
	"time"

	"pgregory.net/rapid"

	"Havoc/pkg/agent"

	"verifharness/internal/core"
	"verifharness/internal/demonref"
)

type ItemF struct {
	Kind string `json:"kind"` // close-fin close-rst half-close other-socket operator-task pf-answer
	N    int    `json:"n,omitempty"`
}

type CaseF struct {
	Atyp   byte    `json:"atyp"`
	Addr   []byte  `json:"addr"`
	Port   uint16  `json:"port"`
	Volume int     `json:"volume"` // bytes the client uploads while the agent sleeps
	Seed   uint64  `json:"seed"`   // byte i of a stream = pat(Seed ^ stream tag, i)
	Chunks []int   `json:"chunks"` // sizes of the client's writes, cycled
	Tail   int     `json:"tail"`   // a last short write, awaited into the queue as its own task (0: none)
	Before []ItemF `json:"before,omitempty"`
	After  []ItemF `json:"after,omitempty"`
}

const replyLimit = agent.DEMON_MAX_RESPONSE_LENGTH

func genItemF(t *rapid.T, kinds []string, pfUsed *bool) (ItemF, bool) {
	it := ItemF{Kind: rapid.SampledFrom(kinds).Draw(t, "item")}
	switch it.Kind {
	case "other-socket":
		it.N = rapid.OneOf(rapid.IntRange(1, 64), rapid.IntRange(65, 3000), rapid.IntRange(3001, 200000)).Draw(t, "n")
	case "operator-task":
		it.N = rapid.IntRange(1, 4).Draw(t, "n")
	case "pf-answer":
		if *pfUsed {
			return it, false
		}
		*pfUsed = true
		cls := []string{"small", "small", "MiB"}
		if core.Tier() == "thorough" {
			cls = append(cls, ">1-reply")
		}
		switch rapid.SampledFrom(cls).Draw(t, "pf_answer_class") {
		case "small":
			it.N = rapid.IntRange(1, 3000).Draw(t, "n")
		case "MiB":
			it.N = rapid.IntRange(miB, 4*miB).Draw(t, "n")
		default:
			it.N = rapid.IntRange(replyLimit-8, replyLimit+2*miB).Draw(t, "n") // one task that is a reply of its own
		}
	}
	return it, true
}

func genF(t *rapid.T) CaseF {
	quick := core.Tier() != "thorough"
	var c CaseF
	c.Atyp = rapid.SampledFrom([]byte{1, 3, 4}).Draw(t, "atyp")
	switch c.Atyp {
	case 1:
		c.Addr = rapid.SliceOfN(rapid.Byte(), 4, 4).Draw(t, "ipv4")
	case 4:
		c.Addr = rapid.SliceOfN(rapid.Byte(), 16, 16).Draw(t, "ipv6")
	default:
		c.Addr = genDomain(t)
	}
	c.Port = rapid.Uint16().Draw(t, "port")
	c.Seed = rapid.Uint64().Draw(t, "stream_seed")
	classes := []string{"small", "1-6MiB", "29-31MiB", "31-45MiB", "61-70MiB", "31-45MiB"}
	if quick {
		// the quick tier runs three of these cases: each has a backlog of more than one reply
		classes = []string{"61-70MiB", "31-45MiB", "29-31MiB", "31-45MiB"} // rapid favours the front of a list
	}
	switch rapid.SampledFrom(classes).Draw(t, "volume_class") {
	case "small":
		c.Volume = rapid.IntRange(1, 3000).Draw(t, "volume")
	case "1-6MiB":
		c.Volume = rapid.IntRange(miB, 6*miB).Draw(t, "volume")
	case "29-31MiB":
		c.Volume = rapid.OneOf(rapid.IntRange(29*miB, 31*miB), rapid.IntRange(replyLimit-70000, replyLimit+70000)).Draw(t, "volume")
	case "31-45MiB":
		c.Volume = rapid.IntRange(31*miB, 45*miB).Draw(t, "volume")
	case "61-70MiB":
		c.Volume = rapid.IntRange(61*miB, 70*miB).Draw(t, "volume")
	}
	large := c.Volume >= miB
	k := rapid.IntRange(1, 5).Draw(t, "nchunks")
	sum := 0
	for i := 0; i < k; i++ {
		cls := rapid.SampledFrom([]string{"tiny", "small", "medium", "64KiB", "big"}).Draw(t, "chunk_class")
		var n int
		switch cls {
		case "tiny":
			n = rapid.IntRange(1, 64).Draw(t, "n")
		case "small":
			n = rapid.IntRange(65, 3000).Draw(t, "n")
		case "medium":
			n = rapid.IntRange(3001, 65535).Draw(t, "n")
		case "64KiB":
			n = 65536 // the relay's read buffer
		case "big":
			n = rapid.IntRange(65537, miB).Draw(t, "n")
		}
		c.Chunks = append(c.Chunks, n)
		sum += n
	}
	if large && sum/len(c.Chunks) < 16384 {
		c.Chunks = append(c.Chunks, rapid.IntRange(65536, miB).Draw(t, "n")) // keeps the number of writes in the low thousands
	}
	c.Tail = rapid.SampledFrom([]int{0, 1, 5, 64, 700, 3000}).Draw(t, "tail")
	pf := false
	for i, n := 0, rapid.IntRange(0, 2).Draw(t, "nbefore"); i < n; i++ {
		if it, ok := genItemF(t, []string{"other-socket", "operator-task", "pf-answer"}, &pf); ok {
			c.Before = append(c.Before, it)
		}
	}
	closed := false
	for i, n := 0, rapid.IntRange(0, 4).Draw(t, "nafter"); i < n; i++ {
		kinds := []string{"other-socket", "operator-task", "pf-answer", "other-socket", "operator-task"}
		if !closed {
			kinds = append(kinds, "close-fin", "close-rst", "half-close", "close-fin")
		}
		it, ok := genItemF(t, kinds, &pf)
		if !ok {
			continue
		}
		if strings.Contains(it.Kind, "close") {
			closed = true
		}
		c.After = append(c.After, it)
	}
	if quick && c.Tail == 0 && !closed {
		// something smaller than a full relay read is queued behind the backlog
		if rapid.Bool().Draw(t, "forced_tail") {
			c.Tail = rapid.SampledFrom([]int{1, 5, 64, 700}).Draw(t, "tail")
		} else {
			c.After = append([]ItemF{{Kind: rapid.SampledFrom([]string{"close-fin", "close-rst", "half-close"}).Draw(t, "forced_close")}}, c.After...)
		}
	}
	return c
}

// ---------------------------------------------------------------------------- interpreter

// streamF: what one socket id is expected to carry, verified while the replies are read.
type streamF struct {
	seed      uint64
	want      int64 // bytes the peer wrote
	got       int64
	bad       int64
	sample    []byte
	tasks     int
	closeSeen bool
	closed    bool // the client closed: a close task is expected
	sizes     map[string]int
}

func (s *streamF) take(b []byte, scratch *[]byte) {
	s.tasks++
	switch {
	case len(b) >= 65536:
		s.sizes["64KiB"]++
	case len(b) >= 32768:
		s.sizes["32-64KiB"]++
	case len(b) >= 3000:
		s.sizes["3000-32KiB"]++
	default:
		s.sizes["<3000"]++
	}
	if s.bad >= 0 {
		if len(s.sample) < 32 {
			s.sample = append(s.sample, b[:min(len(b), 32-len(s.sample))]...)
		}
		s.got += int64(len(b))
		return
	}
	if cap(*scratch) < len(b) {
		*scratch = make([]byte, len(b))
	}
	exp := (*scratch)[:len(b)]
	patFill(s.seed, s.got, exp)
	for i := range b {
		if b[i] != exp[i] {
			s.bad = s.got + int64(i)
			s.sample = append(s.sample, b[i:min(len(b), i+32)]...)
			break
		}
	}
	s.got += int64(len(b))
}

// writePattern: the peer writes bytes [0, n) of its stream in the given write sizes.
func writePattern(conn *net.TCPConn, seed uint64, from, n int, sizes []int) (int, error) {
	buf := make([]byte, 0, miB)
	done := 0
	for i := 0; done < n; i++ {
		sz := sizes[i%len(sizes)]
		if sz < 1 {
			sz = 1
		}
		if sz > n-done {
			sz = n - done
		}
		if sz > cap(buf) {
			buf = make([]byte, 0, sz)
		}
		b := buf[:sz]
		patFill(seed, int64(from+done), b)
		conn.SetWriteDeadline(time.Now().Add(3 * readBound))
		m, err := conn.Write(b)
		done += m
		if err != nil {
			return done, err
		}
	}
	conn.SetWriteDeadline(time.Time{})
	return done, nil
}

func checkF(c CaseF) (v *core.Violation) {
	defer slowLog("f", c)()
	if censusSane() != "" {
		return skip("goroutine-model-mismatch")
	}
	if c.Volume < 1 || len(c.Chunks) == 0 {
		return nil
	}
	x := &runB{f: newFixture()}
	defer func() { x.f.cleanup(x.clis()) }()
	if _, ok := x.f.startProxy(); !ok {
		return skip("no-port")
	}
	connect := func(op OpB) (*bcli, *core.Violation, string) {
		sv, skipped := x.opConnect(op)
		if sv != nil || skipped != "" {
			return nil, sv, skipped
		}
		cl := x.clients[len(x.clients)-1]
		if !usable(cl) {
			return nil, nil, "connection-not-established"
		}
		return cl, nil, ""
	}
	main, sv, skipped := connect(OpB{Op: "connect", Atyp: c.Atyp, Addr: c.Addr, Port: c.Port, Answer: "ok"})
	if skipped != "" {
		return skip(skipped)
	}
	if sv != nil {
		return sv
	}
	streams := map[uint32]*streamF{}
	newStream := func(id uint32, seed uint64) *streamF {
		s := &streamF{seed: seed, bad: -1, sizes: map[string]int{}}
		streams[id] = s
		return s
	}
	ms := newStream(main.id, c.Seed)
	var other *bcli
	var ost *streamF
	needOther, needPF := false, false
	for _, it := range append(append([]ItemF(nil), c.Before...), c.After...) {
		needOther = needOther || it.Kind == "other-socket"
		needPF = needPF || it.Kind == "pf-answer"
	}
	if needOther {
		if other, sv, skipped = connect(OpB{Op: "connect", Atyp: 1, Addr: []byte{10, 0, 0, 2}, Port: 443, Answer: "ok"}); skipped != "" {
			return skip(skipped)
		} else if sv != nil {
			return sv
		}
		ost = newStream(other.id, c.Seed^0x07e7)
	}
	// the forward: announced, dialled by a first byte; its target answers when its turn comes
	var (
		target  net.Conn
		fwdID   = uint32(0x0f0f0001)
		tport   uint32
		ps      *streamF
		pfOpen  bool
		opTasks int
	)
	for fwdID == main.id || (other != nil && fwdID == other.id) {
		fwdID++
	}
	remove := func() {
		if pfOpen {
			x.f.dispatch(cbRemove(fwdID, typeClient, loopAddr, 4444, loopAddr, tport))
			pfOpen = false
			waitFor(waitBound, func() bool { return count().pfreaders == 0 })
		}
	}
	defer remove()
	if needPF {
		ln, err := core.ListenLoopback("tcp4")
		if err != nil {
			return skip("no-port")
		}
		defer ln.Close()
		tport = uint32(ln.Addr().(*net.TCPAddr).Port)
		x.f.dispatch(cbOpen(fwdID, loopAddr, 4444, loopAddr, tport))
		pfOpen = true
		x.f.dispatch(cbRead(fwdID, typeClient, []byte("x")))
		ln.(*net.TCPListener).SetDeadline(time.Now().Add(readBound))
		if target, err = ln.Accept(); err != nil {
			return core.V("f|pf|target-not-dialled", "forward target not connected: %v", err)
		}
		defer target.Close()
		one := make([]byte, 1)
		target.SetReadDeadline(time.Now().Add(readBound))
		if _, err := readFull(target, one); err != nil || one[0] != 'x' {
			return core.V("f|pf|a2t|bytes-differ", "fresh forward: target read %q (%v)", one, err)
		}
		ps = newStream(fwdID, c.Seed^0x0f0f)
	}
	settleNoFetch := func() bool { return x.f.quiesce(x.clis()) }

	item := func(it ItemF) (*core.Violation, string) {
		switch it.Kind {
		case "other-socket":
			n, err := writePattern(other.conn, ost.seed, int(ost.want), it.N, []int{it.N})
			other.written += uint64(n)
			ost.want += int64(n)
			if err != nil {
				return nil, "client-write-failed"
			}
			if !settleNoFetch() {
				return nil, "no-quiescence-after-client-data"
			}
		case "operator-task":
			for i := 0; i < it.N; i++ {
				var msg map[string]string
				job, err := x.f.a.TaskPrepare(agent.COMMAND_SLEEP, map[string]interface{}{"Arguments": fmt.Sprintf("%d;0", opTasks+1)}, &msg, "client", x.f.rec)
				if err != nil || job == nil {
					return nil, "operator-task-not-prepared"
				}
				x.f.a.AddJobToQueue(*job) // cmd/server/dispatch.go
				opTasks++
			}
		case "pf-answer":
			l0 := x.queueLen()
			tc := target.(*net.TCPConn)
			n, err := writePattern(tc, ps.seed, 0, it.N, []int{miB})
			ps.want += int64(n)
			if err != nil {
				return nil, "target-write-failed"
			}
			target.Close()
			if !waitFor(waitBound, func() bool {
				if x.queueLen() <= l0 {
					return false
				}
				n := count()
				return n.pfreaders == 1 && n.pfPastAppend == 1
			}) {
				n := count()
				if x.queueLen() <= l0 && n.pfInRead == 0 {
					return core.V("f|pf|t2a|no-write-task", "the forward target answered %d bytes and closed; no write task was queued", it.N), ""
				}
				return nil, "no-quiescence-after-target-close"
			}
		case "close-fin", "close-rst", "half-close":
			switch it.Kind {
			case "close-fin":
				main.closeFIN()
				main.closedKind = "fin"
			case "close-rst":
				main.closeRST() // everything written has been consumed by the relay (awaited above): nothing to discard
				main.closedKind = "rst"
			default:
				main.conn.CloseWrite()
				main.closedKind = "half-close"
			}
			main.reader, main.dead = "gone", true
			ms.closed = true
			if !settleNoFetch() {
				return nil, "no-quiescence-after-client-close"
			}
			if it.Kind == "half-close" {
				if extra, closed := main.expectEOF(); !closed || len(extra) != 0 {
					return core.V("f|close|half-close|client-no-eof", "the client shut down its sending side; it read % x, stream ended=%v", extra, closed), ""
				}
			}
			if x.f.hasSocket(main.id) {
				x.retire(main)
				return core.V("f|close|client-"+main.closedKind+"|socket-stays", "the client closed (%s) after uploading %d bytes; its relay goroutine has ended but socket %08x is still registered", main.closedKind, ms.want, main.id), ""
			}
		}
		return nil, ""
	}

	// ---- everything below happens between two check-ins of the agent
	for _, it := range c.Before {
		if sv, skipped := item(it); skipped != "" {
			return skip(skipped)
		} else if sv != nil {
			return sv
		}
	}
	n, err := writePattern(main.conn, ms.seed, 0, c.Volume, c.Chunks)
	main.written += uint64(n)
	ms.want += int64(n)
	if err != nil {
		return skip("client-write-failed")
	}
	if !settleNoFetch() {
		return skip("no-quiescence-after-client-data")
	}
	if c.Tail > 0 {
		n, err := writePattern(main.conn, ms.seed, c.Volume, c.Tail, []int{c.Tail})
		main.written += uint64(n)
		ms.want += int64(n)
		if err != nil {
			return skip("client-write-failed")
		}
		if !settleNoFetch() {
			return skip("no-quiescence-after-client-data")
		}
	}
	for _, it := range c.After {
		if sv, skipped := item(it); skipped != "" {
			return skip(skipped)
		} else if sv != nil {
			return sv
		}
	}

	// ---- the agent wakes up and checks in until the no-job reply
	backlog := fmt.Sprintf("socket %08x: the client uploaded %d bytes (writes of %v, cycled; then a tail of %d) while the agent slept; before it: %v, behind it: %v", main.id, c.Volume, c.Chunks, c.Tail, itemsF(c.Before), itemsF(c.After))
	var scratch []byte
	replies, opSeen := 0, 0
	for {
		jobs := x.f.a.GetQueuedJobs()
		if len(jobs) == 0 {
			break
		}
		replies++
		wire := agent.BuildPayloadMessage(jobs, x.f.key, x.f.iv)
		tasks, clean := demonref.ReadTasks(wire, x.f.key, x.f.iv, 0, "")
		if !clean || len(tasks) != len(jobs) {
			return core.V("f|reply|wire|task-count", "reply %d built from %d jobs reads back as %d tasks (clean=%v)", replies, len(jobs), len(tasks), clean)
		}
		payload := 0
		for ti, t := range tasks {
			if t.Cmd == agent.COMMAND_SLEEP {
				opSeen++
				continue
			}
			if t.Cmd != agent.COMMAND_SOCKET {
				return core.V("task|foreign-command-in-queue", "task with command %d in reply %d", t.Cmd, replies)
			}
			d := &demonref.Dec{B: t.Body}
			sub := d.Int32()
			id := d.Int32()
			s := streams[id]
			switch sub {
			case scConnect:
				return core.V("f|reply|spurious-connect-task", "connect task for socket %08x in reply %d; nobody connected since the last check-in", id, replies)
			case scWrite:
				data := d.Bytes()
				payload += len(data)
				if d.Err || d.Len() != 0 {
					return core.V(fmt.Sprintf("task|wire|sub=%#x|layout", sub), "write task %d of reply %d does not match the Demon's ParserGet* sequence (short=%v, %d bytes left)", ti, replies, d.Err, d.Len())
				}
				if s == nil {
					return core.V("f|reply|foreign-task|sub=0x"+fmt.Sprintf("%x", sub), "%s. Reply %d carries a write task for socket %08x, which nobody wrote to", backlog, replies, id)
				}
				if len(data) == 0 {
					return core.V("f|reply|empty-write-task", "a write task without data was handed out for socket %08x", id)
				}
				if s.closeSeen {
					return core.V("f|reply|write-task-after-close-task", "%s. Reply %d (task %d) hands out %d more bytes of socket %08x after the socket's close task; %d of its %d bytes had been handed out before the close task", backlog, replies, ti, len(data), id, s.got, s.want)
				}
				s.take(data, &scratch)
				if s.bad >= 0 && id != fwdID {
					q := patLocate(s.seed, int(s.want), s.sample)
					kind := "bytes-changed"
					switch {
					case q > int(s.bad):
						kind = "later-bytes-first"
					case q >= 0:
						kind = "earlier-bytes-again"
					}
					return core.V("f|c2a|bytes-differ|"+kind+"|"+backlogLabel(int(s.want)), "%s. Reading the write tasks of socket %08x in hand-out order: at stream offset %d (reply %d, task %d of %d) the agent is given the client's bytes from offset %d", backlog, id, s.bad, replies, ti, len(tasks), q)
				}
				if s.bad >= 0 {
					return core.V("f|pf|t2a|bytes-differ|bytes-changed", "%s. The forward target answered %d bytes; the write task differs at offset %d", backlog, s.want, s.bad)
				}
			case scClose:
				if d.Err || d.Len() != 0 {
					return core.V(fmt.Sprintf("task|wire|sub=%#x|layout", sub), "close task %d of reply %d does not match the Demon's ParserGet* sequence", ti, replies)
				}
				if s == nil || !s.closed || s.closeSeen {
					return core.V("f|reply|spurious-close-task", "%s. Reply %d carries a close task for socket %08x (known=%v, its client closed=%v, already seen=%v)", backlog, replies, id, s != nil, s != nil && s.closed, s != nil && s.closeSeen)
				}
				s.closeSeen = true
				if s.got != s.want {
					return core.V("f|reply|close-task-before-the-data|"+backlogLabel(int(s.want)), "%s. Reply %d (task %d of %d) tells the agent to close socket %08x when only %d of the %d bytes the client wrote before it closed have been handed out", backlog, replies, ti, len(tasks), id, s.got, s.want)
				}
			default:
				return core.V("task|unexpected-subcommand", "socket task with sub-command %#x in reply %d", sub, replies)
			}
		}
		if len(tasks) > 1 && payload >= replyLimit {
			return core.V("f|reply|exceeds-limit", "%s. Reply %d carries %d tasks with %d bytes of relayed data; DEMON_MAX_RESPONSE_LENGTH is %d", backlog, replies, len(tasks), payload, replyLimit)
		}
	}
	ids := make([]uint32, 0, len(streams))
	for id := range streams {
		ids = append(ids, id)
	}
	sort.Slice(ids, func(i, j int) bool { return ids[i] < ids[j] })
	for _, id := range ids {
		s := streams[id]
		dir := "c2a"
		if id == fwdID {
			dir = "pf|t2a"
		}
		if s.got != s.want {
			kind := "bytes-lost"
			if s.got > s.want {
				kind = "bytes-added"
			}
			return core.V("f|"+dir+"|bytes-differ|"+kind+"|"+backlogLabel(int(s.want)), "%s. Over all %d replies the write tasks of socket %08x carry %d bytes; its peer wrote %d", backlog, replies, id, s.got, s.want)
		}
		if s.closed && !s.closeSeen {
			return core.V("f|close|client-"+main.closedKind+"|no-close-task", "%s. Over all %d replies no close task for socket %08x was handed out", backlog, replies, id)
		}
	}
	if opSeen != opTasks {
		// not C15's business which order they come in; that they are in the queue is how they got there
		return skip("operator-tasks-not-handed-out")
	}
	want := c.Volume + c.Tail
	backlogNote(fmt.Sprintf("%s:replies=%d", backlogLabel(want), replies))
	for k, n := range ms.sizes {
		if n > 0 {
			backlogNote("write-task-size:" + k)
		}
	}

	// ---- afterwards: the sockets that are still open work as before; the tables are emptied
	if !ms.closed {
		if !x.f.hasSocket(main.id) {
			return core.V("f|after|socket-gone", "socket %08x left the table after its backlog was handed out although nobody closed it", main.id)
		}
		hello := []byte{0xc1, 0x5f}
		if sv, skipped := x.a2cOn(main, [][]byte{hello}, "b"); skipped != "" {
			return skip(skipped)
		} else if sv != nil {
			return core.V("f|after|"+sv.Sig, "after the backlog: %s", sv.Msg)
		}
	}
	remove()
	if got := x.f.fwdIDs(); len(got) != 0 {
		return core.V("f|end|forward-table-not-empty", "forward table after REMOVE: %x", got)
	}
	if sv, skipped := x.opKill(append([]string(nil), x.f.live...), false); skipped != "" {
		return skip(skipped)
	} else if sv != nil {
		return core.V("f|end|"+sv.Sig, "%s", sv.Msg)
	}
	if got := x.f.socketIDs(); len(got) != 0 {
		return core.V("f|end|socket-table-not-empty", "socket table after kill: %x", got)
	}
	return nil
}

func itemsF(its []ItemF) string {
	var out []string
	for _, it := range its {
		if it.N > 0 {
			out = append(out, fmt.Sprintf("%s(%d)", it.Kind, it.N))
		} else {
			out = append(out, it.Kind)
		}
	}
	return "[" + strings.Join(out, " ") + "]"
}

func backlogLabel(n int) string {
	switch {
	case n >= 2*replyLimit:
		return "backlog:>2-replies"
	case n >= replyLimit:
		return "backlog:>1-reply"
	case n >= 29*miB:
		return "backlog:just-under-1-reply"
	case n >= miB:
		return "backlog:1-6MiB"
	}
	return "backlog:small"
}

func backlogNote(k string) {
	paceMu.Lock()
	paceStats["f:"+k]++
	cp := map[string]int{}
	for a, b := range paceStats {
		if strings.HasPrefix(a, "f:") {
			cp[a[2:]] = b
		}
	}
	paceMu.Unlock()
	core.SetExtra("backlog", cp)
}

// ---------------------------------------------------------------------------- classification

func classifyF(c CaseF) core.Class {
	var cl core.Class
	bl := backlogLabel(c.Volume + c.Tail)
	cl.Labels = append(cl.Labels, bl)
	if c.Volume+c.Tail >= 2*replyLimit {
		cl.Labels = append(cl.Labels, "backlog:>1-reply") // also more than one
	}
	follow := map[string]bool{}
	if c.Tail > 0 {
		follow["short-tail"] = true
	}
	for _, it := range c.After {
		k := it.Kind
		if strings.Contains(k, "close") {
			cl.Labels = append(cl.Labels, "close:"+k)
			k = "close"
		}
		follow[k] = true
	}
	var fs []string
	for k := range follow {
		fs = append(fs, k)
		cl.Labels = append(cl.Labels, "backlog-followed-by:"+k)
	}
	if len(fs) == 0 {
		cl.Labels = append(cl.Labels, "backlog-followed-by:nothing")
	}
	sort.Strings(fs)
	var bs []string
	seen := map[string]bool{}
	for _, it := range c.Before {
		if !seen[it.Kind] {
			seen[it.Kind] = true
			bs = append(bs, it.Kind)
			cl.Labels = append(cl.Labels, "backlog-preceded-by:"+it.Kind)
		}
	}
	sort.Strings(bs)
	for _, it := range append(append([]ItemF(nil), c.Before...), c.After...) {
		if it.Kind == "pf-answer" && it.N >= replyLimit-8 {
			cl.Labels = append(cl.Labels, "pf-answer:one-task>=1-reply")
		}
	}
	cl.NonTrivial = c.Volume+c.Tail >= replyLimit && len(fs) > 0
	cl.Fingerprint = bl + "|before=" + strings.Join(bs, ",") + "|behind=" + strings.Join(fs, ",")
	return cl
}

func TestC15f(t *testing.T) {
	defer censusVerdict()
	core.Run(t, core.Spec[CaseF]{
		Property: "C15", Sub: "f",
		Rule: "relay backlog across check-ins: one agent, one proxy; while the agent sleeps a SOCKS client uploads a volume from {1-3000 bytes, 1-6 MiB, 29-31 MiB (also within 70000 bytes of DEMON_MAX_RESPONSE_LENGTH = 30 MiB), 31-45 MiB, 61-70 MiB} (quick: only the three classes around and above one reply) in writes of 1-6 cycled sizes from 1 byte to 1 MiB (classes tiny / small / medium / exactly the relay's 64 KiB read buffer / larger), optionally a short tail (1-3000 bytes) awaited into the queue as its own task; in front of and behind that backlog 0-2 / 0-4 further things are queued before the next check-in: the client's close (FIN / RST / half-close, after the relay consumed everything), 1-200000 bytes of a second socket, 1-4 operator tasks (sleep, prepared with TaskPrepare and queued with AddJobToQueue as the server does), the answer of a reverse-port-forward target (1-3000 bytes, 1-4 MiB, thorough also one task of about 30-32 MiB) - in the quick tier always at least a short tail or a close. Then the agent checks in until the queue is empty; every reply = GetQueuedJobs + BuildPayloadMessage of all its jobs + the Demon's reader. Oracle over all replies: per socket id the write tasks in hand-out order carry exactly that socket's bytes in order (position-dependent pattern, verified on the fly, the place a wrong byte comes from is located), no task of a socket after its close task, a close task exactly for a client that closed and only after all its bytes, the forward's answer complete under the forward id, no connect / foreign task, a reply with more than one task carries less than DEMON_MAX_RESPONSE_LENGTH of relayed data; the order across sockets and operator tasks is not judged (the statement orders bytes per socket). Afterwards an open socket still relays agent->client, REMOVE / kill empty the tables. Non-trivial: backlog of at least one reply with something queued behind it; distinct = backlog class x kinds before x kinds behind",
		Gen:  genF, Check: checkF, Classify: classifyF,
		Assumptions: []string{
			"the queue is read only at quiescent states (fixture_test.go): every byte the client wrote has been consumed by the relay and its goroutine is parked or gone before the next step; the agent's check-ins are the only reader",
			"hand-out order is judged per socket id only; whether operator tasks or another socket's tasks may overtake is not stated by C15",
			"backlogs above 70 MiB (more than three replies) are not exercised",
		},
	})
}

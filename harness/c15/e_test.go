package c15

// C15(e) paced peers: the relay's "unmodified and in order" towards a peer that reads at its
// own pace.  A case has 1-3 streams over one agent - SOCKS clients of one proxy (agent -> client,
// READ callbacks of type REVERSE_PROXY) and at most one reverse port forward (agent -> forward
// target, READ callbacks of type CLIENT).  Every peer socket gets a small receive buffer before
// it connects (the forward target: on its listening socket, which accepted sockets inherit) and
// follows a generated reading schedule:
//
//	prompt  reads as fast as the data arrives (what (b) and (d) do)
//	slow    a steady reader: a pause before every ReadSz bytes it takes
//	stall   reads the first k bytes, does not read at all for 1 / 3 / 6 / 12 s (thorough: also
//	        30 s), then drains everything
//
// while the agent returns a generated volume - small (as in (b)) or LARGE (1-24 MiB, i.e. more
// than the kernel socket buffers absorb, so that the relay's writes meet back-pressure for as
// long as the peer stalls) - in READ callbacks of generated sizes.  The content of a stream is
// a position-dependent pattern (byte i = f(stream seed, i)): the peer verifies what it reads
// on the fly and a hole, a repetition or a reordering is detected and located without keeping
// the stream.
//
// The callbacks are delivered from ONE goroutine, in a generated order over the streams, the
// way the check-ins of one agent are handled; a callback that blocks while its peer stalls
// (HEAD writes without a deadline) holds back the callbacks behind it.  The peers run in their
// own goroutines.
//
// Oracle (unchanged, that of (b)): what the peer finally received is exactly the agent's
// stream, in order, nothing missing, nothing twice.  "Finally" is a state, not a time: every
// callback has returned, the relay's socket has nothing unsent (SIOCOUTQ == 0) and the peer's
// receive queue is empty (FIONREAD == 0).  HEAD never gives up on a peer (no deadline, the
// write blocks until the peer reads), so the model has no "prefix, then closed": a stream that
// ends early, or a connection that is gone afterwards although nobody closed it, is a
// violation as in (d).  After the paced transfer the connection is used again as in (d)
// (a few bytes both ways / the forward target answers and closes) and the tables are emptied.
//
// Time is input only: a case whose dispatcher is still blocked stall + 60 s after the last
// peer resumed, or whose peer could not finish draining by then, is given up (skipped,
// reported in the extras), never judged.

import (
	"bytes"
	"errors"
	"fmt"
	"net"
	"sort"
	"strings"
	"sync"
	"sync/atomic"
	"syscall"
	"testing"
	"time"
	"unsafe"

	"pgregory.net/rapid"

	"verifharness/internal/core"
)

type StreamE struct {
	Kind    string  `json:"kind"` // socks pf
	Atyp    byte    `json:"atyp,omitempty"`
	Addr    []byte  `json:"addr,omitempty"`
	Port    uint16  `json:"port,omitempty"`
	FwdID   uint32  `json:"fwd_id,omitempty"`
	RcvBuf  int     `json:"rcvbuf"`                // SO_RCVBUF of the peer socket, set before it connects
	Pace    string  `json:"pace"`                  // prompt slow stall
	ReadSz  int     `json:"read_size"`             // size of the peer's read calls
	GapMs   int     `json:"gap_ms,omitempty"`      // slow: pause before every read
	StallAt int     `json:"stall_after,omitempty"` // stall: the peer stops reading once it has read this many bytes
	StallS  float64 `json:"stall_s,omitempty"`     // stall: for this long
	Volume  int     `json:"volume"`                // bytes the agent returns
	Seed    uint64  `json:"seed"`                  // byte i of the stream = pat(Seed, i)
	Chunks  []int   `json:"chunks"`                // sizes of the READ callbacks, cycled
	Back    int     `json:"back"`                  // afterwards: bytes peer -> agent (socks: client writes; pf: target answers and closes)
}

type CaseE struct {
	Streams []StreamE `json:"streams"`
	// Order: the callbacks go round this list of stream indices (one READ callback each time a
	// stream's turn comes) until every stream is complete; empty: one stream after the other.
	Order []int `json:"order,omitempty"`
}

const miB = 1 << 20

// ---------------------------------------------------------------------------- pattern

// patFill writes bytes [off, off+len(dst)) of the stream with the given seed: 8 bytes per
// splitmix64 of the word index, so that 8 consecutive bytes identify their position.
func patFill(seed uint64, off int64, dst []byte) {
	for i := 0; i < len(dst); {
		pos := uint64(off + int64(i))
		z := seed + (pos>>3+1)*0x9E3779B97F4A7C15
		z = (z ^ z>>30) * 0xBF58476D1CE4E5B9
		z = (z ^ z>>27) * 0x94D049BB133111EB
		z ^= z >> 31
		for j := uint(pos & 7); j < 8 && i < len(dst); j++ {
			dst[i] = byte(z >> (8 * j))
			i++
		}
	}
}

// patLocate: where in the stream (0..volume) the sample occurs; -1 if nowhere.
func patLocate(seed uint64, volume int, sample []byte) int {
	if len(sample) < 12 {
		return -1
	}
	all := make([]byte, volume)
	patFill(seed, 0, all)
	return bytes.Index(all, sample)
}

// ---------------------------------------------------------------------------- generator

func stallsOfTier() []float64 {
	if core.Tier() == "thorough" {
		return []float64{1, 3, 6, 12, 1, 3, 6, 12, 30}
	}
	return []float64{1, 3, 6, 12}
}

func genStreamE(t *rapid.T, kind string, lead bool) StreamE {
	quick := core.Tier() != "thorough"
	s := StreamE{Kind: kind}
	if kind == "socks" {
		s.Atyp = rapid.SampledFrom([]byte{1, 3, 4}).Draw(t, "atyp")
		switch s.Atyp {
		case 1:
			s.Addr = rapid.SliceOfN(rapid.Byte(), 4, 4).Draw(t, "ipv4")
		case 4:
			s.Addr = rapid.SliceOfN(rapid.Byte(), 16, 16).Draw(t, "ipv6")
		default:
			s.Addr = genDomain(t)
		}
		s.Port = rapid.Uint16().Draw(t, "port")
	} else {
		s.FwdID = rapid.OneOf(rapid.SampledFrom([]uint32{1, 0x7fffffff, 0x80000000, 0xffffffff}), rapid.Uint32Min(1)).Draw(t, "fwd_id")
	}
	s.RcvBuf = rapid.OneOf(rapid.SampledFrom([]int{4096, 8192, 16384}), rapid.IntRange(4096, 16384)).Draw(t, "rcvbuf")
	s.Seed = rapid.Uint64().Draw(t, "stream_seed")

	// volume
	vol := rapid.SampledFrom([]string{"small", "1-4MiB", "4-12MiB", "12-24MiB", "4-12MiB"}).Draw(t, "volume_class")
	if lead && quick {
		// the quick tier has a handful of cases: each has one stream that certainly meets back-pressure
		vol = rapid.SampledFrom([]string{"6-12MiB", "12-24MiB", "6-12MiB"}).Draw(t, "lead_volume_class")
	}
	switch vol {
	case "small":
		s.Volume = rapid.IntRange(1, 3000).Draw(t, "volume")
	case "1-4MiB":
		s.Volume = rapid.IntRange(1*miB, 4*miB-1).Draw(t, "volume")
	case "4-12MiB":
		s.Volume = rapid.IntRange(4*miB, 12*miB-1).Draw(t, "volume")
	case "6-12MiB":
		s.Volume = rapid.IntRange(6*miB, 12*miB-1).Draw(t, "volume")
	case "12-24MiB":
		s.Volume = rapid.IntRange(12*miB, 24*miB).Draw(t, "volume")
	}
	large := s.Volume >= miB

	// sizes of the READ callbacks
	k := rapid.IntRange(1, 5).Draw(t, "nchunks")
	sum := 0
	for i := 0; i < k; i++ {
		var n int
		cls := "small"
		if large {
			cls = rapid.SampledFrom([]string{"tiny", "small", "medium", "medium", "big", "big"}).Draw(t, "chunk_class")
		} else {
			cls = rapid.SampledFrom([]string{"tiny", "small", "small"}).Draw(t, "chunk_class")
		}
		switch cls {
		case "tiny":
			n = rapid.IntRange(1, 64).Draw(t, "n")
		case "small":
			n = rapid.IntRange(65, 3000).Draw(t, "n")
		case "medium":
			n = rapid.IntRange(3001, 65536).Draw(t, "n")
		case "big":
			n = rapid.IntRange(65537, miB).Draw(t, "n")
		}
		s.Chunks = append(s.Chunks, n)
		sum += n
	}
	if large && sum/len(s.Chunks) < 8192 {
		// keeps the number of callbacks of a LARGE stream in the low thousands
		s.Chunks = append(s.Chunks, rapid.IntRange(65537, miB).Draw(t, "n"))
	}

	// the peer's reading schedule
	s.Pace = rapid.SampledFrom([]string{"prompt", "slow", "stall", "stall"}).Draw(t, "pace")
	if lead && quick {
		s.Pace = "stall"
	}
	if large {
		s.ReadSz = rapid.OneOf(rapid.IntRange(1024, 4096), rapid.IntRange(4097, 65536), rapid.IntRange(65537, 262144)).Draw(t, "read_size")
	} else {
		s.ReadSz = rapid.OneOf(rapid.IntRange(1, 64), rapid.IntRange(65, 4096)).Draw(t, "read_size")
	}
	switch s.Pace {
	case "slow":
		s.GapMs = rapid.IntRange(1, 10).Draw(t, "gap_ms")
		budget := 8000 // ms the steady reader may spend pausing
		if quick {
			budget = 2000
		}
		if reads := s.Volume/s.ReadSz + 1; reads*s.GapMs > budget {
			s.ReadSz = s.Volume*s.GapMs/budget + 1
		}
	case "stall":
		stalls := stallsOfTier()
		switch {
		case lead && quick:
			stalls = []float64{6, 12} // longer than any deadline of a few seconds
		case quick:
			stalls = []float64{1, 3} // the case lasts about as long as its lead stream stalls
		}
		s.StallS = rapid.SampledFrom(stalls).Draw(t, "stall_s")
		s.StallAt = rapid.OneOf(rapid.Just(0), rapid.IntRange(1, 64), rapid.IntRange(65, 65536), rapid.IntRange(0, s.Volume/2)).Draw(t, "stall_after")
		if s.StallAt > s.Volume/2 {
			s.StallAt = s.Volume / 2
		}
	}

	// afterwards, the other direction
	if kind == "socks" {
		s.Back = rapid.IntRange(1, 200).Draw(t, "back")
		if large && rapid.SampledFrom([]bool{true, false, false, false}).Draw(t, "back_large") {
			s.Back = rapid.IntRange(miB, 6*miB).Draw(t, "back")
		}
	} else {
		s.Back = rapid.OneOf(rapid.IntRange(1, 3000), rapid.IntRange(65537, 200000)).Draw(t, "back")
	}
	return s
}

func genE(t *rapid.T) CaseE {
	var c CaseE
	n := rapid.SampledFrom([]int{1, 2, 2, 3}).Draw(t, "nstreams")
	pf := -1 // at most one forward (its reader goroutine spins from the target's close to the REMOVE)
	if rapid.SampledFrom([]bool{true, true, false}).Draw(t, "with_forward") {
		pf = rapid.IntRange(0, n-1).Draw(t, "forward_index")
	}
	for i := 0; i < n; i++ {
		kind := "socks"
		if i == pf {
			kind = "pf"
		}
		c.Streams = append(c.Streams, genStreamE(t, kind, i == 0))
	}
	if n > 1 && rapid.SampledFrom([]bool{true, true, true, false}).Draw(t, "interleaved") {
		c.Order = rapid.SliceOfN(rapid.IntRange(0, n-1), 2, 8).Draw(t, "order")
	}
	return c
}

// ---------------------------------------------------------------------------- socket state (Linux)

const ioctlSIOCOUTQ = 0x5411

func ioctlInt(c net.Conn, req uintptr) (int, bool) {
	tc, ok := c.(*net.TCPConn)
	if !ok || tc == nil {
		return 0, false
	}
	rc, err := tc.SyscallConn()
	if err != nil {
		return 0, false
	}
	var n int32
	good := false
	rc.Control(func(fd uintptr) {
		if _, _, e := syscall.Syscall(syscall.SYS_IOCTL, fd, req, uintptr(unsafe.Pointer(&n))); e == 0 {
			good = true
		}
	})
	return int(n), good
}

func setRcvBuf(rc syscall.RawConn, n int) error {
	var e error
	if err := rc.Control(func(fd uintptr) {
		e = syscall.SetsockoptInt(int(fd), syscall.SOL_SOCKET, syscall.SO_RCVBUF, n)
	}); err != nil {
		return err
	}
	return e
}

// ---------------------------------------------------------------------------- the peer

type peerE struct {
	s      StreamE
	mu     sync.Mutex
	conn   *net.TCPConn // socks: the client socket; pf: the socket the target accepted
	ln     net.Listener // pf
	relay  func() (net.Conn, bool)
	got    int64
	bad    int64  // stream offset of the first byte that is not the agent's byte at that offset; -1
	sample []byte // what was received from there on (up to 32 bytes)
	ended  bool   // end of stream / reset seen
	endErr error
	gaveUp string
	// measurements for the extras
	stallTook time.Duration
	resumed   atomic.Bool
	done      chan struct{}
}

func (p *peerE) setConn(c *net.TCPConn) {
	p.mu.Lock()
	p.conn = c
	p.mu.Unlock()
}

func (p *peerE) getConn() *net.TCPConn {
	p.mu.Lock()
	defer p.mu.Unlock()
	return p.conn
}

// verify compares what was read with the stream at the current offset.
func (p *peerE) verify(b, scratch []byte) {
	if p.bad >= 0 {
		if len(p.sample) < 32 {
			p.sample = append(p.sample, b[:min(len(b), 32-len(p.sample))]...)
		}
		return
	}
	exp := scratch[:len(b)]
	patFill(p.s.Seed, p.got, exp)
	if bytes.Equal(b, exp) {
		return
	}
	for i := range b {
		if b[i] != exp[i] {
			p.bad = p.got + int64(i)
			p.sample = append(p.sample, b[i:min(len(b), i+32)]...)
			return
		}
	}
}

// run: the reading schedule.  nothingMore reports the state "every callback has returned, the
// relay's socket holds nothing unsent, our receive queue is empty" (checked in that order).
func (p *peerE) run(dispDone *atomic.Bool, giveUp time.Time) {
	defer close(p.done)
	if p.ln != nil {
		// the forward target: the relay dials it while the first READ callback of the forward is
		// handled, so the connection is in the backlog before that callback returns
		for {
			wasDone := dispDone.Load()
			p.ln.(*net.TCPListener).SetDeadline(time.Now().Add(100 * time.Millisecond))
			c, err := p.ln.Accept()
			if err == nil {
				p.setConn(c.(*net.TCPConn))
				break
			}
			var ne net.Error
			if !errors.As(err, &ne) || !ne.Timeout() || wasDone {
				p.endErr = err // judged by the caller: every callback returned and the target was never dialled
				p.resumed.Store(true)
				return
			}
			if time.Now().After(giveUp) {
				p.gaveUp = "forward-target-not-dialled-in-time"
				return
			}
		}
	}
	conn := p.getConn()
	defer conn.SetReadDeadline(time.Time{})
	buf := make([]byte, p.s.ReadSz)
	scratch := make([]byte, p.s.ReadSz)
	stalled := p.s.Pace != "stall"
	sinceGap := len(buf) // slow: the first pause comes before the first read
	if stalled {
		p.resumed.Store(true)
	}
	for {
		want := len(buf)
		if !stalled {
			if p.got >= int64(p.s.StallAt) {
				if p.got == 0 {
					// "after the first 0 bytes": the pause begins when the stream begins to arrive
					for !dispDone.Load() && time.Now().Before(giveUp) {
						if q, good := ioctlInt(conn, ioctlFIONREAD); !good || q > 0 {
							break
						}
						time.Sleep(time.Millisecond)
					}
				}
				t0 := time.Now()
				time.Sleep(time.Duration(p.s.StallS * float64(time.Second)))
				p.stallTook = time.Since(t0)
				stalled = true
				p.resumed.Store(true)
			} else if left := int64(p.s.StallAt) - p.got; left < int64(want) {
				want = int(left)
			}
		}
		if p.s.Pace == "slow" && sinceGap >= len(buf) {
			// a steady reader: a pause after every ReadSz bytes (a read returns at most what the small
			// receive buffer holds, so one "read" of the schedule may take several calls)
			time.Sleep(time.Duration(p.s.GapMs) * time.Millisecond)
			sinceGap = 0
		}
		conn.SetReadDeadline(time.Now().Add(50 * time.Millisecond))
		n, err := conn.Read(buf[:want])
		if n > 0 {
			p.verify(buf[:n], scratch)
			p.got += int64(n)
			sinceGap += n
		}
		if err == nil {
			continue
		}
		var ne net.Error
		if errors.As(err, &ne) && ne.Timeout() {
			if dispDone.Load() && p.nothingInFlight() {
				return
			}
			if time.Now().After(giveUp) {
				p.gaveUp = "peer-could-not-finish-draining"
				return
			}
			continue
		}
		p.ended, p.endErr = true, err
		return
	}
}

func (p *peerE) nothingInFlight() bool {
	if rc, ok := p.relay(); ok {
		if q, good := ioctlInt(rc, ioctlSIOCOUTQ); !good || q != 0 {
			return false
		}
	}
	q, good := ioctlInt(p.getConn(), ioctlFIONREAD)
	return good && q == 0
}

// ---------------------------------------------------------------------------- interpreter

func paceLabel(s StreamE) string {
	if s.Pace == "stall" {
		return fmt.Sprintf("stall=%gs", s.StallS)
	}
	return s.Pace
}

func volumeLabel(n int) string {
	switch {
	case n < miB:
		return "small"
	case n < 4*miB:
		return "1-4MiB"
	case n < 12*miB:
		return "4-12MiB"
	}
	return "12-24MiB"
}

func dirLabel(s StreamE) string {
	if s.Kind == "pf" {
		return "pf|a2t"
	}
	return "a2c"
}

var (
	paceMu    sync.Mutex
	paceStats = map[string]int{}
)

func paceNote(k string) {
	paceMu.Lock()
	paceStats[k]++
	cp := map[string]int{}
	for a, b := range paceStats {
		cp[a] = b
	}
	paceMu.Unlock()
	core.SetExtra("paced_peers", cp)
}

const loopAddr = 0x0100007F

func checkE(c CaseE) (v *core.Violation) {
	defer slowLog("e", c)()
	if censusSane() != "" {
		return skip("goroutine-model-mismatch")
	}
	if len(c.Streams) == 0 {
		return nil
	}
	x := &runB{f: newFixture()}
	defer func() { x.f.cleanup(x.clis()) }()
	if _, ok := x.f.startProxy(); !ok {
		return skip("no-port")
	}

	// ---- set up: every connection is established (socks) / announced (forward) before data flows
	peers := make([]*peerE, len(c.Streams))
	clients := make([]*bcli, len(c.Streams))
	ids := make([]uint32, len(c.Streams))
	typs := make([]uint32, len(c.Streams))
	tports := make([]uint32, len(c.Streams))
	defer func() {
		for _, p := range peers {
			if p == nil {
				continue
			}
			if p.ln != nil {
				p.ln.Close()
			}
			if p.s.Kind == "pf" {
				if tc := p.getConn(); tc != nil {
					tc.SetLinger(0)
					tc.Close()
				}
			}
		}
	}()
	var total time.Duration
	seenPF := false
	for i, s := range c.Streams {
		if s.Volume < 1 || s.ReadSz < 1 || len(s.Chunks) == 0 {
			return nil // not a case of this generator
		}
		p := &peerE{s: s, bad: -1, done: make(chan struct{})}
		peers[i] = p
		if s.Pace == "stall" {
			total += time.Duration(s.StallS * float64(time.Second))
		}
		if s.Pace == "slow" {
			total += time.Duration(s.Volume/s.ReadSz+1) * time.Duration(s.GapMs) * time.Millisecond * 3
		}
		switch s.Kind {
		case "socks":
			sv, skipped := x.opConnect(OpB{Op: "connect", Atyp: s.Atyp, Addr: s.Addr, Port: s.Port, Answer: "ok", RcvBuf: s.RcvBuf})
			if skipped != "" {
				return skip(skipped)
			}
			if sv != nil {
				sv.Msg = fmt.Sprintf("stream %d, connection set-up: %s", i, sv.Msg)
				return sv
			}
			cl := x.clients[len(x.clients)-1]
			if !usable(cl) {
				return skip("connection-not-established")
			}
			clients[i], ids[i], typs[i] = cl, cl.id, typeProxy
			p.setConn(cl.conn)
			addr := cl.addr
			p.relay = func() (net.Conn, bool) { sc, _, ok := x.f.serverConn(addr); return sc, ok }
		case "pf":
			if seenPF {
				return nil // the generator makes at most one forward per case
			}
			seenPF = true
			ln, err := core.ListenLoopback("tcp4")
			if err != nil {
				return skip("no-port")
			}
			p.ln = ln
			if rc, err := ln.(*net.TCPListener).SyscallConn(); err != nil || setRcvBuf(rc, s.RcvBuf) != nil {
				return skip("cannot-set-receive-buffer")
			}
			id := s.FwdID
			if id == 0 {
				id = 1
			}
			ids[i], typs[i], tports[i] = id, typeClient, uint32(ln.Addr().(*net.TCPAddr).Port)
			x.f.dispatch(cbOpen(id, loopAddr, 4444, loopAddr, tports[i]))
			if got := x.f.fwdIDs(); len(got) != 1 || uint32(got[0]) != id {
				return core.V("e|pf|open|table", "after the OPEN callback for forward %08x the forward table holds %x", id, got)
			}
			p.relay = func() (net.Conn, bool) {
				x.f.a.PortFwdsMtx.Lock()
				defer x.f.a.PortFwdsMtx.Unlock()
				for _, pf := range x.f.a.PortFwds {
					if pf != nil && uint32(pf.SocktID) == id && pf.Conn != nil {
						return pf.Conn, true
					}
				}
				return nil, false
			}
		default:
			return nil
		}
	}

	// ---- the paced transfer
	var (
		dispDone atomic.Bool
		abort    atomic.Bool
		dispV    *core.Violation // a panic inside a callback
		dispEnd  = make(chan struct{})
		longest  = make([]time.Duration, len(c.Streams)) // longest single callback per stream
		ncb      = make([]int, len(c.Streams))
	)
	giveUp := time.Now().Add(total + 60*time.Second)
	for _, p := range peers {
		go p.run(&dispDone, giveUp.Add(20*time.Second))
	}
	go func() {
		defer close(dispEnd)
		defer dispDone.Store(true)
		sent := make([]int, len(c.Streams))
		turn := make([]int, len(c.Streams))
		next := func(i int) bool {
			s := c.Streams[i]
			if abort.Load() || sent[i] >= s.Volume {
				return false
			}
			n := s.Chunks[turn[i]%len(s.Chunks)]
			turn[i]++
			if n < 1 {
				n = 1
			}
			if n > s.Volume-sent[i] {
				n = s.Volume - sent[i]
			}
			data := make([]byte, n)
			patFill(s.Seed, int64(sent[i]), data)
			body := cbRead(ids[i], typs[i], data)
			t0 := time.Now()
			pv := core.Guard(func() *core.Violation { x.f.dispatch(body); return nil })
			if d := time.Since(t0); d > longest[i] {
				longest[i] = d
			}
			if pv != nil {
				abort.Store(true)
				dispV = pv
				return false
			}
			ncb[i]++
			sent[i] += n
			return true
		}
		for progress := len(c.Order) > 0; progress; {
			progress = false
			for _, o := range c.Order {
				if o >= 0 && next(o%len(c.Streams)) {
					progress = true
				}
			}
		}
		for i := range c.Streams { // sequential order, and whatever the round left out
			for next(i) {
			}
		}
	}()

	gaveUp := ""
	select {
	case <-dispEnd:
	case <-time.After(time.Until(giveUp)):
		// the machine (or a relay that waits for something else than its peer) did not get through
		// the schedule: unblock whatever write is pending and give the case up
		gaveUp = "callbacks-still-blocked-60s-after-the-last-stall"
		abort.Store(true)
		for _, p := range peers {
			if tc := p.getConn(); tc != nil {
				tc.SetLinger(0)
				tc.Close()
			}
			if p.ln != nil {
				p.ln.Close()
			}
		}
		<-dispEnd
	}
	for _, p := range peers {
		<-p.done
	}
	if gaveUp != "" {
		for _, cl := range clients {
			if cl != nil {
				cl.closed = true
			}
		}
		paceNote("schedule-not-held:" + gaveUp)
		return skip(gaveUp)
	}
	if dispV != nil {
		return dispV
	}

	// ---- the verdict per stream
	for i, p := range peers {
		s := p.s
		pl, vl := paceLabel(s), volumeLabel(s.Volume)
		if p.gaveUp != "" {
			paceNote("schedule-not-held:" + p.gaveUp)
			return skip(p.gaveUp)
		}
		if s.Pace == "stall" {
			switch {
			case p.stallTook > time.Duration(s.StallS*float64(time.Second))+2*time.Second:
				paceNote("schedule-not-held:stall-overslept:" + pl)
			case longest[i] >= time.Duration(s.StallS*float64(time.Second))/2:
				paceNote("back-pressure-through-the-stall:" + pl)
			default:
				paceNote("stall-absorbed-by-buffers-or-behind-another-stream:" + pl)
			}
		}
		what := fmt.Sprintf("stream %d (%s, socket %08x): the agent returned %d bytes in %d READ callbacks of sizes %v (cycled); the peer (receive buffer %d, reads of %d, pace %s",
			i, s.Kind, ids[i], s.Volume, ncb[i], s.Chunks, s.RcvBuf, s.ReadSz, pl)
		if s.Pace == "stall" {
			what += fmt.Sprintf(" after its first %d bytes", s.StallAt)
		}
		if s.Pace == "slow" {
			what += fmt.Sprintf(", %d ms before every read", s.GapMs)
		}
		what += fmt.Sprintf("; longest callback %v)", longest[i].Round(10*time.Millisecond))
		sig := func(kind string) string {
			return fmt.Sprintf("e|%s|bytes-differ|%s|pace=%s|volume=%s", dirLabel(s), kind, pl, vl)
		}
		if s.Kind == "pf" && p.getConn() == nil {
			x.f.dispatch(cbRemove(ids[i], typeClient, loopAddr, 4444, loopAddr, tports[i]))
			return core.V("e|pf|a2t|target-not-dialled", "%s: every READ callback returned and the forward target 127.0.0.1:%d was never connected (%v)", what, tports[i], p.endErr)
		}
		if p.bad >= 0 {
			q := patLocate(s.Seed, s.Volume, p.sample)
			switch {
			case q > int(p.bad):
				return core.V(sig("hole"), "%s received %d bytes: bytes [%d, %d) of the agent's stream are missing (%d bytes), the stream goes on with offset %d", what, p.got, p.bad, q, q-int(p.bad), q)
			case q >= 0:
				return core.V(sig("repeated-or-reordered"), "%s received %d bytes: at stream offset %d it received the agent's bytes from offset %d again", what, p.got, p.bad, q)
			}
			return core.V(sig("bytes-changed"), "%s received %d bytes: at stream offset %d it received % x, which is nowhere in the agent's stream", what, p.got, p.bad, p.sample)
		}
		switch {
		case p.got < int64(s.Volume) && p.ended:
			return core.V(sig("stream-ended-early"), "%s received the first %d bytes and then the end of the stream (%v); nobody closed the connection", what, p.got, p.endErr)
		case p.got < int64(s.Volume):
			return core.V(sig("tail-lost"), "%s received the first %d bytes; every callback has returned, the relay's socket has nothing unsent, the peer's receive queue is empty", what, p.got)
		case p.got > int64(s.Volume):
			return core.V(sig("bytes-added"), "%s received %d bytes", what, p.got)
		case p.ended:
			return core.V(fmt.Sprintf("e|%s|connection-closed|pace=%s|volume=%s", dirLabel(s), pl, vl), "%s received everything and then the end of the stream (%v) although nobody closed the connection", what, p.endErr)
		}
	}

	// ---- afterwards every connection is used once more, as in (d)
	for i, p := range peers {
		s := p.s
		tag := fmt.Sprintf("e|after|%s|pace=%s|", dirLabel(s), paceLabel(s))
		if s.Kind == "socks" {
			cl := clients[i]
			if !x.f.hasSocket(cl.id) {
				return core.V(tag+"socket-gone", "stream %d: socket %08x left the table after the paced transfer although nobody closed it", i, cl.id)
			}
			hello := make([]byte, 1+i)
			patFill(s.Seed^0xa5a5, 0, hello)
			sv, skipped := x.a2cOn(cl, [][]byte{hello}, "b")
			if skipped == "" && sv == nil {
				back := make([]byte, s.Back)
				patFill(s.Seed^0x5a5a5a, 0, back)
				var chunks [][]byte
				for len(back) > 0 {
					n := min(len(back), s.Chunks[len(chunks)%len(s.Chunks)]+4096)
					chunks = append(chunks, back[:n])
					back = back[n:]
				}
				sv, skipped = x.c2aOn(cl, chunks, false, "b")
			}
			if skipped != "" {
				return skip(skipped)
			}
			if sv != nil {
				return core.V(tag+sv.Sig, "stream %d, after the paced transfer: %s", i, sv.Msg)
			}
			continue
		}
		// the forward: the target answers and closes, the answer comes back as write tasks, REMOVE ends it
		target := p.getConn()
		back := make([]byte, s.Back)
		patFill(s.Seed^0x5a5a5a, 0, back)
		l0 := x.queueLen()
		target.SetWriteDeadline(time.Now().Add(readBound))
		if _, err := target.Write(back); err != nil {
			return skip("target-write-failed")
		}
		target.Close()
		if !waitFor(waitBound, func() bool {
			if x.queueLen() <= l0 {
				return false
			}
			n := count()
			return n.pfreaders == 1 && n.pfPastAppend == 1
		}) {
			n := count()
			if x.queueLen() <= l0 && n.pfInRead == 0 {
				return core.V(tag+"t2a|no-write-task", "stream %d: the target answered %d bytes and closed; no write task was queued", i, len(back))
			}
			return skip("no-quiescence-after-target-close")
		}
		x.f.dispatch(cbRemove(ids[i], typeClient, loopAddr, 4444, loopAddr, tports[i]))
		if !waitFor(waitBound, func() bool { return count().pfreaders == 0 }) {
			return skip("forward-reader-did-not-end")
		}
		if got := x.f.fwdIDs(); len(got) != 0 {
			return core.V(tag+"remove|forward-stays", "forward table after REMOVE: %x", got)
		}
		tasks, tv := x.f.takeTasks()
		if tv != nil {
			return tv
		}
		var got []byte
		for _, t := range tasks {
			if t.Sub != scWrite || t.ID != ids[i] {
				return core.V(tag+"foreign-task", "task %#x for socket %08x queued during the forward's exchange", t.Sub, t.ID)
			}
			got = append(got, t.Data...)
		}
		if !bytes.Equal(got, back) {
			return core.V(tag+"t2a|bytes-differ|"+diffClass(got, back), "stream %d: the target answered %d bytes, the write tasks carry %d, first difference at %d", i, len(back), len(got), firstDiff(got, back))
		}
	}

	// ---- the end as in (b): the operator kills the proxy, nothing stays registered
	sv, skipped := x.opKill(append([]string(nil), x.f.live...), false)
	if skipped != "" {
		return skip(skipped)
	}
	if sv != nil {
		return core.V("e|end|"+sv.Sig, "%s", sv.Msg)
	}
	if got := x.f.socketIDs(); len(got) != 0 {
		return core.V("e|end|socket-table-not-empty", "socket table after kill: %x", got)
	}
	if got := x.f.fwdIDs(); len(got) != 0 {
		return core.V("e|end|forward-table-not-empty", "forward table after REMOVE: %x", got)
	}
	return nil
}

// ---------------------------------------------------------------------------- classification

func classifyE(c CaseE) core.Class {
	var cl core.Class
	var parts []string
	for _, s := range c.Streams {
		dir := "agent->socks-client"
		if s.Kind == "pf" {
			dir = "agent->forward-target"
		}
		pl, vl := paceLabel(s), volumeLabel(s.Volume)
		cl.Labels = append(cl.Labels, "peer-pace:"+dir+":"+pl, "peer-pace:"+pl+":volume="+vl, "volume:"+vl)
		if s.Pace == "stall" {
			switch {
			case s.StallAt == 0:
				cl.Labels = append(cl.Labels, "stall-after:0")
			case s.StallAt <= 64:
				cl.Labels = append(cl.Labels, "stall-after:1-64")
			case s.StallAt <= 65536:
				cl.Labels = append(cl.Labels, "stall-after:65-64KiB")
			default:
				cl.Labels = append(cl.Labels, "stall-after:>64KiB")
			}
		}
		switch {
		case s.RcvBuf <= 4096:
			cl.Labels = append(cl.Labels, "rcvbuf:4KiB")
		case s.RcvBuf <= 8192:
			cl.Labels = append(cl.Labels, "rcvbuf:<=8KiB")
		default:
			cl.Labels = append(cl.Labels, "rcvbuf:<=16KiB")
		}
		if s.Back >= miB {
			cl.Labels = append(cl.Labels, "back:client->agent>=1MiB")
		}
		if s.Pace != "prompt" && s.Volume >= miB {
			cl.NonTrivial = true
		}
		parts = append(parts, s.Kind+"/"+pl+"/"+vl)
	}
	order := "sequential"
	if len(c.Order) > 0 {
		order = "interleaved"
	}
	cl.Labels = append(cl.Labels, "callbacks:"+order, fmt.Sprintf("streams=%d", len(c.Streams)))
	sort.Strings(parts)
	cl.Fingerprint = strings.Join(parts, ",") + "|" + order
	return cl
}

func TestC15e(t *testing.T) {
	defer censusVerdict()
	core.Run(t, core.Spec[CaseE]{
		Property: "C15", Sub: "e",
		Rule: "paced peers: one agent, one proxy, 1-3 streams (SOCKS clients: agent->client READ callbacks of type REVERSE_PROXY; at most one reverse port forward: agent->target READ callbacks of type CLIENT). Every peer socket gets SO_RCVBUF 4-16 KiB before it connects and follows a generated reading schedule - prompt / slow steady (a pause of 1-10 ms before every n bytes it takes, n fixed per stream) / stall (reads its first k bytes, k from 0 to half the volume, then does not read for 1, 3, 6 or 12 s (thorough also 30 s), then drains everything) - while the agent returns a generated volume: small (1-3000 bytes) or LARGE (1-24 MiB, more than the loopback socket buffers absorb) in READ callbacks of 1-6 cycled sizes from 1 byte to 1 MiB, content byte i = splitmix64(stream seed, i/8) so that the peer verifies on the fly and a hole / repetition is located. Callbacks are delivered from one goroutine in a generated order over the streams (round a generated list of stream indices, or one stream after the other); peers read in their own goroutines. In the quick tier stream 0 of every case is a 6-24 MiB stream whose peer stalls 6 or 12 s (the others stall at most 3 s). Oracle: once every callback has returned, the relay's socket has nothing unsent (SIOCOUTQ 0) and the peer's receive queue is empty (FIONREAD 0), the peer has received exactly the agent's stream - in order, nothing missing, nothing twice - and the connection is still open and registered (HEAD never gives up on a peer); afterwards, as in (d), a few bytes agent->client, 1-200 bytes or 1-6 MiB client->agent (write tasks fetched through GetQueuedJobs + BuildPayloadMessage + the Demon's reader carry exactly these bytes), the forward target's answer comes back as write tasks after it closes, REMOVE / socks kill empty the tables. A case whose callbacks are still blocked 60 s after the last generated stall, or whose peer cannot finish draining, is given up (counted under paced_peers in the extras), not judged. Non-trivial: a LARGE stream with a peer that is not prompt; distinct = multiset of (kind, pace, volume class) x callback order",
		Gen:  genE, Check: checkE, Classify: classifyE,
		Assumptions: []string{
			"the peer's pauses are input, not oracle: the verdict is taken at the state 'every callback returned, nothing unsent in the relay's socket, nothing unread at the peer' (Linux SIOCOUTQ / FIONREAD)",
			"HEAD writes relayed data without a deadline from the goroutine that handles the agent's callbacks: a stalled peer holds back the callbacks behind it; that is modelled (one dispatching goroutine), not judged",
			"stalls longer than the largest generated one (quick 12 s, thorough 30 s) and volumes above 24 MiB are not exercised",
		},
	})
}

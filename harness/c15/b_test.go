package c15

// C15(b) relay integrity: a generated sequential history over 1-3 proxies and several
// client connections: connect (agent answers now, or later), client->agent data in
// generated chunks, agent->client data in generated READ callbacks, close from either side
// (graceful and abortive, before and after the connect reply), socks add/list/kill/clear,
// and reverse-port-forward sessions against a harness TCP target.  The harness is the only
// actor, so every expectation is exact.

import (
	"bytes"
	"fmt"
	"net"
	"sort"
	"strings"
	"sync/atomic"
	"testing"
	"time"
	"unsafe"

	"pgregory.net/rapid"

	"verifharness/internal/core"
)

type OpB struct {
	Op      string   `json:"op"` // connect answer c2a a2c close kill clear add list pf
	Sel     int      `json:"sel"`
	Atyp    byte     `json:"atyp,omitempty"`
	Addr    []byte   `json:"addr,omitempty"`
	Port    uint16   `json:"port,omitempty"`
	Cuts    []int    `json:"cuts,omitempty"`
	Answer  string   `json:"answer,omitempty"` // ok fail defer
	Err     uint32   `json:"err,omitempty"`
	Chunks  [][]byte `json:"chunks,omitempty"`
	Sleep   bool     `json:"sleep,omitempty"` // c2a: the agent sleeps - every chunk is awaited into the queue as its own write task before the queue is fetched
	By      string   `json:"by,omitempty"`    // agent client-fin client-rst
	Dup     bool     `json:"dup,omitempty"`
	FwdID   uint32   `json:"fwd_id,omitempty"`
	Reply   []byte   `json:"reply,omitempty"`    // pf: what the target answers before it closes
	TargetC bool     `json:"target_c,omitempty"` // pf: the target closes first (else the agent's REMOVE ends the session)
	DupOpen bool     `json:"dup_open,omitempty"`
	Stage   int      `json:"stage,omitempty"` // staged: 0 after TCP connect, 1 greeting sent (reply unread), 2 method reply read, 3 half of the request sent, 4 request sent (agent has not answered), 5 agent answered
	Cmd     string   `json:"cmd,omitempty"`   // staged: kill clear readd list dup-add kill-other
	Go      bool     `json:"go,omitempty"`    // staged: the client goes on with its next protocol step after the command
	Twin    bool     `json:"twin,omitempty"`  // pf: two forwards answer before the queue is fetched
	RcvBuf  int      `json:"rcvbuf,omitempty"` // connect: SO_RCVBUF of the client socket, set before it connects (0 = system default)
}

type CaseB struct {
	Ops []OpB `json:"ops"`
	Cfg Cfg   `json:"cfg"` // configuration / environment the fixture is built from (cfg_test.go)
}

// ---------------------------------------------------------------------------- generator

func genChunk(t *rapid.T, big *bool) []byte {
	cls := rapid.SampledFrom([]string{"small", "small", "small", "medium", "tiny", "empty", "small", "small", "medium", "small", "tiny", "small", "small", "small", "small", "small", "small", "small", "small", "big"}).Draw(t, "chunk_class")
	var n int
	switch cls {
	case "empty":
		n = 0
	case "tiny":
		n = 1
	case "small":
		n = rapid.IntRange(1, 64).Draw(t, "n")
	case "medium":
		n = rapid.IntRange(65, 3000).Draw(t, "n")
	case "big":
		if *big {
			n = rapid.IntRange(1, 64).Draw(t, "n")
		} else {
			*big = true
			n = rapid.IntRange(65537, 70000).Draw(t, "n") // larger than the relay's 64 KiB read buffer
		}
	}
	if n > 3000 {
		// long chunks are a counter pattern (cheap to draw, any loss or reordering shows)
		seed := rapid.Byte().Draw(t, "pattern")
		b := make([]byte, n)
		for i := range b {
			b[i] = byte(i*31>>3) ^ seed ^ byte(i>>8)
		}
		return b
	}
	return rapid.SliceOfN(rapid.Byte(), n, n).Draw(t, "bytes")
}

func genChunks(t *rapid.T, big *bool) [][]byte {
	k := rapid.IntRange(1, 5).Draw(t, "nchunks")
	var out [][]byte
	for i := 0; i < k; i++ {
		out = append(out, genChunk(t, big))
	}
	return out
}

// genSleepChunks: what a client sends while the agent sleeps: 2-6 non-empty chunks of
// different content whose lengths go both down and up (a later chunk shorter than an
// earlier one and a later chunk longer than an earlier one whenever there are >= 3), so
// that write tasks which share storage cannot look right by accident.
func genSleepChunks(t *rapid.T) [][]byte {
	k := rapid.IntRange(2, 6).Draw(t, "nsleep")
	var out [][]byte
	prev := 0
	for i := 0; i < k; i++ {
		n := rapid.IntRange(1, 400).Draw(t, "n")
		switch {
		case i == 1 && n >= prev:
			n = prev/2 + 1 // second one shorter (or equal when prev is 1)
		case i == 2 && n <= prev:
			n = prev*2 + 3 // third one longer
		}
		b := rapid.SliceOfN(rapid.Byte(), n, n).Draw(t, "bytes")
		// contents differ from chunk to chunk even after shrinking: position-and-index tag
		for j := range b {
			b[j] ^= byte(0x11*(i+1)) + byte(j)
		}
		out = append(out, b)
		prev = n
	}
	return out
}

func genConnect(t *rapid.T) OpB {
	op := OpB{Op: "connect"}
	op.Atyp = rapid.SampledFrom([]byte{1, 3, 4, 3}).Draw(t, "atyp")
	switch op.Atyp {
	case 1:
		op.Addr = rapid.SliceOfN(rapid.Byte(), 4, 4).Draw(t, "ipv4")
	case 4:
		op.Addr = rapid.SliceOfN(rapid.Byte(), 16, 16).Draw(t, "ipv6")
	case 3:
		if rapid.SampledFrom([]bool{true, true, false}).Draw(t, "domain_text") {
			op.Addr = genDomain(t)
		} else {
			n := rapid.OneOf(rapid.SampledFrom([]int{0, 1, 9, 255}), rapid.IntRange(0, 255)).Draw(t, "dlen")
			op.Addr = rapid.SliceOfN(rapid.ByteRange('a', 'z'), n, n).Draw(t, "domain")
		}
	}
	op.Port = rapid.Uint16().Draw(t, "port")
	r := request(5, 1, 0, op.Atyp, op.Addr, op.Port)
	from, to := addrSpan(op.Atyp, op.Addr)
	// write boundaries only outside the address octets: the short-read defect of
	// ReadSocksHeader is sub-check (a)'s business and would end this history at its first step
	for _, p := range []int{1, 2, 3, from, to, to + 1} {
		if p >= 1 && p < len(r) && (p <= from || p >= to) && rapid.SampledFrom([]bool{false, false, true}).Draw(t, "cut") {
			op.Cuts = append(op.Cuts, p)
		}
	}
	op.Cuts = normCuts(op.Cuts, len(r))
	op.Answer = rapid.SampledFrom([]string{"ok", "ok", "ok", "defer", "fail", "ok", "defer"}).Draw(t, "answer")
	if op.Answer == "fail" {
		op.Err = rapid.SampledFrom([]uint32{10061, 10060, 10065, 10051, 0, 5}).Draw(t, "err")
	}
	return op
}

func genB(t *rapid.T) CaseB {
	var c CaseB
	n := rapid.IntRange(2, 12).Draw(t, "nops")
	big := false
	c.Ops = append(c.Ops, genConnect(t))
	for i := 1; i < n; i++ {
		kind := rapid.SampledFrom([]string{
			"connect", "c2a", "a2c", "c2a", "a2c", "close", "connect", "answer", "close", "kill", "add", "clear", "list", "pf", "answer", "c2a", "pf", "staged", "staged", "staged",
		}).Draw(t, "op")
		op := OpB{Op: kind, Sel: rapid.IntRange(0, 7).Draw(t, "sel")}
		switch kind {
		case "connect":
			sel := op.Sel
			op = genConnect(t)
			op.Sel = sel
		case "staged":
			sel := op.Sel
			op = genConnect(t)
			op.Op, op.Sel = "staged", sel
			op.Cuts = nil
			if op.Answer == "defer" {
				op.Answer = "ok"
			}
			op.Stage = rapid.IntRange(0, 5).Draw(t, "stage")
			op.Cmd = rapid.SampledFrom([]string{"kill", "clear", "readd", "kill", "list", "dup-add", "kill-other", "clear"}).Draw(t, "cmd")
			op.Go = rapid.SampledFrom([]bool{true, true, true, false}).Draw(t, "go_on")
		case "answer":
			op.Answer = rapid.SampledFrom([]string{"ok", "ok", "fail"}).Draw(t, "answer")
			if op.Answer == "fail" {
				op.Err = rapid.SampledFrom([]uint32{10061, 10060, 10065, 10051, 0, 5}).Draw(t, "err")
			}
		case "c2a", "a2c":
			op.Chunks = genChunks(t, &big)
			if kind == "c2a" && rapid.SampledFrom([]bool{true, false, true}).Draw(t, "sleep") {
				op.Sleep = true
				op.Chunks = genSleepChunks(t)
			}
		case "close":
			op.By = rapid.SampledFrom([]string{"agent", "client-rst", "client-fin", "agent", "client-rst"}).Draw(t, "by")
		case "add":
			op.Dup = rapid.SampledFrom([]bool{false, false, true}).Draw(t, "dup")
		case "pf":
			op.FwdID = rapid.OneOf(rapid.SampledFrom([]uint32{1, 0x7fffffff, 0x80000000, 0xffffffff}), rapid.Uint32Min(1)).Draw(t, "fwd_id")
			k := rapid.IntRange(0, 4).Draw(t, "nchunks")
			for j := 0; j < k; j++ {
				op.Chunks = append(op.Chunks, genChunk(t, &big))
			}
			op.TargetC = rapid.Bool().Draw(t, "target_closes")
			if op.TargetC {
				op.Reply = genChunk(t, &big)
			}
			op.DupOpen = rapid.SampledFrom([]bool{false, false, true}).Draw(t, "dup_open")
			op.Twin = op.TargetC && rapid.Bool().Draw(t, "twin")
		}
		c.Ops = append(c.Ops, op)
	}
	c.Cfg = genCfg(t)
	return c
}

// ---------------------------------------------------------------------------- interpreter

type bcli struct {
	*cli
	proxy      string
	atyp       byte
	daddr      []byte
	dport      uint16
	answered   bool
	closedKind string // how the client closed: fin rst
	dead       bool   // no further steps apply (removed everywhere, as far as the history goes)
}

type runB struct {
	f       *fixture
	clients []*bcli
	r       verdicts
	// sockets the agent itself ended (failed connect, CLOSE callback): it needs no close task for them
	agentEnded map[uint32]bool
}

func (x *runB) ended(id uint32) {
	if x.agentEnded == nil {
		x.agentEnded = map[uint32]bool{}
	}
	x.agentEnded[id] = true
}

// ledger: over the whole history, every socket the agent was told to open (CONNECT task) is
// still registered, or the agent ended it itself, or a CLOSE task for it follows in the queue.
func (x *runB) ledger() *core.Violation {
	for i, t := range x.f.log {
		if t.Sub != scConnect || x.agentEnded[t.ID] || x.f.hasSocket(t.ID) {
			continue
		}
		closed := false
		for _, u := range x.f.log[i+1:] {
			if u.Sub == scClose && u.ID == t.ID {
				closed = true
				break
			}
		}
		if !closed {
			return core.V("b|ledger|connect-task-without-close", "the agent was handed a connect task for socket %08x; that socket is not registered and no close task for it was ever queued", t.ID)
		}
	}
	return nil
}

func (x *runB) clis() []*cli {
	out := make([]*cli, 0, len(x.clients))
	for _, c := range x.clients {
		out = append(out, c.cli)
	}
	return out
}

func (x *runB) pick(sel int, ok func(*bcli) bool) *bcli {
	var cand []*bcli
	for _, c := range x.clients {
		if ok(c) {
			cand = append(cand, c)
		}
	}
	if len(cand) == 0 {
		return nil
	}
	return cand[sel%len(cand)]
}

// settle brings the fixture to a quiescent point and returns the tasks queued since the last one.
func (x *runB) settle() ([]sockTask, bool, *core.Violation) {
	if !x.f.quiesce(x.clis()) {
		return nil, false, nil
	}
	t, v := x.f.takeTasks()
	return t, true, v
}

// retire repairs the fixture after a known finding left a socket registered.
func (x *runB) retire(c *bcli) {
	c.dead = true
	if c.conn != nil {
		c.closeRST()
	}
	if c.hasID {
		x.f.a.SocksClientClose(int32(c.id))
	}
	c.reader = "gone"
}

func hasClose(tasks []sockTask, id uint32) bool {
	for _, t := range tasks {
		if t.Sub == scClose && t.ID == id {
			return true
		}
	}
	return false
}

func checkB(c CaseB) (v *core.Violation) {
	defer slowLog("b", c)()
	if censusSane() != "" {
		return skip("goroutine-model-mismatch")
	}
	x := &runB{f: newFixtureCfg(c.Cfg)}
	defer func() { x.f.cleanup(x.clis()) }()
	if pv, sk := x.f.preSteps("b"); sk != "" {
		return skip(sk)
	} else if pv != nil {
		return pv
	}
	for i, op := range c.Ops {
		var sv *core.Violation
		var skipped string
		t0 := time.Now()
		switch op.Op {
		case "connect":
			sv, skipped = x.opConnect(op)
		case "answer":
			if cl := x.pick(op.Sel, func(c *bcli) bool { return c.hasID && !c.answered && !c.dead }); cl != nil {
				sv, skipped = x.answer(cl, op.Answer != "fail", op.Err)
			}
		case "staged":
			sv, skipped = x.opStaged(op)
		case "c2a":
			sv, skipped = x.opC2A(op)
		case "a2c":
			sv, skipped = x.opA2C(op)
		case "close":
			sv, skipped = x.opClose(op)
		case "kill":
			if len(x.f.live) > 0 {
				sv, skipped = x.opKill([]string{x.f.live[op.Sel%len(x.f.live)]}, false)
			}
		case "clear":
			sv, skipped = x.opKill(append([]string(nil), x.f.live...), true)
		case "add":
			sv, skipped = x.opAdd(op)
		case "list":
			sv = x.opList()
		case "pf":
			sv, skipped = x.opPF(op)
		}
		opTime(op.Op, t0)
		if skipped != "" {
			return skip(skipped)
		}
		if sv != nil {
			sv.Msg = fmt.Sprintf("step %d (%s): %s", i, op.Op, sv.Msg)
		}
		if x.r.stop(sv) {
			return x.r.result()
		}
	}
	// the end of every history: the operator kills what is left; nothing stays registered
	if len(x.f.live) > 0 {
		sv, skipped := x.opKill(append([]string(nil), x.f.live...), false)
		if skipped != "" {
			return skip(skipped)
		}
		if x.r.stop(sv) {
			return x.r.result()
		}
	}
	if x.r.result() == nil {
		if v := x.ledger(); v != nil {
			return v
		}
		if ids := x.f.socketIDs(); len(ids) != 0 {
			return core.V("b|end|socket-table-not-empty", "after every proxy was killed the socket table still holds %x", ids)
		}
		if ids := x.f.fwdIDs(); len(ids) != 0 {
			return core.V("b|end|forward-table-not-empty", "after every forward was removed the forward table still holds %x", ids)
		}
		if p := x.f.proxyPorts(); len(p) != 0 {
			return core.V("b|end|proxy-table-not-empty", "after every proxy was killed the proxy table still holds %v", p)
		}
		if c.Cfg.NonDefault {
			if v := x.f.postSteps("b"); v != nil {
				return v
			}
		}
	}
	return x.r.result()
}

func (x *runB) opAdd(op OpB) (*core.Violation, string) {
	if op.Dup && len(x.f.live) > 0 {
		port := x.f.live[op.Sel%len(x.f.live)]
		before := x.f.proxyPorts()
		_, err := x.f.operator("socks add", port)
		after := x.f.proxyPorts()
		if err == nil || strings.Join(before, ",") != strings.Join(after, ",") {
			return core.V("b|add|duplicate-port-accepted", "socks add %s while a proxy on that port exists: err=%v, table %v -> %v", port, err, before, after), ""
		}
		return x.f.mutexesFree("b|add"), ""
	}
	if len(x.f.live) >= 3 {
		return nil, ""
	}
	if _, ok := x.f.startProxy(); !ok {
		return nil, "no-port"
	}
	return x.f.mutexesFree("b|add"), ""
}

func (x *runB) opList() *core.Violation {
	msg, err := x.f.operator("socks list", "")
	if err != nil {
		return core.V("b|list|error", "socks list: %v", err)
	}
	var got []string
	for i, ln := range strings.Split(msg["Output"], "\n") {
		ln = strings.TrimSpace(ln)
		if i < 3 || ln == "" {
			continue
		}
		got = append(got, ln)
	}
	want := append([]string(nil), x.f.live...)
	sort.Strings(got)
	sort.Strings(want)
	if strings.Join(got, ",") != strings.Join(want, ",") {
		return core.V("b|list|ports-differ", "socks list shows %v, live proxies are %v", got, want)
	}
	return x.f.mutexesFree("b|list")
}

func (x *runB) opConnect(op OpB) (*core.Violation, string) {
	if len(x.f.live) == 0 {
		if _, ok := x.f.startProxy(); !ok {
			return nil, "no-port"
		}
	}
	port := x.f.live[op.Sel%len(x.f.live)]
	c0, err := dialProxyBuf(port, op.RcvBuf)
	if err != nil {
		return core.V("b|connect|dial-refused", "cannot connect to live proxy %s: %v", port, err), ""
	}
	cl := &bcli{cli: c0, proxy: port, atyp: op.Atyp, daddr: op.Addr, dport: op.Port}
	x.clients = append(x.clients, cl)
	if err := cl.send(greeting(5, []byte{0}), nil); err != nil {
		return nil, "client-write-failed"
	}
	rep, err := cl.recv(2, true)
	if err != nil || rep[0] != 5 || rep[1] != 0 {
		cl.dead = true
		return core.V("b|connect|method-reply", "greeting 05 01 00 answered with % x (%v)", rep, err), ""
	}
	r := request(5, 1, 0, op.Atyp, op.Addr, op.Port)
	if err := cl.send(r, op.Cuts); err != nil {
		return nil, "client-write-failed"
	}
	cl.reader = "spin"
	x.relayMissing(cl)
	tasks, ok, v := x.settle()
	if v != nil {
		return v, ""
	}
	if !ok {
		return nil, "no-quiescence-after-request"
	}
	if len(tasks) != 1 || tasks[0].Sub != scConnect {
		cl.reader, cl.dead = "", true
		if len(tasks) == 0 {
			return core.V("b|connect|no-connect-task", "CONNECT request % x written as %v: no connect task", r[:min(len(r), 24)], pieces(len(r), op.Cuts)), ""
		}
		return core.V("b|connect|unexpected-tasks", "after one CONNECT request the queue holds %d tasks, first sub-command %#x for socket %08x", len(tasks), tasks[0].Sub, tasks[0].ID), ""
	}
	tk := tasks[0]
	if tk.Atyp != op.Atyp || !bytes.Equal(tk.Addr, op.Addr) || tk.Port != op.Port {
		cl.dead = true
		return core.V(fmt.Sprintf("b|connect|task-differs|atyp=%d", op.Atyp), "client asked for atyp=%d addr=%s port=%d; the connect task carries atyp=%d addr=%s port=%d", op.Atyp, hexs(op.Addr), op.Port, tk.Atyp, hexs(tk.Addr), tk.Port), ""
	}
	for _, o := range x.clients {
		if o != cl && o.hasID && o.id == tk.ID && !o.dead {
			return core.V("b|connect|socket-id-reused", "new socket got id %08x which a live socket already has", tk.ID), ""
		}
	}
	cl.id, cl.hasID = tk.ID, true
	n := 0
	for _, id := range x.f.socketIDs() {
		if id == tk.ID {
			n++
		}
	}
	if n != 1 {
		return core.V("b|connect|table", "socket id %08x of the connect task occurs %d times in the socket table", tk.ID, n), ""
	}
	if op.Answer == "defer" {
		return nil, ""
	}
	return x.answer(cl, op.Answer == "ok", op.Err)
}

// relayMissing: the client has sent a complete CONNECT request.  The connection handler starts
// the relay goroutine of the socket before it returns, so once no handler is running a relay
// goroutine that is not there will never be there: the history's expectation is corrected (the
// oracle of the step then finds that nothing was queued) instead of waiting waitBound for it.
func (x *runB) relayMissing(cl *bcli) bool {
	if !waitFor(waitBound, func() bool { return count().handlers == parkedHandlers }) {
		return false
	}
	if want, _ := x.expectReaders(); count().readers < want {
		cl.reader = ""
		return true
	}
	return false
}

// opStaged: one client walks through the protocol and the operator issues a command at a
// chosen stage of it; the client then goes on with its next step (or resets).  What HEAD does,
// and what is expected: a command that removes the client's proxy before the request has been
// read leaves the handler alive; the greeting is still answered (or the stream simply ends);
// when the request arrives the socket is not kept: the stream ends without a success reply,
// nothing stays registered, and the agent is either handed nothing or a connect task that is
// followed by a close task.  From stage 4 on the socket is registered and kill/clear drop it
// with a close task (the oracle of the kill step).  Commands that do not remove the client's
// proxy (list, duplicate add, kill of another proxy) change nothing for the client.
func (x *runB) opStaged(op OpB) (*core.Violation, string) {
	if len(x.f.live) == 0 {
		if _, ok := x.f.startProxy(); !ok {
			return nil, "no-port"
		}
	}
	port := x.f.live[op.Sel%len(x.f.live)]
	tag := fmt.Sprintf("b|staged|stage=%d|cmd=%s", op.Stage, op.Cmd)
	c0, err := dialProxy(port)
	if err != nil {
		return core.V("b|connect|dial-refused", "cannot connect to live proxy %s: %v", port, err), ""
	}
	cl := &bcli{cli: c0, proxy: port, atyp: op.Atyp, daddr: op.Addr, dport: op.Port}
	x.clients = append(x.clients, cl)
	if !waitFor(waitBound, func() bool { return count().handlers == 1 }) {
		return nil, "connection-not-accepted"
	}
	parkedHandlers = 1
	defer func() { parkedHandlers = 0 }()
	gone := false // the client's proxy has been removed
	command := func() (*core.Violation, string) {
		switch op.Cmd {
		case "kill", "readd":
			v, sk := x.opKill([]string{port}, false)
			gone = true
			if v == nil && sk == "" && op.Cmd == "readd" {
				if _, ok := x.f.startProxyAt(port); !ok {
					return nil, "no-port"
				}
			}
			return v, sk
		case "clear":
			gone = true
			return x.opKill(append([]string(nil), x.f.live...), true)
		case "dup-add":
			return x.opAdd(OpB{Dup: true, Sel: op.Sel})
		case "kill-other":
			for _, p := range x.f.live {
				if p != port {
					return x.opKill([]string{p}, false)
				}
			}
		}
		return x.opList(), ""
	}
	// abandon: the client resets; the handler (if still there) ends; nothing may be left behind
	finish := func(what string) (*core.Violation, string) {
		if !cl.closed {
			cl.closeRST()
		}
		cl.dead = true
		parkedHandlers = 0
		if !waitFor(waitBound, func() bool { return count().handlers == 0 }) {
			return nil, "handler-still-running"
		}
		if cl.hasID {
			return nil, ""
		}
		tasks, ok, v := x.settle()
		if v != nil || !ok {
			return v, "no-quiescence-after-staged-client"
		}
		for i, t := range tasks {
			if t.Sub == scConnect && !x.f.hasSocket(t.ID) && !hasClose(tasks[i+1:], t.ID) {
				return core.V(tag+"|connect-task-for-dropped-socket", "%s: the agent is handed a connect task for socket %08x, which is not registered, and no close task follows", what, t.ID), ""
			}
			if t.Sub == scWrite {
				return core.V(tag+"|spurious-write", "%s: write task queued", what), ""
			}
		}
		if addr := cl.addr; addr != "" {
			if _, id, there := x.f.serverConn(addr); there {
				x.f.a.SocksClientClose(int32(id))
				return core.V(tag+"|socket-stays", "%s: socket %08x stays registered", what, id), ""
			}
		}
		return nil, ""
	}
	at := func(stage int) (*core.Violation, string, bool) {
		if op.Stage != stage {
			return nil, "", false
		}
		v, sk := command()
		if v != nil || sk != "" {
			return v, sk, true
		}
		if !op.Go {
			v, sk = finish(fmt.Sprintf("command at stage %d, then the client resets", stage))
			return v, sk, true
		}
		return nil, "", false
	}
	// a client whose proxy is gone may find its stream ended at any later point
	ended := func(err error) bool { return gone && err != nil }

	if v, sk, stop := at(0); stop {
		return v, sk
	}
	if err := cl.send(greeting(5, []byte{0}), nil); err != nil {
		if ended(err) {
			return finish("greeting after the proxy was removed")
		}
		return nil, "client-write-failed"
	}
	if v, sk, stop := at(1); stop {
		return v, sk
	}
	rep, err := cl.recv(2, true)
	if err != nil || rep[0] != 5 || rep[1] != 0 {
		if ended(err) {
			return finish("method reply after the proxy was removed")
		}
		cl.dead = true
		return core.V(tag+"|method-reply", "greeting 05 01 00 answered with % x (%v)", rep, err), ""
	}
	if v, sk, stop := at(2); stop {
		return v, sk
	}
	r := request(5, 1, 0, op.Atyp, op.Addr, op.Port)
	half := len(r) / 2
	if err := cl.send(r[:half], nil); err != nil && !ended(err) {
		return nil, "client-write-failed"
	}
	time.Sleep(segPause)
	if v, sk, stop := at(3); stop {
		return v, sk
	}
	if _, err := cl.conn.Write(r[half:]); err != nil && !ended(err) {
		return nil, "client-write-failed"
	}
	cl.written += uint64(len(r) - half)
	if gone {
		// the request reaches a handler whose proxy no longer exists
		if extra, closed := cl.expectEOF(); !closed || (len(extra) >= 2 && extra[1] == 0) {
			return core.V(tag+"|client-not-dropped", "the proxy was removed at stage %d; after the client's request it read % x, stream ended=%v", op.Stage, extra, closed), ""
		}
		return finish(fmt.Sprintf("request sent after the proxy was removed at stage %d", op.Stage))
	}
	// the proxy is still there: the connect goes through as in the connect step
	parkedHandlers = 0
	cl.reader = "spin"
	x.relayMissing(cl)
	tasks, ok, v := x.settle()
	if v != nil || !ok {
		return v, "no-quiescence-after-request"
	}
	if len(tasks) != 1 || tasks[0].Sub != scConnect || tasks[0].Atyp != op.Atyp || !bytes.Equal(tasks[0].Addr, op.Addr) || tasks[0].Port != op.Port {
		cl.reader, cl.dead = "", true
		return core.V(tag+"|connect-task", "command %s at stage %d left the client's proxy alone, but the request produced %d tasks (want one connect task for the address sent)", op.Cmd, op.Stage, len(tasks)), ""
	}
	cl.id, cl.hasID = tasks[0].ID, true
	if !x.f.hasSocket(cl.id) {
		return core.V(tag+"|table", "socket %08x of the connect task is not registered", cl.id), ""
	}
	if op.Stage == 4 {
		v, sk := command()
		if v != nil || sk != "" || cl.dead {
			return v, sk
		}
		if !op.Go {
			cl.closeRST()
			cl.closedKind = "rst"
			// judged when the agent answers (answer step), as for any client that closes early
			return nil, ""
		}
	}
	if v, sk := x.answer(cl, op.Answer != "fail", op.Err); v != nil || sk != "" || cl.dead {
		return v, sk
	}
	if op.Stage == 5 {
		if v, sk := command(); v != nil || sk != "" {
			return v, sk
		}
	}
	return nil, ""
}

// connectedFlag reads SocksClient.Connected of a socket after the dispatching call has
// returned (the only writer is that call).
func (x *runB) connectedFlag(id uint32) (present, connected bool) {
	x.f.a.SocksCliMtx.Lock()
	defer x.f.a.SocksCliMtx.Unlock()
	for _, c := range x.f.a.SocksCli {
		if c != nil && uint32(c.SocketID) == id {
			return true, c.Connected
		}
	}
	return false, false
}

func (x *runB) answer(cl *bcli, ok bool, code uint32) (*core.Violation, string) {
	cl.answered = true
	x.f.dispatch(cbConnect(cl.id, ok, code))
	rep := byte(0)
	if !ok {
		rep = repFor(code)
	}
	if !cl.closed {
		want := expectedReply(rep, cl.atyp, cl.daddr, cl.dport)
		got, err := cl.recv(len(want), false)
		if err != nil || !bytes.Equal(got, want) {
			x.retire(cl)
			return core.V(fmt.Sprintf("b|reply|ok=%v|atyp=%d", ok, cl.atyp), "agent answered ok=%v code=%d: the client read % x (%v), want % x", ok, code, got, err, want), ""
		}
	}
	if !ok {
		x.ended(cl.id)
		cl.reader, cl.dead = "gone", true
		if !cl.closed {
			if extra, closed := cl.expectEOF(); !closed || len(extra) != 0 {
				return core.V("b|reply|failure|connection-not-closed", "after the failure reply the client read % x, closed=%v", extra, closed), ""
			}
		}
		if x.f.hasSocket(cl.id) {
			x.retire(cl)
			return core.V("b|reply|failure|socket-stays", "socket %08x still registered after the agent reported a failed connect", cl.id), ""
		}
		if !waitReaders(x.expectReaders()) {
			return nil, "reader-did-not-end-after-failure"
		}
		return nil, ""
	}
	if !cl.closed {
		cl.connected, cl.reader = true, "read"
		_, okq, v := x.settle()
		if v != nil || !okq {
			return v, "no-quiescence-after-connect"
		}
		return nil, ""
	}
	// the client had closed before the agent answered: "closing either side removes the socket everywhere"
	kind := cl.closedKind
	present, connected := x.connectedFlag(cl.id)
	if present && !connected {
		// nothing will ever look at this socket again: its relay goroutine only starts reading once Connected is set
		x.retire(cl)
		if !waitReaders(x.expectReaders()) {
			return nil, "reader-did-not-end"
		}
		return core.V("b|close|client-"+kind+"-before-reply|socket-stays|never-connected", "the client closed (%s) before the agent answered; the success reply could not be written, the socket %08x stays registered, unconnected, with a spinning relay goroutine", kind, cl.id), ""
	}
	cl.reader, cl.dead = "gone", true
	if !waitReaders(x.expectReaders()) {
		return nil, "reader-did-not-end"
	}
	tasks, v := x.f.takeTasks()
	if v != nil {
		return v, ""
	}
	if x.f.hasSocket(cl.id) {
		x.retire(cl)
		return core.V("b|close|client-"+kind+"-before-reply|socket-stays", "the client closed (%s) before the agent answered ok; its relay goroutine has ended but socket %08x is still registered", kind, cl.id), ""
	}
	if !hasClose(tasks, cl.id) {
		return core.V("b|close|client-"+kind+"-before-reply|no-close-task", "the client closed (%s) before the agent answered ok; the socket was removed but no close task tells the agent", kind), ""
	}
	return nil, ""
}

func (x *runB) expectReaders() (int, int) {
	spin, read := 0, 0
	for _, c := range x.clients {
		switch c.reader {
		case "spin":
			spin++
		case "read":
			read++
		}
	}
	return spin + read, read
}

func usable(c *bcli) bool { return c.connected && !c.closed && !c.dead }

func (x *runB) opC2A(op OpB) (*core.Violation, string) {
	cl := x.pick(op.Sel, usable)
	if cl == nil {
		return nil, ""
	}
	return x.c2aOn(cl, op.Chunks, op.Sleep, "b")
}

// c2aOn: the client writes the chunks; the write tasks are fetched afterwards, the way the
// agent gets them (GetQueuedJobs + BuildPayloadMessage + the Demon's reader).  With sleep
// every chunk is first awaited into the queue (relay parked again, all bytes consumed)
// before the next one is written, so each chunk sits in the queue as its own task while
// the later ones are being read - the situation of an agent that checks in rarely.
func (x *runB) c2aOn(cl *bcli, chunks [][]byte, sleep bool, sub string) (*core.Violation, string) {
	want := bytes.Join(chunks, nil)
	if sleep {
		for _, ch := range chunks {
			if err := cl.sendChunks([][]byte{ch}); err != nil {
				return nil, "client-write-failed"
			}
			if !x.f.quiesce(x.clis()) {
				return nil, "no-quiescence-after-client-data"
			}
		}
	} else if err := cl.sendChunks(chunks); err != nil {
		return nil, "client-write-failed"
	}
	tasks, ok, v := x.settle()
	if v != nil {
		return v, ""
	}
	if !ok {
		return nil, "no-quiescence-after-client-data"
	}
	mode := "c2a"
	if sleep {
		mode = "c2a-deferred-fetch"
	}
	var got []byte
	for _, t := range tasks {
		if t.Sub != scWrite || t.ID != cl.id {
			return core.V(fmt.Sprintf("%s|%s|foreign-task|sub=%#x", sub, mode, t.Sub), "while only socket %08x carried data a task %#x for socket %08x was queued", cl.id, t.Sub, t.ID), ""
		}
		if len(t.Data) == 0 {
			return core.V(sub+"|"+mode+"|empty-write-task", "a write task without data was queued for socket %08x", cl.id), ""
		}
		got = append(got, t.Data...)
	}
	if !bytes.Equal(got, want) {
		return core.V(sub+"|"+mode+"|bytes-differ|"+diffClass(got, want), "client wrote %d bytes in pieces %v (each awaited into the queue before the next: %v); fetched afterwards, the %d write tasks of socket %08x carry %d bytes; first difference at offset %d", len(want), lens(chunks), sleep, len(tasks), cl.id, len(got), firstDiff(got, want)), ""
	}
	return nil, ""
}

func diffClass(got, want []byte) string {
	switch {
	case len(got) < len(want) && bytes.Equal(got, want[:len(got)]):
		return "tail-lost"
	case len(got) < len(want):
		return "bytes-lost"
	case len(got) > len(want):
		return "bytes-added"
	}
	return "bytes-changed"
}

func lens(ch [][]byte) []int {
	var out []int
	for _, c := range ch {
		out = append(out, len(c))
	}
	return out
}

func (x *runB) opA2C(op OpB) (*core.Violation, string) {
	cl := x.pick(op.Sel, usable)
	if cl == nil {
		return nil, ""
	}
	return x.a2cOn(cl, op.Chunks, "b")
}

func (x *runB) a2cOn(cl *bcli, chunks [][]byte, sub string) (*core.Violation, string) {
	op := OpB{Chunks: chunks}
	want := bytes.Join(op.Chunks, nil)
	type res struct {
		b   []byte
		err error
	}
	done := make(chan res, 1)
	go func() {
		b, err := cl.recv(len(want), false)
		done <- res{b, err}
	}()
	for _, ch := range op.Chunks {
		x.f.dispatch(cbRead(cl.id, typeProxy, ch))
	}
	r := <-done
	if r.err != nil || !bytes.Equal(r.b, want) {
		return core.V(sub+"|a2c|bytes-differ|"+diffClass(r.b, want), "agent returned %d bytes in READ callbacks %v; the client read %d bytes (%v); first difference at offset %d", len(want), lens(op.Chunks), len(r.b), r.err, firstDiff(r.b, want)), ""
	}
	if p := cl.pending(); len(p) != 0 {
		return core.V(sub+"|a2c|bytes-differ|bytes-added", "the client received %d bytes more than the agent returned", len(p)), ""
	}
	return nil, ""
}

func (x *runB) opClose(op OpB) (*core.Violation, string) {
	switch op.By {
	case "agent":
		cl := x.pick(op.Sel, usable)
		if cl == nil {
			return nil, ""
		}
		x.f.dispatch(cbClose(cl.id))
		x.ended(cl.id)
		cl.reader, cl.dead = "gone", true
		if extra, closed := cl.expectEOF(); !closed || len(extra) != 0 {
			x.retire(cl)
			return core.V("b|close|agent|client-no-eof", "after the agent's CLOSE callback for socket %08x the client read % x, closed=%v", cl.id, extra, closed), ""
		}
		if x.f.hasSocket(cl.id) {
			x.retire(cl)
			return core.V("b|close|agent|socket-stays", "socket %08x still registered after the agent's CLOSE callback", cl.id), ""
		}
		tasks, ok, v := x.settle()
		if v != nil || !ok {
			return v, "no-quiescence-after-agent-close"
		}
		for _, t := range tasks {
			if t.Sub != scClose {
				return core.V("b|close|agent|spurious-task", "task %#x for socket %08x queued by the agent's CLOSE callback", t.Sub, t.ID), ""
			}
		}
		return nil, ""
	case "client-fin", "client-rst":
		kind := strings.TrimPrefix(op.By, "client-")
		cl := x.pick(op.Sel, func(c *bcli) bool { return c.hasID && !c.closed && !c.dead })
		if cl == nil {
			return nil, ""
		}
		if kind == "fin" {
			cl.closeFIN()
		} else {
			cl.closeRST()
		}
		cl.closedKind = kind
		if !cl.connected {
			// the agent has not answered yet; judged when it does (answer step or kill)
			return nil, ""
		}
		cl.reader, cl.dead = "gone", true
		tasks, ok, v := x.settle()
		if v != nil || !ok {
			return v, "no-quiescence-after-client-close"
		}
		if x.f.hasSocket(cl.id) {
			x.retire(cl)
			return core.V("b|close|client-"+kind+"|socket-stays", "the client closed (%s); its relay goroutine has ended but socket %08x is still registered (and %d close tasks were queued)", kind, cl.id, len(tasks)), ""
		}
		if !hasClose(tasks, cl.id) {
			return core.V("b|close|client-"+kind+"|no-close-task", "the client closed (%s); socket %08x was removed but no close task tells the agent", kind, cl.id), ""
		}
		for _, t := range tasks {
			if t.Sub == scWrite {
				return core.V("b|close|client-"+kind+"|spurious-write", "write task with %d bytes queued although the client wrote nothing before closing", len(t.Data)), ""
			}
		}
	}
	return nil, ""
}

// opKill: `socks kill <port>` for each port, or one `socks clear` for all of them.
func (x *runB) opKill(ports []string, clear bool) (*core.Violation, string) {
	if len(ports) == 0 && !clear {
		return nil, ""
	}
	sub := "b|kill"
	if clear {
		sub = "b|clear"
	}
	inSet := func(p string) bool {
		for _, q := range ports {
			if p == q {
				return true
			}
		}
		return false
	}
	var victims []*bcli
	for _, c := range x.clients {
		if c.hasID && !c.dead && inSet(c.proxy) {
			victims = append(victims, c)
		}
	}
	before := count().starts
	var msgs []map[string]string
	pv := core.Guard(func() *core.Violation {
		if clear {
			m, err := x.f.operator("socks clear", "")
			if err != nil {
				return core.V(sub+"|error", "socks clear: %v", err)
			}
			msgs = append(msgs, m)
			return nil
		}
		for _, p := range ports {
			m, err := x.f.operator("socks kill", p)
			if err != nil {
				return core.V(sub+"|error", "socks kill %s: %v", p, err)
			}
			if m["Message"] != "Closed socks proxy "+p {
				return core.V(sub+"|not-found", "socks kill %s answered %q", p, m["Message"])
			}
		}
		return nil
	})
	if pv != nil && strings.HasPrefix(pv.Sig, "panic|") {
		pv.Sig = fmt.Sprintf("%s|socks-clear|proxies=%s", pv.Sig, nClass(len(ports)))
		// repair: release what the panicking command left locked, kill the rest one by one
		unstickNow(&x.f.a.SocksSvrMtx)
		for _, p := range x.f.proxyPorts() {
			x.f.operator("socks kill", p)
		}
		x.f.live = nil
		for _, c := range victims {
			x.retire(c)
		}
		if !waitFor(waitBound, func() bool { n := count(); return n.starts == 0 }) || !waitReaders(x.expectReaders()) {
			return pv, "no-quiescence-after-clear-panic"
		}
		x.f.takeTasks()
		return pv, ""
	}
	for _, p := range ports {
		x.f.forget(p)
	}
	if pv != nil {
		return pv, ""
	}
	if clear {
		x.f.live = nil
	}
	if v := x.f.mutexesFree(sub); v != nil {
		unstick(&x.f.a.SocksSvrMtx)
		unstick(&x.f.a.SocksCliMtx)
		return v, ""
	}
	left := x.f.proxyPorts()
	for _, p := range left {
		if inSet(p) || clear {
			for _, q := range left {
				x.f.operator("socks kill", q)
			}
			return core.V(sub+"|proxy-stays|proxies="+nClass(len(ports)), "proxy table after the command: %v (asked to remove %v)", left, ports), ""
		}
	}
	if !waitFor(waitBound, func() bool { return count().starts <= before-len(ports) }) {
		return core.V(sub+"|listener-open", "%d accept loops were running, %d proxies removed, %d accept loops still running", before, len(ports), count().starts), ""
	}
	for _, c := range victims {
		wasOpen := !c.closed
		c.reader, c.dead = "gone", true
		if x.f.hasSocket(c.id) {
			x.retire(c)
			return core.V(sub+"|socket-stays", "socket %08x of the removed proxy %s is still registered", c.id, c.proxy), ""
		}
		if wasOpen {
			if extra, closed := c.expectEOF(); !closed || len(extra) != 0 {
				return core.V(sub+"|client-no-eof", "client of the removed proxy %s read % x, closed=%v", c.proxy, extra, closed), ""
			}
		}
	}
	tasks, ok, v := x.settle()
	if v != nil || !ok {
		return v, "no-quiescence-after-kill"
	}
	for _, c := range victims {
		if !hasClose(tasks, c.id) {
			return core.V(sub+"|no-close-task", "socket %08x of the removed proxy was dropped without a close task for the agent", c.id), ""
		}
	}
	for _, t := range tasks {
		if t.Sub != scClose {
			return core.V(sub+"|spurious-task", "task %#x for socket %08x queued by the command", t.Sub, t.ID), ""
		}
	}
	return nil, ""
}

func nClass(n int) string {
	switch {
	case n <= 1:
		return fmt.Sprint(n)
	}
	return ">=2"
}

// queueLen reads the length word of a.JobQueue with one atomic load (memory safe whatever a
// concurrent append is doing).
func (x *runB) queueLen() int {
	p := (*[3]uintptr)(unsafe.Pointer(&x.f.a.JobQueue))
	return int(atomic.LoadUintptr(&p[1]))
}

// opPF: one reverse-port-forward session.  The Demon announces a client socket (OPEN), sends
// what that client wrote (READ, type CLIENT); the teamserver dials the forward target on the
// first data and relays; what the target answers comes back as write tasks; REMOVE ends it.
func (x *runB) opPF(op OpB) (*core.Violation, string) {
	held := map[uint32][]byte{}
	if op.Twin && op.TargetC && len(op.Reply) > 0 {
		// the agent sleeps over two forwards: the first one's write task is still queued while
		// the second forward's answer (other id, other length, other content) is read and queued
		if v, skipped := x.pfSession(op, held, false); v != nil || skipped != "" {
			return v, skipped
		}
		op2 := op
		op2.DupOpen = false
		op2.FwdID = op.FwdID ^ 0x5a5a
		if op2.FwdID == 0 {
			op2.FwdID = 0x5a5b
		}
		op2.Reply = nil
		for i := len(op.Reply) - 1; i >= 0; i-- {
			op2.Reply = append(op2.Reply, ^op.Reply[i])
		}
		op2.Reply = append(op2.Reply, 0xa5, 0x5a, byte(len(op.Reply)))
		if len(op.Reply) > 8 {
			op2.Reply = op2.Reply[:len(op.Reply)/2] // shorter than the first; otherwise longer
		}
		return x.pfSession(op2, held, true)
	}
	return x.pfSession(op, held, true)
}

// pfSession runs one forward; with fetch=false its write task is left in the queue and the
// expectation is parked in held for the session that fetches.
func (x *runB) pfSession(op OpB, held map[uint32][]byte, fetch bool) (*core.Violation, string) {
	f := x.f
	id := op.FwdID
	if id == 0 {
		id = 1
	}
	ln, err := core.ListenLoopback("tcp4")
	if err != nil {
		return nil, "no-port"
	}
	defer ln.Close()
	tport := uint32(ln.Addr().(*net.TCPAddr).Port)
	const loop = 0x0100007F // common.Int32ToIpString prints the low byte first: 127.0.0.1
	lclPort := uint32(4444)
	open := cbOpen(id, loop, lclPort, loop, tport)
	remove := cbRemove(id, typeClient, loop, lclPort, loop, tport)
	f.dispatch(open)
	if op.DupOpen {
		f.dispatch(open)
	}
	if ids := f.fwdIDs(); len(ids) != 1 || uint32(ids[0]) != id {
		f.dispatch(remove)
		f.dispatch(remove)
		return core.V("b|pf|open|table", "after the OPEN callback for forward %08x the forward table holds %x", id, ids), ""
	}
	var target net.Conn
	defer func() {
		if target != nil {
			target.Close()
		}
	}()
	sent := 0
	for _, ch := range op.Chunks {
		// the callback writes the chunk synchronously; read at the same time so that a chunk larger
		// than the socket buffers cannot block the callback for ever
		dispatched := make(chan struct{})
		go func(ch []byte) { f.dispatch(cbRead(id, typeClient, ch)); close(dispatched) }(ch)
		defer func() { <-dispatched }()
		if target == nil {
			ln.(*net.TCPListener).SetDeadline(time.Now().Add(readBound))
			target, err = ln.Accept()
			if err != nil {
				<-dispatched
				f.dispatch(remove)
				return core.V("b|pf|a2t|target-not-dialled", "READ callback (type client) for forward %08x: the forward target 127.0.0.1:%d was not connected: %v", id, tport, err), ""
			}
		}
		if len(ch) > 0 {
			buf := make([]byte, len(ch))
			target.SetReadDeadline(time.Now().Add(readBound))
			n, err := readFull(target, buf)
			if err != nil || !bytes.Equal(buf[:n], ch) {
				target.Close() // unblocks a callback that is still writing
				target = nil
				<-dispatched
				f.dispatch(remove)
				return core.V("b|pf|a2t|bytes-differ|"+diffClass(buf[:n], ch), "forward %08x: agent sent %d bytes (after %d), the target read %d (%v), first difference at %d", id, len(ch), sent, n, err, firstDiff(buf[:n], ch)), ""
			}
			sent += len(ch)
		}
		<-dispatched
	}
	wantBack := []byte(nil)
	if target != nil && op.TargetC {
		l0 := x.queueLen()
		if len(op.Reply) > 0 {
			target.SetWriteDeadline(time.Now().Add(readBound))
			if _, err := target.Write(op.Reply); err != nil {
				f.dispatch(remove)
				return nil, "target-write-failed"
			}
			wantBack = op.Reply
		}
		target.Close()
		target = nil
		if len(wantBack) > 0 {
			// the forward's reader goroutine appends one task after it saw end of stream; it is past the
			// append once the queue has grown and the goroutine is back inside PortFwdRead
			okw := waitFor(waitBound, func() bool {
				if x.queueLen() <= l0 {
					return false
				}
				n := count()
				return n.pfreaders == 1 && n.pfPastAppend == 1
			})
			if !okw {
				n := count()
				f.dispatch(remove)
				waitFor(waitBound, func() bool { return count().pfreaders == 0 })
				if x.queueLen() <= l0 && n.pfreaders == 1 && n.pfInRead == 0 {
					f.takeTasks()
					return core.V("b|pf|t2a|no-write-task", "forward %08x: the target answered %d bytes and closed; no write task was queued", id, len(wantBack)), ""
				}
				f.takeTasks()
				return nil, "no-quiescence-after-target-close"
			}
		}
	}
	f.dispatch(remove)
	if ids := f.fwdIDs(); len(ids) != 0 {
		for _, i := range ids {
			f.a.PortFwdClose(i)
		}
		return core.V("b|pf|remove|forward-stays", "after the REMOVE callback for forward %08x the forward table holds %x", id, ids), ""
	}
	if !waitFor(waitBound, func() bool { return count().pfreaders == 0 }) {
		return nil, "forward-reader-did-not-end"
	}
	if target != nil {
		// the agent's side ended the session: the target sees end of stream
		target.SetReadDeadline(time.Now().Add(readBound))
		buf := make([]byte, 64)
		n, err := target.Read(buf)
		if n != 0 || err == nil || isTimeout(err) {
			return core.V("b|pf|remove|target-no-eof", "after the REMOVE callback the forward target read %d bytes, err=%v", n, err), ""
		}
	}
	held[id] = wantBack
	if !fetch {
		return nil, ""
	}
	tasks, v := f.takeTasks()
	if v != nil {
		return v, ""
	}
	got := map[uint32][]byte{}
	for _, t := range tasks {
		if _, mine := held[t.ID]; t.Sub != scWrite || !mine {
			return core.V(fmt.Sprintf("b|pf|foreign-task|sub=%#x", t.Sub), "during the session of forward %08x a task %#x for socket %08x was queued", id, t.Sub, t.ID), ""
		}
		got[t.ID] = append(got[t.ID], t.Data...)
	}
	mode := "t2a"
	if len(held) > 1 {
		mode = "t2a-deferred-fetch"
	}
	for fid, want := range held {
		if !bytes.Equal(got[fid], want) {
			return core.V("b|pf|"+mode+"|bytes-differ|"+diffClass(got[fid], want), "forward %08x: the target answered %d bytes and closed; fetched afterwards (%d forwards in one fetch) the write tasks carry %d bytes, first difference at %d", fid, len(want), len(held), len(got[fid]), firstDiff(got[fid], want)), ""
		}
	}
	return f.mutexesFree("b|pf"), ""
}

func isTimeout(err error) bool {
	ne, ok := err.(net.Error)
	return ok && ne.Timeout()
}

func readFull(c net.Conn, buf []byte) (int, error) {
	got := 0
	for got < len(buf) {
		n, err := c.Read(buf[got:])
		got += n
		if err != nil {
			return got, err
		}
	}
	return got, nil
}

// ---------------------------------------------------------------------------- classification

func classifyB(c CaseB) core.Class {
	var cl core.Class
	nconn, split, dl := 0, false, false
	deferred := false
	kinds := map[string]bool{}
	bigC := false
	for _, op := range c.Ops {
		l := "op:" + op.Op
		switch op.Op {
		case "connect":
			nconn++
			if len(op.Cuts) > 0 {
				split = true
			}
			if op.Atyp == 3 && (len(op.Addr) == 0 || len(op.Addr) == 255) {
				dl = true
			}
			if op.Atyp == 3 {
				cl.Labels = append(cl.Labels, "domain:"+domainClass(op.Addr))
			}
			l += ":" + op.Answer
		case "close":
			l += ":" + op.By
		case "staged":
			nconn++
			goOn := "resets"
			if op.Go {
				goOn = "goes-on"
			}
			l = fmt.Sprintf("op:staged:stage=%d:%s:%s", op.Stage, op.Cmd, goOn)
			cl.Labels = append(cl.Labels, fmt.Sprintf("staged:stage=%d", op.Stage), "staged:cmd="+op.Cmd)
			if op.Atyp == 3 {
				cl.Labels = append(cl.Labels, "domain:"+domainClass(op.Addr))
			}
		case "c2a", "a2c":
			if op.Sleep {
				l = fmt.Sprintf("op:c2a:deferred-fetch:tasks-per-fetch=%d", len(op.Chunks))
				deferred = true
			}
			for _, ch := range op.Chunks {
				if len(ch) > 65536 {
					bigC = true
				}
			}
		case "pf":
			if op.TargetC && op.Twin && len(op.Reply) > 0 {
				l += ":target-closes:two-forwards-per-fetch"
			} else if op.TargetC {
				l += ":target-closes"
			} else {
				l += ":agent-removes"
			}
		}
		kinds[op.Op] = true
		cl.Labels = append(cl.Labels, l)
	}
	cl.Labels = append(cl.Labels, c.Cfg.labels()...)
	if bigC {
		cl.Labels = append(cl.Labels, "chunk>64KiB")
	}
	if nconn >= 2 {
		cl.Labels = append(cl.Labels, "clients>=2")
	}
	cl.NonTrivial = split || dl || nconn >= 2
	var ks []string
	for k := range kinds {
		ks = append(ks, k)
	}
	sort.Strings(ks)
	cl.Fingerprint = fmt.Sprintf("ops=%s|clients=%d|split=%v|dlen0or255=%v|big=%v|deferred=%v", strings.Join(ks, ","), min(nconn, 3), split, dl, bigC, deferred)
	return cl
}

func TestC15b(t *testing.T) {
	defer censusVerdict()
	core.Run(t, core.Spec[CaseB]{
		Property: "C15", Sub: "b",
		Rule: "sequential history of 2-12 steps over 1-3 proxies started with `socks add`: connect (ATYP 1/3/4, domain length incl. 0/255, request split outside the address, agent answers ok / error / later), client->agent data (1-5 chunks of 0..70000 bytes, each its own write), agent->client data (READ callbacks, type REVERSE_PROXY), close by agent CLOSE callback / client FIN / client RST (before and after the connect reply), socks add (also duplicate port) / list / kill / clear, reverse-port-forward sessions (OPEN, READ type CLIENT against a harness TCP target that answers and closes, or REMOVE first). Oracle: connect task = request; concatenated write-task bodies of that socket id = client bytes in order and nothing for other ids; client reads exactly the bytes of the READ callbacks; a close from either side removes the id from the socket table, ends the client's stream, and queues a close task when the agent still has the socket; kill/clear remove exactly the proxies named, end their accept loops, drop their sockets with close tasks, return with all three mutexes free; forward target receives the agent's bytes, the target's answer comes back as write tasks of that forward id, REMOVE empties the forward table and ends the target's stream. Non-trivial: a request split across >=2 writes, domain length 0 or 255, or >=2 clients; distinct = set of step kinds x clients x split x domain class x big chunk Configuration / environment dimension (cfg_test.go; labels cfg:* / env:*): about half of the cases keep the default fixture, the others build it from a generated configuration drawn in combination - agent Info.WorkingHours (window containing / excluding by hours / excluding by minutes the teamserver's local time, whole day, end before start, window around the local time of an agent in another zone), Info.KillDate (future / past / now-1s / now+1s), SleepDelay/Jitter (1/0, 5/20, MaxInt32/100), Active=false, pivot child (tasks also decoded out of the parent's queue: same multiset), all-zero AES key/IV, time.Local (UTC, +05:30, -08:00, +12:00, +14:00), an address form given to `socks add` first (127.0.0.1:port / 0.0.0.0:port / [::1]:port: refused, table unchanged), 1-2 further proxies on the agent, 1-2 further agents with a proxy each (handed nothing, no socket, killed cleanly at the end), RLIMIT_NOFILE exhausted for one accept on a proxy of its own / one dial of a port-forward target (tables cleaned by the following kill / REMOVE); the oracle above is unchanged under every configuration",
		Gen:  genB, Check: checkB, Classify: classifyB,
		Assumptions: []string{
			"one actor at a time: the job queue and tables are read only at established quiescent states (fixture_test.go); concurrency is sub-check (c)",
			"port-forward direction target->agent is checked with a target that closes after answering: agent.PortFwdRead copies until end of stream, so nothing can be observed earlier (reported, not asserted)",
			"requests are split only outside the address octets so that the known short-read defect of (a) does not end every history at its first step",
		},
	})
}

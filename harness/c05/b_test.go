package c05

// C05(b): burst and drain.  The outstanding-request list of ONE agent (directly connected,
// or an SMB child whose traffic is relayed) is grown to N entries - N drawn around and
// beyond the growth points of a Go slice - handed out, and completed through final
// callbacks in a generated order; at generated drain levels the probes of (a) are run
// (request id 0, a completed id, a never-issued id, another agent's outstanding id, a still
// outstanding id), each with a final and a non-final callback kind.  Then a second,
// smaller burst is queued on the same agent and probed again.  Same interpreter and same
// oracle as (a): the case is expanded into an (a) history.

import (
	"fmt"
	"testing"

	"Havoc/pkg/agent"

	"pgregory.net/rapid"

	"verifharness/internal/agentfx"
	"verifharness/internal/core"
)

type CaseB struct {
	Child  bool   `json:"child"` // the bursting agent is an SMB child of agent 0
	Logs   bool   `json:"logs"`
	N      int    `json:"n"`      // first burst
	Groups int    `json:"groups"` // the burst is queued in this many groups, each followed by a hand-out
	Order  string `json:"order"`  // completion order: fifo lifo random
	Picks  []int  `json:"picks"`  // random order / which outstanding id a probe uses
	Keep   int    `json:"keep"`   // this many tasks are never completed
	M      int    `json:"m"`      // second burst
	Keep2  int    `json:"keep2"`
	// session-level messages of the bursting agent at drain levels (0 none, 1.. = sessionMsgs, 4 = COMMAND_CHECKIN callback), one per level, cyclic
	Session []int `json:"session,omitempty"`
	// how the burst tasks are issued (absent = bare queued sleep jobs, as before): viaB
	Via string `json:"via,omitempty"`
	// the reply of one of the hand-out check-ins of the bursting agent (Step counts them, cyclic) does not
	// reach the agent: Dep reply / socket of fault_test.go
	Fault *FaultE `json:"fault,omitempty"`
}

// viaB: the ways the tasks of a burst are issued and ended.
//
//	queue            AddJobToQueue of a bare sleep job, ended by the sleep callback
//	op-sleep         the operator path (TaskPrepare) for the same command
//	op-bof           operator path, inline execute without HasCallback: two mem-file chunk tasks per
//	                 task are queued along (they stay outstanding), ended by one of the four
//	                 inline-execute endings (ran ok / could not run / exception / symbol not found)
//	op-bof-callback  the same with HasCallback == "true": the teamserver keeps one BofCallbacks entry
//	                 per outstanding task, so the drain also grows and shrinks that list
var viaB = []string{"queue", "op-sleep", "op-bof", "op-bof-callback"}

var bofEndings = []string{"bof-ran-ok", "bof-could-not-run", "bof-exception", "bof-symbol-not-found"}

var burstRanges = [][2]int{{1, 4}, {7, 9}, {15, 20}, {30, 40}, {60, 70}, {120, 140}}

func burstBucket(n int) string {
	for _, r := range burstRanges {
		if n <= r[1] {
			return fmt.Sprintf("%d-%d", r[0], r[1])
		}
	}
	return "140+"
}

func genB(t *rapid.T) CaseB {
	var c CaseB
	c.Child = agentfx.Weighted(t, "child", 2, 1) == 1
	c.Logs = agentfx.Weighted(t, "logs", 4, 1) == 1
	r := burstRanges[agentfx.Weighted(t, "range", 2, 2, 4, 4, 3, 2)]
	c.N = rapid.IntRange(r[0], r[1]).Draw(t, "n")
	c.Groups = 1 + agentfx.Bits(t, "groups", 2)%3
	c.Order = []string{"fifo", "lifo", "random", "random"}[agentfx.Bits(t, "order", 2)]
	c.Picks = rapid.SliceOfN(rapid.IntRange(0, 1<<20), 24, 24).Draw(t, "picks")
	c.Keep = []int{0, 0, 1, 3}[agentfx.Bits(t, "keep", 2)]
	if c.Keep > c.N {
		c.Keep = c.N
	}
	r2 := burstRanges[agentfx.Weighted(t, "range2", 3, 3, 2, 1)]
	c.M = rapid.IntRange(r2[0], r2[1]).Draw(t, "m")
	c.Keep2 = []int{0, 1}[agentfx.Bits(t, "keep2", 1)]
	for i := 0; i < 4; i++ {
		c.Session = append(c.Session, agentfx.Weighted(t, "session", 3, 2, 2, 1, 1))
	}
	c.Via = viaB[agentfx.Weighted(t, "via", 4, 1, 1, 2)]
	if agentfx.Weighted(t, "fault", 3, 1) == 1 {
		dep := []string{"reply", "socket"}[agentfx.Bits(t, "fault-dep", 1)]
		hows := faultHows[dep]
		c.Fault = &FaultE{Dep: dep, How: hows[agentfx.Bits(t, "fault-how", 3)%len(hows)], Phase: "drain",
			Step: rapid.IntRange(0, 7).Draw(t, "fault-step"), K: rapid.IntRange(0, 1<<16).Draw(t, "fault-k")}
	}
	return c
}

// drainLevels says at which numbers of outstanding tasks the probes run while n tasks are
// completed down to keep: after every completion for a small burst, else at about
// 3/4, 1/2, 1/4, 1/8 of the burst and at 2, 1, 0.
func drainLevels(n, keep int) map[int]string {
	lv := map[int]string{}
	if n <= 9 {
		for o := n; o >= keep; o-- {
			lv[o] = "every"
		}
		return lv
	}
	for _, x := range []struct {
		o    int
		name string
	}{{n, "full"}, {3 * n / 4, "3/4"}, {n / 2, "1/2"}, {n / 4, "1/4"}, {n / 8, "1/8"}, {2, "2"}, {1, "1"}, {0, "0"}} {
		if x.o >= keep {
			if _, dup := lv[x.o]; !dup {
				lv[x.o] = x.name
			}
		}
	}
	if _, ok := lv[keep]; !ok {
		lv[keep] = "kept" // the end of the drain is always probed
	}
	return lv
}

var idxSleep = -1

func expandB(c CaseB) CaseE {
	if idxSleep < 0 {
		for i, cmd := range issueCmds {
			if cmd == agent.COMMAND_SLEEP {
				idxSleep = i
			}
		}
	}
	e := CaseE{Logs: c.Logs}
	target, other := 0, 1
	if c.Child {
		e.Agents, e.Parents = 3, []int{-1, 0, -1}
		target, other = 1, 2
	} else {
		e.Agents, e.Parents = 2, []int{-1, -1}
	}
	pk := 0
	pick := func() int {
		p := 0
		if len(c.Picks) > 0 {
			p = c.Picks[pk%len(c.Picks)]
		}
		pk++
		return p
	}
	add := func(op OpE) { e.Ops = append(e.Ops, op) }
	// how one task of a burst is issued, and the kind that ends it
	issue := OpE{Kind: "issue", Agent: target, Cmd: idxSleep}
	bof := false
	switch c.Via {
	case "op-sleep":
		issue = OpE{Kind: "optask", Agent: target, Cmd: opCmdIndex("sleep"), N: 5}
	case "op-bof":
		issue = OpE{Kind: "optask", Agent: target, Cmd: opCmdIndex("inline-execute"), Variant: 2, N: 64} // HasCallback "false"
		bof = true
	case "op-bof-callback":
		issue = OpE{Kind: "optask", Agent: target, Cmd: opCmdIndex("inline-execute"), Variant: 0, N: 64} // HasCallback "true"
		bof = true
	}
	ending := func() string {
		if bof {
			return bofEndings[pick()%len(bofEndings)]
		}
		return "sleep"
	}
	// somebody else's outstanding task, for the foreign-id probes
	add(OpE{Kind: "issue", Agent: other, Cmd: idxSleep})
	add(OpE{Kind: "handout", Agent: other})

	out := 0 // tasks outstanding at the target (model view)
	lvl := 0
	probes := func() {
		n := uint32(len(e.Ops))
		if len(c.Session) > 0 {
			switch sm := c.Session[lvl%len(c.Session)]; {
			case sm >= 1 && sm <= len(sessionMsgs):
				add(OpE{Kind: "session", Agent: target, Variant: sm - 1})
			case sm == len(sessionMsgs)+1 && out > 0:
				// metadata refresh: the final callback of one of the outstanding tasks
				add(OpE{Kind: "callback", Agent: target, Src: "outstanding", Main: true, Pick: pick() % out, Force: "checkin", Text: "c", N: n})
				out--
			}
		}
		lvl++
		for _, src := range []string{"zero", "completed", "never", "foreign"} {
			for _, force := range []string{"sleep", "output"} {
				add(OpE{Kind: "callback", Agent: target, Src: src, Pick: pick(), Force: force, Text: "p", N: n})
			}
		}
		if out > 0 {
			// a still outstanding id with a non-final kind: stays outstanding
			add(OpE{Kind: "callback", Agent: target, Src: "outstanding", Main: true, Pick: pick() % out, Force: "output", Text: "o", N: n})
		}
	}
	burst := func(n, groups, keep int) {
		base := out
		per := (n + groups - 1) / groups
		for i := 0; i < n; i++ {
			add(issue)
			out++
			if (i+1)%per == 0 || i == n-1 {
				add(OpE{Kind: "handout", Agent: target})
			}
		}
		lv := drainLevels(n, keep)
		if _, ok := lv[n]; ok {
			probes()
		}
		for done := 0; out-base > keep; done++ {
			p := 0
			switch c.Order {
			case "lifo":
				p = out - 1
			case "random":
				p = pick() % out
			}
			if c.Order == "fifo" && base > 0 {
				p = base // the survivors of the first burst stay
			}
			add(OpE{Kind: "callback", Agent: target, Src: "outstanding", Main: true, Pick: p, Force: ending(), Text: "d", N: uint32(done)})
			out--
			if _, ok := lv[out-base]; ok {
				probes()
			}
		}
	}
	burst(c.N, c.Groups, c.Keep)
	burst(c.M, 1, c.Keep2)
	if c.Fault != nil {
		var hand []int
		for i, op := range e.Ops {
			if op.Kind == "handout" && op.Agent == target {
				hand = append(hand, i)
			}
		}
		if len(hand) > 0 {
			f := *c.Fault
			f.Step, f.Phase = hand[f.Step%len(hand)], "drain"
			e.Fault = &f
		}
	}
	return e
}

func checkB(c CaseB) *core.Violation { return checkE(expandB(c)) }

func classifyB(c CaseB) core.Class {
	cl := classifyE(expandB(c))
	keep := []string{}
	for _, l := range cl.Labels {
		switch {
		case len(l) > 9 && l[:9] == "accepted:", len(l) > 15 && l[:15] == "final-replayed:":
		default:
			keep = append(keep, l)
		}
	}
	cl.Labels = keep
	for _, name := range drainLevels(c.N, c.Keep) {
		cl.Labels = append(cl.Labels, "drain-level:"+name)
	}
	via := "direct"
	if c.Child {
		via = "pivot-child"
	}
	issued := c.Via
	if issued == "" {
		issued = "queue"
	}
	cl.Labels = append(cl.Labels, "burst:"+burstBucket(c.N), "second-burst:"+burstBucket(c.M), "order:"+c.Order, "target:"+via, fmt.Sprintf("kept:%d", c.Keep), "burst-issued-via:"+issued)
	cl.NonTrivial = true // every case probes completed / foreign ids with effectful kinds
	cl.Fingerprint = fmt.Sprintf("n=%s|m=%s|%s|%s", burstBucket(c.N), burstBucket(c.M), c.Order, via)
	if issued != "queue" {
		cl.Fingerprint += "|" + issued
	}
	return cl
}

func TestC05b(t *testing.T) {
	core.Run(t, core.Spec[CaseB]{
		Property: "C05", Sub: "b",
		Rule: "burst and drain on one agent (directly connected, or an SMB child reached through its parent; another agent holds one outstanding task): N tasks with N from {1-4, 7-9, 15-20, 30-40, 60-70, 120-140} are issued in 1-3 groups, each handed out; they are completed by their final callback in fifo / lifo / random order down to 0, 1 or 3 survivors; after every completion (N <= 9) or at about 3/4, 1/2, 1/4, 1/8 of the burst and at 2, 1, 0 outstanding, first (per level, generated) a session-level message of the bursting agent - DEMON_INIT again with the same / another key, SMB re-connect for a child, plain check-in, COMMAND_CHECKIN callback - then nine probes run: request id 0, a completed id, a never-issued id, the other agent's outstanding id - each with a final (sleep) and a non-final (output) kind - and a still outstanding id with the non-final kind; then a second burst of 1-40 tasks on the same agent, drained and probed the same way. The tasks of both bursts are issued in one of four generated ways (label burst-issued-via): bare queued sleep jobs ended by the sleep callback (4/8); the operator path (TaskPrepare) for sleep (1/8); operator-path inline execute without (1/8) or with (2/8) HasCallback - two mem-file chunk tasks per task stay outstanding alongside, with HasCallback the teamserver's BofCallbacks list grows to N entries and shrinks with the drain - each task ended by one of ran-ok / could-not-run / exception / symbol-not-found (generated per task). In 1/4 of the cases the reply of one generated hand-out check-in of the bursting agent (any group of either burst) does not reach the agent - the fixture's response writer fails with ECONNRESET / EPIPE after 0 or k bytes, or the request goes over a real loopback connection that the peer resets / closes before the reply is written (labels fault:socket:reply-write:<how>@hand-out-with-tasks; see (a)); the model keeps every task of that reply outstanding, the drain and the probes go on as usual. Expanded into a history of sub-check (a) and judged by the same oracle. Every case is non-trivial; distinct = (burst bucket, second-burst bucket, order, direct/child)",
		Gen:  genB, Check: checkB, Classify: classifyB,
		Assumptions: []string{"same model and oracle as (a); whether a still outstanding id is accepted is counted (labels accepted-with-effect / accepted-without-effect), not asserted: the statement is an only-if"},
	})
}

package c05

// Relay state: what makes the teamserver queue jobs ON ITS OWN as a reaction to callbacks
// of the always-accepted kinds.  On the reference tree these are (grep AddJobToQueue):
//
//	TaskPrepare "socks add"      per proxy client: the CONNECT job; then, from the client's relay
//	                             goroutine, a WRITE job per piece the client sends and a CLOSE job
//	                             when the client is gone (EOF or error, also after the teamserver
//	                             closed the socket itself)
//	TaskPrepare "socks kill"     a CLOSE job per client of the proxy
//	TaskDispatch SOCKET CONNECT  a CLOSE job when the SOCKS5 success reply cannot be written any
//	                             more because the client went away
//	TaskDispatch SOCKET READ     (reverse port forward) a WRITE job per piece the forwarded host sends
//	UploadMemFileInChunks        mem-file chunk tasks (these DO carry request ids: they are issued
//	                             to the agent, see opcmds_test.go)
//	PivotAddJob                  the COMMAND_PIVOT wrapper of anything queued for a pivot child
//
// None of the relay jobs carries a request id, none is recorded as an outstanding request:
// the set of ids an agent may use is exactly what the operator side issued to it.
//
// The fixture is real: the proxy is started by the operator command (TaskPrepare
// COMMAND_SOCKET "socks add <free port>"), a loopback TCP client does the no-auth greeting
// and sends a CONNECT request, and is then put into a generated condition (stays, is reset,
// half-closes).  Reverse port forwards point at a loopback listener of the harness (alive)
// or at a port nobody listens on (gone); the teamserver dials it when the agent's first
// READ for that socket arrives.

import (
	"fmt"
	"io"
	"net"
	"runtime"
	"strconv"
	"time"

	"Havoc/pkg/agent"

	"verifharness/internal/agentfx"
	"verifharness/internal/core"
	"verifharness/internal/demonref"
)

const waitRelay = 10 * time.Second // for things that normally take microseconds; expiry = no verdict

var clientConds = []string{"alive", "reset", "half-closed"}

// ports of the forwarded hosts of the running case: [0] somebody listens, [1] nobody does
var fwdPorts = [2]int{1, 1}

type proxyClient struct {
	conn *net.TCPConn
	sock int32
	cond string
	eof  bool // the teamserver's relay goroutine has (or will have) seen this client's end
}

type relayWorld struct {
	port    map[int]string // agent -> port of its socks proxy
	clients map[int][]*proxyClient
	ln      net.Listener
	lnDone  chan struct{}
	held    chan net.Conn
	g0      int
}

func (w *worldE) relayInit(want bool) {
	w.relay = &relayWorld{port: map[int]string{}, clients: map[int][]*proxyClient{}, g0: runtime.NumGoroutine()}
	fwdPorts = [2]int{1, 1}
	if !want {
		return
	}
	r := w.relay
	if l, err := core.ListenLoopback("tcp4"); err == nil {
		// nobody listens here any more once it is closed
		fwdPorts[1] = l.Addr().(*net.TCPAddr).Port
		l.Close()
	}
	if l, err := core.ListenLoopback("tcp4"); err == nil {
		r.ln, r.lnDone, r.held = l, make(chan struct{}), make(chan net.Conn, 64)
		fwdPorts[0] = l.Addr().(*net.TCPAddr).Port
		go func() {
			defer close(r.lnDone)
			for {
				c, err := l.Accept()
				if err != nil {
					return
				}
				// the forwarded host takes what it is sent and says nothing
				select {
				case r.held <- c:
				default:
					c.Close()
				}
			}
		}()
	}
}

// relayClose undoes everything: port forwards first (their reader goroutines end when the
// teamserver's socket is closed), then the proxy clients, the proxies, the forwarded host.
func (w *worldE) relayClose() {
	r := w.relay
	if r == nil {
		return
	}
	for _, s := range w.ses {
		s.A.PortFwdsMtx.Lock()
		var ids []int
		for _, p := range s.A.PortFwds {
			ids = append(ids, p.SocktID)
		}
		s.A.PortFwdsMtx.Unlock()
		for _, id := range ids {
			s.A.PortFwdClose(id)
		}
	}
	for _, cl := range r.clients {
		for _, c := range cl {
			if c.conn != nil {
				c.conn.SetLinger(0)
				c.conn.Close()
			}
		}
	}
	for g, port := range r.port {
		w.operatorSocket(g, "socks kill", port)
	}
	if r.ln != nil {
		r.ln.Close()
		<-r.lnDone
		close(r.held)
		for c := range r.held {
			c.Close()
		}
	}
	dl := time.Now().Add(2 * time.Second)
	for runtime.NumGoroutine() > r.g0 && time.Now().Before(dl) {
		time.Sleep(200 * time.Microsecond)
	}
	fwdPorts = [2]int{1, 1}
}

func (w *worldE) operatorSocket(g int, command, param string) (map[string]string, error) {
	a := w.ses[g].A
	msg := map[string]string{}
	info := map[string]interface{}{
		"TaskID": "00C0FFEE", "CommandLine": command + " " + param, "DemonID": a.NameID,
		"CommandID": strconv.Itoa(agent.COMMAND_SOCKET), "Command": command, "Params": param,
	}
	job, err := a.TaskPrepare(agent.COMMAND_SOCKET, info, &msg, "client", w.rec)
	if job != nil && err == nil {
		a.AddJobToQueue(*job)
	}
	return msg, err
}

func queueLen(a *agent.Agent) int {
	a.QueueMtx.Lock()
	defer a.QueueMtx.Unlock()
	return len(a.JobQueue)
}

func waitFor(d time.Duration, cond func() bool) bool {
	dl := time.Now().Add(d)
	for i := 0; ; i++ {
		if cond() {
			return true
		}
		if time.Now().After(dl) {
			return false
		}
		if i < 200 {
			runtime.Gosched()
		} else {
			time.Sleep(100 * time.Microsecond)
		}
	}
}

// socksState: socket id -> connected, of the teamserver's client table of agent a.
func socksState(a *agent.Agent) map[int32]bool {
	a.SocksCliMtx.Lock()
	defer a.SocksCliMtx.Unlock()
	m := map[int32]bool{}
	for _, c := range a.SocksCli {
		m[c.SocketID] = c.Connected
	}
	return m
}

// addProxyClient starts agent g's proxy if it has none, connects a client, lets it ask for
// a CONNECT and waits until the teamserver queued the connect job.  "" = done, else why not.
func (w *worldE) addProxyClient(g int, cond string, n uint32) string {
	r := w.relay
	a := w.ses[g].A
	if r.port[g] == "" {
		for attempt := 0; attempt < 8 && r.port[g] == ""; attempt++ {
			l, err := core.ListenLoopback("tcp4")
			if err != nil {
				continue
			}
			p := strconv.Itoa(l.Addr().(*net.TCPAddr).Port)
			l.Close()
			if msg, err := w.operatorSocket(g, "socks add", p); err == nil && msg["Type"] == "Good" {
				r.port[g] = p
			}
		}
		if r.port[g] == "" {
			return "no-proxy-port"
		}
	}
	cn, err := net.DialTimeout("tcp4", "127.0.0.1:"+r.port[g], waitRelay)
	if err != nil {
		return "dial-failed"
	}
	conn := cn.(*net.TCPConn)
	conn.SetNoDelay(true)
	pc := &proxyClient{conn: conn, cond: cond}
	r.clients[g] = append(r.clients[g], pc)
	conn.Write([]byte{5, 1, 0})
	rep := make([]byte, 2)
	conn.SetReadDeadline(time.Now().Add(waitRelay))
	if _, err := io.ReadFull(conn, rep); err != nil || rep[0] != 5 || rep[1] != 0 {
		return "greeting-not-answered"
	}
	before := socksState(a)
	conn.Write([]byte{5, 1, 0, 1, 10, byte(n >> 8), byte(n), 7, byte(n>>4) | 1, byte(n)})
	found := false
	if !waitFor(waitRelay, func() bool {
		for id := range socksState(a) {
			if _, old := before[id]; !old {
				pc.sock, found = id, true
			}
		}
		// the connect job follows the registration of the client
		return found && queueLen(w.ses[w.root(g)].A) > 0
	}) {
		return "connect-job-not-queued"
	}
	switch cond {
	case "reset":
		conn.SetLinger(0)
		conn.Close()
		pc.conn = nil
	case "half-closed":
		conn.CloseWrite()
	}
	return ""
}

// settle gives the relay goroutines of agent g's clients the time to do what the last step
// made them do: a client that was connected and has been removed, and a half-closed client
// that has just become connected, make their goroutine queue one CLOSE job.  Bounded; a job
// that comes later than that is recognised at the next request (no verdict then).
func (w *worldE) settle(g int, before map[int32]bool) {
	r := w.relay
	a := w.ses[g].A
	now := socksState(a)
	expect := 0
	for id, conn := range before {
		if _, still := now[id]; conn && !still {
			expect++
		}
	}
	var ending []int32
	for _, pc := range r.clients[g] {
		if pc.cond == "half-closed" && !pc.eof && now[pc.sock] {
			pc.eof = true
			ending = append(ending, pc.sock)
			expect++
		}
	}
	if expect == 0 {
		return
	}
	root := w.ses[w.root(g)].A
	waitFor(time.Second, func() bool {
		st := socksState(a)
		for _, id := range ending {
			if _, still := st[id]; still {
				return false
			}
		}
		return queueLen(root) > 0
	})
	for i := 0; i < 50; i++ {
		runtime.Gosched()
	}
}

// ---------------------------------------------------------------- ids for the relay kinds

// sockOf picks the socket id a relay callback of s talks about: mostly the newest proxy
// client the teamserver knows for this agent, else another one, else an id it never heard of.
func sockOf(s *agentfx.Session, n uint32) uint32 {
	s.A.SocksCliMtx.Lock()
	defer s.A.SocksCliMtx.Unlock()
	l := s.A.SocksCli
	switch {
	case len(l) == 0 || n%8 == 7:
		return 0x5c0000 + n%4
	case n%8 < 6:
		return uint32(l[len(l)-1].SocketID)
	}
	return uint32(l[int(n/8)%len(l)].SocketID)
}

// fwdOf: the same for the reverse-port-forward sockets.
func fwdOf(s *agentfx.Session, n uint32) uint32 {
	s.A.PortFwdsMtx.Lock()
	defer s.A.PortFwdsMtx.Unlock()
	l := s.A.PortFwds
	if len(l) == 0 || n%8 == 7 {
		return 0x7200 + n%4
	}
	return uint32(l[int(n/8)%len(l)].SocktID)
}

const loopbackLE = 0x0100007f // Int32ToIpString prints the low byte first

// Socket.c / Command.c CommandSocket, Pivot.c: the callbacks of the relay kinds
var relayKinds = []kind{
	// Socket.c SocketPush, socks connect done: AddInt32(CONNECT) AddInt32(Success) AddInt32(SocketID) AddInt32(ErrorCode)
	{Name: "socket-connect-ok", Cmd: agent.COMMAND_SOCKET, Relay: true, Build: func(s *agentfx.Session, _ string, n uint32) []byte {
		return enc().Int32(agent.SOCKET_COMMAND_CONNECT).Int32(1).Int32(sockOf(s, n)).Int32(0).B
	}},
	{Name: "socket-connect-fail", Cmd: agent.COMMAND_SOCKET, Relay: true, Build: func(s *agentfx.Session, _ string, n uint32) []byte {
		return enc().Int32(agent.SOCKET_COMMAND_CONNECT).Int32(0).Int32(sockOf(s, n)).Int32(10061).B
	}},
	// SocketRead: AddInt32(READ) AddInt32(ID) AddInt32(Type) AddInt32(Success) AddBytes(data) | AddInt32(ErrorCode)
	{Name: "socket-read-proxy", Cmd: agent.COMMAND_SOCKET, Relay: true, Build: func(s *agentfx.Session, text string, n uint32) []byte {
		return enc().Int32(agent.SOCKET_COMMAND_READ).Int32(sockOf(s, n)).Int32(agent.SOCKET_TYPE_REVERSE_PROXY).Int32(1).Bytes([]byte("from-target:" + text)).B
	}},
	{Name: "socket-read-failed", Cmd: agent.COMMAND_SOCKET, Relay: true, Build: func(s *agentfx.Session, _ string, n uint32) []byte {
		return enc().Int32(agent.SOCKET_COMMAND_READ).Int32(sockOf(s, n)).Int32(agent.SOCKET_TYPE_REVERSE_PROXY).Int32(0).Int32(10054).B
	}},
	{Name: "socket-write-failed", Cmd: agent.COMMAND_SOCKET, Relay: true, Build: func(s *agentfx.Session, _ string, n uint32) []byte {
		return enc().Int32(agent.SOCKET_COMMAND_WRITE).Int32(sockOf(s, n)).Int32(agent.SOCKET_TYPE_REVERSE_PROXY).Int32(0).Int32(10053).B
	}},
	// SocketFree / close: AddInt32(CLOSE) AddInt32(ID) AddInt32(Type)
	{Name: "socket-close", Cmd: agent.COMMAND_SOCKET, Relay: true, Build: func(s *agentfx.Session, _ string, n uint32) []byte {
		return enc().Int32(agent.SOCKET_COMMAND_CLOSE).Int32(sockOf(s, n)).Int32(agent.SOCKET_TYPE_REVERSE_PROXY).B
	}},
	// reverse port forward, a client connected to the agent's port: AddInt32(OPEN) ID LclAddr LclPort FwdAddr FwdPort
	{Name: "socket-fwd-open", Cmd: agent.COMMAND_SOCKET, Relay: true, Build: func(s *agentfx.Session, _ string, n uint32) []byte {
		return enc().Int32(agent.SOCKET_COMMAND_OPEN).Int32(0x7200 + n%4).Int32(loopbackLE).Int32(4444).Int32(loopbackLE).Int32(uint32(fwdPorts[n/4%2])).B
	}},
	// ... and sent something: the teamserver dials the forwarded host with the first piece
	{Name: "socket-fwd-read", Cmd: agent.COMMAND_SOCKET, Relay: true, Build: func(s *agentfx.Session, text string, n uint32) []byte {
		return enc().Int32(agent.SOCKET_COMMAND_READ).Int32(fwdOf(s, n)).Int32(agent.SOCKET_TYPE_CLIENT).Int32(1).Bytes([]byte("to-forward:" + text)).B
	}},
	{Name: "socket-fwd-close", Cmd: agent.COMMAND_SOCKET, Relay: true, Build: func(s *agentfx.Session, _ string, n uint32) []byte {
		return enc().Int32(agent.SOCKET_COMMAND_RPORTFWD_REMOVE).Int32(fwdOf(s, n)).Int32(agent.SOCKET_TYPE_CLIENT).Int32(loopbackLE).Int32(4444).Int32(loopbackLE).Int32(uint32(fwdPorts[n/4%2])).B
	}},
	// rportfwd add answered: AddInt32(RPORTFWD_ADD) Success ID LclAddr LclPort FwdAddr FwdPort
	{Name: "socket-rportfwd-add", Cmd: agent.COMMAND_SOCKET, Relay: true, Build: func(s *agentfx.Session, _ string, n uint32) []byte {
		return enc().Int32(agent.SOCKET_COMMAND_RPORTFWD_ADD).Int32(n % 2).Int32(0x7300 + n%4).Int32(loopbackLE).Int32(4444).Int32(loopbackLE).Int32(uint32(fwdPorts[n/4%2])).B
	}},
	{Name: "socket-rportfwd-clear", Cmd: agent.COMMAND_SOCKET, Relay: true, Build: func(s *agentfx.Session, _ string, n uint32) []byte {
		return enc().Int32(agent.SOCKET_COMMAND_RPORTFWD_CLEAR).Int32(n % 2).B
	}},
	// Pivot.c: connect to a named pipe failed: AddInt32(SMB_CONNECT) AddInt32(FALSE) AddInt32(error)
	{Name: "pivot-connect-failed", Cmd: agent.COMMAND_PIVOT, Relay: true, Build: func(s *agentfx.Session, _ string, n uint32) []byte {
		return enc().Int32(agent.DEMON_PIVOT_SMB_CONNECT).Int32(0).Int32(2 + n%3).B
	}},
	// disconnect of an agent id the teamserver never linked below this agent: AddInt32(SMB_DISCONNECT) Success AgentID
	{Name: "pivot-disconnect-unlinked", Cmd: agent.COMMAND_PIVOT, Relay: true, Build: func(s *agentfx.Session, _ string, n uint32) []byte {
		return enc().Int32(agent.DEMON_PIVOT_SMB_DISCONNECT).Int32(n % 2).Int32(0x0ddd0000 + n%16).B
	}},
}

var relayIdx []int // indices into kinds of all relay kinds

// kinds aimed at the newest proxy client after it was added (weights by repetition)
var afterClient = []string{"socket-connect-ok", "socket-connect-ok", "socket-connect-ok", "socket-connect-ok", "socket-connect-fail", "socket-close", "socket-read-proxy", "socket-read-failed"}

func relayLabel(cond string, k kind) string { return fmt.Sprintf("relay:%s/client-%s", k.Name, cond) }

var _ = demonref.CmdPivot

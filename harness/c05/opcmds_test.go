package c05

// Operator path: tasks issued the way cmd/server/dispatch.go issues them - the real
// (*Agent).TaskPrepare with an option map as the client sends it, then AddJobToQueue of
// the returned job - instead of a bare queued job.  TaskPrepare is where the teamserver
// creates its operator-side per-request state:
//
//	BofCallbacks        one entry per inline-execute request that carries HasCallback ==
//	                    "true" (a python module waits for the output), keyed by the request id
//	mem-file chunk jobs UploadMemFileInChunks queues COMMAND_MEM_FILE tasks with request ids
//	                    of their own (fs upload, inline execute: object file + arguments,
//	                    dotnet inline execute: the assembly), before the command itself
//
// (Downloads, port forwards and socks clients are keyed by file / socket id, not by request
// id, and are created by callbacks or relay traffic.)  A request that TaskPrepare refuses
// (missing option, undecodable binary) is never queued: its TaskID was never issued, even
// where TaskPrepare had already registered a BofCallback or queued chunk tasks for it.

import (
	"encoding/base64"
	"fmt"
	"strconv"
	"strings"

	"Havoc/pkg/agent"
)

type opCmd struct {
	Name string
	Cmd  uint32
	// Build returns the command specific options, the name of the per-request state the
	// teamserver is expected to hold for this request on the reference tree ("" = none) and
	// whether the reference TaskPrepare refuses the request
	Build func(op OpE) (opts map[string]interface{}, state string, refused bool)
}

func b64(n int, c string) string {
	return base64.StdEncoding.EncodeToString([]byte(strings.Repeat(c, n)))
}

var opCmds = []opCmd{
	// TaskPrepare COMMAND_INLINEEXECUTE: HasCallback, Arguments, Binary, FunctionName, Flags
	{Name: "inline-execute", Cmd: agent.COMMAND_INLINEEXECUTE, Build: func(op OpE) (map[string]interface{}, string, bool) {
		v := op.Variant
		o := map[string]interface{}{
			"FunctionName": "go" + op.Text,
			"Binary":       b64(int(op.N%600), "o"),
			"Arguments":    b64(int(op.N/7%40), "a"),
			"Flags":        []string{"default", "threaded", "non-threaded", "something-else"}[(v>>2)%4],
		}
		state := ""
		switch v % 4 {
		case 0, 1:
			o["HasCallback"] = "true"
			state = "bof-callback"
		case 2:
			o["HasCallback"] = "false"
		}
		refused := false
		switch (v >> 4) % 8 {
		case 5:
			delete(o, "Flags") // refused after the callback was registered and the chunk tasks were queued
			refused = true
		case 6:
			delete(o, "FunctionName") // same
			refused = true
		case 7:
			o["Binary"] = "%%% not base64 %%%" // refused after the callback was registered
			refused = true
		}
		if refused && state != "" {
			state = "bof-callback-of-refused-request"
		}
		return o, state, refused
	}},
	// TaskPrepare COMMAND_ASSEMBLY_INLINE_EXECUTE: Binary, Arguments (assembly uploaded as mem-file)
	{Name: "dotnet-inline-execute", Cmd: agent.COMMAND_ASSEMBLY_INLINE_EXECUTE, Build: func(op OpE) (map[string]interface{}, string, bool) {
		return map[string]interface{}{"Binary": b64(int(op.N%600), "n"), "Arguments": "arg " + op.Text}, "", false
	}},
	{Name: "sleep", Cmd: agent.COMMAND_SLEEP, Build: func(op OpE) (map[string]interface{}, string, bool) {
		if op.Variant%8 == 7 {
			return map[string]interface{}{"Arguments": "soon;" + op.Text}, "", true
		}
		return map[string]interface{}{"Arguments": fmt.Sprintf("%d;%d", op.N%3600, op.N%100)}, "", false
	}},
	{Name: "exit", Cmd: agent.COMMAND_EXIT, Build: func(op OpE) (map[string]interface{}, string, bool) {
		if op.Variant%8 == 7 {
			return map[string]interface{}{}, "", true // "ExitMethod not found"
		}
		return map[string]interface{}{"ExitMethod": []string{"thread", "process"}[op.Variant%2]}, "", false
	}},
	{Name: "checkin", Cmd: agent.COMMAND_CHECKIN, Build: func(op OpE) (map[string]interface{}, string, bool) {
		return map[string]interface{}{}, "", false
	}},
	{Name: "proc-list", Cmd: agent.COMMAND_PROC_LIST, Build: func(op OpE) (map[string]interface{}, string, bool) {
		return map[string]interface{}{"FromProcessManager": []string{"false", "true"}[op.Variant%2]}, "", false
	}},
	{Name: "screenshot", Cmd: agent.COMMAND_SCREENSHOT, Build: func(op OpE) (map[string]interface{}, string, bool) {
		return map[string]interface{}{}, "", false
	}},
	{Name: "dotnet-list-versions", Cmd: agent.COMMAND_ASSEMBLY_LIST_VERSIONS, Build: func(op OpE) (map[string]interface{}, string, bool) {
		return map[string]interface{}{}, "", false
	}},
	{Name: "job-list", Cmd: agent.COMMAND_JOB, Build: func(op OpE) (map[string]interface{}, string, bool) {
		return map[string]interface{}{"Command": "list"}, "", false
	}},
}

// weights of opCmds in the generator: the commands with per-request state first
var opCmdWeights = []int{10, 3, 2, 1, 1, 1, 1, 1, 1}

func opCmdIndex(name string) int {
	for i, c := range opCmds {
		if c.Name == name {
			return i
		}
	}
	panic("no operator command " + name)
}

// operatorInfo is pk.Body.Info of the client's task request.
func operatorInfo(id uint32, demon string, oc opCmd, opts map[string]interface{}) map[string]interface{} {
	info := map[string]interface{}{
		"TaskID": fmt.Sprintf("%08X", id), "CommandLine": oc.Name, "DemonID": demon,
		"CommandID": strconv.Itoa(int(oc.Cmd)),
	}
	for k, v := range opts {
		info[k] = v
	}
	return info
}

// endKinds returns the kinds that end a task of command cmd: its final kinds, or - for a
// command without one in the table - all of its kinds.
func endKinds(cmd uint32) []kind {
	var fin, all []kind
	for _, i := range kindsByCmd[cmd] {
		all = append(all, kinds[i])
		if kinds[i].Final {
			fin = append(fin, kinds[i])
		}
	}
	if len(fin) > 0 {
		return fin
	}
	return all
}

package c05

// C05: only callbacks to outstanding tasks have any effect.
// State machine over a forest of 2-4 agents (roots registered through the real agent
// endpoint, SMB children linked through a real SMB_CONNECT callback of their parent, up
// to two levels deep), with a tsx.Recorder as teamserver and a private loot tree.
//
// Model: per agent X, the set of request ids of tasks that were ISSUED TO X (operator
// tasks and the mem-file chunk tasks of its uploads) and not yet completed.  Tasks are
// issued in both ways the teamserver has: a bare job queued with AddJobToQueue ("issue"),
// and an operator request through the real TaskPrepare ("optask", "upload"; opcmds_test.go),
// which is where operator-side per-request state (BofCallbacks) and mem-file chunk tasks
// come from.  One case in six also carries relay state (relay_test.go): socks proxies with
// real clients, reverse port forwards, and callbacks of the always-accepted relay kinds
// with ids from every source, each followed by a probe with the same id.  Things the
// teamserver queues on its own - relay jobs (SOCKS writes, request id 0) and the
// COMMAND_PIVOT jobs that wrap a descendant's task for its ancestors - are not tasks with
// a request id and add nothing to anybody's outstanding set.  The statement's exemption
// for relay traffic is by callback KIND (socket / pivot), not by request id, so id 0
// never becomes an acceptable id for any other kind.

import (
	"encoding/base64"
	"fmt"
	"os"
	"sort"
	"strconv"
	"strings"
	"testing"

	"Havoc/pkg/agent"

	"pgregory.net/rapid"

	"verifharness/internal/agentfx"
	"verifharness/internal/core"
	"verifharness/internal/demonref"
	"verifharness/internal/tsx"
)

type OpE struct {
	Kind    string `json:"kind"` // issue optask upload relay handout callback session socks sockskill
	Agent   int    `json:"agent"`
	Cmd     int    `json:"cmd,omitempty"`     // issue: index into issueCmds; optask: index into opCmds
	Src     string `json:"src,omitempty"`     // callback: outstanding completed foreign never zero
	Pick    int    `json:"pick,omitempty"`    // callback: which candidate id
	Variant int    `json:"variant,omitempty"` // callback: which kind among the applicable ones; session: which message (sessionMsgs); optask: option variant (opCmds[..].Build)
	Latest  bool   `json:"latest,omitempty"`  // callback, src outstanding / completed: the most recently issued command task / the most recently completed task instead of Pick
	Main    bool   `json:"main,omitempty"`    // callback, src outstanding: Pick counts command tasks only (not the mem-file chunk tasks)
	End     bool   `json:"end,omitempty"`     // callback: the kind is one of those that end a task of the id's command (endKinds), chosen by Variant
	RelayK  bool   `json:"relayk,omitempty"`  // callback: the kind is one of the always-accepted relay kinds (socket / pivot), chosen by Variant; socks: Variant = condition of the client (clientConds)
	AnyKind bool   `json:"anykind,omitempty"` // callback: kind drawn from all kinds instead of those of the id's command
	Replay  bool   `json:"replay,omitempty"`  // callback: send the identical package a second time
	Force   string `json:"force,omitempty"`   // callback: this kind (by name) instead of Variant/AnyKind
	Text    string `json:"text,omitempty"`
	N       uint32 `json:"n,omitempty"`
}

type CaseE struct {
	Agents  int   `json:"agents"`
	Parents []int `json:"parents,omitempty"` // Parents[i] < i is the SMB parent of agent i, -1 for a directly connected agent; absent = all direct
	Logs    bool  `json:"logs"`              // SendLogs: agent log forwarding
	Relay   bool  `json:"relay,omitempty"`   // relay state: socks proxies with real clients, a forwarded host that listens
	Ops     []OpE `json:"ops"`
	// one request of one step is served while one dependency of the teamserver fails (fault_test.go)
	Fault *FaultE `json:"fault,omitempty"`
}

var srcsE = []string{"outstanding", "completed", "foreign", "never", "zero"}

// session-level messages an agent may send for its own, existing id between the hand-out
// and the completion of its tasks.  On the tree the model was written from none of them
// changes the set of outstanding ids and none hands a task out again:
//
//	reinit-same / reinit-new   DEMON_INIT again (handlers.go, "reconnect" branch of an existing
//	                           agent: answers with the agent id under the stored key and ignores
//	                           key and metadata of the package) - for a pivot child the same
//	                           thing is a repeated SMB_CONNECT of the linked child by its parent
//	                           (TaskDispatch COMMAND_PIVOT, AgentExist branch: relinks, updates)
//	plain                      a GET_JOB check-in with nothing queued
//
// (the COMMAND_CHECKIN metadata refresh is the callback kind "checkin"; this fixture has no
// External-C2 endpoint)
var sessionMsgs = []string{"reinit-same", "reinit-new", "plain"}

func genE(t *rapid.T) CaseE {
	var c CaseE
	c.Agents = 2 + agentfx.Bits(t, "agents", 2)%3
	c.Logs = agentfx.Weighted(t, "logs", 3, 1) == 1
	depth := make([]int, c.Agents)
	for i := 0; i < c.Agents; i++ {
		p := -1
		if i > 0 && agentfx.Weighted(t, "child", 2, 3) == 1 {
			p = agentfx.Bits(t, "parent", 2) % i
			if depth[p] >= 2 {
				p = -1
			}
		}
		if p >= 0 {
			depth[i] = depth[p] + 1
		}
		c.Parents = append(c.Parents, p)
	}
	c.Relay = agentfx.Weighted(t, "relaystate", 5, 1) == 1
	wSocks, wRelayCb, wKill := 0, 0, 0
	if c.Relay {
		wSocks, wRelayCb, wKill = 9, 16, 3
	}
	relayCb := func(ag int, force string, newest bool) OpE {
		o := OpE{Kind: "callback", Agent: ag, RelayK: true, Force: force,
			Src:     srcsE[agentfx.Weighted(t, "src", 10, 14, 14, 18, 18)],
			Pick:    rapid.IntRange(0, 7).Draw(t, "pick"),
			Variant: agentfx.Bits(t, "variant", 7),
			Text:    rapid.StringOfN(rapid.RuneFrom([]rune("abcdefxyz0189")), 1, 8, -1).Draw(t, "text"),
			N:       rapid.Uint32Range(0, 100000).Draw(t, "n")}
		if newest {
			o.N &^= 7 // sockOf: the newest client
		}
		return o
	}
	n := rapid.IntRange(1, 30).Draw(t, "nops")
	for i := 0; i < n; i++ {
		op := OpE{Agent: agentfx.Bits(t, "agent", 2) % c.Agents}
		switch agentfx.Weighted(t, "kind", 26, 4, 4, 6, 52, 8, 9, wSocks, wRelayCb, wKill) {
		case 0:
			op.Kind = "issue"
			op.Cmd = rapid.IntRange(0, len(issueCmds)-1).Draw(t, "cmd")
		case 1:
			op.Kind = "upload"
			op.N = rapid.Uint32Range(0, 300).Draw(t, "n")
		case 2:
			op.Kind = "relay"
			op.N = rapid.Uint32Range(1, 64).Draw(t, "n")
		case 3:
			op.Kind = "handout"
		case 5:
			op.Kind = "session"
			op.Variant = agentfx.Bits(t, "msg", 2)
		case 7:
			// a client of the agent's socks proxy in a generated condition; mostly followed by the
			// agent's answer to the connect (or another relay callback about that socket) carrying
			// an id from any source, and sometimes by a second one
			op.Kind = "socks"
			op.Variant = agentfx.Weighted(t, "cond", 2, 3, 2)
			op.N = rapid.Uint32Range(0, 100000).Draw(t, "n")
			c.Ops = append(c.Ops, op)
			if agentfx.Weighted(t, "follow", 1, 4) == 0 {
				continue
			}
			if agentfx.Bits(t, "handout", 1) == 1 {
				c.Ops = append(c.Ops, OpE{Kind: "handout", Agent: op.Agent})
			}
			c.Ops = append(c.Ops, relayCb(op.Agent, afterClient[agentfx.Bits(t, "after", 3)], true))
			if agentfx.Weighted(t, "second", 2, 1) == 1 {
				c.Ops = append(c.Ops, relayCb(op.Agent, afterClient[agentfx.Bits(t, "after", 3)], true))
			}
			continue
		case 8:
			c.Ops = append(c.Ops, relayCb(op.Agent, "", false))
			continue
		case 9:
			op.Kind = "sockskill"
		case 6:
			// operator path: TaskPrepare with a generated option map; mostly followed by the
			// life of that very task: hand-out, streamed callbacks, one of the callbacks that
			// end a task of this command, probes with the completed id
			op.Kind = "optask"
			op.Cmd = agentfx.Weighted(t, "opcmd", opCmdWeights...)
			op.Variant = agentfx.Bits(t, "opts", 7)
			op.Text = rapid.StringOfN(rapid.RuneFrom([]rune("abcdefxyz0189")), 0, 6, -1).Draw(t, "text")
			op.N = rapid.Uint32Range(0, 100000).Draw(t, "n")
			c.Ops = append(c.Ops, op)
			if agentfx.Weighted(t, "follow", 1, 3) == 0 {
				continue
			}
			cb := func(src string) OpE {
				return OpE{Kind: "callback", Agent: op.Agent, Src: src, Latest: true,
					Variant: agentfx.Bits(t, "variant", 7),
					Replay:  agentfx.Weighted(t, "replay", 1, 1) == 1,
					Text:    rapid.StringOfN(rapid.RuneFrom([]rune("abcdefxyz0189")), 1, 8, -1).Draw(t, "text"),
					N:       rapid.Uint32Range(0, 100000).Draw(t, "n")}
			}
			if agentfx.Bits(t, "handout", 1) == 1 {
				c.Ops = append(c.Ops, OpE{Kind: "handout", Agent: op.Agent})
			}
			for k := agentfx.Bits(t, "streamed", 2) % 3; k > 0; k-- {
				c.Ops = append(c.Ops, cb("outstanding"))
			}
			e := cb("outstanding")
			e.End = true
			c.Ops = append(c.Ops, e)
			for k := 1 + agentfx.Bits(t, "probes", 1); k > 0; k-- {
				p := cb("completed")
				p.AnyKind = agentfx.Weighted(t, "anykind", 1, 1) == 1
				c.Ops = append(c.Ops, p)
			}
			continue
		default:
			op.Kind = "callback"
			op.Src = srcsE[agentfx.Weighted(t, "src", 34, 18, 22, 8, 18)]
			op.Pick = rapid.IntRange(0, 7).Draw(t, "pick")
			op.Variant = agentfx.Bits(t, "variant", 7)
			op.AnyKind = agentfx.Weighted(t, "anykind", 3, 1) == 1
			op.Replay = agentfx.Weighted(t, "replay", 1, 1) == 1
			op.Text = rapid.StringOfN(rapid.RuneFrom([]rune("abcdefxyz0189")), 1, 8, -1).Draw(t, "text")
			op.N = rapid.Uint32Range(0, 100000).Draw(t, "n")
		}
		c.Ops = append(c.Ops, op)
	}
	if !c.Relay && agentfx.Weighted(t, "fault", 3, 1) == 1 {
		addFaultE(t, &c)
	}
	return c
}

// ---------------------------------------------------------------- model

type taskM struct {
	id     uint32
	cmd    uint32
	doneBy string // name of the final kind whose callback completed it
	via    string // how it was issued: queue (bare job), operator (TaskPrepare), chunk (mem-file task queued by TaskPrepare)
	state  string // operator-side per-request state the reference tree holds for it ("" = none)
}

type agentM struct {
	out  []*taskM // issued to this agent and not completed, in issue order
	done []*taskM
	// TaskIDs of operator requests that TaskPrepare refused: never queued, never issued
	refused []uint32
	// what the teamserver queued on its own that involves this agent (never outstanding ids)
	ownRelay  bool // a relay job (request id 0) was queued for this agent itself
	relayedTo bool // something was queued for a descendant, i.e. wrapped pivot jobs passed through this agent
}

func (m *agentM) find(id uint32) *taskM {
	for _, t := range m.out {
		if t.id == id {
			return t
		}
	}
	return nil
}

func (m *agentM) ctx() string {
	switch {
	case m.ownRelay:
		return "own-relay-job"
	case m.relayedTo:
		return "relayed-for-descendant"
	}
	return "plain"
}

// ---------------------------------------------------------------- observation

type snap struct {
	tasks   string
	session string
}

func taskIDs(a *agent.Agent) string {
	var s []string
	for _, t := range a.Tasks {
		s = append(s, fmt.Sprintf("%x", t.RequestID))
	}
	return strings.Join(s, ",")
}

func sessionPrint(a *agent.Agent) string {
	info := *a.Info
	info.LastCallIn = "" // bookkeeping of every request
	par := ""
	if a.Pivots.Parent != nil {
		par = a.Pivots.Parent.NameID
	}
	// what is collected for the python modules that wait for a BOF
	bof := ""
	for _, b := range a.BofCallbacks {
		bof += fmt.Sprintf("%x:%d:%d,", b.TaskID, len(b.Output), len(b.Error))
	}
	return fmt.Sprintf("%s|%v|%s|%+v|%x|%x|dl=%d|bof=%d[%s]|pf=%d|links=%d|parent=%s", a.NameID, a.Active, a.Reason, info, a.Encryption.AESKey, a.Encryption.AESIv, len(a.Downloads), len(a.BofCallbacks), bof, len(a.PortFwds), len(a.Pivots.Links), par)
}

type worldE struct {
	rec    *tsx.Recorder
	ep     *agentfx.Endpoint
	ses    []*agentfx.Session
	mod    []*agentM
	parent []int
	loot   string
	base   []map[string]int // per agent: events of a request from it that carries no callback and hands out nothing
	relay  *relayWorld
	// fault dimension (fault_test.go)
	tee       *teeTS      // the real Teamserver object next to the recorder, for faults behind it
	pending   *faultRun   // the fault of the running step, until the request it is meant for comes
	armed     *faultRun   // the next request is served under this fault
	lastFault *faultRun   // the fault the last request was served under
	fired     []*faultRun // every fault a request was served under
	replyLost bool        // the reply of the last request did not reach the agent
}

// ts is the teamserver the case runs on.
func (w *worldE) ts() agent.TeamServer {
	if w.tee != nil {
		return w.tee
	}
	return w.rec
}

// arm puts the step's fault on the next request if that is the request (phase) it was generated for.
func (w *worldE) arm(phase, stepKind string) {
	if w.pending != nil && w.pending.f.Phase == phase {
		w.armed, w.pending = w.pending, nil
		w.armed.stepKind = stepKind
	}
}

// evKey identifies an event for the bookkeeping subtraction.  A relaying hop prints an
// empty console message for every SMB_COMMAND it forwards (TaskDispatch COMMAND_PIVOT
// ends with AgentConsole(Message) whatever happened), so console events carry their text.
func evKey(e tsx.Event) string {
	if e.Kind == "console" {
		return "console@" + e.Agent + ":" + e.Out["Type"] + ":" + e.Out["Message"] + ":" + e.Out["Output"]
	}
	return e.Kind + "@" + e.Agent
}

// chain returns the agents from the root down to g.
func (w *worldE) chain(g int) []int {
	var c []int
	for x := g; x >= 0; x = w.parent[x] {
		c = append([]int{x}, c...)
	}
	return c
}

func (w *worldE) root(g int) int { return w.chain(g)[0] }

// post sends one batch of agent g (GET_JOB header + subs): directly for a root, wrapped
// hop by hop in COMMAND_PIVOT / SMB_COMMAND callbacks of its ancestors otherwise
// (Pivot.c PivotPush: [DEMON_PIVOT_SMB_COMMAND][bytes: the child's package]).
func (w *worldE) post(g int, subs []demonref.Sub) (int, []demonref.Task, bool) {
	ch := w.chain(g)
	s := w.ses[g]
	pkg := demonref.Batch(s.ID, 0, subs, s.Key, s.IV)
	for j := len(ch) - 2; j >= 0; j-- {
		h := w.ses[ch[j]]
		body := (&demonref.Enc{}).Int32(demonref.PivotSmbCmd).Bytes(pkg).B
		pkg = demonref.Batch(h.ID, 0, []demonref.Sub{{Cmd: demonref.CmdPivot, ReqID: 0, Body: body}}, h.Key, h.IV)
	}
	w.lastFault = nil
	code, resp := w.serve(pkg)
	if code != 200 {
		return code, nil, false
	}
	r := w.ses[ch[0]]
	tasks, ok := demonref.ReadTasks(resp, r.Key, r.IV, 0, "")
	return code, tasks, ok
}

// effects removes the per-request bookkeeping events of a request from agent g.
func (w *worldE) effects(g int, ev []tsx.Event) []tsx.Event {
	left := map[string]int{}
	for k, v := range w.base[g] {
		left[k] = v
	}
	var out []tsx.Event
	for _, e := range ev {
		if left[evKey(e)] > 0 {
			left[evKey(e)]--
			continue
		}
		out = append(out, e)
	}
	return out
}

func (w *worldE) snapAll() ([]snap, string) {
	var s []snap
	for _, x := range w.ses {
		s = append(s, snap{tasks: taskIDs(x.A), session: sessionPrint(x.A)})
	}
	return s, tsx.TreeString(w.loot)
}

func describe(ev []tsx.Event) string {
	var s []string
	for _, e := range ev {
		d := e.Kind + "(" + e.Agent
		if m := e.Out["Message"]; m != "" {
			d += ": " + m
		}
		s = append(s, d+")")
	}
	return strings.Join(s, ", ")
}

// diffSnaps says what changed between two world snapshots (all agents), "" if nothing.
func diffSnaps(a, b []snap, ta, tb string) string {
	var d []string
	for i := range a {
		if a[i].tasks != b[i].tasks {
			d = append(d, fmt.Sprintf("agent %d outstanding ids [%s] -> [%s]", i, a[i].tasks, b[i].tasks))
		}
		if a[i].session != b[i].session {
			d = append(d, fmt.Sprintf("agent %d session data changed", i))
		}
	}
	if ta != tb {
		d = append(d, "loot tree changed")
	}
	return strings.Join(d, "; ")
}

// ---------------------------------------------------------------- check

type obsE struct {
	rejectedPlausible                                            map[string]bool // src/kind-class of rejected callbacks with effectful kind
	accEffect, accNoEffect, rejected, relayAcc, logsAcc, replays int
	labels                                                       map[string]bool
	skipped                                                      string
}

var (
	lastE  obsE
	skipsE = map[string]int{}
)

// skipE ends a case without a verdict: the relay fixture (real sockets, goroutines of the
// teamserver) did not get into the state the history asks for in time.
func skipE(why string) *core.Violation { return core.V("skip|"+why, "no verdict") }

func checkE(c CaseE) *core.Violation {
	v := checkE0(c)
	if v != nil && strings.HasPrefix(v.Sig, "skip|") {
		lastE.skipped = strings.TrimPrefix(v.Sig, "skip|")
		skipsE[lastE.skipped]++
		cp := map[string]int{}
		for k, n := range skipsE {
			cp[k] = n
		}
		core.SetExtra("cases_without_verdict", cp)
		return nil
	}
	return v
}

func checkE0(c CaseE) (viol *core.Violation) {
	lastE = obsE{rejectedPlausible: map[string]bool{}, labels: map[string]bool{}}
	root, err := os.MkdirTemp("", "c05-")
	if err != nil {
		return core.V("harness|tempdir", "%v", err)
	}
	defer os.RemoveAll(root)
	w := &worldE{rec: tsx.NewRecorder(), loot: root + "/loot"}
	w.rec.Logs = c.Logs
	tsx.SetLoot(w.loot)
	ep, err := agentfx.Shared(w.rec)
	if err != nil {
		return core.V("harness|fixture", "%v", err)
	}
	w.ep = ep
	if c.Fault.needsTee() {
		tee, err := newTee(w.rec, root)
		if err != nil {
			return core.V("harness|fixture", "%v", err)
		}
		defer tsx.CloseTS(tee.real)
		w.tee = tee
		ep.H.Teamserver = tee
	}
	defer func() {
		any := false
		for _, fr := range w.fired {
			if fr.broken != "" && (viol == nil || !strings.HasPrefix(viol.Sig, "skip|")) {
				viol = skipE("fault-" + fr.broken)
			}
			if fr.fired {
				any = true
				lastE.labels[fr.label()] = true
				if fr.note != "" {
					lastE.labels["fault-note:"+fr.f.Dep+":"+fr.f.How+":"+fr.note] = true
				}
			} else if fr.note != "" {
				lastE.labels["fault-without-object:"+fr.f.Dep+":"+fr.f.How+":"+fr.note] = true
			}
		}
		if c.Fault != nil {
			if any {
				lastE.labels["fault-case"] = true
			} else {
				lastE.labels["fault-case:no-request-of-the-step-met-the-fault"] = true
			}
		}
	}()
	w.relayInit(c.Relay)
	defer w.relayClose()
	defer func() {
		// downloads keep their loot files open
		for _, s := range w.ses {
			for _, d := range s.A.Downloads {
				if d.File != nil {
					d.File.Close()
				}
			}
		}
	}()

	// ---- build the forest
	for i := 0; i < c.Agents; i++ {
		p := -1
		if i < len(c.Parents) && c.Parents[i] >= 0 && c.Parents[i] < i {
			p = c.Parents[i]
		}
		id := 0x0c050001 + uint32(i)*0x10
		if p < 0 {
			s, err := ep.Register(w.rec, id)
			if err != nil {
				return core.V("harness|fixture", "%v", err)
			}
			w.ses = append(w.ses, s)
		} else {
			// Pivot.c PivotAdd / CommandPivot SMB_CONNECT: [DEMON_PIVOT_SMB_CONNECT][Success=1][bytes: the
			// child's DEMON_INIT package read from the pipe], sent by the parent
			key, iv := agentfx.KeyFor(id)
			init := agentfx.Meta(id).InitPackage(id, key, iv)
			body := (&demonref.Enc{}).Int32(demonref.PivotSmbCon).Int32(1).Bytes(init).B
			code, _, ok := w.post(p, []demonref.Sub{{Cmd: demonref.CmdPivot, ReqID: 0, Body: body}})
			a := w.rec.AgentInstance(int(id))
			if code != 200 || !ok || a == nil || a.Pivots.Parent != w.ses[p].A {
				return core.V("harness|fixture", "SMB connect of agent %d below agent %d failed (HTTP %d)", i, p, code)
			}
			w.ses = append(w.ses, &agentfx.Session{ID: id, Key: key, IV: iv, A: a})
		}
		w.parent = append(w.parent, p)
		w.mod = append(w.mod, &agentM{})
	}
	w.rec.Take()
	// calibration: what does a request of agent g without callbacks and with nothing queued record?
	for g := range w.ses {
		code, tasks, ok := w.post(g, nil)
		if code != 200 || !ok || !agentfx.IsNoJob(tasks) {
			return core.V("harness|calibration", "plain check-in of fresh agent %d: HTTP %d", g, code)
		}
		b := map[string]int{}
		for _, e := range w.rec.Take() {
			switch {
			case e.Kind == "update" || e.Kind == "lasttime":
			case e.Kind == "console" && e.Out["Message"] == "" && e.Out["Output"] == "" && w.parent[g] >= 0:
			default:
				return core.V("harness|calibration", "a body-less check-in of agent %d records an unexpected %q event", g, e.Kind)
			}
			b[evKey(e)]++
		}
		w.base = append(w.base, b)
	}

	nextID := uint32(0x4d000001)
	known := map[uint32]bool{} // every id ever issued to anybody
	// drain empties the queue of g's root, so that a following request hands out nothing.
	// Tasks seen on the wire that the model does not know yet are the mem-file chunk tasks of
	// an upload to that (directly connected) agent: they were issued to it.
	drain := func(g int) *core.Violation {
		r := w.root(g)
		for guard := 0; guard < 64; guard++ {
			if guard == 0 && w.pending != nil {
				if queueLen(w.ses[r].A) > 0 {
					w.arm("drain", "hand-out-with-tasks")
				} else {
					w.arm("drain", "check-in-nothing-queued")
				}
			}
			code, tasks, ok := w.post(r, nil)
			w.rec.Take()
			if w.replyLost {
				// the agent never saw this reply: it simply checks in again
				continue
			}
			if code != 200 || !ok {
				return core.V("harness|handout", "hand-out check-in answered HTTP %d", code)
			}
			if agentfx.IsNoJob(tasks) {
				return nil
			}
			for _, t := range tasks {
				if t.Cmd == agent.COMMAND_MEM_FILE && !known[t.ReqID] && t.ReqID != 0 {
					known[t.ReqID] = true
					w.mod[r].out = append(w.mod[r].out, &taskM{id: t.ReqID, cmd: agent.COMMAND_MEM_FILE, via: "chunk"})
				}
			}
		}
		return core.V("harness|handout", "queue of agent %d does not drain", r)
	}
	markRelayed := func(g int) {
		for x := w.parent[g]; x >= 0; x = w.parent[x] {
			w.mod[x].relayedTo = true
		}
	}

	// sendAs posts one callback of agent g in a request of its own and returns what it did.
	// tolerant: the callback may make the teamserver queue relay jobs, which the same request
	// then hands out.  Otherwise a request that hands something out although everything was
	// drained can only carry a late job of a relay goroutine: no verdict.
	sendAs := func(g int, sub demonref.Sub, tolerant bool) (eff []tsx.Event, change string, v *core.Violation) {
		before, tb := w.snapAll()
		w.rec.Take()
		w.arm("send", "callback-request")
		code, tasks, ok := w.post(g, []demonref.Sub{sub})
		ev := w.rec.Take()
		if w.replyLost {
			// the callback was processed, the (NoJob) reply did not get through
			after, ta := w.snapAll()
			return w.effects(g, ev), diffSnaps(before, after, tb, ta), nil
		}
		if code != 200 || !ok {
			return nil, "", core.V("harness|callback-request", "callback request answered HTTP %d (decodable=%v, %d tasks)", code, ok, len(tasks))
		}
		if !agentfx.IsNoJob(tasks) && !tolerant {
			if len(w.relay.clients) > 0 {
				return nil, "", skipE("late-relay-job")
			}
			return nil, "", core.V("harness|callback-request", "callback request answered HTTP %d (decodable=%v, %d tasks)", code, ok, len(tasks))
		}
		after, ta := w.snapAll()
		return w.effects(g, ev), diffSnaps(before, after, tb, ta), nil
	}
	// unissued: request ids the teamserver holds as outstanding for agent x that were never issued
	// to x or are completed by the model.  Every id the operator side issues goes through the
	// model (TaskPrepare's chunk tasks are read off right after the call), so whatever else
	// shows up there was put there by the teamserver on its own.
	probed := map[uint32]bool{}
	unissued := func(x int) []uint32 {
		has := map[uint32]bool{}
		for _, t := range w.mod[x].out {
			has[t.id] = true
		}
		var ids []uint32
		a := w.ses[x].A
		a.QueueMtx.Lock()
		for _, t := range a.Tasks {
			if !has[t.RequestID] && !probed[t.RequestID] {
				ids = append(ids, t.RequestID)
			}
		}
		a.QueueMtx.Unlock()
		return ids
	}
	stepDesc := ""
	afterStep := func() *core.Violation {
		for x := range w.ses {
			for _, id := range unissued(x) {
				probed[id] = true
				lastE.labels["unissued-outstanding-id-probed"] = true
				if v := drain(x); v != nil {
					return v
				}
				eff, change, v := sendAs(x, demonref.Sub{Cmd: agent.COMMAND_OUTPUT, ReqID: id, Body: kindByName["output"].Build(w.ses[x], "unissued", 0)}, false)
				if v != nil {
					return v
				}
				if len(eff) > 0 || change != "" {
					for _, t := range w.mod[x].done {
						if t.id == id {
							return core.V("completed-id-accepted|completed-by="+t.doneBy, "agent %d: request id %#x was completed by its final %s callback, yet the teamserver still lists it as outstanding after %s and acted upon an output callback carrying it: %s", x, id, t.doneBy, stepDesc, describe(eff))
						}
					}
					return core.V("unissued-id-accepted|after="+stepDesc, "agent %d: after %s the teamserver lists request id %#x as outstanding although no task with that id was ever issued to this agent, and an output callback carrying it was acted upon: %s %s", x, stepDesc, id, describe(eff), change)
				}
			}
		}
		return nil
	}

	for i, op := range c.Ops {
		w.pending = nil
		if i > 0 {
			if v := afterStep(); v != nil {
				return v
			}
		}
		stepDesc = op.Kind
		g := op.Agent % c.Agents
		m := w.mod[g]
		ses := w.ses[g]
		w.pending = nil
		if c.Fault != nil && i == c.Fault.Step%len(c.Ops) {
			w.pending = &faultRun{f: *c.Fault, g: g}
		}
		switch op.Kind {
		case "socks":
			cond := clientConds[op.Variant%len(clientConds)]
			if why := w.addProxyClient(g, cond, op.N); why != "" {
				return skipE(why)
			}
			// the connect job: queued by the teamserver on its own, no request id
			m.ownRelay = true
			markRelayed(g)
			lastE.labels["relay-state:socks-client-"+cond] = true
		case "sockskill":
			port := w.relay.port[g]
			if port == "" {
				continue
			}
			before := socksState(ses.A)
			w.operatorSocket(g, "socks kill", port)
			w.rec.Take()
			delete(w.relay.port, g)
			w.settle(g, before)
			lastE.labels["relay-state:socks-kill"] = true
		case "issue":
			cmd := issueCmds[op.Cmd%len(issueCmds)]
			id := nextID
			nextID += 0x11
			known[id] = true
			// what dispatch.go does after TaskPrepare; the task body is irrelevant here
			ses.A.AddJobToQueue(agent.Job{RequestID: id, Command: cmd, Data: []interface{}{}})
			m.out = append(m.out, &taskM{id: id, cmd: cmd, via: "queue"})
			markRelayed(g)
			lastE.labels["issued:bare-queued-job"] = true
		case "optask":
			// what cmd/server/dispatch.go does with a task request of a client: TaskPrepare with
			// the request's option map; the job it returns is queued, a request it refuses is not.
			// The mem-file chunk tasks TaskPrepare queues on the way carry random request ids:
			// they are read off the agent's request list (that is "record on issue").
			oc := opCmds[op.Cmd%len(opCmds)]
			id := nextID
			nextID += 0x11
			known[id] = true
			opts, state, _ := oc.Build(op)
			had := map[uint32]bool{}
			for _, t := range ses.A.Tasks {
				had[t.RequestID] = true
			}
			msg := map[string]string{}
			job, err := ses.A.TaskPrepare(int(oc.Cmd), operatorInfo(id, ses.A.NameID, oc, opts), &msg, fmt.Sprintf("client-%d", g), w.ts())
			issued := err == nil && job != nil
			if issued {
				if job.RequestID != id {
					return core.V("harness|optask", "TaskPrepare(%s) returned request id %#x for TaskID %08X", oc.Name, job.RequestID, id)
				}
				ses.A.AddJobToQueue(*job)
			}
			chunks := 0
			for _, t := range ses.A.Tasks {
				if !had[t.RequestID] && t.RequestID != id && t.Command == agent.COMMAND_MEM_FILE && !known[t.RequestID] {
					known[t.RequestID] = true
					m.out = append(m.out, &taskM{id: t.RequestID, cmd: agent.COMMAND_MEM_FILE, via: "chunk"})
					chunks++
				}
			}
			lastE.labels["issued:operator-path:"+oc.Name] = true
			if chunks > 0 {
				lastE.labels["operator-path-queued-chunk-tasks"] = true
			}
			if issued {
				m.out = append(m.out, &taskM{id: id, cmd: oc.Cmd, via: "operator", state: state})
				if state != "" {
					lastE.labels["operator-state:"+state] = true
				} else if oc.Cmd == agent.COMMAND_INLINEEXECUTE {
					lastE.labels["operator-state:bof-without-callback"] = true
				}
			} else {
				m.refused = append(m.refused, id)
				lastE.labels["operator-request-refused:"+oc.Name] = true
				if state != "" {
					lastE.labels["operator-state:"+state] = true
				}
			}
			if chunks > 0 || issued {
				markRelayed(g)
			}
			w.rec.Take()
		case "upload":
			// operator fs upload: TaskPrepare queues the mem-file chunk tasks (random request ids)
			// itself, dispatch.go queues the command.  Only for directly connected agents, where
			// the chunk ids can be learnt from the wire.
			if w.parent[g] >= 0 {
				continue
			}
			id := nextID
			nextID += 0x11
			known[id] = true
			content := []byte(strings.Repeat("u", int(op.N)))
			info := map[string]interface{}{
				"TaskID": fmt.Sprintf("%08X", id), "CommandLine": "upload", "DemonID": ses.A.NameID,
				"CommandID": strconv.Itoa(agent.COMMAND_FS), "SubCommand": "upload",
				"Arguments": base64.StdEncoding.EncodeToString([]byte("C:\\up.bin")) + ";" + base64.StdEncoding.EncodeToString(content),
			}
			msg := map[string]string{}
			had := map[uint32]bool{}
			for _, t := range ses.A.Tasks {
				had[t.RequestID] = true
			}
			job, err := ses.A.TaskPrepare(agent.COMMAND_FS, info, &msg, "client", w.ts())
			if err != nil || job == nil || job.RequestID != id {
				return core.V("harness|upload", "TaskPrepare(fs upload) failed: %v", err)
			}
			ses.A.AddJobToQueue(*job)
			for _, t := range ses.A.Tasks {
				if !had[t.RequestID] && t.RequestID != id && t.Command == agent.COMMAND_MEM_FILE && !known[t.RequestID] {
					known[t.RequestID] = true
					m.out = append(m.out, &taskM{id: t.RequestID, cmd: agent.COMMAND_MEM_FILE, via: "chunk"})
				}
			}
			m.out = append(m.out, &taskM{id: id, cmd: agent.COMMAND_FS, via: "operator"})
			lastE.labels["issued:operator-path:fs-upload"] = true
			w.rec.Take()
		case "relay":
			// what the SOCKS reader goroutine queues (demons.go, socks add handler): no request id
			ses.A.AddJobToQueue(agent.Job{Command: agent.COMMAND_SOCKET, Data: []interface{}{agent.SOCKET_COMMAND_WRITE, int32(i + 1), []byte(strings.Repeat("r", int(op.N)))}})
			m.ownRelay = true
			markRelayed(g)
		case "handout":
			if v := drain(g); v != nil {
				return v
			}
		case "session":
			// nothing of this is a callback to a task; the history simply goes on afterwards and the
			// gate is judged by the callbacks and probes that follow
			if v := drain(g); v != nil {
				return v
			}
			msg := sessionMsgs[op.Variant%len(sessionMsgs)]
			lastE.labels["session:"+msg] = true
			if len(m.out) > 0 {
				lastE.labels["session-msg-with-outstanding-task"] = true
			}
			code := 200
			w.arm("send", "session-message")
			switch msg {
			case "plain":
				code, _, _ = w.post(g, nil)
			default:
				key, iv, meta := ses.Key, ses.IV, agentfx.Meta(ses.ID)
				if msg == "reinit-new" {
					key, iv = agentfx.KeyFor(ses.ID ^ 0x5a5a)
					meta.Hostname, meta.Username, meta.PID, meta.Sleep = "OTHERHOST", "other", 999, 30
				}
				init := meta.InitPackage(ses.ID, key, iv)
				if w.parent[g] < 0 {
					w.lastFault = nil
					code, _ = w.serve(init)
				} else {
					lastE.labels["session:smb-reconnect"] = true
					body := (&demonref.Enc{}).Int32(demonref.PivotSmbCon).Int32(1).Bytes(init).B
					code, _, _ = w.post(w.parent[g], []demonref.Sub{{Cmd: demonref.CmdPivot, ReqID: 0, Body: body}})
				}
			}
			w.rec.Take()
			if code != 200 && !w.replyLost {
				return core.V("harness|session-message", "%s of agent %d answered HTTP %d", msg, g, code)
			}
		case "callback":
			// everything queued in g's tree is handed out first, so that the request below carries
			// the callback only and its recorded events are bookkeeping + the callback's effects
			if v := drain(g); v != nil {
				return v
			}
			// ---- choose id and kind
			var id uint32
			var viaCmd uint32
			var picked *taskM
			haveCmd := false
			doneBy := ""
			src := op.Src
			switch src {
			case "outstanding":
				cand := m.out
				if op.Main || op.Latest {
					cand = nil
					for _, t := range m.out {
						if t.via != "chunk" {
							cand = append(cand, t)
						}
					}
					if len(cand) == 0 && op.Latest {
						cand = m.out
					}
				}
				if len(cand) == 0 {
					src = "never"
				} else {
					t := cand[op.Pick%len(cand)]
					if op.Latest {
						t = cand[len(cand)-1]
					}
					id, viaCmd, haveCmd, picked = t.id, t.cmd, true, t
				}
			case "completed":
				if len(m.done) == 0 {
					src = "never"
				} else {
					t := m.done[op.Pick%len(m.done)]
					if op.Latest {
						t = m.done[len(m.done)-1]
					}
					id, viaCmd, haveCmd, doneBy, picked = t.id, t.cmd, true, t.doneBy, t
				}
			case "foreign":
				// ids outstanding elsewhere; those of g's own descendants (whose wrapped tasks
				// passed through g) first
				var desc, other []*taskM
				for h := range w.mod {
					if h == g {
						continue
					}
					below := false
					for x := w.parent[h]; x >= 0; x = w.parent[x] {
						if x == g {
							below = true
						}
					}
					if below {
						desc = append(desc, w.mod[h].out...)
					} else {
						other = append(other, w.mod[h].out...)
					}
				}
				cand := append(desc, other...)
				if len(cand) == 0 {
					src = "never"
				} else {
					t := cand[op.Pick%len(cand)]
					id, viaCmd, haveCmd = t.id, t.cmd, true
					if op.Pick%len(cand) < len(desc) {
						src = "descendant"
					}
				}
			}
			if src == "never" && len(m.refused) > 0 && op.Pick%2 == 1 {
				// the TaskID of an operator request that TaskPrepare refused: never queued
				src = "refused"
				id = m.refused[op.Pick/2%len(m.refused)]
			}
			if src == "never" {
				id = 0x7e000000 + uint32(i)*0x101 + op.N%0x100
				for known[id] {
					id++
				}
			}
			if src == "zero" {
				id = 0
			}
			var k kind
			if fk, ok := kindByName[op.Force]; ok {
				k = fk
			} else if op.RelayK {
				k = kinds[relayIdx[op.Variant%len(relayIdx)]]
			} else if ek := endKinds(viaCmd); op.End && haveCmd && len(ek) > 0 {
				k = ek[op.Variant%len(ek)]
			} else if haveCmd && (!op.AnyKind || src == "outstanding") {
				app := append(append([]int{}, kindsByCmd[viaCmd]...), genericIdx...)
				k = kinds[app[op.Variant%len(app)]]
			} else {
				k = kinds[op.Variant%len(kinds)]
			}
			body := k.Build(ses, op.Text, op.N)
			sub := demonref.Sub{Cmd: k.Cmd, ReqID: id, Body: body}
			exempt := k.Relay || (k.Beacon && c.Logs)
			outstanding := src == "outstanding"
			unknownSig := func() string {
				return "unknown-id-accepted|src=" + src + "|ctx=" + m.ctx() + "|kind=" + kindClass(k)
			}

			stepDesc = "callback:" + k.Name
			socksBefore := socksState(ses.A)
			send := func() (eff []tsx.Event, change string, v *core.Violation) {
				return sendAs(g, sub, k.Relay)
			}

			// white-box, for the statistics only: does the implementation still hold the id?
			// (it forgets ids on some kinds the finality table does not list, e.g. demon-info)
			implHas := strings.Contains(","+taskIDs(ses.A)+",", fmt.Sprintf(",%x,", id))
			eff, change, v := send()
			if v != nil {
				return v
			}
			had := len(eff) > 0 || change != ""
			// the fault this callback's own request was served under, if any
			fr := w.lastFault
			if fr != nil {
				fr.stepKind = fr.callbackStep(k)
				if fr.fired {
					lastE.labels["callback-under-fault:"+kindClass(k)+"/id-"+src] = true
				}
			}
			via := "direct"
			if w.parent[g] >= 0 {
				via = "relayed"
			}
			switch {
			case exempt:
				if k.Relay {
					lastE.relayAcc++
				} else {
					lastE.logsAcc++
				}
				if !k.Relay {
					break
				}
				// an always-accepted callback may carry any id; it makes none acceptable.  The
				// standard probe: unless that id was issued to this agent and is still outstanding,
				// a non-relay callback with the same id is refused - also after whatever the relay
				// callback made the teamserver do (close a socket, queue a job for the agent, ...)
				lastE.labels["relay-callback:"+k.Name] = true
				lastE.labels["relay-callback-id:"+src] = true
				if cl := w.relay.clients[g]; len(cl) > 0 && op.N%8 < 6 && strings.HasPrefix(k.Name, "socket-connect") {
					lastE.labels[relayLabel(cl[len(cl)-1].cond, k)] = true
				}
				w.settle(g, socksBefore)
				if m.find(id) != nil {
					break
				}
				if v := drain(g); v != nil {
					return v
				}
				pk := kindByName[[]string{"output", "sleep"}[op.N/8%2]]
				eff, change, v := sendAs(g, demonref.Sub{Cmd: pk.Cmd, ReqID: id, Body: pk.Build(ses, op.Text, op.N)}, false)
				if v != nil {
					return v
				}
				lastE.labels["probed-after-relay-callback:"+src] = true
				lastE.rejected++
				if len(eff) > 0 || change != "" {
					return core.V("id-accepted-after-relay-callback|src="+src+"|relay="+k.Name, "agent %d (%s): a %s callback carried request id %#x (%s); afterwards a %s callback with that id was acted upon: %s %s", g, via, k.Name, id, srcText(src), pk.Name, describe(eff), change)
				}
			case outstanding:
				// (3) non-vacuity bookkeeping; and the model: a final callback completes the task
				if had {
					lastE.accEffect++
					lastE.labels["accepted:"+k.Name] = true
					lastE.labels["accepted-"+via] = true
				} else if implHas {
					lastE.accNoEffect++
					lastE.labels["accepted-no-effect:"+k.Name] = true
				} else {
					lastE.labels["id-already-forgotten-by-teamserver"] = true
				}
				if k.Final && !had && fr != nil && fr.fired && implHas {
					// HEAD as the model: a dependency that fails while a final callback is processed costs the
					// file / log line / row / reply, the task is answered all the same
					lastE.labels["final-callback-under-fault-without-visible-effect"] = true
				}
				ends := k.Final && (had || fr != nil && fr.fired && implHas)
				if k.Final && !had && implHas && (fr == nil || !fr.fired) {
					// (2b) a callback of the finality table was processed with an id that is outstanding
					// (model) and that the teamserver held, no dependency failing, and nothing of it is
					// visible - not even the outstanding-id list changed.  It was the task's final
					// callback all the same: the id is no longer accepted.  Probe with an output callback.
					lastE.labels["final-callback-without-visible-effect:"+k.Name] = true
					pk := kindByName["output"]
					eff3, change3, v := sendAs(g, demonref.Sub{Cmd: pk.Cmd, ReqID: id, Body: pk.Build(ses, op.Text, op.N)}, false)
					if v != nil {
						return v
					}
					if len(eff3) > 0 || change3 != "" {
						return core.V("completed-id-accepted|completed-by="+k.Name, "agent %d (%s): the final %s callback of request %#x was processed (nothing visible, the id stayed listed as outstanding); a later output callback carrying that id was acted upon: %s %s", g, via, k.Name, id, describe(eff3), change3)
					}
					ends = true
				}
				if ends {
					t := m.find(id)
					t.doneBy = k.Name
					if t.via == "operator" {
						st := t.state
						if st == "" {
							st = "no-state"
						}
						lastE.labels["operator-task-ended-by-final-callback"] = true
						if t.cmd == agent.COMMAND_INLINEEXECUTE {
							lastE.labels["operator-task-ended:"+k.Name+"/"+st] = true
						}
					}
					for j := range m.out {
						if m.out[j] == t {
							m.out = append(m.out[:j], m.out[j+1:]...)
							break
						}
					}
					m.done = append(m.done, t)
				}
			default:
				// (1) no effect at all
				lastE.rejected++
				if src == "completed" && picked != nil && picked.via == "operator" {
					st := picked.state
					if st == "" {
						st = "no-state"
					}
					lastE.labels["rejected-after-operator-task-ended/"+st] = true
					if picked.cmd == agent.COMMAND_INLINEEXECUTE {
						lastE.labels["rejected-after-operator-task-ended:"+doneBy+"/"+st] = true
					}
				}
				if !k.Quiet && (src == "completed" || src == "foreign" || src == "descendant" || src == "refused") {
					lastE.rejectedPlausible[src+"/"+kindClass(k)] = true
				}
				lastE.labels["rejected:"+src] = true
				lastE.labels["rejected-"+via] = true
				if src == "zero" {
					lastE.labels["zero-probe:"+m.ctx()] = true
				}
				if had {
					what := describe(eff)
					if change != "" {
						if what != "" {
							what += "; "
						}
						what += change
					}
					if src == "completed" {
						return core.V("completed-id-accepted|completed-by="+doneBy, "agent %d: request id %#x was completed by its final %s callback, yet a later %s callback carrying it was acted upon: %s", g, id, doneBy, k.Name, what)
					}
					return core.V(unknownSig(), "agent %d (%s, %s): a %s callback with request id %#x (%s) was acted upon: %s", g, via, ctxText(m.ctx()), k.Name, id, srcText(src), what)
				}
			}

			// (2) replay of the identical package
			if op.Replay && !exempt {
				stillOut := m.find(id) != nil
				eff2, change2, v := send()
				if v != nil {
					return v
				}
				lastE.replays++
				if !stillOut && (len(eff2) > 0 || change2 != "") {
					what := describe(eff2)
					if change2 != "" {
						what += "; " + change2
					}
					if outstanding && k.Final {
						lastE.labels["final-replayed:"+k.Name] = true
						return core.V("completed-id-accepted|completed-by="+k.Name, "agent %d: the final %s callback of request %#x was processed; replaying the same package byte for byte was acted upon again: %s", g, k.Name, id, what)
					}
					if src == "completed" {
						return core.V("completed-id-accepted|completed-by="+doneBy, "agent %d: replay of a %s callback with completed request id %#x was acted upon: %s", g, k.Name, id, what)
					}
					return core.V(unknownSig(), "agent %d (%s, %s): replay of a %s callback with request id %#x (%s) was acted upon: %s", g, via, ctxText(m.ctx()), k.Name, id, srcText(src), what)
				}
				if outstanding && k.Final && !stillOut {
					lastE.labels["final-replayed:"+k.Name] = true
				}
			}
		}
	}
	w.pending = nil
	return afterStep()
}

func srcText(src string) string {
	switch src {
	case "foreign":
		return "outstanding at another agent only"
	case "descendant":
		return "outstanding at an SMB descendant of this agent only"
	case "never":
		return "never issued"
	case "refused":
		return "the TaskID of an operator request that TaskPrepare refused, never issued"
	case "zero":
		return "zero, never issued to anybody"
	}
	return src
}

func ctxText(ctx string) string {
	switch ctx {
	case "own-relay-job":
		return "a relay job without request id had been queued for it"
	case "relayed-for-descendant":
		return "wrapped pivot jobs for a descendant had passed through its queue"
	}
	return "nothing but its own tasks ever queued"
}

// kindClass groups kinds for signatures and fingerprints.
func kindClass(k kind) string {
	switch {
	case k.Relay:
		return "relay"
	case k.Beacon:
		return "beacon-output"
	case k.Final:
		return "final"
	}
	return "streaming"
}

func classifyE(c CaseE) core.Class {
	o := lastE
	var cl core.Class
	for l := range o.labels {
		cl.Labels = append(cl.Labels, l)
	}
	var plaus []string
	for p := range o.rejectedPlausible {
		plaus = append(plaus, p)
		cl.Labels = append(cl.Labels, "rejected-plausible:"+p)
	}
	if o.skipped != "" {
		cl.Labels = append(cl.Labels, "no-verdict:"+o.skipped)
	}
	if c.Relay {
		cl.Labels = append(cl.Labels, "relay-state-case")
	}
	sort.Strings(plaus)
	sort.Strings(cl.Labels)
	if o.accEffect > 0 {
		cl.Labels = append(cl.Labels, "accepted-with-effect")
	}
	if o.accNoEffect > 0 {
		cl.Labels = append(cl.Labels, "accepted-without-effect")
	}
	if o.relayAcc > 0 {
		cl.Labels = append(cl.Labels, "relay-kind")
	}
	if o.logsAcc > 0 {
		cl.Labels = append(cl.Labels, "beacon-output-with-logs")
	}
	if o.replays > 0 {
		cl.Labels = append(cl.Labels, "replay")
	}
	maxDepth, children := 0, 0
	depth := make([]int, c.Agents)
	for i := 0; i < c.Agents && i < len(c.Parents); i++ {
		if p := c.Parents[i]; p >= 0 && p < i {
			depth[i] = depth[p] + 1
			children++
			if depth[i] > maxDepth {
				maxDepth = depth[i]
			}
		}
	}
	zero := []string{}
	for _, z := range []string{"plain", "own-relay-job", "relayed-for-descendant"} {
		if o.labels["zero-probe:"+z] {
			zero = append(zero, z[:3])
		}
	}
	cl.Labels = append(cl.Labels, fmt.Sprintf("agents:%d", c.Agents), fmt.Sprintf("logs:%v", c.Logs), fmt.Sprintf("pivot-depth:%d", maxDepth))
	cl.NonTrivial = len(plaus) > 0
	srcs := []string{}
	for _, sname := range []string{"completed", "foreign", "descendant"} {
		for _, p := range plaus {
			if strings.HasPrefix(p, sname+"/") {
				srcs = append(srcs, sname[:4])
				break
			}
		}
	}
	cl.Fingerprint = fmt.Sprintf("d=%d|logs=%v|rejected=%s|zero=%s", maxDepth, c.Logs, strings.Join(srcs, "+"), strings.Join(zero, "+"))
	return cl
}

func TestC05a(t *testing.T) {
	core.Run(t, core.Spec[CaseE]{
		Property: "C05", Sub: "a",
		Rule: fmt.Sprintf("histories of 1-30 operations over a forest of 2-4 agents (roots registered through the real agent endpoint, SMB children linked by a real SMB_CONNECT callback of their parent, depth <= 2; tsx.Recorder as teamserver, private loot tree, SendLogs on in 1/4 of the cases): issue a task to any agent (AddJobToQueue with a fresh request id, one of %d commands; for a child it is wrapped into COMMAND_PIVOT jobs of its ancestors), operator fs-upload (mem-file chunk tasks, direct agents), an operator task request to any agent through the real TaskPrepare with a generated option map, queued like dispatch.go does (%d commands: inline execute with HasCallback true / false / absent - true registers a BofCallbacks entry keyed by the request id -, all flag values, object file and argument sizes 0-599 / 0-39 bytes, each uploaded as mem-file chunk tasks with request ids of their own; dotnet inline execute (assembly as mem-file); sleep, exit, checkin, proc list, screenshot, dotnet list-versions, job list; in about 1/3 of the inline-execute requests and 1/8 of the sleep / exit requests an option is missing or undecodable, so that TaskPrepare refuses the request after it may already have registered the callback entry and queued chunk tasks: such a TaskID was never issued and is probed as id source refused), in 3/4 of the cases followed by the life of that very task: hand-out, 0-2 streamed callbacks with its id, one of the callbacks that end a task of its command (inline execute: ran-ok / could-not-run / exception / symbol-not-found, dotnet: failed, else the command's final kinds) optionally replayed, 1-2 probes with the id just completed; relay job without request id (SOCKS write), hand-out, a session-level message of an agent for its own id (DEMON_INIT again with the same or another key and metadata - for a pivot child a repeated SMB_CONNECT by its parent -, a plain check-in), callback = one of %d well-formed callback kinds (payloads as Package.c builds them) sent by any agent - directly or relayed hop by hop as COMMAND_PIVOT/SMB_COMMAND - carrying an id from {own outstanding, own completed, outstanding at a descendant / at another agent, never issued, 0}, optionally replayed byte for byte. In 1/6 of the cases (label relay-state-case) the history also carries relay state, i.e. what makes the teamserver queue jobs on its own: a socks proxy started by the real operator command (TaskPrepare socks add <free port>) with real loopback clients that do the greeting and ask for a CONNECT (the teamserver queues the connect job, no request id) and are then alive / reset / half-closed when the agent answers; socks kill; a forwarded host that listens and a port nobody listens on for reverse port forwards; and callbacks of %d always-accepted relay kinds (socket connect answer ok / failed, read for the proxy client or - port forward - for the forwarded host which is dialled with the first piece, failed read / write, close, port-forward open / remove, rportfwd add / list / clear, pivot list / connect failed / disconnect of an unlinked id) aimed at the newest or another existing socket or an unknown one, carrying an id from ALL the id sources above. Oracle: (1) a callback whose id was not issued to THAT agent or is completed (kind not socket/pivot, not beacon-output with SendLogs) records nothing beyond the bookkeeping of a body-less request on the same path, leaves every agent's outstanding-id list, session data and the loot tree unchanged - whatever else the teamserver queued for or through that agent; (2) after a callback from the finality table was processed with an outstanding id, the same package again, and any later callback with that id, has no effect; (3) after every always-accepted callback whose id is not outstanding for that agent by the model - and after whatever it made the teamserver do (reply to or close the client, queue a close job, dial) - a non-relay callback (output / sleep) with the same id is refused; (4) after every step of the history, every request id the teamserver lists as outstanding for an agent but that the model never issued to it (or has completed) is probed with an output callback, which must be refused: jobs the teamserver queues on its own make no id acceptable. Non-trivial: a rejected callback of an effectful kind whose id was completed, foreign or a descendant's; distinct = (pivot depth, SendLogs, set of plausible rejected id sources, set of contexts in which id 0 was probed). FAULT DIMENSION (fault_test.go; 1/4 of the cases without relay state, labels fault:<dependency>:<operation>:<how>@<step>): ONE request of ONE step is served while ONE dependency of the teamserver fails, then the fault is lifted and the history goes on. Dependencies, all failed from outside the code under test: (socket, reply write) the http.ResponseWriter the listener's handler writes its reply to is the fixture's wrapper whose first Write returns ECONNRESET or EPIPE after 0 bytes or after k of them (writer-econnreset / writer-epipe / writer-short-write), or the request travels over a real loopback TCP connection to a net/http server of the harness in front of the same gin engine and the peer resets (SO_LINGER 0) or closes the connection after its request was read and before the handler runs (peer-reset / peer-close; the handler itself sees the write fail when the reply exceeds net/http's 4 KiB buffer - an fs-upload of 4-9 KB is queued along for that - otherwise the reply is lost after the handler returned); (file, loot write) the agents folder / the agent's folder / its Screenshots or Download folder is replaced by a regular file (dir-replaced), is read-only with everything below it (read-only; CAP_DAC_OVERRIDE given up on the locked thread), the process has no descriptor left (no-descriptor: RLIMIT_NOFILE 0 for the request), or the files of the agent's running downloads were closed underneath (descriptor-closed); (file, console log open) the same three folder faults for the console log that events.Demons.DemonOutput appends to; (database, agent update) a second connection installs CREATE TRIGGER .. BEFORE UPDATE ON TS_Agents .. RAISE(FAIL, 'database or disk is full') for the request. The last two run on a tee teamserver: the recorder plus a real server.Teamserver on a private sqlite file that receives AgentConsole / AgentUpdate / AgentAdd / Died / AgentCallbackSize. The faulted request is the first hand-out check-in of the step (hand-out step, or the hand-out a callback / session step starts with) or the step's own request (the one that carries the callback, the session message). In 3/4 of the fault cases the fault sits in a generated life of a task inserted at a generated place of the history: 1-3 tasks issued (bare job / operator path), hand-out, 0-2 ordinary steps, [for loot faults: screenshot, or download open / write(s) / close, or beacon file callbacks with the task's id - one of them under the fault, optionally with an id that is not outstanding], the final callback (optionally replayed), 1-2 probes with the completed id; in 1/4 on any request-sending step of the history. Model from HEAD (verified by experiment): a reply that is not delivered changes nothing - its jobs are off the queue, their ids stay outstanding until their final callback; a loot / console / database failure costs the file / line / row, the callback is processed all the same, and a final callback that the teamserver still held the id for ends its task even when nothing else of it is visible. Oracle unchanged: (1)-(4) under and after every fault. DOWNLOADS THE TEAMSERVER DOES NOT TRACK (kinds fs-download-open-refused, fs-download-close-unopened; labels accepted:<kind>, final-replayed:fs-download-close-unopened): a download open callback whose file name leaves the agent's loot folder (DownloadAdd refuses it: console error, nothing opened) and a download close callback (reason finished / removed) for a file id that is not among the agent's open downloads - open refused, close without open, wrong file id -; the close is the last package under the download task's request id and ends the request on the reference tree whether or not the file id is tracked, so it is in the finality table and ends generated task lives of COMMAND_FS tasks. Oracle clause (2b): when a finality-table callback was processed with an id that is outstanding by the model and held by the teamserver, no dependency failing, and nothing of it is visible (no teamserver-interface call, outstanding-id lists, session data and loot tree unchanged; label final-callback-without-visible-effect:<kind>), an output callback with the same id is sent next and must be refused - once the final callback of a task has been processed its id is no longer accepted", len(issueCmds), len(opCmds), len(kinds), len(relayIdx)),
		Gen:  genE, Check: checkE, Classify: classifyE,
		Assumptions: []string{
			"finality table: a callback kind ends its task only where the Demon handler (payloads/Demon/src/core/Command.c) transmits exactly one package of that kind as its last action and starts nothing that reports later; streaming/asynchronous kinds never complete a task in the model",
			"outstanding at agent X = request ids of tasks issued TO X (operator tasks, mem-file chunk tasks of its uploads) and not completed; relay jobs (request id 0) and wrapped pivot jobs are queued by the teamserver itself, reserve no request id and make nothing acceptable: the statement exempts relay traffic by callback kind, not by id",
			"a task counts as outstanding from the moment it is queued; callbacks are only generated after everything queued in the sender's tree was handed out",
			"only COMMAND_SOCKET dials out (PortFwdOpen) and the statement exempts it, so the outbound-connection clause has no non-exempt carrier and is not probed with a listener",
			"callback payloads are well-formed; malformed ones belong to C01",
			"jobs the teamserver queues on its own (socks connect / write / close jobs, the close job after a socks reply that could not be written, the close jobs of socks kill, port-forward write jobs, COMMAND_PIVOT wrappers) carry no request id on the reference tree and reserve none; only what the operator side issues (tasks, and the mem-file chunk tasks TaskPrepare queues for them) is ever outstanding",
			"relay fixture: the proxy clients' relay goroutines queue their close job asynchronously; the harness waits (bounded) for the jobs the last step must cause before it goes on; a request that is expected to hand out nothing but does hand out a job in a case with proxy clients is a late relay job: the case ends without verdict (counted in cases_without_verdict, label no-verdict:*), as does a case whose proxy could not be started or whose client was not served in time",
			"inline execute: the reference teamserver ends the request on whichever of RAN_OK / COULD_NO_RUN / EXCEPTION / SYMBOL_NOT_FOUND it processes first (with or without a registered BofCallbacks entry); all four are final in the table, although the Demon sends its closing RAN_OK / COULD_NO_RUN after an EXCEPTION / SYMBOL_NOT_FOUND: that closing package then carries a completed id",
			"fault dimension: what a failed dependency means is taken from the reference tree - an undelivered reply leaves the handed-out tasks outstanding (and off the queue), a failed loot / console-log / database write is reported or dropped while the callback counts as processed; a case whose fault could not be established or lifted (socket fixture, chmod, capset, setrlimit, trigger) ends without verdict (no-verdict:fault-*); fault cases carry no relay state",
			"an operator request that TaskPrepare refuses is never queued, so its TaskID was never issued - whatever TaskPrepare registered or queued for it before it found the defect; the mem-file chunk tasks TaskPrepare queues carry random request ids, which the harness reads off the agent's request list right after the call (record on issue), they count as issued to that agent",
		},
	})
}

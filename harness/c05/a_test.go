package c05

// C05: only callbacks to outstanding tasks have any effect.
// State machine over 2-3 agents registered through the real agent endpoint, with a
// tsx.Recorder as teamserver and a private loot tree; the model is the set of
// outstanding request ids per agent.

import (
	"fmt"
	"os"
	"sort"
	"strings"
	"testing"

	"Havoc/pkg/agent"

	"pgregory.net/rapid"

	"verifharness/internal/agentfx"
	"verifharness/internal/core"
	"verifharness/internal/demonref"
	"verifharness/internal/tsx"
)

type OpE struct {
	Kind    string `json:"kind"` // issue handout callback
	Agent   int    `json:"agent"`
	Cmd     int    `json:"cmd,omitempty"`     // issue: index into issueCmds
	Src     string `json:"src,omitempty"`     // callback: outstanding completed foreign never zero
	Pick    int    `json:"pick,omitempty"`    // callback: which candidate id
	Variant int    `json:"variant,omitempty"` // callback: which kind among the applicable ones
	AnyKind bool   `json:"anykind,omitempty"` // callback: kind drawn from all kinds instead of those of the id's command
	Replay  bool   `json:"replay,omitempty"`  // callback: send the identical package a second time
	Text    string `json:"text,omitempty"`
	N       uint32 `json:"n,omitempty"`
}

type CaseE struct {
	Agents int   `json:"agents"`
	Logs   bool  `json:"logs"` // SendLogs: agent log forwarding
	Ops    []OpE `json:"ops"`
}

var srcsE = []string{"outstanding", "completed", "foreign", "never", "zero"}

func genE(t *rapid.T) CaseE {
	var c CaseE
	c.Agents = 2 + agentfx.Bits(t, "agents", 1)
	c.Logs = agentfx.Weighted(t, "logs", 3, 1) == 1
	n := rapid.IntRange(1, 30).Draw(t, "nops")
	for i := 0; i < n; i++ {
		op := OpE{Agent: rapid.IntRange(0, c.Agents-1).Draw(t, "agent")}
		switch agentfx.Weighted(t, "kind", 30, 8, 62) {
		case 0:
			op.Kind = "issue"
			op.Cmd = rapid.IntRange(0, len(issueCmds)-1).Draw(t, "cmd")
		case 1:
			op.Kind = "handout"
		default:
			op.Kind = "callback"
			op.Src = srcsE[agentfx.Weighted(t, "src", 40, 22, 22, 10, 6)]
			op.Pick = rapid.IntRange(0, 7).Draw(t, "pick")
			op.Variant = agentfx.Bits(t, "variant", 7)
			op.AnyKind = agentfx.Weighted(t, "anykind", 3, 1) == 1
			op.Replay = agentfx.Weighted(t, "replay", 1, 1) == 1
			op.Text = rapid.StringOfN(rapid.RuneFrom([]rune("abcdefxyz0189")), 1, 8, -1).Draw(t, "text")
			op.N = rapid.Uint32Range(0, 100000).Draw(t, "n")
		}
		c.Ops = append(c.Ops, op)
	}
	return c
}

// ---------------------------------------------------------------- model

type taskM struct {
	id     uint32
	cmd    uint32
	handed bool
	doneBy string // name of the final kind whose callback completed it
}

type agentM struct {
	out  []*taskM // issued and not completed, in issue order
	done []*taskM
}

func (m *agentM) find(id uint32) *taskM {
	for _, t := range m.out {
		if t.id == id {
			return t
		}
	}
	return nil
}

// ---------------------------------------------------------------- observation

type snap struct {
	tasks   string
	tree    string
	session string
}

func taskIDs(a *agent.Agent) string {
	var s []string
	for _, t := range a.Tasks {
		s = append(s, fmt.Sprintf("%x", t.RequestID))
	}
	return strings.Join(s, ",")
}

func sessionPrint(a *agent.Agent) string {
	info := *a.Info
	info.LastCallIn = "" // bookkeeping of every request
	return fmt.Sprintf("%s|%v|%s|%+v|%x|%x|dl=%d|bof=%d|pf=%d|links=%d", a.NameID, a.Active, a.Reason, info, a.Encryption.AESKey, a.Encryption.AESIv, len(a.Downloads), len(a.BofCallbacks), len(a.PortFwds), len(a.Pivots.Links))
}

type worldE struct {
	rec  *tsx.Recorder
	ep   *agentfx.Endpoint
	ses  []*agentfx.Session
	mod  []*agentM
	loot string
	base []map[string]int // per agent: events of a request that carries no callback and hands out nothing
}

func evKey(e tsx.Event) string { return e.Kind + "@" + e.Agent }

func (w *worldE) take(g int) (all []tsx.Event) { return w.rec.Take() }

// effects removes the per-request bookkeeping events of agent g from ev.
func (w *worldE) effects(g int, ev []tsx.Event) []tsx.Event {
	left := map[string]int{}
	for k, v := range w.base[g] {
		left[k] = v
	}
	var out []tsx.Event
	for _, e := range ev {
		if left[evKey(e)] > 0 {
			left[evKey(e)]--
			continue
		}
		out = append(out, e)
	}
	return out
}

func (w *worldE) snapAll() []snap {
	tree := tsx.TreeString(w.loot)
	var s []snap
	for _, x := range w.ses {
		s = append(s, snap{tasks: taskIDs(x.A), tree: tree, session: sessionPrint(x.A)})
	}
	return s
}

func describe(ev []tsx.Event) string {
	var s []string
	for _, e := range ev {
		d := e.Kind + "(" + e.Agent
		if m := e.Out["Message"]; m != "" {
			d += ": " + m
		}
		s = append(s, d+")")
	}
	return strings.Join(s, ", ")
}

// diff says what changed between two world snapshots (all agents), "" if nothing.
func diffSnaps(a, b []snap) string {
	var d []string
	for i := range a {
		if a[i].tasks != b[i].tasks {
			d = append(d, fmt.Sprintf("agent %d outstanding ids [%s] -> [%s]", i, a[i].tasks, b[i].tasks))
		}
		if a[i].session != b[i].session {
			d = append(d, fmt.Sprintf("agent %d session data changed", i))
		}
	}
	if a[0].tree != b[0].tree {
		d = append(d, "loot tree changed")
	}
	return strings.Join(d, "; ")
}

// ---------------------------------------------------------------- check

type obsE struct {
	rejectedPlausible                                            map[string]bool // src/kind-class of rejected callbacks with effectful kind
	accEffect, accNoEffect, rejected, relayAcc, logsAcc, replays int
	labels                                                       map[string]bool
}

var lastE obsE

func checkE(c CaseE) (viol *core.Violation) {
	lastE = obsE{rejectedPlausible: map[string]bool{}, labels: map[string]bool{}}
	root, err := os.MkdirTemp("", "c05-")
	if err != nil {
		return core.V("harness|tempdir", "%v", err)
	}
	defer os.RemoveAll(root)
	w := &worldE{rec: tsx.NewRecorder(), loot: root + "/loot"}
	w.rec.Logs = c.Logs
	tsx.SetLoot(w.loot)
	ep, err := agentfx.Shared(w.rec)
	if err != nil {
		return core.V("harness|fixture", "%v", err)
	}
	w.ep = ep
	for i := 0; i < c.Agents; i++ {
		s, err := ep.Register(w.rec, 0x0c050001+uint32(i)*0x10)
		if err != nil {
			return core.V("harness|fixture", "%v", err)
		}
		w.ses = append(w.ses, s)
		w.mod = append(w.mod, &agentM{})
	}
	defer func() {
		// downloads keep their loot files open
		for _, s := range w.ses {
			for _, d := range s.A.Downloads {
				if d.File != nil {
					d.File.Close()
				}
			}
		}
	}()
	w.rec.Take()
	// calibration: what does a request without callbacks and with nothing queued record?
	for g := range w.ses {
		code, tasks, ok := w.ep.CheckIn(w.ses[g], true, nil)
		if code != 200 || !ok || !agentfx.IsNoJob(tasks) {
			return core.V("harness|calibration", "plain check-in of a fresh agent: HTTP %d", code)
		}
		b := map[string]int{}
		for _, e := range w.rec.Take() {
			if e.Kind != "update" && e.Kind != "lasttime" {
				return core.V("harness|calibration", "a body-less check-in records an unexpected %q event", e.Kind)
			}
			b[evKey(e)]++
		}
		w.base = append(w.base, b)
	}

	nextID := uint32(0x4d000001)
	handout := func(g int) *core.Violation {
		m := w.mod[g]
		pending := false
		for _, t := range m.out {
			if !t.handed {
				pending = true
			}
		}
		if !pending {
			return nil
		}
		for guard := 0; guard < 64; guard++ {
			code, tasks, ok := w.ep.CheckIn(w.ses[g], true, nil)
			w.rec.Take()
			if code != 200 || !ok {
				return core.V("harness|handout", "hand-out check-in answered HTTP %d", code)
			}
			if agentfx.IsNoJob(tasks) {
				break
			}
			for _, t := range tasks {
				if x := m.find(t.ReqID); x != nil {
					x.handed = true
				}
			}
		}
		for _, t := range m.out {
			t.handed = true // completed-before-hand-out ids are simply gone from the queue's point of view
		}
		return nil
	}

	for i, op := range c.Ops {
		g := op.Agent % c.Agents
		m := w.mod[g]
		ses := w.ses[g]
		switch op.Kind {
		case "issue":
			cmd := issueCmds[op.Cmd%len(issueCmds)]
			id := nextID
			nextID += 0x11
			// what dispatch.go does after TaskPrepare; the task body is irrelevant here
			ses.A.AddJobToQueue(agent.Job{RequestID: id, Command: cmd, Data: []interface{}{}})
			m.out = append(m.out, &taskM{id: id, cmd: cmd})
		case "handout":
			if v := handout(g); v != nil {
				return v
			}
		case "callback":
			// everything queued is handed out first, so that the request below carries the
			// callback only and its recorded events are bookkeeping + the callback's effects
			if v := handout(g); v != nil {
				return v
			}
			// ---- choose id and kind
			var id uint32
			var viaCmd uint32
			haveCmd := false
			doneBy := ""
			src := op.Src
			switch src {
			case "outstanding":
				if len(m.out) == 0 {
					src = "never"
				} else {
					t := m.out[op.Pick%len(m.out)]
					id, viaCmd, haveCmd = t.id, t.cmd, true
				}
			case "completed":
				if len(m.done) == 0 {
					src = "never"
				} else {
					t := m.done[op.Pick%len(m.done)]
					id, viaCmd, haveCmd, doneBy = t.id, t.cmd, true, t.doneBy
				}
			case "foreign":
				var cand []*taskM
				for h := range w.mod {
					if h != g {
						cand = append(cand, w.mod[h].out...)
					}
				}
				if len(cand) == 0 {
					src = "never"
				} else {
					t := cand[op.Pick%len(cand)]
					id, viaCmd, haveCmd = t.id, t.cmd, true
				}
			}
			if src == "never" {
				id = 0x7e000000 + uint32(i)*0x101 + op.N%0x100
			}
			if src == "zero" {
				id = 0
			}
			var k kind
			if haveCmd && (!op.AnyKind || src == "outstanding") {
				app := append(append([]int{}, kindsByCmd[viaCmd]...), genericIdx...)
				k = kinds[app[op.Variant%len(app)]]
			} else {
				k = kinds[op.Variant%len(kinds)]
			}
			body := k.Build(ses, op.Text, op.N)
			sub := demonref.Sub{Cmd: k.Cmd, ReqID: id, Body: body}
			exempt := k.Relay || (k.Beacon && c.Logs)
			outstanding := src == "outstanding"

			send := func() (eff []tsx.Event, change string, v *core.Violation) {
				before := w.snapAll()
				w.rec.Take()
				code, tasks, ok := w.ep.CheckIn(ses, true, []demonref.Sub{sub})
				ev := w.rec.Take()
				if code != 200 || !ok || !agentfx.IsNoJob(tasks) {
					return nil, "", core.V("harness|callback-request", "callback request answered HTTP %d (decodable=%v, %d tasks)", code, ok, len(tasks))
				}
				return w.effects(g, ev), diffSnaps(before, w.snapAll()), nil
			}

			// white-box, for the statistics only: does the implementation still hold the id?
			// (it forgets ids on some kinds the finality table does not list, e.g. demon-info)
			implHas := strings.Contains(","+taskIDs(ses.A)+",", fmt.Sprintf(",%x,", id))
			eff, change, v := send()
			if v != nil {
				return v
			}
			had := len(eff) > 0 || change != ""
			switch {
			case exempt:
				if k.Relay {
					lastE.relayAcc++
				} else {
					lastE.logsAcc++
				}
			case outstanding:
				// (3) non-vacuity bookkeeping; and the model: a final callback completes the task
				if had {
					lastE.accEffect++
					lastE.labels["accepted:"+k.Name] = true
				} else if implHas {
					lastE.accNoEffect++
					lastE.labels["accepted-no-effect:"+k.Name] = true
				} else {
					lastE.labels["id-already-forgotten-by-teamserver"] = true
				}
				if k.Final && had {
					t := m.find(id)
					t.doneBy = k.Name
					for j := range m.out {
						if m.out[j] == t {
							m.out = append(m.out[:j], m.out[j+1:]...)
							break
						}
					}
					m.done = append(m.done, t)
				}
			default:
				// (1) no effect at all
				lastE.rejected++
				if !k.Quiet && (src == "completed" || src == "foreign") {
					lastE.rejectedPlausible[src+"/"+kindClass(k)] = true
				}
				lastE.labels["rejected:"+src] = true
				if had {
					what := describe(eff)
					if change != "" {
						if what != "" {
							what += "; "
						}
						what += change
					}
					if src == "completed" {
						return core.V("completed-id-accepted|completed-by="+doneBy, "agent %d: request id %#x was completed by its final %s callback, yet a later %s callback carrying it was acted upon: %s", g, id, doneBy, k.Name, what)
					}
					return core.V("unknown-id-accepted|src="+src+"|kind="+kindClass(k), "agent %d: a %s callback with request id %#x (%s) was acted upon: %s", g, k.Name, id, srcText(src), what)
				}
			}

			// (2) replay of the identical package
			if op.Replay && !exempt {
				stillOut := m.find(id) != nil
				eff2, change2, v := send()
				if v != nil {
					return v
				}
				lastE.replays++
				if !stillOut && (len(eff2) > 0 || change2 != "") {
					what := describe(eff2)
					if change2 != "" {
						what += "; " + change2
					}
					if outstanding && k.Final {
						lastE.labels["final-replayed:"+k.Name] = true
						return core.V("completed-id-accepted|completed-by="+k.Name, "agent %d: the final %s callback of request %#x was processed; replaying the same package byte for byte was acted upon again: %s", g, k.Name, id, what)
					}
					if src == "completed" {
						return core.V("completed-id-accepted|completed-by="+doneBy, "agent %d: replay of a %s callback with completed request id %#x was acted upon: %s", g, k.Name, id, what)
					}
					return core.V("unknown-id-accepted|src="+src+"|kind="+kindClass(k), "agent %d: replay of a %s callback with request id %#x (%s) was acted upon: %s", g, k.Name, id, srcText(src), what)
				}
				if outstanding && k.Final && !stillOut {
					lastE.labels["final-replayed:"+k.Name] = true
				}
			}
		}
	}
	return nil
}

func srcText(src string) string {
	switch src {
	case "foreign":
		return "outstanding at another agent only"
	case "never":
		return "never issued"
	case "zero":
		return "zero, never issued"
	}
	return src
}

// kindClass groups kinds for signatures and fingerprints.
func kindClass(k kind) string {
	switch {
	case k.Relay:
		return "relay"
	case k.Beacon:
		return "beacon-output"
	case k.Final:
		return "final"
	}
	return "streaming"
}

func classifyE(c CaseE) core.Class {
	o := lastE
	var cl core.Class
	for l := range o.labels {
		cl.Labels = append(cl.Labels, l)
	}
	var plaus []string
	for p := range o.rejectedPlausible {
		plaus = append(plaus, p)
		cl.Labels = append(cl.Labels, "rejected-plausible:"+p)
	}
	sort.Strings(plaus)
	sort.Strings(cl.Labels)
	if o.accEffect > 0 {
		cl.Labels = append(cl.Labels, "accepted-with-effect")
	}
	if o.accNoEffect > 0 {
		cl.Labels = append(cl.Labels, "accepted-without-effect")
	}
	if o.relayAcc > 0 {
		cl.Labels = append(cl.Labels, "relay-kind")
	}
	if o.logsAcc > 0 {
		cl.Labels = append(cl.Labels, "beacon-output-with-logs")
	}
	if o.replays > 0 {
		cl.Labels = append(cl.Labels, "replay")
	}
	cl.Labels = append(cl.Labels, fmt.Sprintf("agents:%d", c.Agents), fmt.Sprintf("logs:%v", c.Logs))
	cl.NonTrivial = len(plaus) > 0
	cl.Fingerprint = fmt.Sprintf("ag=%d|logs=%v|%s|acc=%v|rep=%v", c.Agents, c.Logs, strings.Join(plaus, ","), o.accEffect > 0, o.replays > 0)
	return cl
}

func TestC05a(t *testing.T) {
	core.Run(t, core.Spec[CaseE]{
		Property: "C05", Sub: "a",
		Rule: fmt.Sprintf("histories of 1-30 operations over 2-3 agents (registered through the real agent endpoint, tsx.Recorder as teamserver, private loot tree, SendLogs on in 1/4 of the cases): issue a task (AddJobToQueue with a fresh request id, one of %d commands), hand-out check-in, callback = one of %d well-formed callback kinds (payloads as Package.c builds them) carrying an id from {own outstanding, own completed, outstanding at another agent, never issued, 0}, optionally replayed byte for byte. Oracle: (1) a callback whose id is not outstanding at that agent (kind not socket/pivot, not beacon-output with SendLogs) records nothing beyond the update/lasttime bookkeeping of a body-less check-in, leaves every agent's outstanding-id list, session data and the loot tree unchanged; (2) after a callback from the finality table was processed with an outstanding id, the same package again, and any later callback with that id, has no effect. Non-trivial: a rejected callback of an effectful kind whose id was completed or foreign; distinct = (#agents, SendLogs, set of rejected (source, kind class), accepted seen, replay seen)", len(issueCmds), len(kinds)),
		Gen:  genE, Check: checkE, Classify: classifyE,
		Assumptions: []string{
			"finality table: a callback kind ends its task only where the Demon handler (payloads/Demon/src/core/Command.c) transmits exactly one package of that kind as its last action and starts nothing that reports later; streaming/asynchronous kinds never complete a task in the model",
			"a task counts as outstanding from the moment it is queued; callbacks are only generated for ids that were handed out",
			"only COMMAND_SOCKET dials out (PortFwdOpen) and the statement exempts it, so the outbound-connection clause has no non-exempt carrier and is not probed with a listener",
			"callback payloads are well-formed; malformed ones belong to C01",
		},
	})
}

package c05

// Fault dimension: in about one case in four ONE request of ONE step of the history is
// served while ONE dependency of the teamserver fails; then the fault is lifted and the
// history goes on.  Everything is injected from outside the code under test, through the
// real dependency:
//
//	reply   the http.ResponseWriter the listener's handler writes its reply to is a wrapper
//	        owned by this fixture (the fixture drives the gin engine in-process, the writer
//	        is its side of the "connection"): the first Write lets 0 or k bytes through and
//	        returns ECONNRESET / EPIPE as a *net.OpError, every later Write fails too
//	socket  the same request travels over a real loopback TCP connection to a net/http
//	        server of the harness whose handler is the listener's gin engine; the peer sends
//	        the whole request and then resets the connection (SO_LINGER 0) or closes it before
//	        the handler runs, so the handler's reply write meets a dead socket (the error only
//	        reaches the handler when the reply does not fit into net/http's 4 KiB buffer)
//	loot    the loot tree: the folder the callback writes below is replaced by a regular
//	        file, or is read-only (CAP_DAC_OVERRIDE is given up on the locked thread when
//	        running as root), or the process has no file descriptor left (RLIMIT_NOFILE 0 for
//	        the request), or the descriptors of the agent's running downloads were closed
//	        underneath
//	console the agent's console log (written by events.Demons.DemonOutput for every console
//	        message, as the real Teamserver.AgentConsole does): its folder replaced by a file,
//	        read-only, no descriptor left
//	db      the sqlite file of a real server.Teamserver that receives AgentUpdate / AgentAdd /
//	        Died next to the recorder: a second connection installs a trigger
//	        BEFORE UPDATE ON TS_Agents that raises 'database or disk is full'
//
// Model (from the reference tree, see the experiments in the Rule text): a failed reply
// write changes nothing on the teamserver's side - the jobs of that reply are off the
// queue, their request ids stay outstanding until their final callback arrives; a loot /
// console / database failure costs the file / line / row, the callback is processed all
// the same and a final callback ends its task.  The oracle is unchanged.

import (
	"bytes"
	"database/sql"
	"fmt"
	"io"
	"net"
	"net/http"
	"net/http/httptest"
	"os"
	"path/filepath"
	"runtime"
	"sync"
	"syscall"
	"time"
	"unsafe"

	"Havoc/cmd/server"
	"Havoc/pkg/agent"

	"pgregory.net/rapid"

	"verifharness/internal/agentfx"
	"verifharness/internal/core"
	"verifharness/internal/tsx"
)

type FaultE struct {
	Step  int    `json:"step"`  // index of the op (modulo the number of ops) one of whose requests is served under the fault
	Dep   string `json:"dep"`   // reply socket loot console db
	How   string `json:"how"`   // faultHows[Dep]
	Phase string `json:"phase"` // which request of the step: "drain" = the first hand-out check-in the step makes, "send" = the step's own request (callback / session message)
	K     int    `json:"k,omitempty"`
}

var faultHows = map[string][]string{
	"reply":   {"econnreset", "epipe", "short-write"},
	"socket":  {"peer-reset", "peer-close"},
	"loot":    {"dir-replaced", "read-only", "no-descriptor", "descriptor-closed"},
	"console": {"dir-replaced", "read-only", "no-descriptor"},
	"db":      {"trigger-update"},
}

// needsTee: dependencies that only exist behind the real Teamserver object
func (f *FaultE) needsTee() bool { return f != nil && (f.Dep == "console" || f.Dep == "db") }

type faultRun struct {
	f        FaultE
	g        int    // the agent whose step it is
	stepKind string // for the label
	fired    bool   // the request was served under the fault
	note     string
	broken   string // the fault could not be established or lifted: no verdict
}

func (fr *faultRun) label() string {
	dep, op := "", ""
	switch fr.f.Dep {
	case "reply":
		dep, op = "socket", "reply-write:writer-"+fr.f.How
	case "socket":
		dep, op = "socket", "reply-write:"+fr.f.How
	case "loot":
		dep, op = "file", "loot-write:"+fr.f.How
	case "console":
		dep, op = "file", "console-log-open:"+fr.f.How
	case "db":
		dep, op = "database", "agent-update:"+fr.f.How
	}
	return "fault:" + dep + ":" + op + "@" + fr.stepKind
}

// stepKindOf names the faulted request for the label: coarse, so that every class is well populated.
func (fr *faultRun) callbackStep(k kind) string {
	switch fr.f.Dep {
	case "loot":
		switch k.Name {
		case "screenshot":
			return "callback:screenshot"
		case "fs-download-open", "fs-download-write", "fs-download-close", "beacon-file":
			return "callback:download"
		}
		return "request-without-loot-write"
	}
	return "callback-request"
}

// ---------------------------------------------------------------- the fixture's side of a connection that breaks

type brokenWriter struct {
	rec    *httptest.ResponseRecorder
	how    string
	k      int
	failed int
}

func (b *brokenWriter) Header() http.Header { return b.rec.Header() }
func (b *brokenWriter) WriteHeader(c int)   { b.rec.WriteHeader(c) }
func (b *brokenWriter) Write(p []byte) (int, error) {
	n := 0
	if b.failed == 0 && b.how == "short-write" && len(p) > 1 {
		n = 1 + b.k%(len(p)-1)
		b.rec.Write(p[:n])
	}
	b.failed++
	e := syscall.ECONNRESET
	if b.how == "epipe" {
		e = syscall.EPIPE
	}
	return n, &net.OpError{Op: "write", Net: "tcp", Err: os.NewSyscallError("write", e)}
}

// observedWriter passes everything through to the real connection and remembers whether a write failed.
type observedWriter struct {
	http.ResponseWriter
	err error
}

func (o *observedWriter) Write(p []byte) (int, error) {
	n, err := o.ResponseWriter.Write(p)
	if err != nil && o.err == nil {
		o.err = err
	}
	return n, err
}

// serve sends one request of the case to the listener: under the armed fault if there is one.
func (w *worldE) serve(pkg []byte) (int, []byte) {
	w.replyLost = false
	fr := w.armed
	w.armed = nil
	if fr == nil {
		return w.ep.Serve(pkg)
	}
	w.lastFault = fr
	w.fired = append(w.fired, fr)
	switch fr.f.Dep {
	case "reply":
		req := httptest.NewRequest(http.MethodPost, "/", bytes.NewReader(pkg))
		req.RemoteAddr = "10.9.8.7:40000"
		bw := &brokenWriter{rec: httptest.NewRecorder(), how: fr.f.How, k: fr.f.K}
		w.ep.H.GinEngine.ServeHTTP(bw, req)
		fr.fired = bw.failed > 0
		w.replyLost = true
		return -1, nil
	case "socket":
		w.serveSocket(fr, pkg)
		w.replyLost = true
		return -1, nil
	}
	undo := w.install(fr)
	code, body := w.ep.Serve(pkg)
	undo()
	return code, body
}

// serveSocket: the request over a real connection whose peer is gone when the reply is written.
func (w *worldE) serveSocket(fr *faultRun, pkg []byte) {
	ln, err := core.ListenLoopback("tcp4")
	if err != nil {
		fr.broken = "socket-fixture"
		return
	}
	bodyRead, done := make(chan struct{}), make(chan struct{})
	srv := &http.Server{Handler: http.HandlerFunc(func(rw http.ResponseWriter, r *http.Request) {
		defer close(done)
		b, _ := io.ReadAll(r.Body) // from here on net/http watches the connection in the background
		close(bodyRead)
		select {
		case <-r.Context().Done(): // the peer's reset / close has arrived
		case <-time.After(waitRelay):
			fr.broken = "socket-fixture"
			return
		}
		r.Body = io.NopCloser(bytes.NewReader(b))
		ow := &observedWriter{ResponseWriter: rw}
		w.ep.H.GinEngine.ServeHTTP(ow, r)
		fr.fired = true
		if ow.err != nil {
			fr.note = "handler-saw-the-write-fail"
		} else {
			fr.note = "reply-lost-in-the-server-buffer"
		}
	})}
	var wg sync.WaitGroup
	wg.Add(1)
	go func() { defer wg.Done(); srv.Serve(ln) }()
	defer func() { srv.Close(); wg.Wait() }()
	c, err := net.Dial("tcp4", ln.Addr().String())
	if err != nil {
		fr.broken = "socket-fixture"
		return
	}
	head := fmt.Sprintf("POST / HTTP/1.1\r\nHost: l\r\nContent-Type: application/octet-stream\r\nContent-Length: %d\r\n\r\n", len(pkg))
	if _, err := c.Write(append([]byte(head), pkg...)); err != nil {
		c.Close()
		fr.broken = "socket-fixture"
		return
	}
	select {
	case <-bodyRead:
	case <-time.After(waitRelay):
		c.Close()
		fr.broken = "socket-fixture"
		return
	}
	if fr.f.How == "peer-reset" {
		c.(*net.TCPConn).SetLinger(0)
	}
	c.Close()
	select {
	case <-done:
	case <-time.After(2 * waitRelay):
		fr.broken = "socket-fixture"
	}
}

// ---------------------------------------------------------------- files and database

// install establishes a loot / console / database fault and returns what lifts it.
func (w *worldE) install(fr *faultRun) (undo func()) {
	undo = func() {}
	a := w.ses[fr.g].A
	agents := filepath.Join(w.loot, "agents")
	own := filepath.Join(agents, a.NameID)
	switch fr.f.Dep + "/" + fr.f.How {
	case "loot/descriptor-closed":
		for _, d := range a.Downloads {
			if d.File != nil {
				d.File.Close()
				fr.fired = true
			}
		}
		if !fr.fired {
			fr.note = "no-download-running"
		}
		return
	case "db/trigger-update":
		if w.tee == nil {
			fr.broken = "no-database"
			return
		}
		c, err := sql.Open("sqlite3", w.tee.dbPath)
		if err != nil {
			fr.broken = "database-fixture"
			return
		}
		if _, err = c.Exec(`CREATE TRIGGER verif_fault BEFORE UPDATE ON TS_Agents BEGIN SELECT RAISE(FAIL, 'database or disk is full'); END`); err != nil {
			c.Close()
			fr.broken = "database-fixture"
			return
		}
		fr.fired = true
		return func() {
			if _, err := c.Exec(`DROP TRIGGER verif_fault`); err != nil {
				fr.broken = "database-fixture"
			}
			c.Close()
		}
	}
	// the folder the fault is about: the agents folder, the agent's own one, or the sub-folder the
	// callback writes to - the deepest one of the generated level that exists
	target := agents
	if fr.f.Dep == "console" {
		// the log sits directly in the agent's folder
		if _, err := os.Stat(own); err == nil && fr.f.K%2 == 1 {
			target = own
		}
	} else {
		cand := []string{agents, own, filepath.Join(own, "Screenshots"), filepath.Join(own, "Download")}
		for _, p := range cand[:1+fr.f.K%len(cand)] {
			if st, err := os.Stat(p); err == nil && st.IsDir() {
				target = p
			}
		}
	}
	switch fr.f.How {
	case "dir-replaced":
		away := target + ".away"
		if os.Rename(target, away) != nil || os.WriteFile(target, nil, 0o644) != nil {
			fr.broken = "file-fixture"
			return
		}
		fr.fired = true
		return func() {
			if os.Remove(target) != nil || os.Rename(away, target) != nil {
				fr.broken = "file-fixture"
			}
		}
	case "read-only":
		// the folder and everything below it: folders r-x, files r-- (as on a file system that went read-only)
		type ent struct {
			p string
			m os.FileMode
		}
		var ents []ent
		filepath.Walk(target, func(p string, info os.FileInfo, err error) error {
			if err == nil && info.Mode()&os.ModeSymlink == 0 {
				ents = append(ents, ent{p, info.Mode().Perm()})
			}
			return nil
		})
		chmodBack := func() bool {
			ok := true
			for i := len(ents) - 1; i >= 0; i-- {
				if os.Chmod(ents[i].p, ents[i].m) != nil {
					ok = false
				}
			}
			return ok
		}
		for _, e := range ents {
			if os.Chmod(e.p, e.m&^0o222) != nil {
				chmodBack()
				fr.broken = "file-fixture"
				return
			}
		}
		var caps *capState
		root := os.Geteuid() == 0
		if root {
			// root ignores permission bits: give up CAP_DAC_OVERRIDE / CAP_DAC_READ_SEARCH on this thread for the request
			runtime.LockOSThread()
			if caps = dropDAC(); caps == nil {
				runtime.UnlockOSThread()
				chmodBack()
				fr.broken = "file-fixture"
				return
			}
		}
		fr.fired = true
		return func() {
			if root {
				if !caps.restore() {
					fr.broken = "file-fixture" // the thread stays locked and dies with the goroutine
					return
				}
				runtime.UnlockOSThread()
			}
			if !chmodBack() {
				fr.broken = "file-fixture"
			}
		}
	case "no-descriptor":
		var old syscall.Rlimit
		if syscall.Getrlimit(syscall.RLIMIT_NOFILE, &old) != nil {
			fr.broken = "file-fixture"
			return
		}
		low := old
		low.Cur = 0
		if syscall.Setrlimit(syscall.RLIMIT_NOFILE, &low) != nil {
			fr.broken = "file-fixture"
			return
		}
		fr.fired = true
		return func() {
			if syscall.Setrlimit(syscall.RLIMIT_NOFILE, &old) != nil {
				fr.broken = "file-fixture"
			}
		}
	}
	return
}

// --- capabilities of the current thread (linux/capability.h, version 3)

type capHeader struct {
	version uint32
	pid     int32
}
type capData struct{ effective, permitted, inheritable uint32 }
type capState struct{ data [2]capData }

const (
	capVersion3      = 0x20080522
	capDacOverride   = 1
	capDacReadSearch = 2
)

func dropDAC() *capState {
	h := capHeader{version: capVersion3}
	var st capState
	if _, _, e := syscall.RawSyscall(syscall.SYS_CAPGET, uintptr(unsafe.Pointer(&h)), uintptr(unsafe.Pointer(&st.data[0])), 0); e != 0 {
		return nil
	}
	low := st
	low.data[0].effective &^= 1<<capDacOverride | 1<<capDacReadSearch
	h = capHeader{version: capVersion3}
	if _, _, e := syscall.RawSyscall(syscall.SYS_CAPSET, uintptr(unsafe.Pointer(&h)), uintptr(unsafe.Pointer(&low.data[0])), 0); e != 0 {
		return nil
	}
	return &st
}

func (st *capState) restore() bool {
	h := capHeader{version: capVersion3}
	_, _, e := syscall.RawSyscall(syscall.SYS_CAPSET, uintptr(unsafe.Pointer(&h)), uintptr(unsafe.Pointer(&st.data[0])), 0)
	return e == 0
}

// ---------------------------------------------------------------- generator

func issueIdx(cmd uint32) int {
	for i, c := range issueCmds {
		if c == cmd {
			return i
		}
	}
	panic(fmt.Sprintf("no issue command %d", cmd))
}

func genFault(t *rapid.T) *FaultE {
	dep := []string{"reply", "socket", "loot", "console", "db"}[agentfx.Weighted(t, "fault-dep", 6, 4, 8, 3, 2)]
	hows := faultHows[dep]
	return &FaultE{Dep: dep, How: hows[agentfx.Bits(t, "fault-how", 3)%len(hows)], K: rapid.IntRange(0, 1<<16).Draw(t, "fault-k")}
}

// addFaultE gives the history a fault: on one of the steps it already has (1/4), or on a step
// of a short life of a task that is inserted at a generated place (3/4): issue, hand-out,
// streamed callbacks, final callback, replay, probes - the fault on the hand-out, on the
// request that carries the final callback, or on a callback that writes loot.
func addFaultE(t *rapid.T, c *CaseE) {
	f := genFault(t)
	c.Fault = f
	text := func() string {
		return rapid.StringOfN(rapid.RuneFrom([]rune("abcdefxyz0189")), 1, 8, -1).Draw(t, "text")
	}
	if agentfx.Weighted(t, "fault-directed", 1, 3) == 0 {
		// an existing step that sends a request
		var cand []int
		for i, op := range c.Ops {
			if op.Kind == "handout" || op.Kind == "callback" || op.Kind == "session" {
				cand = append(cand, i)
			}
		}
		if len(cand) > 0 {
			f.Step = cand[rapid.IntRange(0, len(cand)-1).Draw(t, "fault-step")]
			f.Phase = []string{"drain", "send"}[agentfx.Bits(t, "fault-phase", 1)]
			if c.Ops[f.Step].Kind == "handout" {
				f.Phase = "drain"
			}
			if f.Dep != "reply" && f.Dep != "socket" && c.Ops[f.Step].Kind == "callback" {
				f.Phase = "send"
			}
			return
		}
	}
	g := agentfx.Bits(t, "agent", 2) % c.Agents
	if f.Dep == "socket" || f.Dep == "loot" && agentfx.Bits(t, "direct", 1) == 1 {
		g = 0 // directly connected (uploads; a loot folder of its own from the start)
	}
	cb := func(src, force string, n uint32) OpE {
		return OpE{Kind: "callback", Agent: g, Src: src, Latest: true, Force: force,
			Variant: agentfx.Bits(t, "variant", 7), Text: text(), N: n}
	}
	n := rapid.Uint32Range(0, 100000).Draw(t, "n")
	var seq []OpE
	at := -1 // index in seq of the faulted step
	mark := func(phase string) { at, f.Phase = len(seq), phase }
	// ---- the task(s)
	issueCmd := issueCmds[rapid.IntRange(0, len(issueCmds)-1).Draw(t, "cmd")]
	lootKind := ""
	if f.Dep == "loot" {
		lootKind = []string{"screenshot", "fs-download-open", "fs-download-write", "fs-download-close", "beacon-file"}[agentfx.Weighted(t, "loot-kind", 3, 1, 1, 1, 1)]
		if f.How == "descriptor-closed" {
			lootKind = []string{"fs-download-write", "fs-download-close"}[agentfx.Bits(t, "loot-kind2", 1)]
		}
		switch lootKind {
		case "screenshot":
			issueCmd = agent.COMMAND_SCREENSHOT
		case "beacon-file":
			issueCmd = agent.COMMAND_INLINEEXECUTE
		default:
			issueCmd = agent.COMMAND_FS
		}
	}
	for k := 1 + agentfx.Bits(t, "tasks", 2)%3; k > 0; k-- {
		switch {
		case k > 1 && agentfx.Bits(t, "how-issued", 1) == 1:
			seq = append(seq, OpE{Kind: "optask", Agent: g, Cmd: agentfx.Weighted(t, "opcmd", opCmdWeights...), Variant: agentfx.Bits(t, "opts", 4), Text: text(), N: rapid.Uint32Range(0, 100000).Draw(t, "n")})
		case issueCmd == agent.COMMAND_SCREENSHOT && agentfx.Bits(t, "how-issued", 1) == 1:
			seq = append(seq, OpE{Kind: "optask", Agent: g, Cmd: opCmdIndex("screenshot")})
		default:
			seq = append(seq, OpE{Kind: "issue", Agent: g, Cmd: issueIdx(issueCmd)})
		}
	}
	replyFault := f.Dep == "reply" || f.Dep == "socket"
	// ---- hand-out
	where := agentfx.Weighted(t, "fault-where", 5, 2, 3) // the hand-out step, the hand-out inside the callback step, the callback's own request
	if !replyFault {
		where = 2
	}
	if f.Dep == "socket" && where != 2 && agentfx.Weighted(t, "big-reply", 1, 3) == 1 {
		// a reply that does not fit into net/http's write buffer, so that the handler itself meets the dead socket
		seq = append(seq, OpE{Kind: "upload", Agent: g, N: rapid.Uint32Range(4200, 9000).Draw(t, "n")}, OpE{Kind: "issue", Agent: g, Cmd: issueIdx(issueCmd)})
	}
	if where == 0 || where == 2 && agentfx.Bits(t, "handout", 1) == 1 {
		if where == 0 {
			mark("drain")
		}
		seq = append(seq, OpE{Kind: "handout", Agent: g})
	}
	// ---- ordinary steps in between
	for k := agentfx.Bits(t, "between", 2) % 3; k > 0; k-- {
		switch agentfx.Bits(t, "between-kind", 2) {
		case 0:
			seq = append(seq, OpE{Kind: "session", Agent: g, Variant: agentfx.Bits(t, "msg", 2)})
		case 1:
			seq = append(seq, OpE{Kind: "callback", Agent: g, Src: srcsE[agentfx.Weighted(t, "src", 10, 14, 14, 18, 18)], Pick: rapid.IntRange(0, 7).Draw(t, "pick"), Variant: agentfx.Bits(t, "variant", 7), AnyKind: true, Text: text(), N: n})
		default:
			seq = append(seq, cb("outstanding", "output", n))
		}
	}
	// ---- the life of the newest task
	switch lootKind {
	case "fs-download-open", "fs-download-write", "fs-download-close":
		for _, k := range []string{"fs-download-open", "fs-download-write", "fs-download-close"} {
			if k == lootKind {
				mark("send")
			}
			o := cb("outstanding", k, n)
			o.Replay = k == lootKind && agentfx.Bits(t, "replay", 1) == 1
			seq = append(seq, o)
			if k == "fs-download-write" && agentfx.Bits(t, "more", 1) == 1 {
				seq = append(seq, cb("outstanding", k, n))
			}
		}
	case "beacon-file":
		mark("send")
		seq = append(seq, cb("outstanding", lootKind, n))
	case "screenshot":
		if agentfx.Weighted(t, "with-unknown-id", 4, 1) == 1 {
			// the same callback with an id that is not outstanding, under the same fault: refused, nothing happens
			mark("send")
			seq = append(seq, OpE{Kind: "callback", Agent: g, Src: srcsE[1+agentfx.Bits(t, "src", 2)], Pick: rapid.IntRange(0, 7).Draw(t, "pick"), Force: lootKind, Text: text(), N: n})
		}
	}
	e := cb("outstanding", "", n)
	e.End = true
	if lootKind == "screenshot" {
		e.Force = []string{"screenshot", "screenshot", "screenshot-fail"}[agentfx.Bits(t, "shot", 2)%3]
	}
	e.Replay = agentfx.Weighted(t, "replay", 1, 2) == 1
	if at < 0 {
		if where == 1 {
			mark("drain")
		} else {
			mark("send")
		}
	}
	seq = append(seq, e)
	for k := 1 + agentfx.Bits(t, "probes", 1); k > 0; k-- {
		p := cb("completed", "", rapid.Uint32Range(0, 100000).Draw(t, "n"))
		p.AnyKind = agentfx.Bits(t, "anykind", 1) == 1
		p.Replay = agentfx.Bits(t, "replay", 1) == 1
		seq = append(seq, p)
	}
	pos := rapid.IntRange(0, len(c.Ops)).Draw(t, "fault-pos")
	ops := append([]OpE{}, c.Ops[:pos]...)
	ops = append(ops, seq...)
	c.Ops = append(ops, c.Ops[pos:]...)
	f.Step = pos + at
}

// ---------------------------------------------------------------- the real Teamserver object next to the recorder

// teeTS is the teamserver of the cases whose fault is about a dependency that only exists
// behind the real Teamserver object: every call is recorded by the embedded recorder (the
// session table and the effect oracle stay where they are) and the calls that reach a file
// or the database on the real tree are passed on to a real server.Teamserver on a private
// sqlite file: AgentConsole (events.Demons.DemonOutput appends to the agent's console log),
// AgentUpdate / AgentAdd / Died (rows of TS_Agents), AgentCallbackSize (console log).
type teeTS struct {
	*tsx.Recorder
	real   *server.Teamserver
	dbPath string
}

func newTee(rec *tsx.Recorder, dir string) (*teeTS, error) {
	ts, err := tsx.NewTS(dir, nil)
	if err != nil {
		return nil, err
	}
	return &teeTS{Recorder: rec, real: ts, dbPath: tsx.DBPath(dir)}, nil
}

func (t *teeTS) AgentConsole(id string, cmd int, out map[string]string) {
	t.Recorder.AgentConsole(id, cmd, out)
	t.real.AgentConsole(id, cmd, out)
}
func (t *teeTS) AgentUpdate(a *agent.Agent) {
	t.Recorder.AgentUpdate(a)
	t.real.AgentUpdate(a)
}
func (t *teeTS) AgentAdd(a *agent.Agent) []*agent.Agent {
	r := t.Recorder.AgentAdd(a)
	t.real.AgentAdd(a)
	return r
}
func (t *teeTS) Died(a *agent.Agent) {
	t.Recorder.Died(a)
	t.real.Died(a)
}
func (t *teeTS) AgentCallbackSize(a *agent.Agent, i int) {
	t.Recorder.AgentCallbackSize(a, i)
	t.real.AgentCallbackSize(a, i)
}

var _ agent.TeamServer = (*teeTS)(nil)

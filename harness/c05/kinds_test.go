package c05

// Callback kinds: well-formed payloads as the Demon builds them (big-endian Package.c
// encoders; the field order is the PackageAdd* sequence of the handler named next to
// each kind) and the finality table.
//
// Final == true only where the C handler evidently ends the task with this very
// package: the handler builds ONE package of this command id, transmits it as its last
// action and returns, without registering a job, pipe, download or thread that could
// emit more packages under the same request id.  (Error packages - COMMAND_ERROR - may
// precede it; they are a different kind and are not final here.)  Everything that
// streams or is emitted asynchronously (output, beacon output, download chunks,
// proc-create, spawn-dll, job-died, dotnet info, inline-execute output, transfer-remove's
// second package, kill-date, demon-info, package-dropped, error) is Final == false.
//
// Inline execute (CoffeeLdr.c) has four sub-types that END the task: CoffeeLdr transmits
// exactly one of RAN_OK / COULD_NO_RUN as its very last package (after the object file
// returned and after the clean-up), so both are final by the rule above.  EXCEPTION
// (VehDebugger) and SYMBOL_NOT_FOUND (CoffeeProcessSymbol / CoffeeExecuteFunction) are
// followed by that closing package on the Demon side, but the reference teamserver ends
// the request on whichever of the four it processes first (TaskDispatch
// COMMAND_INLINEEXECUTE calls RequestCompleted in each of the four branches): that
// callback is the task's final callback on the reference tree, the Demon's closing
// package then carries a completed id and is dropped.  So all four are Final here; the
// model is "the first of the four that is processed ends the task".

import (
	"Havoc/pkg/agent"

	"verifharness/internal/agentfx"
	"verifharness/internal/demonref"
)

type kind struct {
	Name   string
	Cmd    uint32
	Final  bool
	Relay  bool // accepted without an outstanding task by the statement (socket / pivot)
	Beacon bool // BEACON_OUTPUT: accepted without a task when log forwarding is on
	Quiet  bool // has no effect other than forgetting the id even when accepted
	Build  func(s *agentfx.Session, text string, n uint32) []byte
}

func enc() *demonref.Enc { return &demonref.Enc{} }

func one(f func(e *demonref.Enc, text string, n uint32)) func(*agentfx.Session, string, uint32) []byte {
	return func(_ *agentfx.Session, text string, n uint32) []byte {
		e := enc()
		f(e, text, n)
		return e.B
	}
}

var kinds = []kind{
	// Command.c CommandExit: PackageAddInt32(ExitMethod); PackageTransmit; exit
	{Name: "exit", Cmd: agent.COMMAND_EXIT, Final: true, Build: one(func(e *demonref.Enc, _ string, n uint32) { e.Int32(1 + n%2) })},
	// Command.c KillDate(): not a reply to a task
	{Name: "kill-date", Cmd: agent.COMMAND_KILL_DATE, Build: one(func(e *demonref.Enc, _ string, _ uint32) {})},
	// CommandCheckin: DemonMetaData(&Package, FALSE); PackageTransmit
	{Name: "checkin", Cmd: agent.COMMAND_CHECKIN, Final: true, Build: func(s *agentfx.Session, _ string, _ uint32) []byte {
		return agentfx.Meta(s.ID).InitBody(s.Key, s.IV, false)
	}},
	// CommandSleep: AddInt32(Delay), AddInt32(Jitter)
	{Name: "sleep", Cmd: agent.COMMAND_SLEEP, Final: true, Build: one(func(e *demonref.Enc, _ string, n uint32) { e.Int32(n % 3600).Int32(n % 100) })},
	// CommandJob: AddInt32(Command) + per sub-command fields; one PackageTransmit at the end
	{Name: "job-list", Cmd: agent.COMMAND_JOB, Final: true, Build: one(func(e *demonref.Enc, _ string, n uint32) {
		e.Int32(agent.DEMON_COMMAND_JOB_LIST).Int32(n%50 + 1).Int32(2).Int32(1)
	})},
	{Name: "job-suspend", Cmd: agent.COMMAND_JOB, Final: true, Build: one(func(e *demonref.Enc, _ string, n uint32) {
		e.Int32(agent.DEMON_COMMAND_JOB_SUSPEND).Int32(n % 50).Int32(n % 2)
	})},
	{Name: "job-kill", Cmd: agent.COMMAND_JOB, Final: true, Build: one(func(e *demonref.Enc, _ string, n uint32) {
		e.Int32(agent.DEMON_COMMAND_JOB_KILL_REMOVE).Int32(n % 50).Int32(n % 2)
	})},
	// JobCheckList (asynchronous): job died
	{Name: "job-died", Cmd: agent.COMMAND_JOB, Build: one(func(e *demonref.Enc, _ string, _ uint32) { e.Int32(agent.DEMON_COMMAND_JOB_DIED) })},
	// CommandFS: one package, transmitted at the end of the handler
	{Name: "fs-dir", Cmd: agent.COMMAND_FS, Final: true, Build: one(func(e *demonref.Enc, text string, n uint32) {
		// Dir: AddInt32(FileExplorer) AddInt32(ListOnly) AddWString(StartPath) AddInt32(Success) then per directory
		e.Int32(agent.DEMON_COMMAND_FS_DIR).Bool(false).Bool(false).WString("C:\\" + text + "\\*").Bool(true)
		e.WString("C:\\" + text + "\\").Int32(1).Int32(0).Int64(uint64(n))
		e.WString("f.txt").Bool(false).Int64(uint64(n)).Int32(1).Int32(2).Int32(2024).Int32(30).Int32(12)
	})},
	{Name: "fs-dir-fail", Cmd: agent.COMMAND_FS, Final: true, Build: one(func(e *demonref.Enc, text string, _ uint32) {
		e.Int32(agent.DEMON_COMMAND_FS_DIR).Bool(false).Bool(false).WString("C:\\" + text + "\\*").Bool(false)
	})},
	{Name: "fs-upload", Cmd: agent.COMMAND_FS, Final: true, Build: one(func(e *demonref.Enc, text string, n uint32) {
		e.Int32(agent.DEMON_COMMAND_FS_UPLOAD).Int32(n).WString("C:\\up\\" + text)
	})},
	{Name: "fs-cd", Cmd: agent.COMMAND_FS, Final: true, Build: one(func(e *demonref.Enc, text string, _ uint32) {
		e.Int32(agent.DEMON_COMMAND_FS_CD).WString("C:\\" + text)
	})},
	{Name: "fs-remove", Cmd: agent.COMMAND_FS, Final: true, Build: one(func(e *demonref.Enc, text string, n uint32) {
		e.Int32(agent.DEMON_COMMAND_FS_REMOVE).Int32(n % 2).WString("C:\\" + text)
	})},
	{Name: "fs-mkdir", Cmd: agent.COMMAND_FS, Final: true, Build: one(func(e *demonref.Enc, text string, _ uint32) {
		e.Int32(agent.DEMON_COMMAND_FS_MKDIR).WString("C:\\" + text)
	})},
	{Name: "fs-copy", Cmd: agent.COMMAND_FS, Final: true, Build: one(func(e *demonref.Enc, text string, n uint32) {
		e.Int32(agent.DEMON_COMMAND_FS_COPY).Int32(n % 2).WString("C:\\a" + text).WString("C:\\b" + text)
	})},
	{Name: "fs-move", Cmd: agent.COMMAND_FS, Final: true, Build: one(func(e *demonref.Enc, text string, n uint32) {
		e.Int32(agent.DEMON_COMMAND_FS_MOVE).Int32(n % 2).WString("C:\\a" + text).WString("C:\\b" + text)
	})},
	{Name: "fs-pwd", Cmd: agent.COMMAND_FS, Final: true, Build: one(func(e *demonref.Enc, text string, _ uint32) {
		e.Int32(agent.DEMON_COMMAND_FS_GET_PWD).WString("C:\\" + text)
	})},
	{Name: "fs-cat", Cmd: agent.COMMAND_FS, Final: true, Build: one(func(e *demonref.Enc, text string, n uint32) {
		e.Int32(agent.DEMON_COMMAND_FS_CAT).WString("C:\\" + text).Int32(1).String("content " + text)
	})},
	// Download.c DownloadPush / CommandFS download: open, chunk, close arrive over several check-ins
	{Name: "fs-download-open", Cmd: agent.COMMAND_FS, Build: one(func(e *demonref.Enc, text string, n uint32) {
		e.Int32(agent.DEMON_COMMAND_FS_DOWNLOAD).Int32(0).Int32(0x7000 + n%4).Int64(uint64(n)).WString("C:\\dl\\" + text + ".bin")
	})},
	{Name: "fs-download-write", Cmd: agent.COMMAND_FS, Build: one(func(e *demonref.Enc, text string, n uint32) {
		e.Int32(agent.DEMON_COMMAND_FS_DOWNLOAD).Int32(1).Int32(0x7000 + n%4).Bytes([]byte("chunk-" + text))
	})},
	{Name: "fs-download-close", Cmd: agent.COMMAND_FS, Build: one(func(e *demonref.Enc, _ string, n uint32) {
		e.Int32(agent.DEMON_COMMAND_FS_DOWNLOAD).Int32(2).Int32(0x7000 + n%4).Int32(0)
	})},
	// Downloads the teamserver does not track (file ids 0x7800.., never used by the kinds above):
	// the open callback names a file that leaves the agent's loot folder, which DownloadAdd
	// refuses (console error, nothing opened, nothing written) ...
	{Name: "fs-download-open-refused", Cmd: agent.COMMAND_FS, Build: one(func(e *demonref.Enc, text string, n uint32) {
		e.Int32(agent.DEMON_COMMAND_FS_DOWNLOAD).Int32(0).Int32(0x7800 + n%4).Int64(uint64(n)).WString("C:\\..\\..\\..\\outside\\" + text + ".bin")
	})},
	// ... and the close callback (Download.c DownloadPush / DownloadRemove: reason 0 finished,
	// 1 removed) for a file id that is not in the agent's open-download list: open refused,
	// close without open, wrong file id.  It is the last package the Demon sends under the
	// download task's request id, and the reference teamserver ends the request on every
	// readable close callback whether or not it tracks the file id: Final.
	{Name: "fs-download-close-unopened", Cmd: agent.COMMAND_FS, Final: true, Build: one(func(e *demonref.Enc, _ string, n uint32) {
		e.Int32(agent.DEMON_COMMAND_FS_DOWNLOAD).Int32(2).Int32(0x7800 + n%4).Int32(n / 4 % 2)
	})},
	// CommandProcList: one package
	{Name: "proc-list", Cmd: agent.COMMAND_PROC_LIST, Final: true, Build: one(func(e *demonref.Enc, text string, n uint32) {
		e.Int32(n % 2)
		e.WString(text + ".exe").Int32(n%9000 + 4).Int32(0).Int32(4).Int32(1).Int32(7).WString("DOM\\user")
	})},
	// streaming output
	{Name: "output", Cmd: agent.COMMAND_OUTPUT, Build: one(func(e *demonref.Enc, text string, _ uint32) { e.String("out:" + text) })},
	{Name: "beacon-output", Cmd: agent.BEACON_OUTPUT, Beacon: true, Build: one(func(e *demonref.Enc, text string, _ uint32) {
		e.Int32(agent.CALLBACK_OUTPUT).String("bof:" + text)
	})},
	{Name: "beacon-error", Cmd: agent.BEACON_OUTPUT, Beacon: true, Build: one(func(e *demonref.Enc, text string, _ uint32) {
		e.Int32(agent.CALLBACK_ERROR).String("err:" + text)
	})},
	{Name: "beacon-file", Cmd: agent.BEACON_OUTPUT, Beacon: true, Build: one(func(e *demonref.Enc, text string, n uint32) {
		d := enc().Int32(0x7100 + n%4).Int32(n)
		d.Pad([]byte("bofdl_" + text + ".bin"))
		e.Int32(agent.CALLBACK_FILE).Bytes(d.B)
	})},
	// CommandInjectDLL: optional error package, then ONE status package, return
	{Name: "inject-dll", Cmd: agent.COMMAND_INJECT_DLL, Final: true, Build: one(func(e *demonref.Enc, _ string, n uint32) { e.Int32(n % 4) })},
	// CommandSpawnDLL: status; the spawned process is piped, its output follows later
	{Name: "spawn-dll", Cmd: agent.COMMAND_SPAWNDLL, Build: one(func(e *demonref.Enc, _ string, n uint32) { e.Int32(n % 4) })},
	// CommandInjectShellcode: one status package
	{Name: "inject-shellcode", Cmd: agent.COMMAND_INJECT_SHELLCODE, Final: true, Build: one(func(e *demonref.Enc, _ string, n uint32) { e.Int32(n % 4) })},
	// CommandProc: one package at the end (proc-create may be followed by piped output: not final)
	{Name: "proc-modules", Cmd: agent.COMMAND_PROC, Final: true, Build: one(func(e *demonref.Enc, text string, n uint32) {
		e.Int32(agent.DEMON_COMMAND_PROC_MODULES).Int32(n % 9000).String(text + ".dll").Ptr(0x7ffe0000 + uint64(n))
	})},
	{Name: "proc-grep", Cmd: agent.COMMAND_PROC, Final: true, Build: one(func(e *demonref.Enc, text string, n uint32) {
		e.Int32(agent.DEMON_COMMAND_PROC_GREP).WString(text + ".exe").Int32(n%9000 + 4).Int32(4).WString("DOM\\user").Int32(64)
	})},
	{Name: "proc-memory", Cmd: agent.COMMAND_PROC, Final: true, Build: one(func(e *demonref.Enc, _ string, n uint32) {
		e.Int32(agent.DEMON_COMMAND_PROC_MEMORY).Int32(n % 9000).Int32(0x40).Ptr(0x10000).Int32(4096).Int32(0x40).Int32(0x1000).Int32(0x20000)
	})},
	{Name: "proc-kill", Cmd: agent.COMMAND_PROC, Final: true, Build: one(func(e *demonref.Enc, _ string, n uint32) {
		e.Int32(agent.DEMON_COMMAND_PROC_KILL).Int32(n % 2).Int32(n % 9000)
	})},
	{Name: "proc-create", Cmd: agent.COMMAND_PROC, Build: one(func(e *demonref.Enc, text string, n uint32) {
		e.Int32(agent.DEMON_COMMAND_PROC_CREATE).WString("C:\\" + text + ".exe").Int32(n % 9000).Int32(1).Int32(n % 2).Int32(1)
	})},
	// CoffeeLdr: output while the object file runs
	{Name: "bof-output", Cmd: agent.COMMAND_INLINEEXECUTE, Build: one(func(e *demonref.Enc, text string, _ uint32) {
		e.Int32(agent.CALLBACK_OUTPUT).String("bofout:" + text)
	})},
	// CoffeeLdr: "if ( Success ) RAN_OK else COULD_NO_RUN", last package of the loader
	{Name: "bof-ran-ok", Cmd: agent.COMMAND_INLINEEXECUTE, Final: true, Build: one(func(e *demonref.Enc, _ string, _ uint32) {
		e.Int32(agent.COMMAND_INLINEEXECUTE_RAN_OK)
	})},
	// Dotnet.c: info packages
	{Name: "dotnet-version", Cmd: agent.COMMAND_ASSEMBLY_INLINE_EXECUTE, Build: one(func(e *demonref.Enc, _ string, _ uint32) {
		e.Int32(agent.DOTNET_INFO_NET_VERSION).WString("v4.0.30319")
	})},
	{Name: "dotnet-finished", Cmd: agent.COMMAND_ASSEMBLY_INLINE_EXECUTE, Build: one(func(e *demonref.Enc, _ string, _ uint32) {
		e.Int32(agent.DOTNET_INFO_FINISHED)
	})},
	// CommandAssemblyListVersion: one package
	{Name: "dotnet-list-versions", Cmd: agent.COMMAND_ASSEMBLY_LIST_VERSIONS, Final: true, Build: one(func(e *demonref.Enc, _ string, _ uint32) {
		e.WString("v2.0.50727").WString("v4.0.30319")
	})},
	{Name: "ppid-spoof", Cmd: agent.COMMAND_PROC_PPIDSPOOF, Build: one(func(e *demonref.Enc, _ string, n uint32) { e.Int32(n % 9000) })},
	// CommandToken: AddInt32(SubCommand) + fields; one PackageTransmit at the end
	{Name: "token-impersonate", Cmd: agent.COMMAND_TOKEN, Final: true, Build: one(func(e *demonref.Enc, text string, n uint32) {
		e.Int32(agent.DEMON_COMMAND_TOKEN_IMPERSONATE).Int32(n % 2).String("DOM\\" + text)
	})},
	{Name: "token-steal", Cmd: agent.COMMAND_TOKEN, Final: true, Build: one(func(e *demonref.Enc, text string, n uint32) {
		e.Int32(agent.DEMON_COMMAND_TOKEN_STEAL).WString("DOM\\" + text).Int32(n % 16).Int32(n % 9000)
	})},
	{Name: "token-list", Cmd: agent.COMMAND_TOKEN, Final: true, Build: one(func(e *demonref.Enc, text string, n uint32) {
		e.Int32(agent.DEMON_COMMAND_TOKEN_LIST).Int32(0).Int32(0x1c4).WString("DOM\\" + text).Int32(n % 9000).Int32(1).Int32(0)
	})},
	{Name: "token-privs-list", Cmd: agent.COMMAND_TOKEN, Final: true, Build: one(func(e *demonref.Enc, _ string, _ uint32) {
		e.Int32(agent.DEMON_COMMAND_TOKEN_PRIVSGET_OR_LIST).Int32(1).String("SeDebugPrivilege").Int32(3)
	})},
	{Name: "token-privs-get", Cmd: agent.COMMAND_TOKEN, Final: true, Build: one(func(e *demonref.Enc, _ string, n uint32) {
		e.Int32(agent.DEMON_COMMAND_TOKEN_PRIVSGET_OR_LIST).Int32(0).Int32(n % 2).String("SeDebugPrivilege")
	})},
	{Name: "token-make", Cmd: agent.COMMAND_TOKEN, Final: true, Build: one(func(e *demonref.Enc, text string, _ uint32) {
		e.Int32(agent.DEMON_COMMAND_TOKEN_MAKE).WString("DOM\\" + text)
	})},
	{Name: "token-getuid", Cmd: agent.COMMAND_TOKEN, Final: true, Build: one(func(e *demonref.Enc, text string, n uint32) {
		e.Int32(agent.DEMON_COMMAND_TOKEN_GET_UID).Int32(n % 2).WString("DOM\\" + text)
	})},
	{Name: "token-revert", Cmd: agent.COMMAND_TOKEN, Final: true, Build: one(func(e *demonref.Enc, _ string, n uint32) {
		e.Int32(agent.DEMON_COMMAND_TOKEN_REVERT).Int32(n % 2)
	})},
	{Name: "token-remove", Cmd: agent.COMMAND_TOKEN, Final: true, Build: one(func(e *demonref.Enc, _ string, n uint32) {
		e.Int32(agent.DEMON_COMMAND_TOKEN_REMOVE).Int32(n % 2).Int32(n % 16)
	})},
	{Name: "token-clear", Cmd: agent.COMMAND_TOKEN, Final: true, Build: one(func(e *demonref.Enc, _ string, _ uint32) {
		e.Int32(agent.DEMON_COMMAND_TOKEN_CLEAR)
	})},
	// Token::Find: AddInt32(Success); if Success { AddInt32(NumTokens); ... }
	{Name: "token-find", Cmd: agent.COMMAND_TOKEN, Final: true, Build: one(func(e *demonref.Enc, text string, n uint32) {
		e.Int32(agent.DEMON_COMMAND_TOKEN_FIND_TOKENS).Int32(1).Int32(1)
		e.WString("DOM\\" + text).Int32(n % 9000).Int32(0x2c).Int32(0x3000).Int32(2).Int32(1)
	})},
	{Name: "token-find-fail", Cmd: agent.COMMAND_TOKEN, Final: true, Build: one(func(e *demonref.Enc, _ string, _ uint32) {
		e.Int32(agent.DEMON_COMMAND_TOKEN_FIND_TOKENS).Int32(0)
	})},
	// CommandConfig: AddInt32(Config) + value; one PackageTransmit at the end
	{Name: "config-verbose", Cmd: agent.COMMAND_CONFIG, Final: true, Build: one(func(e *demonref.Enc, _ string, n uint32) {
		e.Int32(agent.CONFIG_IMPLANT_VERBOSE).Int32(n % 2)
	})},
	{Name: "config-killdate", Cmd: agent.COMMAND_CONFIG, Final: true, Build: one(func(e *demonref.Enc, _ string, n uint32) {
		e.Int32(agent.CONFIG_KILLDATE).Int64(uint64(n))
	})},
	{Name: "config-workinghours", Cmd: agent.COMMAND_CONFIG, Final: true, Build: one(func(e *demonref.Enc, _ string, n uint32) {
		e.Int32(agent.CONFIG_WORKINGHOURS).Int32(n)
	})},
	{Name: "config-spawn64", Cmd: agent.COMMAND_CONFIG, Final: true, Build: one(func(e *demonref.Enc, text string, _ uint32) {
		e.Int32(agent.CONFIG_INJECT_SPAWN64).WString("C:\\Windows\\" + text + ".exe")
	})},
	// CommandScreenshot: AddInt32(Success) [AddBytes(image)]; one PackageTransmit
	{Name: "screenshot", Cmd: agent.COMMAND_SCREENSHOT, Final: true, Build: one(func(e *demonref.Enc, text string, n uint32) {
		e.Int32(1).Bytes([]byte("\x89PNG\r\n" + text))
	})},
	{Name: "screenshot-fail", Cmd: agent.COMMAND_SCREENSHOT, Final: true, Build: one(func(e *demonref.Enc, _ string, _ uint32) { e.Int32(0) })},
	// CommandNet: AddInt32(NetCommand) + fields; one PackageTransmit on the success path
	{Name: "net-domain", Cmd: agent.COMMAND_NET, Final: true, Build: one(func(e *demonref.Enc, text string, _ uint32) {
		e.Int32(agent.DEMON_NET_COMMAND_DOMAIN).String(text + ".local")
	})},
	{Name: "net-logons", Cmd: agent.COMMAND_NET, Final: true, Build: one(func(e *demonref.Enc, text string, _ uint32) {
		e.Int32(agent.DEMON_NET_COMMAND_LOGONS).WString("SRV01").WString(text)
	})},
	{Name: "net-sessions", Cmd: agent.COMMAND_NET, Final: true, Build: one(func(e *demonref.Enc, text string, n uint32) {
		e.Int32(agent.DEMON_NET_COMMAND_SESSIONS).WString("SRV01").WString("\\\\10.0.0.9").WString(text).Int32(n % 1000).Int32(n % 60)
	})},
	{Name: "net-share", Cmd: agent.COMMAND_NET, Final: true, Build: one(func(e *demonref.Enc, text string, _ uint32) {
		e.Int32(agent.DEMON_NET_COMMAND_SHARE).WString("SRV01").WString(text + "$").WString("C:\\" + text).WString("remark").Int32(0)
	})},
	{Name: "net-localgroup", Cmd: agent.COMMAND_NET, Final: true, Build: one(func(e *demonref.Enc, text string, _ uint32) {
		e.Int32(agent.DEMON_NET_COMMAND_LOCALGROUP).WString("SRV01").WString(text).WString("description")
	})},
	{Name: "net-users", Cmd: agent.COMMAND_NET, Final: true, Build: one(func(e *demonref.Enc, text string, n uint32) {
		e.Int32(agent.DEMON_NET_COMMAND_USERS).WString("SRV01").WString(text).Int32(n % 2)
	})},
	// CommandTransfer: one package (remove sends a second one first: not final here)
	{Name: "transfer-list", Cmd: agent.COMMAND_TRANSFER, Final: true, Build: one(func(e *demonref.Enc, _ string, _ uint32) {
		e.Int32(agent.DEMON_COMMAND_TRANSFER_LIST)
	})},
	{Name: "transfer-stop", Cmd: agent.COMMAND_TRANSFER, Final: true, Build: one(func(e *demonref.Enc, _ string, n uint32) {
		e.Int32(agent.DEMON_COMMAND_TRANSFER_STOP).Int32(n % 2).Int32(0x7000 + n%4)
	})},
	{Name: "transfer-remove", Cmd: agent.COMMAND_TRANSFER, Build: one(func(e *demonref.Enc, _ string, n uint32) {
		e.Int32(agent.DEMON_COMMAND_TRANSFER_REMOVE).Int32(n % 2).Int32(0x7000 + n%4)
	})},
	// CommandKerberos: one package at the end
	{Name: "kerberos-luid", Cmd: agent.COMMAND_KERBEROS, Final: true, Build: one(func(e *demonref.Enc, _ string, n uint32) {
		e.Int32(agent.KERBEROS_COMMAND_LUID).Int32(1).Int32(0).Int32(n)
	})},
	{Name: "kerberos-luid-fail", Cmd: agent.COMMAND_KERBEROS, Final: true, Build: one(func(e *demonref.Enc, _ string, _ uint32) {
		e.Int32(agent.KERBEROS_COMMAND_LUID).Int32(0)
	})},
	// Kerberos::Klist: AddInt32(Sessions ? TRUE : FALSE); AddInt32(NumSessions); ...
	{Name: "kerberos-klist-fail", Cmd: agent.COMMAND_KERBEROS, Final: true, Build: one(func(e *demonref.Enc, _ string, _ uint32) {
		e.Int32(agent.KERBEROS_COMMAND_KLIST).Int32(0).Int32(0)
	})},
	{Name: "kerberos-purge", Cmd: agent.COMMAND_KERBEROS, Final: true, Build: one(func(e *demonref.Enc, _ string, n uint32) {
		e.Int32(agent.KERBEROS_COMMAND_PURGE).Int32(n % 2)
	})},
	{Name: "kerberos-ptt", Cmd: agent.COMMAND_KERBEROS, Final: true, Build: one(func(e *demonref.Enc, _ string, n uint32) {
		e.Int32(agent.KERBEROS_COMMAND_PTT).Int32(n % 2)
	})},
	// CommandMemFile: AddInt32(ID) AddInt32(Success); the teamserver shows nothing for it
	{Name: "mem-file", Cmd: agent.COMMAND_MEM_FILE, Final: true, Quiet: true, Build: one(func(e *demonref.Enc, _ string, n uint32) { e.Int32(n).Int32(1) })},
	// asynchronous / informational kinds
	{Name: "error-win32", Cmd: agent.COMMAND_ERROR, Build: one(func(e *demonref.Enc, _ string, n uint32) {
		e.Int32(agent.ERROR_WIN32_LASTERROR).Int32(n % 6000)
	})},
	{Name: "error-token", Cmd: agent.COMMAND_ERROR, Build: one(func(e *demonref.Enc, _ string, _ uint32) { e.Int32(agent.ERROR_TOKEN).Int32(1) })},
	{Name: "demon-info", Cmd: agent.DEMON_INFO, Build: one(func(e *demonref.Enc, _ string, n uint32) {
		e.Int32(agent.DEMON_INFO_MEM_ALLOC).Ptr(0x20000000 + uint64(n)).Int32(4096).Int32(0x40)
	})},
	{Name: "package-dropped", Cmd: agent.COMMAND_PACKAGE_DROPPED, Build: one(func(e *demonref.Enc, _ string, n uint32) { e.Int32(0x2000000 + n).Int32(0x1e00000) })},
	// ---- the other ways an inline-execute task ends or reports (CoffeeLdr.c)
	// CoffeeLdr END: label, Success == FALSE
	{Name: "bof-could-not-run", Cmd: agent.COMMAND_INLINEEXECUTE, Final: true, Build: one(func(e *demonref.Enc, _ string, _ uint32) {
		e.Int32(agent.COMMAND_INLINEEXECUTE_COULD_NO_RUN)
	})},
	// VehDebugger: AddInt32(EXCEPTION) AddInt32(ExceptionCode) AddInt64(ExceptionAddress)
	{Name: "bof-exception", Cmd: agent.COMMAND_INLINEEXECUTE, Final: true, Build: one(func(e *demonref.Enc, _ string, n uint32) {
		e.Int32(agent.COMMAND_INLINEEXECUTE_EXCEPTION).Int32(0xC0000005 + n%3).Int64(0x7ff700000000 + uint64(n))
	})},
	// CoffeeProcessSymbol SymbolNotFound: / CoffeeExecuteFunction: AddInt32(SYMBOL_NOT_FOUND) AddString(SymbolName)
	{Name: "bof-symbol-not-found", Cmd: agent.COMMAND_INLINEEXECUTE, Final: true, Build: one(func(e *demonref.Enc, text string, _ uint32) {
		e.Int32(agent.COMMAND_INLINEEXECUTE_SYMBOL_NOT_FOUND).String("__imp_KERNEL32$" + text)
	})},
	// BeaconPrintf( CALLBACK_ERROR ) routed as inline-execute output: streams
	{Name: "bof-error", Cmd: agent.COMMAND_INLINEEXECUTE, Build: one(func(e *demonref.Enc, text string, _ uint32) {
		e.Int32(agent.CALLBACK_ERROR).String("boferr:" + text)
	})},
	// CommandAssemblyInlineExecute: DotnetExecute failed -> ONE package DOTNET_INFO_FAILED, DotnetClose, return
	{Name: "dotnet-failed", Cmd: agent.COMMAND_ASSEMBLY_INLINE_EXECUTE, Final: true, Build: one(func(e *demonref.Enc, _ string, _ uint32) {
		e.Int32(agent.DOTNET_INFO_FAILED)
	})},
	// Dotnet.c DotnetExecute: AddInt32(ENTRYPOINT_EXECUTED) AddInt32(ThreadId); the output follows later
	{Name: "dotnet-entrypoint", Cmd: agent.COMMAND_ASSEMBLY_INLINE_EXECUTE, Build: one(func(e *demonref.Enc, _ string, n uint32) {
		e.Int32(agent.DOTNET_INFO_ENTRYPOINT).Int32(n % 9000)
	})},
	// relay kinds: accepted without a task by the statement
	{Name: "socket-rportfwd-list", Cmd: agent.COMMAND_SOCKET, Relay: true, Build: one(func(e *demonref.Enc, _ string, n uint32) {
		e.Int32(agent.SOCKET_COMMAND_RPORTFWD_LIST).Int32(n).Int32(0x0100007f).Int32(8080).Int32(0x0100007f).Int32(80)
	})},
	{Name: "pivot-list", Cmd: agent.COMMAND_PIVOT, Relay: true, Build: one(func(e *demonref.Enc, text string, n uint32) {
		e.Int32(agent.DEMON_PIVOT_LIST).Int32(n).WString("\\\\.\\pipe\\" + text)
	})},
}

var (
	kindsByCmd = map[uint32][]int{}
	genericIdx []int // kinds that may follow any command
	issueCmds  []uint32
	kindByName = map[string]kind{}
)

func init() {
	kinds = append(kinds, relayKinds...) // relay_test.go
	seen := map[uint32]bool{}
	for i, k := range kinds {
		kindByName[k.Name] = k
		if k.Relay {
			relayIdx = append(relayIdx, i)
		}
		switch k.Cmd {
		case agent.COMMAND_OUTPUT, agent.BEACON_OUTPUT, agent.COMMAND_ERROR, agent.DEMON_INFO, agent.COMMAND_PACKAGE_DROPPED, agent.COMMAND_KILL_DATE:
			genericIdx = append(genericIdx, i)
			continue
		}
		kindsByCmd[k.Cmd] = append(kindsByCmd[k.Cmd], i)
		if !seen[k.Cmd] && !k.Relay {
			seen[k.Cmd] = true
			issueCmds = append(issueCmds, k.Cmd)
		}
	}
}

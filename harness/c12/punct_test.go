package c12

// Configured header values that are not words: tokens with ASCII punctuation (JSON-ish,
// bracketed, quoted, e-mail / path like values, entity tags, pipes, carets, tildes,
// backquotes, backslashes), and the request class "the configured value with ONE ASCII
// character substituted by a neighbouring one": the character whose code differs in
// exactly one bit (bit 0 .. bit 6; bit 5 is what tells 'a' from 'A' - and '{' from '[',
// '@' from '`', '^' from '~', ')' from TAB), or the next / previous code.
//
// Nothing new for the judge (a_test.go): such a value is 'the configured value' only
// byte-equal or with the same lower-case form - so a substituted LETTER may be the same
// letter in the other case (grey, accepted either way), every other substitution is a
// different value and must get the decoy.

import (
	"fmt"

	"pgregory.net/rapid"
)

var punctValuePool = []string{
	`{"id":17,"ok":true}`, `[edge-2]`, `{7f3a-91}`, `W/"5e1b-1a2b"`, `user@example.com`, `a|b|c`, `~tmp^2`, "`id -u`",
	`C:\Users\x`, `(gzip) level=9`, `text/*;q=0.8`, `<https://example.com/next>; rel="next"`, `x_y_z`, `100%`, `#frag!`,
	`k=v&k2=v2`, `'quoted'`, `$1+2`, `token{A}@cdn^3`, `[::1]:8080`, `^start|end$`, `~`, `@`, `{}`, `a_b[0]`, `sid=}x{;path=\`,
}

var (
	punctAlphabet = func() []rune {
		var rs []rune
		for c := rune(0x21); c <= 0x7e; c++ {
			rs = append(rs, c)
		}
		return append(rs, ' ')
	}()
	punctOnly = []rune("!\"#$%&'()*+,-./:;<=>?@[\\]^_`{|}~")
)

// genPunctValue: a header value with ASCII punctuation - from the pool, or drawn from
// all of visible ASCII with at least one punctuation character.
func genPunctValue(t *rapid.T, label string) string {
	if rapid.IntRange(0, 2).Draw(t, label+"-punct-src") > 0 {
		return rapid.SampledFrom(punctValuePool).Draw(t, label+"-punct")
	}
	rs := rapid.SliceOfN(rapid.SampledFrom(punctAlphabet), 1, 14).Draw(t, label+"-punct-rand")
	at := rapid.IntRange(0, len(rs)-1).Draw(t, label+"-punct-at")
	rs[at] = rapid.SampledFrom(punctOnly).Draw(t, label+"-punct-char")
	// no blanks at the edges (net/http trims them; the configuration is 'Name: value'), and the value does
	// not start with ':' (splitCfgHeader / the handler split the entry at its first colon)
	for len(rs) > 0 && (rs[0] == ' ' || rs[0] == ':') {
		rs = rs[1:]
	}
	for len(rs) > 0 && rs[len(rs)-1] == ' ' {
		rs = rs[:len(rs)-1]
	}
	if len(rs) == 0 {
		return "~"
	}
	return string(rs)
}

// genHeaderValue: the value of an ordinary configured request header; one in three
// from the punctuation class.
func genHeaderValue(t *rapid.T) string {
	if rapid.IntRange(0, 2).Draw(t, "hvalue-class") == 0 {
		return genPunctValue(t, "hvalue")
	}
	return genValue(t, hdrValuePool, "hvalue")
}

func charClass(c byte) string {
	switch {
	case c >= 'a' && c <= 'z', c >= 'A' && c <= 'Z':
		return "letter"
	case c >= '0' && c <= '9':
		return "digit"
	case c == ' ' || c == '\t':
		return "blank"
	}
	return "punct"
}

// substitution kinds: the case bit is listed three times - it is the one a hand-written
// case-insensitive comparison gets wrong for non-letters.
var substKinds = []string{"bit0", "bit1", "bit2", "bit3", "bit4", "bit5-case-bit", "bit5-case-bit", "bit5-case-bit", "bit6", "next", "prev"}

func substitute(c byte, kind string) byte {
	switch kind {
	case "bit0":
		return c ^ 0x01
	case "bit1":
		return c ^ 0x02
	case "bit2":
		return c ^ 0x04
	case "bit3":
		return c ^ 0x08
	case "bit4":
		return c ^ 0x10
	case "bit5-case-bit":
		return c ^ 0x20
	case "bit6":
		return c ^ 0x40
	case "next":
		return c + 1
	case "prev":
		return c - 1
	}
	return c
}

// substitutable: may position i of v carry byte nb so that the request is still one
// net/http delivers with exactly this value?  Visible ASCII anywhere, a blank or TAB
// only inside the value.
func substitutable(v string, i int, nb byte) bool {
	if nb == v[i] {
		return false
	}
	if nb > 0x20 && nb < 0x7f {
		return true
	}
	return (nb == ' ' || nb == '\t') && i > 0 && i < len(v)-1
}

// substPositions: the positions of v (ASCII, visible) where kind gives a deliverable
// value, by the class of the character that is there.
func substPositions(v string, kind string) map[string][]int {
	out := map[string][]int{}
	for i := 0; i < len(v); i++ {
		c := v[i]
		if c <= 0x20 || c >= 0x7f {
			continue
		}
		if substitutable(v, i, substitute(c, kind)) {
			cl := charClass(c)
			out[cl] = append(out[cl], i)
		}
	}
	return out
}

func canSubstitute(v string) bool {
	for i := 0; i < len(v); i++ {
		if v[i] > 0x20 && v[i] < 0x7f {
			return true // bit0 of a visible character is visible or an interior blank nearly always; the mutation re-checks
		}
	}
	return false
}

// applyCharSubst replaces one ASCII character of v; the label names the kind of
// substitution and the class of the character that was replaced.
func applyCharSubst(t *rapid.T, v string) (string, string, bool) {
	kind := rapid.SampledFrom(substKinds).Draw(t, "subst-kind")
	pos := substPositions(v, kind)
	var classes []string
	for _, cl := range []string{"punct", "punct", "letter", "digit"} { // fixed order: no map iteration
		if len(pos[cl]) > 0 {
			classes = append(classes, cl)
		}
	}
	if len(classes) == 0 {
		return "", "", false
	}
	cl := rapid.SampledFrom(classes).Draw(t, "subst-class")
	i := pos[cl][rapid.IntRange(0, len(pos[cl])-1).Draw(t, "subst-pos")]
	b := []byte(v)
	b[i] = substitute(b[i], kind)
	return string(b), fmt.Sprintf("%s:%s", kind, cl), true
}

// punctCfgLabels: does the configuration offer the substitution class a punctuation character?
func punctCfgLabels(c Cfg) []string {
	for _, h := range c.Headers {
		n, v := splitCfgHeader(h)
		if isIgnored(n) {
			continue
		}
		if hasASCIIPunctBeyondPool(v) {
			return []string{"cfg-header-value-has-ascii-punctuation"}
		}
	}
	return nil
}

// hasASCIIPunctBeyondPool: punctuation other than what the historical value alphabet
// had (: / = ; , . - _), i.e. the characters only this class brings in.
func hasASCIIPunctBeyondPool(s string) bool {
	for i := 0; i < len(s); i++ {
		c := s[i]
		if c > 0x20 && c < 0x7f && charClass(c) == "punct" {
			switch c {
			case ':', '/', '=', ';', ',', '.', '-', '_':
			default:
				return true
			}
		}
	}
	return false
}

// punctReqLabels: the substitution a request carries and what it amounts to.
func punctReqLabels(r Req, v verdict) []string {
	if r.Subst == "" {
		return nil
	}
	out := []string{"char-substituted:" + r.Subst}
	switch {
	case v.MustReject && len(v.Reasons) == 1:
		out = append(out, "char-substituted:only-violation", "char-substituted:"+r.Subst+":only-violation")
	case v.MustReject:
		out = append(out, "char-substituted:one-of-several-violations")
	case !v.MustAdmit:
		out = append(out, "char-substituted:grey-same-lower-case-form")
	}
	return out
}

package c12

// SCALE dimension: in a small share of the cases one COUNT of the property's subject is
// drawn from a pool of threshold-adjacent large values instead of the usual handful:
//
//   - requests served by one listener instance (non-matching POSTs, matching ones, GETs
//     and mixes; a bulk is a few request templates, each sent Times times, interleaved
//     round-robin, placed before / between / after the ordinary requests and edits of
//     the case, optionally split in two parts around them; EVERY request is judged),
//   - configured request headers / URIs / hosts of the listener,
//   - the size of one configured header value,
//   - headers per request and the size of one request header,
//   - operator edits of one running listener (sub-check h).
//
// The bulk goes through the same real path as the ordinary operations (the listener's
// gin engine, DispatchEvent -> ListenerEdit); the oracle is the ordinary one.

import (
	"fmt"
	"os"
	"strings"
	"sync"

	"pgregory.net/rapid"

	"verifharness/internal/core"
)

var scalePool = []int{63, 64, 65, 127, 128, 129, 255, 256, 257, 511, 512, 513, 999, 1000, 1001,
	1023, 1024, 1025, 2047, 2048, 2049, 4095, 4096, 4097, 8191, 8192, 8193}

// drawScale: a threshold-adjacent value not above max.
func drawScale(t *rapid.T, label string, max int) int {
	n := 0
	for n < len(scalePool) && scalePool[n] <= max {
		n++
	}
	return scalePool[rapid.IntRange(0, n-1).Draw(t, label)]
}

func scaleBucket(n int) string {
	switch {
	case n < 63:
		return ""
	case n < 255:
		return "64-129"
	case n < 999:
		return "255-513"
	case n < 2047:
		return "999-1025"
	case n < 8191:
		return "2047-4097"
	}
	return "8191+"
}

func scaleLabel(what string, n int) []string {
	if b := scaleBucket(n); b != "" {
		return []string{"scale:" + what + ":" + b}
	}
	return nil
}

// what one case can afford (quick / thorough): an admitted request costs ~0.2 ms with the
// recorder of (a) and ~2 ms on the real Teamserver of (h), an operator edit ~10 ms (the
// listener row is rewritten), a rejected request ~20 us.
func capAdmitted(real bool) int {
	switch {
	case real && core.Tier() == "thorough":
		return 1025
	case real:
		return 513
	case core.Tier() == "thorough":
		return 8193
	}
	return 2049
}

func capEdits() int {
	if core.Tier() == "thorough" {
		return 513
	}
	return 129
}

const capCfgEntries = 1025 // configured headers / URIs / hosts of one listener

// isScaleCase: about one case in `one` (mid-range hit of a uniform draw).
// VERIF_C12_NOSCALE=1 switches the dimension off (to measure what it costs).
func isScaleCase(t *rapid.T, one int) bool {
	hit := rapid.IntRange(0, one-1).Draw(t, "scale-case") == one/2+1
	return hit && os.Getenv("VERIF_C12_NOSCALE") == ""
}

// ---------------------------------------------------------------------------- bulk of requests

type BulkItem struct {
	Req   Req `json:"req"`
	Times int `json:"times"`
}

// Bulk: the items' requests, each Times times, interleaved round-robin.
type Bulk struct {
	Items []BulkItem `json:"items"`
}

func (b Bulk) total() int {
	n := 0
	for _, it := range b.Items {
		n += it.Times
	}
	return n
}

// each calls f for every request of the bulk in serving order.
func (b Bulk) each(f func(item int, r Req)) {
	left := make([]int, len(b.Items))
	for i, it := range b.Items {
		left[i] = it.Times
	}
	for more := true; more; {
		more = false
		for i := range b.Items {
			if left[i] > 0 {
				left[i]--
				more = true
				f(i, b.Items[i].Req)
			}
		}
	}
}

// split cuts the bulk in two parts with the same templates (for "ordinary operations in
// the middle of the bulk").
func (b Bulk) split() (Bulk, Bulk) {
	var x, y Bulk
	for _, it := range b.Items {
		h := it.Times / 2
		if h > 0 {
			x.Items = append(x.Items, BulkItem{it.Req, h})
		}
		if it.Times-h > 0 {
			y.Items = append(y.Items, BulkItem{it.Req, it.Times - h})
		}
	}
	return x, y
}

var bulkKinds = []string{"one-mutation", "one-mutation", "one-mutation", "one-mutation", "several-mutations", "canonical", "get"}

// genBulk draws 1-3 request templates around configuration c and spreads a
// threshold-adjacent total over them; templates that may be admitted are capped at what
// a case can afford.
func genBulk(t *rapid.T, c Cfg, real bool) Bulk {
	n := drawScale(t, "bulk-n", 8193)
	k := rapid.IntRange(1, 3).Draw(t, "bulk-templates")
	var b Bulk
	rest := n
	for j := 0; j < k; j++ {
		var r Req
		switch rapid.SampledFrom(bulkKinds).Draw(t, "bulk-kind") {
		case "one-mutation":
			r = genReqN(t, c, 1)
		case "several-mutations":
			r = genReqN(t, c, 2)
		case "canonical":
			r = genReqN(t, c, 0)
		case "get":
			r = genReqN(t, c, 0)
			r.Method, r.Mut = "GET", "method-get"
		}
		times := rest
		if j < k-1 {
			// the later templates get a small or a threshold-adjacent share, the last one the rest
			times = rapid.SampledFrom([]int{1, 2, 63, 64, 65, n / 4, n / 2}).Draw(t, "bulk-share")
			if times >= rest {
				times = rest / 2
			}
		}
		if times < 1 {
			continue
		}
		if v := judge(c, r); !v.MustReject && times > capAdmitted(real) {
			times = drawScale(t, "bulk-admitted-n", capAdmitted(real))
		}
		rest -= times
		if rest < 0 {
			rest = 0
		}
		b.Items = append(b.Items, BulkItem{r, times})
	}
	return b
}

// bulkCounts: requests of a bulk by fate under configuration c.
type fateCounts struct{ total, rejectPost, admit, get, grey int }

func (f *fateCounts) add(c Cfg, r Req, times int) {
	v := judge(c, r)
	f.total += times
	switch {
	case r.Method == "GET":
		f.get += times
	case v.MustAdmit:
		f.admit += times
	case v.MustReject && r.Method == "POST":
		f.rejectPost += times
	case !v.MustReject:
		f.grey += times
	}
}

func (f fateCounts) labels() []string {
	var out []string
	out = append(out, scaleLabel("requests-per-listener", f.total)...)
	out = append(out, scaleLabel("non-matching-posts-per-listener", f.rejectPost)...)
	out = append(out, scaleLabel("matching-requests-per-listener", f.admit)...)
	out = append(out, scaleLabel("gets-per-listener", f.get)...)
	kinds := 0
	for _, n := range []int{f.rejectPost, f.admit, f.get} {
		if n >= 63 {
			kinds++
		}
	}
	if kinds > 1 {
		out = append(out, "scale:requests-per-listener:mix-of-fates")
	}
	return out
}

// ---------------------------------------------------------------------------- configuration / request sizes

var scaleCfgDims = []string{"cfg-headers", "cfg-uris", "cfg-hosts", "cfg-header-value-size", "request-header-count", "request-header-size"}

// insertAt puts bulk into list before / in the middle of / after the ordinary entries.
func insertAt(t *rapid.T, list, bulk []string) []string {
	at := 0
	switch rapid.IntRange(0, 2).Draw(t, "scale-insert") {
	case 1:
		at = len(list) / 2
	case 2:
		at = len(list)
	}
	out := append([]string(nil), list[:at]...)
	out = append(out, bulk...)
	return append(out, list[at:]...)
}

// scaleCfg grows one count of the configuration to a threshold-adjacent value.
func scaleCfg(t *rapid.T, c *Cfg, dim string) {
	switch dim {
	case "cfg-headers":
		n := drawScale(t, "n-cfg-headers", capCfgEntries)
		var bulk []string
		for i := 0; i < n; i++ {
			bulk = append(bulk, fmt.Sprintf("X-Bulk-%d: v%d", i, i))
		}
		c.Headers = insertAt(t, c.Headers, bulk)
	case "cfg-uris":
		n := drawScale(t, "n-cfg-uris", capCfgEntries)
		var bulk []string
		for i := 0; i < n; i++ {
			bulk = append(bulk, fmt.Sprintf("/bulk/%d", i))
		}
		c.Uris = insertAt(t, effectiveUris(*c), bulk)
	case "cfg-hosts":
		n := drawScale(t, "n-cfg-hosts", capCfgEntries)
		var bulk []string
		for i := 0; i < n; i++ {
			bulk = append(bulk, fmt.Sprintf("h%d.bulk.example.com", i))
		}
		c.Hosts = insertAt(t, c.Hosts, bulk)
	case "cfg-header-value-size":
		n := drawScale(t, "cfg-value-size", 8193)
		c.Headers = insertAt(t, c.Headers, []string{"X-Big: " + bigValue(n)})
	}
}

func bigValue(n int) string {
	const unit = "Abc-012=xyZ;"
	return strings.Repeat(unit, n/len(unit)+1)[:n]
}

// scaleReqs pads some requests of the case (at least one) with many unconfigured
// headers or one huge unconfigured header.
func scaleReqs(t *rapid.T, reqs []*Req, dim string) {
	if len(reqs) == 0 {
		return
	}
	must := rapid.IntRange(0, len(reqs)-1).Draw(t, "scale-req")
	for i, r := range reqs {
		if i != must && !rapid.Bool().Draw(t, "scale-req-too") {
			continue
		}
		if dim == "request-header-count" {
			r.PadHeaders = drawScale(t, "pad-headers", 8193)
		} else {
			r.PadValueLen = drawScale(t, "pad-value-len", 8193)
		}
	}
}

func cfgScaleLabels(c Cfg) []string {
	var out []string
	out = append(out, scaleLabel("cfg-headers", len(c.Headers))...)
	out = append(out, scaleLabel("cfg-uris", len(effectiveUris(c)))...)
	out = append(out, scaleLabel("cfg-hosts", len(c.Hosts))...)
	big := 0
	for _, h := range c.Headers {
		if _, v := splitCfgHeader(h); len(v) > big {
			big = len(v)
		}
	}
	out = append(out, scaleLabel("cfg-header-value-size", big)...)
	return out
}

func reqScaleLabels(r Req) []string {
	var out []string
	out = append(out, scaleLabel("request-header-count", r.PadHeaders)...)
	out = append(out, scaleLabel("request-header-size", r.PadValueLen)...)
	return out
}

// lazyStr defers building the (large) description of a request until a violation needs it.
type lazyStr func() string

func (l lazyStr) String() string {
	s := l()
	if len(s) > 5000 {
		s = s[:3500] + " ...[" + fmt.Sprint(len(s)-5000) + " bytes]... " + s[len(s)-1500:]
	}
	return s
}

var (
	scaleSeenMu sync.Mutex
	scaleSeen   = map[string]map[string]int{}
)

// noteScale tallies the scale:* labels of a classified case into the evidence's "extra"
// block (the class histogram keeps the 60 most frequent labels only, and a scale class
// is rare by design).  The driver keeps the block of one shard: the tallies are those of
// one shard of the run, not of all of them.
func noteScale(sub string, labels []string) {
	var hit []string
	for _, l := range labels {
		if strings.HasPrefix(l, "scale:") && !strings.HasPrefix(l, "scale:cfg-header-value-size:64-129") {
			hit = append(hit, l)
		}
	}
	if len(hit) == 0 {
		return
	}
	scaleSeenMu.Lock()
	defer scaleSeenMu.Unlock()
	m := scaleSeen[sub]
	if m == nil {
		m = map[string]int{}
		scaleSeen[sub] = m
	}
	for _, l := range hit {
		m[l]++
	}
	cp := make(map[string]int, len(m))
	for k, v := range m {
		cp[k] = v
	}
	core.SetExtra("scale_classes_reached_in_one_shard", cp)
}

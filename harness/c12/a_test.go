package c12

// C12 — an HTTP listener serves only requests that match its profile.
//
// Fixture: the real handlers.HTTP with a tsx.Recorder as teamserver.  Start()
// registers the real routes (POST /*endpoint -> the unexported request handler,
// GET /*endpoint -> the decoy page) and starts an http.Server on 127.0.0.1:0; the
// requests of a case are driven in-process through h.GinEngine.ServeHTTP with the
// harness choosing RemoteAddr / RequestURI / headers the way net/http's server
// would have filled them in (canonical header names, trimmed values, Host moved to
// req.Host).  The body of every request is a valid Demon registration
// (demonref.MetaData.InitPackage, transcribed from payloads/Demon/src/Demon.c), so
// "the request reached the agent protocol" is observable: the recorder gets an
// `add` call with that agent id and the answer is 200 + the registration reply.
//
// The oracle (judge) is written from the property statement only; it never looks at
// how handlers/http.go splits strings.

import (
	"bytes"
	"encoding/binary"
	"fmt"
	"io"
	"net"
	"net/http"
	"net/http/httptest"
	"net/url"
	"os"
	"sort"
	"strings"
	"sync"
	"testing"
	"time"
	"unicode/utf8"

	"Havoc/pkg/agent"
	"Havoc/pkg/handlers"

	"pgregory.net/rapid"

	"verifharness/internal/core"
	"verifharness/internal/demonref"
	"verifharness/internal/pick"
	"verifharness/internal/tsx"
)

// ---------------------------------------------------------------------------- case

type Cfg struct {
	Uris        []string `json:"uris"`         // nil, [""] (= none configured) or 1-4 URIs starting with "/"
	UserAgent   string   `json:"user_agent"`   // "" = not configured
	Headers     []string `json:"headers"`      // "Name: value"
	RespHeaders []string `json:"resp_headers"` // "Name: value" or "Name:value"
	BehindRedir bool     `json:"behind_redir"`

	// fields of HTTPConfig the admission logic does not read on HEAD; the statement
	// makes admission independent of them, so they are drawn too
	HostHeader   string   `json:"host_header,omitempty"`
	Hosts        []string `json:"hosts,omitempty"` // "name" or "name:port"; empty = ["127.0.0.1"]
	HostRotation string   `json:"host_rotation,omitempty"`
	PortConn     string   `json:"port_conn,omitempty"`
	Secure       bool     `json:"secure,omitempty"`
	ProxyEnabled bool     `json:"proxy_enabled,omitempty"`
	ProxyType    string   `json:"proxy_type,omitempty"`
	ProxyHost    string   `json:"proxy_host,omitempty"`
	ProxyPort    string   `json:"proxy_port,omitempty"`
	ProxyUser    string   `json:"proxy_user,omitempty"`
	ProxyPass    string   `json:"proxy_pass,omitempty"`
	KillDate     int64    `json:"kill_date,omitempty"`
	WorkingHours string   `json:"working_hours,omitempty"`
	Methode      string   `json:"methode,omitempty"`
}

type Hdr struct {
	Name  string `json:"name"`
	Value string `json:"value"`
}

type Req struct {
	Method  string `json:"method"`
	URI     string `json:"uri"` // request-target as sent on the wire
	HasUA   bool   `json:"has_ua"`
	UA      string `json:"ua,omitempty"`
	Headers []Hdr  `json:"headers"` // as sent (names in any case, values trimmed)
	Peer    string `json:"peer"`    // RemoteAddr as net/http reports it
	XFF     string `json:"xff,omitempty"`
	Mut     string `json:"mut"`             // what the generator intended (label only; the oracle does not read it)
	Subst   string `json:"subst,omitempty"` // hdr-char-substituted: kind of substitution and class of the replaced character (label only)

	Host      string `json:"host"`                 // Request.Host as net/http reports it (the Host header)
	HostClass string `json:"host_class,omitempty"` // how the generator chose it (label only)
	Extra     []Hdr  `json:"extra,omitempty"`      // further headers, names that are not configured: irrelevant to admission

	// scale (scale_test.go): that many further unconfigured headers X-Pad-<i>, one unconfigured header X-Pad-Big of that size
	PadHeaders  int `json:"pad_headers,omitempty"`
	PadValueLen int `json:"pad_value_len,omitempty"`

	// fault injection (fault_test.go): this request is served while ONE dependency of the
	// handler fails (the request body as a failing reader / a broken transfer over a real
	// socket, the response writer, the decoy page file); lifted for the requests after it
	Fault *Fault `json:"fault,omitempty"`
}

// BulkAt: a bulk of requests served before Reqs[At] (At == len(Reqs): after the last one).
type BulkAt struct {
	At   int  `json:"at"`
	Bulk Bulk `json:"bulk"`
}

type Case struct {
	Cfg   Cfg      `json:"cfg"`
	Reqs  []Req    `json:"reqs"`
	Bulks []BulkAt `json:"bulks,omitempty"` // scale: requests per listener instance
	Page  string   `json:"page,omitempty"`  // "present": the case runs in a working directory that has the decoy page (fault_test.go); "" = the harness's own (page missing)
}

// ---------------------------------------------------------------------------- generator

var (
	ignoredNames = []string{"Connection", "Accept-Encoding"} // documented in handlers/http.go (IgnoreHeaders)

	uriPool = []string{"/", "/index.php", "/api/v1/Update", "/Collect/data.aspx", "/js/jquery-3.6.0.min.js",
		"/search?q=havoc", "/submit.php?id=1&lang=en", "/a", "/a/b", "/owa/",
		"/skins/ask.js", "/caf\u00e9/\u03bcs/\u03c3\u03c5\u03c2"}
	uaPool = []string{
		"Mozilla/5.0 (Windows NT 6.1; WOW64) AppleWebKit/537.36 (KHTML, like Gecko) Chrome/96.0.4664.110 Safari/537.36",
		"Mozilla/5.0 (Windows NT 10.0; Win64; x64; rv:109.0) Gecko/20100101 Firefox/115.0",
		"curl/8.0", "Agent: x", "UA",
		"Sk\u00fdpe/8.1 (\u00b5Kernel; \u03ba\u03cc\u03c3\u03bc\u03bf\u03c2)",
	}
	hdrNamePool = []string{"Content-type", "X-Havoc", "x-request-id", "Accept", "Accept-Language", "Cache-Control",
		"X-Meta", "Referer", "X-Api-Key", "Connection", "Accept-Encoding", "accept-encoding", "CONNECTION"}
	hdrValuePool = []string{"*/*", "true", "Keep-Alive", "gzip, deflate", "text/html,application/xhtml+xml",
		"en-US,en;q=0.5", "https://example.com/a", "a: b", "k: v: w", "host:8080", "no-cache", "AbC123", "Bearer: TokenX",
		"http://10.0.0.1:8080/cb?x=1",
		// letters that have Unicode case-folding partners besides their ASCII pair (s, k), non-ASCII letters
		// (sigma / final sigma, micro sign, mu, sharp s) and composed letters (NFC)
		"session=Kiosk-7", "Basic c2VjcmV0", "keep-asking", "sk", "\u03c3\u03cd\u03c3\u03c4\u03b7\u03bc\u03b1-\u03ba\u03c2", "10\u00b5s", "\u03bcs=250",
		"Stra\u00dfe 7", "caf\u00e9-cr\u00e8me", "Zoe\u0308"}
	respNamePool  = []string{"Server", "X-Powered-By", "Location", "Content-Type", "Cache-Control", "X-Frame-Options", "Link", "X-Trace"}
	respValuePool = []string{"nginx", "ASP.NET", "https://example.com/login", "text/html; charset=utf-8", "max-age=0, no-cache",
		"SAMEORIGIN", "<https://cdn.example.com:8443/a.css>; rel=preload", "a:b:c", "12:30:45", "x: y"}
	peerPool = []string{"1.2.3.4:5555", "10.0.0.7:49152", "192.168.1.20:80", "[2001:db8::1]:5555", "[::1]:40000", "[fe80::1%eth0]:1234", "127.0.0.1:1"}
	xffPool  = []string{"9.8.7.6", "203.0.113.77", "2001:db8::99", "::ffff:1.2.3.4"}
)

var valueAlphabet = []rune("abcdefghijklmnopqrstuvwxyzABCDEFGHIJKLMNOPQRSTUVWXYZ0123456789:/ =;,.-_")

func genValue(t *rapid.T, pool []string, label string) string {
	if rapid.IntRange(0, 3).Draw(t, label+"-src") > 0 {
		return rapid.SampledFrom(pool).Draw(t, label)
	}
	rs := rapid.SliceOfN(rapid.SampledFrom(valueAlphabet), 1, 16).Draw(t, label+"-rand")
	s := strings.TrimSpace(string(rs))
	if s == "" {
		s = "v"
	}
	return s
}

var pathAlphabet = []rune("abcdefghijklmnopqrstuvwxyzABCDEFGHIJKLMNOPQRSTUVWXYZ0123456789/._-")

func genURI(t *rapid.T, label string) string {
	if rapid.IntRange(0, 3).Draw(t, label+"-src") > 0 {
		return rapid.SampledFrom(uriPool).Draw(t, label)
	}
	p := "/" + string(rapid.SliceOfN(rapid.SampledFrom(pathAlphabet), 1, 12).Draw(t, label+"-path"))
	if rapid.Bool().Draw(t, label+"-q") {
		p += "?k=" + string(rapid.SliceOfN(rapid.SampledFrom([]rune("abcXYZ019")), 1, 4).Draw(t, label+"-qv"))
	}
	return p
}

func genCfg(t *rapid.T) Cfg {
	var c Cfg
	switch rapid.IntRange(0, 6).Draw(t, "uri-mode") {
	case 0:
		c.Uris = nil
	case 1:
		c.Uris = []string{""} // what a restored / joined-and-split empty list looks like: "none configured"
	default:
		n := rapid.IntRange(1, 4).Draw(t, "nuris")
		seen := map[string]bool{}
		for i := 0; i < n; i++ {
			u := genURI(t, "uri")
			if seen[u] {
				continue
			}
			seen[u] = true
			c.Uris = append(c.Uris, u)
		}
	}
	if rapid.Bool().Draw(t, "ua-set") {
		c.UserAgent = rapid.SampledFrom(uaPool).Draw(t, "ua")
	}
	nh := rapid.IntRange(0, 4).Draw(t, "nheaders")
	nr := rapid.IntRange(0, 3).Draw(t, "nresp")
	seenR := map[string]bool{}
	for i := 0; i < nr; i++ {
		n := rapid.SampledFrom(respNamePool).Draw(t, "rname")
		if seenR[n] {
			continue
		}
		seenR[n] = true
		sep := ": "
		if rapid.IntRange(0, 4).Draw(t, "rsep") == 0 {
			sep = ":"
		}
		c.RespHeaders = append(c.RespHeaders, n+sep+genValue(t, respValuePool, "rvalue"))
	}
	c.BehindRedir = rapid.Bool().Draw(t, "redir")
	genCfgExtras(t, &c, true)
	// the Headers list: in 4 of 10 configurations with the header-NAME classes (names another
	// setting or the HTTP stack owns, repeated names, case variants, trailing blank), see names_test.go
	special := rapid.IntRange(0, 9).Draw(t, "header-name-classes") < 4
	if special && nh == 0 {
		nh = rapid.IntRange(1, 3).Draw(t, "nheaders-special")
	}
	c.Headers = genHeaderEntries(t, nh, special, c)
	relateUA(t, &c)
	return c
}

var listenerHostPool = []string{"c2.example.com", "10.10.10.5", "cdn-7.example.org", "teamserver.corp.example", "192.168.56.1"}

// genCfgExtras draws the HTTPConfig fields admission does not depend on.
func genCfgExtras(t *rapid.T, c *Cfg, allowSecure bool) {
	n := rapid.IntRange(1, 3).Draw(t, "nhosts")
	seen := map[string]bool{}
	for i := 0; i < n; i++ {
		h := rapid.SampledFrom(listenerHostPool).Draw(t, "lhost")
		if seen[h] {
			continue
		}
		seen[h] = true
		if rapid.IntRange(0, 2).Draw(t, "lhost-port") == 0 {
			h += ":" + rapid.SampledFrom([]string{"443", "8080"}).Draw(t, "lhost-portv")
		}
		c.Hosts = append(c.Hosts, h)
	}
	switch rapid.IntRange(0, 5).Draw(t, "hostheader-mode") {
	case 0, 1: // not configured
	case 2:
		c.HostHeader = rapid.SampledFrom([]string{"front.cdn.example.net", "Static.Example.ORG"}).Draw(t, "hh-name")
	case 3:
		c.HostHeader = rapid.SampledFrom([]string{"front.cdn.example.net:8443", "a.b:80"}).Draw(t, "hh-name-port")
	case 4:
		c.HostHeader = c.Hosts[0] // equal to one of the hosts
	case 5:
		c.HostHeader = strings.Split(c.Hosts[0], ":")[0] + ".evil.example" // resembles a host but differs
	}
	c.HostRotation = rapid.SampledFrom([]string{"round-robin", "random"}).Draw(t, "rotation")
	if rapid.Bool().Draw(t, "portconn") {
		c.PortConn = rapid.SampledFrom([]string{"443", "8443"}).Draw(t, "portconnv")
	}
	if rapid.IntRange(0, 2).Draw(t, "proxy") == 0 {
		c.ProxyEnabled = true
		c.ProxyType = rapid.SampledFrom([]string{"http", "https"}).Draw(t, "ptype")
		c.ProxyHost = rapid.SampledFrom([]string{"proxy.corp.example", "10.0.0.2"}).Draw(t, "phost")
		c.ProxyPort = rapid.SampledFrom([]string{"8080", "3128"}).Draw(t, "pport")
		if rapid.Bool().Draw(t, "pcreds") {
			c.ProxyUser, c.ProxyPass = "svc-proxy", "P@ss: w0rd"
		}
	}
	if rapid.IntRange(0, 3).Draw(t, "killdate") == 0 {
		c.KillDate = 133500000000000000
	}
	if rapid.IntRange(0, 3).Draw(t, "hours") == 0 {
		c.WorkingHours = "8:00-17:00"
	}
	c.Methode = rapid.SampledFrom([]string{"", "POST", "post"}).Draw(t, "methode")
	// a TLS listener generates its certificate on start (seconds of CPU): rare
	// rapid favours the ends of an integer range, so "rare" is a conjunction of two
	// mid-range hits: about 1/3000 in the quick tier, 1/900 in the thorough one
	span := 59
	if core.Tier() == "thorough" {
		span = 29
	}
	if allowSecure && rapid.IntRange(0, span).Draw(t, "secure-1") == span/2+3 && rapid.IntRange(0, 49).Draw(t, "secure-2") == 23 {
		c.Secure = true
	}
}

func hostHeaderClass(c Cfg) string {
	switch {
	case c.HostHeader == "":
		return "empty"
	case len(c.Hosts) > 0 && c.HostHeader == c.Hosts[0]:
		return "one-of-hosts"
	case strings.HasSuffix(c.HostHeader, ".evil.example"):
		return "resembles-a-host"
	case strings.Contains(c.HostHeader, ":"):
		return "name:port"
	}
	return "name"
}

var (
	hostClasses = []string{"canonical", "canonical", "canonical", "case-variant", "port-toggled", "one-of-hosts", "bind-address", "garbage", "empty", "other-host-of-pool"}
	extraPool   = []Hdr{{"X-Forwarded-Host", "front.cdn.example.net"}, {"X-Forwarded-Host", "evil.example"}, {"Referer", "https://front.cdn.example.net/"},
		{"Origin", "https://evil.example"}, {"Cookie", "session=abc; id=1"}, {"Content-Type", "application/octet-stream"}, {"Content-Type", "text/html"},
		{"X-Real-IP", "6.6.6.6"}, {"Forwarded", "for=7.7.7.7;host=evil.example"}, {"Authorization", "Basic eDp5"}}
)

// genHost draws Request.Host.  The canonical Demon request carries the configured host
// header, or the host it connects to when none is configured (TransportHttp.c).
func genHost(t *rapid.T, c Cfg) (string, string) {
	hosts := c.Hosts
	if len(hosts) == 0 {
		hosts = []string{"127.0.0.1"}
	}
	canon := c.HostHeader
	if canon == "" {
		canon = rapid.SampledFrom(hosts).Draw(t, "canon-host")
	}
	class := rapid.SampledFrom(hostClasses).Draw(t, "host-class")
	switch class {
	case "case-variant":
		if f := flipCase(canon); f != "" {
			return f, class
		}
	case "port-toggled":
		if i := strings.Index(canon, ":"); i >= 0 {
			return canon[:i], class
		}
		return canon + ":8443", class
	case "one-of-hosts":
		return rapid.SampledFrom(hosts).Draw(t, "a-host"), class
	case "bind-address":
		return "127.0.0.1:40056", class
	case "garbage":
		return rapid.SampledFrom([]string{"%%%", "localhost", "[::1]:80", "a b", "*.example.com", "xn--e1afmkfd.xn--p1ai"}).Draw(t, "garbage-host"), class
	case "empty":
		return "", class
	case "other-host-of-pool":
		return rapid.SampledFrom(listenerHostPool).Draw(t, "pool-host"), class
	}
	return canon, "canonical"
}

func genExtra(t *rapid.T, c Cfg) []Hdr {
	configured := map[string]bool{"user-agent": true, "x-forwarded-for": true}
	for _, h := range c.Headers {
		n, _ := splitCfgHeader(h)
		configured[strings.ToLower(n)] = true
	}
	var out []Hdr
	seen := map[string]bool{}
	for i, n := 0, rapid.IntRange(0, 3).Draw(t, "nextra"); i < n; i++ {
		e := rapid.SampledFrom(extraPool).Draw(t, "extra")
		k := strings.ToLower(e.Name)
		if configured[k] || seen[k] {
			continue
		}
		seen[k] = true
		out = append(out, e)
	}
	return out
}

func splitCfgHeader(h string) (string, string) {
	i := strings.Index(h, ":")
	if i < 0 {
		return h, ""
	}
	return h[:i], strings.Trim(h[i+1:], " \t")
}

func isIgnored(name string) bool {
	for _, ig := range ignoredNames {
		if strings.EqualFold(name, ig) {
			return true
		}
	}
	return false
}

func flipCase(s string) string {
	b := []byte(s)
	changed := false
	for i, c := range b {
		switch {
		case c >= 'a' && c <= 'z':
			b[i] = c - 32
			changed = true
		case c >= 'A' && c <= 'Z':
			b[i] = c + 32
			changed = true
		}
	}
	if !changed {
		return ""
	}
	return string(b)
}

func varyNameCase(t *rapid.T, n string) string {
	switch rapid.IntRange(0, 3).Draw(t, "namecase") {
	case 0:
		return strings.ToLower(n)
	case 1:
		return strings.ToUpper(n)
	}
	return n
}

// the mutations a request may carry; "" = none.
var muts = []string{"method-get", "method-put", "method-head", "path-wrong", "path-extra-query", "path-case", "path-prefix",
	"hdr-missing", "hdr-wrong", "hdr-case", "hdr-truncated", "hdr-extended", "ua-wrong", "ua-missing", "ua-case", "ignored-altered"}

func genReq(t *rapid.T, c Cfg, idx int) Req { return genReqN(t, c, -1) }

// genReqN: forceNm < 0 draws the number of mutations; 0 / 1 force none / exactly one, 2 several.
func genReqN(t *rapid.T, c Cfg, forceNm int) Req {
	// start from the canonical Demon request for this configuration
	// (TransportHttp.c:84-131: POST, one of the configured URIs ("/" when none), the
	// configured user agent, every configured header string added verbatim).
	var r Req
	r.Method = "POST"
	uris := effectiveUris(c)
	if len(uris) == 0 {
		if rapid.Bool().Draw(t, "anypath") {
			r.URI = "/"
		} else {
			r.URI = genURI(t, "free-uri")
		}
	} else {
		r.URI = rapid.SampledFrom(uris).Draw(t, "pick-uri")
	}
	uaE, hasUAE := uaEntry(c)
	switch {
	case c.UserAgent != "" && hasUAE && uaE != c.UserAgent && rapid.IntRange(0, 2).Draw(t, "ua-from-entry") == 0:
		r.HasUA, r.UA = true, uaE // setting and entry disagree: this request follows the entry
	case c.UserAgent != "":
		r.HasUA, r.UA = true, c.UserAgent
	case hasUAE:
		r.HasUA, r.UA = true, uaE // the user agent is configured through the Headers list only
	default:
		if rapid.Bool().Draw(t, "send-ua") {
			r.HasUA, r.UA = true, rapid.SampledFrom(uaPool).Draw(t, "free-ua")
		}
	}
	canonicalRequestHeaders(t, c, &r)
	r.Host, r.HostClass = genHost(t, c)
	if hv, ok := hostEntry(c); ok && rapid.Bool().Draw(t, "host-from-entry") {
		r.Host, r.HostClass = hv, "configured-host-entry"
	}
	r.Extra = genExtra(t, c)
	r.Peer = rapid.SampledFrom(peerPool).Draw(t, "peer")
	if c.BehindRedir || rapid.IntRange(0, 2).Draw(t, "spoof-xff") == 0 {
		r.XFF = rapid.SampledFrom(xffPool).Draw(t, "xff")
	}

	// 0 mutations (45%), exactly one (40%), several (15%)
	nm := 0
	switch {
	case forceNm == 0 || forceNm == 1:
		nm = forceNm
	case forceNm > 1:
		nm = rapid.IntRange(2, 3).Draw(t, "nmut-many")
	default:
		switch k := rapid.IntRange(0, 19).Draw(t, "nmut"); {
		case k < 9:
			nm = 0
		case k < 17:
			nm = 1
		default:
			nm = rapid.IntRange(2, 3).Draw(t, "nmut-many")
		}
	}
	var applied []string
	for i := 0; i < nm; i++ {
		m := rapid.SampledFrom(append(applicable(c, &r), applicableUni(c, &r)...)).Draw(t, "mut")
		if uniMuts[m] {
			if lbl, ok := applyUniMut(t, c, &r, m); ok {
				applied = append(applied, lbl)
			}
			continue
		}
		tgt := ""
		if applyMut(t, c, &r, m, &tgt) {
			if m == "hdr-char-substituted" {
				m += ":" + r.Subst
			}
			if tgt != "" {
				m += "@" + tgt // the name class of the header the mutation hit (names_test.go)
			}
			applied = append(applied, m)
		}
	}
	r.Mut = strings.Join(applied, "+")
	return r
}

func nonIgnoredIdx(r *Req) []int {
	var out []int
	for i, h := range r.Headers {
		if !isIgnored(h.Name) {
			out = append(out, i)
		}
	}
	return out
}

// applicable lists the mutations that can change this request under this configuration.
func applicable(c Cfg, r *Req) []string {
	out := []string{"method-get", "method-put", "method-head"}
	if len(effectiveUris(c)) > 0 {
		out = append(out, "path-wrong", "path-extra-query", "path-case", "path-prefix")
	}
	if len(nonIgnoredIdx(r)) > 0 {
		out = append(out, "hdr-missing", "hdr-wrong", "hdr-case", "hdr-truncated", "hdr-truncated", "hdr-extended", "hdr-duplicated")
		// one ASCII character of the value substituted by a neighbouring one (punct_test.go)
		for _, i := range nonIgnoredIdx(r) {
			if canSubstitute(r.Headers[i].Value) {
				out = append(out, "hdr-char-substituted", "hdr-char-substituted")
				break
			}
		}
	}
	if uaDemanded(c) {
		out = append(out, "ua-wrong", "ua-missing", "ua-case")
	}
	for _, h := range r.Headers {
		if isIgnored(h.Name) {
			out = append(out, "ignored-altered")
			break
		}
	}
	return out
}

func applyMut(t *rapid.T, c Cfg, r *Req, m string, target *string) bool {
	uris := effectiveUris(c)
	switch m {
	case "method-get":
		r.Method = "GET"
	case "method-put":
		r.Method = "PUT"
	case "method-head":
		r.Method = "HEAD"
	case "path-wrong":
		if len(uris) == 0 {
			return false
		}
		r.URI = "/not-configured/" + fmt.Sprint(len(r.URI))
	case "path-extra-query":
		if len(uris) == 0 {
			return false
		}
		if strings.Contains(r.URI, "?") {
			r.URI += "&extra=1"
		} else {
			r.URI += "?extra=1"
		}
	case "path-case":
		if len(uris) == 0 {
			return false
		}
		f := flipCase(r.URI)
		if f == "" {
			return false
		}
		r.URI = f
	case "path-prefix":
		if len(uris) == 0 {
			return false
		}
		r.URI = r.URI + "x"
	case "hdr-missing", "hdr-wrong", "hdr-case", "hdr-truncated", "hdr-extended", "hdr-duplicated":
		idx := nonIgnoredIdx(r)
		if len(idx) == 0 {
			return false
		}
		i := idx[rapid.IntRange(0, len(idx)-1).Draw(t, "which-hdr")]
		if m == "hdr-truncated" {
			// prefer a header whose value contains ": " (the interesting cut point)
			for _, j := range idx {
				if strings.Contains(r.Headers[j].Value, ": ") {
					i = j
					break
				}
			}
		}
		v := r.Headers[i].Value
		*target = headerTargetClass(c, r.Headers[i].Name)
		switch m {
		case "hdr-duplicated":
			// the header twice in the request, the other value before or after the right one
			// (Header.Get sees the first only)
			other := Hdr{r.Headers[i].Name, "other-" + fmt.Sprint(len(v))}
			if rapid.Bool().Draw(t, "dup-before") {
				r.Headers = append(r.Headers[:i:i], append([]Hdr{other}, r.Headers[i:]...)...)
			} else {
				r.Headers = append(r.Headers[:i+1:i+1], append([]Hdr{other}, r.Headers[i+1:]...)...)
			}
		case "hdr-missing":
			r.Headers = append(r.Headers[:i:i], r.Headers[i+1:]...)
		case "hdr-wrong":
			r.Headers[i].Value = "wrong-" + fmt.Sprint(len(v))
		case "hdr-case":
			f := flipCase(v)
			if f == "" {
				return false
			}
			r.Headers[i].Value = f
		case "hdr-truncated":
			cut := -1
			if j := strings.Index(v, ": "); j >= 0 && rapid.IntRange(0, 3).Draw(t, "cut-at-colon") > 0 {
				cut = j
			} else if len(v) > 1 {
				cut = rapid.IntRange(1, len(v)-1).Draw(t, "cut")
			} else {
				return false
			}
			for cut > 0 && !utf8.RuneStart(v[cut]) { // never inside a multi-byte letter: the case stays valid UTF-8 (JSON replay)
				cut--
			}
			if cut == 0 {
				return false
			}
			nv := strings.TrimRight(v[:cut], " \t") // net/http trims optional whitespace
			if nv == v || nv == "" {
				return false
			}
			r.Headers[i].Value = nv
		case "hdr-extended":
			r.Headers[i].Value = v + ": more"
		}
	case "hdr-char-substituted":
		// one ASCII character of a configured value replaced by a one-bit neighbour or the next / previous
		// code (punct_test.go); a value with punctuation is preferred
		var idx, punct []int
		for _, i := range nonIgnoredIdx(r) {
			if canSubstitute(r.Headers[i].Value) {
				idx = append(idx, i)
				if hasASCIIPunctBeyondPool(r.Headers[i].Value) {
					punct = append(punct, i)
				}
			}
		}
		if len(idx) == 0 {
			return false
		}
		if len(punct) > 0 && rapid.IntRange(0, 3).Draw(t, "subst-prefer-punct") > 0 {
			idx = punct
		}
		i := idx[rapid.IntRange(0, len(idx)-1).Draw(t, "which-hdr")]
		nv, lbl, ok := applyCharSubst(t, r.Headers[i].Value)
		if !ok {
			return false
		}
		*target = headerTargetClass(c, r.Headers[i].Name)
		r.Headers[i].Value = nv
		r.Subst = lbl
	case "ua-wrong":
		if !uaDemanded(c) {
			return false
		}
		r.HasUA, r.UA = true, uaBase(c, r)+"/x"
	case "ua-missing":
		if !uaDemanded(c) {
			return false
		}
		r.HasUA, r.UA = false, ""
	case "ua-case":
		if !uaDemanded(c) {
			return false
		}
		f := flipCase(uaBase(c, r))
		if f == "" {
			return false
		}
		r.HasUA, r.UA = true, f
	case "ignored-altered":
		done := false
		for i := 0; i < len(r.Headers); i++ {
			if isIgnored(r.Headers[i].Name) {
				if rapid.Bool().Draw(t, "ign-drop") {
					r.Headers = append(r.Headers[:i:i], r.Headers[i+1:]...)
					i--
				} else {
					r.Headers[i].Value = "close"
				}
				done = true
			}
		}
		return done
	}
	return true
}

func gen(t *rapid.T) Case {
	var c Case
	c.Cfg = genCfg(t)
	// about one case in 60: one count of the subject at a threshold-adjacent large value (scale_test.go)
	scale := ""
	if isScaleCase(t, 60) {
		scale = rapid.SampledFrom(append([]string{"requests", "requests", "requests"}, scaleCfgDims...)).Draw(t, "scale-dim")
		scaleCfg(t, &c.Cfg, scale)
	}
	n := rapid.IntRange(1, 6).Draw(t, "nreqs")
	for i := 0; i < n; i++ {
		c.Reqs = append(c.Reqs, genReq(t, c.Cfg, i))
	}
	switch scale {
	case "request-header-count", "request-header-size":
		var ps []*Req
		for i := range c.Reqs {
			ps = append(ps, &c.Reqs[i])
		}
		scaleReqs(t, ps, scale)
	case "requests":
		// the bulk before, between or after the ordinary requests, or split around some of them
		b := genBulk(t, c.Cfg, false)
		at := rapid.IntRange(0, n).Draw(t, "bulk-at")
		if at < n && rapid.Bool().Draw(t, "bulk-split") {
			x, y := b.split()
			at2 := rapid.IntRange(at+1, n).Draw(t, "bulk-at-2")
			c.Bulks = append(c.Bulks, BulkAt{at, x}, BulkAt{at2, y})
		} else {
			c.Bulks = append(c.Bulks, BulkAt{at, b})
		}
	}
	// about one case in 4: ONE request of the case is served while one dependency fails (fault_test.go)
	if isFaultCase(t) {
		var ps []*Req
		for i := range c.Reqs {
			ps = append(ps, &c.Reqs[i])
		}
		attachFault(t, c.Cfg, ps)
		c.Page = "present"
	}
	return c
}

// ---------------------------------------------------------------------------- oracle (from the statement)

// effectiveUris: the configured URIs; nil and [""] both mean "none configured"
// (handlers/http.go documents the [""] form; it is what strings.Split("", ", ")
// yields when a stored listener is restored).
func effectiveUris(c Cfg) []string {
	if len(c.Uris) == 0 || (len(c.Uris) == 1 && c.Uris[0] == "") {
		return nil
	}
	return c.Uris
}

type verdict struct {
	MustAdmit  bool
	MustReject bool
	Reasons    []string // violated constraints (MustReject) or grey features (neither)
}

func anyFolds(vals []string, want string) bool {
	for _, v := range vals {
		if strings.ToLower(v) == strings.ToLower(want) {
			return true
		}
	}
	return false
}

func judge(c Cfg, r Req) verdict {
	var bad, grey []string
	if r.Method != "POST" {
		bad = append(bad, "method")
	}
	if uris := effectiveUris(c); len(uris) > 0 {
		exact, byPath := false, false
		path := r.URI
		if i := strings.IndexByte(path, '?'); i >= 0 {
			path = path[:i]
		}
		for _, u := range uris {
			if r.URI == u {
				exact = true
			}
			if path == u {
				byPath = true
			}
		}
		switch {
		case exact:
		case byPath:
			grey = append(grey, "uri-extra-query") // tolerated either way
		default:
			bad = append(bad, "uri")
		}
	}
	dh := deliveredHeader(r) // Request.Header as net/http hands it to a handler
	if c.UserAgent != "" {
		uas := dh.Values("User-Agent")
		switch {
		case len(uas) == 0:
			bad = append(bad, "ua-missing")
		case len(uas) > 1:
			bad = append(bad, "ua") // not generated; a request with several user agents does not "have the configured one"
		case uas[0] != c.UserAgent && strings.EqualFold(uas[0], c.UserAgent) && strings.ToLower(uas[0]) != strings.ToLower(c.UserAgent):
			bad = append(bad, "ua-unicode-fold-partner")
		case uas[0] != c.UserAgent:
			bad = append(bad, "ua")
		}
	}
	for _, h := range c.Headers {
		n, want := splitCfgHeader(h)
		if isIgnored(n) {
			continue // the documented skip list: Connection, Accept-Encoding (any letter case) - nothing else
		}
		if !isTokenName(n) {
			// e.g. a trailing blank: no request that reaches a handler can carry a header of that name
			bad = append(bad, "header-name-not-deliverable")
			continue
		}
		cn := canonName(n)
		switch cn {
		case "Host":
			// the request's Host is Request.Host; HEAD looks for it in Request.Header, where it never is
			if strings.ToLower(r.Host) == strings.ToLower(want) {
				grey = append(grey, "host-entry-equals-request-host")
			} else {
				bad = append(bad, "host-entry")
			}
			continue
		case "Content-Length":
			// the Content-Length the request announces (fault_test.go: it may differ from what is delivered)
			if got, ok := announcedContentLength(r); !ok || want != got {
				bad = append(bad, "content-length-entry")
			}
			continue
		}
		vals := dh.Values(cn)
		if len(vals) > 1 {
			// the header is repeated in the request: carrying the configured value among them is accepted
			// either way (Header.Get reads the first); carrying it nowhere is a wrong value
			if anyFolds(vals, want) {
				grey = append(grey, "header-repeated-in-request")
			} else if cn == "User-Agent" {
				bad = append(bad, "ua-entry")
			} else {
				bad = append(bad, "header-value")
			}
			continue
		}
		got, ok := "", len(vals) == 1
		if ok {
			got = vals[0]
		}
		if cn == "User-Agent" {
			// a "User-Agent: v" entry of the Headers list is a configured header like any other
			switch {
			case !ok:
				bad = append(bad, "ua-entry-missing")
			case got == want:
			case strings.ToLower(got) == strings.ToLower(want):
				grey = append(grey, "header-value-case")
			default:
				bad = append(bad, "ua-entry")
			}
			continue
		}
		switch {
		case !ok && strings.HasPrefix(want, ": "):
			// Header.Get gives "" for an absent header: the same as the configured value cut at its first ": "
			bad = append(bad, "header-truncated-at-colon-space")
		case !ok:
			bad = append(bad, "header-missing")
		case got == want:
		case strings.ToLower(got) == strings.ToLower(want):
			// the code documents a case-insensitive comparison: the same value in another letter case,
			// i.e. both have the same lower-case form
			if isASCII(got) && isASCII(want) {
				grey = append(grey, "header-value-case")
			} else {
				grey = append(grey, "header-value-case-non-ascii")
			}
		case strings.EqualFold(got, want):
			// equal under Unicode simple case folding only (long s for s, final sigma for sigma, micro sign
			// for mu, ...): not the configured value in any letter case
			bad = append(bad, "header-value-unicode-fold-partner")
		case len(got) < len(want) && strings.EqualFold(want[:len(got)], got) && strings.HasPrefix(want[len(got):], ": "):
			bad = append(bad, "header-truncated-at-colon-space") // exactly or up to letter case
		case len(got) < len(want) && strings.EqualFold(want[:len(got)], got):
			bad = append(bad, "header-truncated")
		default:
			bad = append(bad, "header-value")
		}
	}
	if len(bad) > 0 {
		return verdict{MustReject: true, Reasons: uniq(bad)}
	}
	if len(grey) > 0 {
		return verdict{Reasons: uniq(grey)}
	}
	return verdict{MustAdmit: true}
}

func uniq(in []string) []string {
	m := map[string]bool{}
	var out []string
	for _, s := range in {
		if !m[s] {
			m[s] = true
			out = append(out, s)
		}
	}
	sort.Strings(out)
	return out
}

func cfgFeatures(c Cfg) string {
	var f []string
	for _, h := range c.Headers {
		n, v := splitCfgHeader(h)
		if isIgnored(n) {
			continue
		}
		if strings.Contains(v, ": ") {
			f = append(f, "header-value-has-colon-space")
		}
	}
	if len(c.Uris) == 1 && c.Uris[0] == "" {
		f = append(f, "uris=[empty]")
	}
	f = uniq(f)
	if len(f) == 0 {
		return "plain"
	}
	return f[0] // one feature names the class: the header feature first, then the URI form
}

func peerIP(peer string) string {
	h, _, err := net.SplitHostPort(peer)
	if err != nil {
		return peer
	}
	return h
}

func peerKind(peer string) string {
	if strings.HasPrefix(peer, "[") {
		return "ipv6-peer"
	}
	return "ipv4-peer"
}

// ---------------------------------------------------------------------------- fixture

var key = bytes.Repeat([]byte{0x41}, 32)
var iv = bytes.Repeat([]byte{0x17}, 16)

func startListener(c Cfg) (*handlers.HTTP, *tsx.Recorder, func()) {
	tsx.Quiet()
	rec := tsx.NewRecorder()
	h := handlers.NewConfigHttp()
	h.Config = httpConfigFull(c, "c12")
	h.Teamserver = rec
	if c.Secure {
		secureLootOnce.Do(func() {
			d, err := os.MkdirTemp("", "verif-c12-loot-")
			if err == nil {
				secureLoot = d
			}
		})
		tsx.SetLoot(secureLoot) // Start() writes the generated certificate below the listener path
	}
	h.Start()
	stop := func() {
		// h.Server is assigned inside the goroutine Start() spawned; wait for it, close
		// it (Stop() would always wait 5 s), and join the goroutine: it reports the
		// ErrServerClosed through EventListenerError as its last action.
		deadline := time.Now().Add(10 * time.Second)
		for h.Server == nil && time.Now().Before(deadline) {
			time.Sleep(50 * time.Microsecond)
		}
		if h.Server != nil {
			h.Server.Close()
		}
		for time.Now().Before(deadline) {
			done := c.Secure && !h.Active // the TLS goroutine only clears Active on ErrServerClosed
			for _, e := range rec.Take() {
				if e.Kind == "listenererror" {
					done = true
				}
			}
			if done {
				break
			}
			time.Sleep(50 * time.Microsecond)
		}
	}
	return h, rec, stop
}

var (
	secureLootOnce sync.Once
	secureLoot     string
)

// httpConfigFull builds the HTTPConfig of a case with every field that exists on HEAD.
func httpConfigFull(c Cfg, name string) handlers.HTTPConfig {
	hosts := append([]string(nil), c.Hosts...)
	if len(hosts) == 0 {
		hosts = []string{"127.0.0.1"}
	}
	hc := handlers.HTTPConfig{
		Name: name, KillDate: c.KillDate, WorkingHours: c.WorkingHours, Hosts: hosts, HostBind: "127.0.0.1",
		Methode: c.Methode, HostRotation: c.HostRotation, PortBind: "0", PortConn: c.PortConn,
		BehindRedir: c.BehindRedir, UserAgent: c.UserAgent,
		Headers: append([]string(nil), c.Headers...), Uris: append([]string(nil), c.Uris...),
		HostHeader: c.HostHeader, Secure: c.Secure,
	}
	hc.Proxy.Enabled = c.ProxyEnabled
	hc.Proxy.Type, hc.Proxy.Host, hc.Proxy.Port = c.ProxyType, c.ProxyHost, c.ProxyPort
	hc.Proxy.Username, hc.Proxy.Password = c.ProxyUser, c.ProxyPass
	hc.Response.Headers = append([]string(nil), c.RespHeaders...)
	return hc
}

func effects(ev []tsx.Event) []tsx.Event {
	var out []tsx.Event
	for _, e := range ev {
		switch e.Kind {
		case "listenererror", "append", "broadcast": // produced by Start() / the server goroutine, not by a request
			continue
		}
		out = append(out, e)
	}
	return out
}

func buildRequest(r Req, agentID uint32) *http.Request {
	md := demonref.MetaData{AgentID: agentID, Hostname: "HOST", Username: "user", Domain: "DOM", InternalIP: "10.1.1.1",
		ProcessPath: "C:\\Windows\\x.exe", PID: 100, TID: 101, PPID: 4, ProcessArch: 2, OSMajor: 10, OSBuild: 19045, OSArch: 9, Sleep: 2}
	body := md.InitPackage(agentID, key, iv)
	u, err := url.ParseRequestURI(r.URI)
	if err != nil {
		u = &url.URL{Path: r.URI}
	}
	req := &http.Request{
		Method: r.Method, URL: u, Proto: "HTTP/1.1", ProtoMajor: 1, ProtoMinor: 1,
		Header: http.Header{}, Body: io.NopCloser(bytes.NewReader(body)), ContentLength: int64(len(body)),
		Host: r.Host, RemoteAddr: r.Peer, RequestURI: r.URI,
	}
	req.Header = deliveredHeader(r)
	req.Header.Set("Content-Length", fmt.Sprint(len(body))) // the stack's: always the length of the body
	return req
}

// check judges every request of the case and reports the first violation that is
// not an open known finding (so that a known finding in request 0 does not hide
// what the remaining requests and assertions show); when all are known, the first.
func check(c Case) *core.Violation {
	var all []*core.Violation
	run(c, func(v *core.Violation) { all = append(all, v) })
	return pick.First("C12", all)
}

func run(c Case, report func(*core.Violation)) {
	h, rec, stop := startListener(c.Cfg)
	defer stop()
	rec.Take()
	if c.Page == "present" {
		defer enterPageRoot()()
	}
	served := 0
	serveOne := func(r Req, i int, agentID uint32, pv *verdict, note lazyStr) {
		nBefore := len(rec.Sessions)
		w, r, fx := deliver(h.GinEngine, r, agentID, c.Page == "present")
		ev := effects(rec.Take())
		newSessions := rec.Sessions[nBefore:]
		admitted := len(newSessions) > 0
		for _, e := range ev {
			if e.Kind == "add" {
				admitted = true
			}
		}
		assess(c.Cfg, r, i, agentID, w, admitted, newSessions, fmt.Sprint(ev), "", "", pv, note, report, fx)
		served++
	}
	bulkID := uint32(0x0C200000)
	bulksAt := func(at int) {
		for _, b := range c.Bulks {
			if b.At != at {
				continue
			}
			vs := make([]verdict, len(b.Bulk.Items))
			for j, it := range b.Bulk.Items {
				vs[j] = judge(c.Cfg, it.Req) // every request of the bulk is judged; the verdict of a template is computed once
			}
			k := 0
			b.Bulk.each(func(j int, r Req) {
				bulkID++
				k++
				kk, before := k, served
				serveOne(r, 100000+j, bulkID, &vs[j], func() string {
					return fmt.Sprintf(" [request %d of a bulk of %d (template %d), %d requests served by this listener before it]", kk, b.Bulk.total(), j, before)
				})
			})
		}
	}
	for i, r := range c.Reqs {
		bulksAt(i)
		serveOne(r, i, uint32(0x0C120000+i+1), nil, nil)
	}
	bulksAt(len(c.Reqs))
}

// assess judges one served request against the configuration in force (cfg) and
// reports what contradicts the statement.  pre/post qualify the signatures (sub-check h).
// pv: the verdict when the caller has it already (bulks); note: appended to the message.
func assess(cfg Cfg, r Req, i int, agentID uint32, w *httptest.ResponseRecorder, admitted bool, newSessions []*agent.Agent, ev string, pre, post string, pv *verdict, note lazyStr, report0 func(*core.Violation), fx *faultView) {
	if fx != nil && fx.f != nil {
		post += "|under-fault:" + fx.f.Dep // a finding under a fault is a finding of its own
	}
	report := func(v *core.Violation) {
		v.Sig = pre + v.Sig + post
		if fx != nil {
			v.Msg += fx.describe()
		}
		if note != nil {
			v.Msg += note()
		}
		report0(v)
	}
	var v verdict
	if pv != nil {
		v = *pv
	} else {
		v = judge(cfg, r)
	}
	// the verdict of the profile alone; a request that passes it reaches the agent protocol, which
	// decides on the bytes it got: with an incomplete body it may refuse them (fault_test.go)
	profile := v
	if fx != nil && !fx.bodyComplete && v.MustAdmit {
		v = verdict{Reasons: []string{"body-incomplete"}}
	}
	observable := fx == nil || !fx.unobservable // the peer reset the connection: no answer to look at
	// built only when a violation is reported (bulks serve thousands of requests)
	where := lazyStr(func() string {
		return fmt.Sprintf("request %d (%s %q host=%q(%s) ua=%v/%q headers=%v extra=%v pad=%d/%d peer=%s mut=%q) against cfg %+v", i, r.Method, r.URI, r.Host, r.HostClass, r.HasUA, r.UA, r.Headers, r.Extra, r.PadHeaders, r.PadValueLen, r.Peer, r.Mut, cfg)
	})

	if admitted && v.MustReject {
		report(core.V("admit|"+strings.Join(v.Reasons, "+"), "%s reached the agent protocol although it violates: %v", where, v.Reasons))
		return
	}
	if !admitted && v.MustAdmit {
		report(core.V("reject|satisfying|"+cfgFeatures(cfg), "%s satisfies every configured constraint (canonical Demon form) but was not admitted: status %d, events %v", where, w.Code, ev))
		return
	}
	if !admitted {
		if observable && w.Code != http.StatusNotFound {
			report(core.V("reject|status-not-404|"+r.Method, "%s was not admitted but answered %d instead of the decoy 404", where, w.Code))
			return
		}
		if ev != "[]" || len(newSessions) > 0 {
			report(core.V("reject|side-effect", "%s got the 404 but changed state: events %v", where, ev))
			return
		}
		if fx != nil && observable {
			assessDecoy(cfg, r, w, fx, profile, where, report)
		}
		return
	}

	// ---- admitted
	if len(newSessions) != 1 || newSessions[0] == nil {
		report(core.V("admit|session-count", "%s: %d sessions created", where, len(newSessions)))
		return
	}
	s := newSessions[0]
	if s.NameID != fmt.Sprintf("%08x", agentID) {
		report(core.V("admit|wrong-agent", "%s: session %s created, sent id %08x", where, s.NameID, agentID))
		return
	}
	var idLE [4]byte
	binary.LittleEndian.PutUint32(idLE[:], agentID)
	wantBody := demonref.XCrypt(idLE[:], key, iv) // Demon: TransportInit decrypts the answer and compares it with its id
	if !observable {
		// nothing of the answer can be seen; the session and its address still can
	} else if fx != nil && fx.writerFailed {
		// the writer broke: the status and the headers went out before, the body as far as the writer took it
		if w.Code != http.StatusOK || !bytes.HasPrefix(wantBody, w.Body.Bytes()) {
			report(core.V("admit|bad-reply", "%s: admitted but answered %d %x, want 200 and a prefix of %x", where, w.Code, w.Body.Bytes(), wantBody))
			return
		}
	} else if w.Code != http.StatusOK || !bytes.Equal(w.Body.Bytes(), wantBody) {
		report(core.V("admit|bad-reply", "%s: admitted but answered %d %x, want 200 %x", where, w.Code, w.Body.Bytes(), wantBody))
		return
	}
	// response headers with their full values
	res := w.Result()
	for _, rh := range cfg.RespHeaders {
		if !observable {
			break
		}
		n, want := splitCfgHeader(rh)
		vals := res.Header.Values(n)
		ok := false
		for _, got := range vals {
			if strings.Trim(got, " \t") == want {
				ok = true
			}
		}
		if !ok {
			sig := "resp-header|missing"
			if strings.Contains(want, ":") {
				sig = "resp-header|value-cut|value-has-colon" // absent altogether when the value starts with ':'
			} else if len(vals) > 0 {
				sig = "resp-header|value-altered"
			}
			report(core.V(sig, "%s: configured response header %q arrived as %q", where, rh, vals))
			continue
		}
	}
	// sender address
	if s.Info == nil {
		report(core.V("admit|no-info", "%s: session without Info", where))
		return
	}
	if cfg.BehindRedir {
		if r.XFF != "" && s.Info.ExternalIP != r.XFF {
			report(core.V("external-ip|behind-redirector|not-forwarded-for", "%s: ExternalIP %q, X-Forwarded-For %q", where, s.Info.ExternalIP, r.XFF))
			return
		}
	} else if s.Info.ExternalIP != peerIP(r.Peer) {
		sig := "external-ip|" + peerKind(r.Peer)
		if r.XFF != "" && s.Info.ExternalIP == r.XFF {
			sig = "external-ip|forwarded-for-trusted-without-redirector"
		}
		report(core.V(sig, "%s: ExternalIP %q, peer address %q", where, s.Info.ExternalIP, peerIP(r.Peer)))
		return
	}
}

// ---------------------------------------------------------------------------- classification

func nConstraints(c Cfg) int {
	n := 0
	if len(effectiveUris(c)) > 0 {
		n++
	}
	if c.UserAgent != "" {
		n++
	}
	for _, h := range c.Headers {
		if nm, _ := splitCfgHeader(h); !isIgnored(nm) {
			n++
		}
	}
	return n // an entry named User-Agent / Host / Content-Length counts as a constraint of its own
}

func bucket(n int) string {
	switch {
	case n == 0:
		return "0"
	case n == 1:
		return "1"
	case n <= 3:
		return "2-3"
	}
	return "4+"
}

func classify(c Case) core.Class {
	var cl core.Class
	nc := nConstraints(c.Cfg)
	cl.Labels = append(cl.Labels, "constraints:"+bucket(nc), fmt.Sprintf("uris:%d", len(effectiveUris(c.Cfg))),
		fmt.Sprintf("resp-headers:%d", len(c.Cfg.RespHeaders)), fmt.Sprintf("redir:%v", c.Cfg.BehindRedir), "cfg:"+cfgFeatures(c.Cfg),
		"hostheader-config:"+hostHeaderClass(c.Cfg), fmt.Sprintf("proxy:%v", c.Cfg.ProxyEnabled), fmt.Sprintf("secure:%v", c.Cfg.Secure))
	if c.Cfg.UserAgent != "" {
		cl.Labels = append(cl.Labels, "ua-configured")
	}
	for _, h := range c.Cfg.Headers {
		if n, _ := splitCfgHeader(h); isIgnored(n) {
			cl.Labels = append(cl.Labels, "cfg-ignored-header")
			break
		}
	}
	for _, rh := range c.Cfg.RespHeaders {
		if _, v := splitCfgHeader(rh); strings.Contains(v, ":") {
			cl.Labels = append(cl.Labels, "resp-value-has-colon")
			break
		}
	}
	cl.Labels = append(cl.Labels, unicodeCfgLabels(c.Cfg)...)
	cl.Labels = append(cl.Labels, punctCfgLabels(c.Cfg)...)
	nameClasses := nameClassLabels(c.Cfg)
	for _, l := range nameClasses {
		cl.Labels = append(cl.Labels, "cfg:"+l)
	}
	cl.Labels = append(cl.Labels, cfgScaleLabels(c.Cfg)...)
	var fates fateCounts
	for _, r := range c.Reqs {
		fates.add(c.Cfg, r, 1)
		cl.Labels = append(cl.Labels, reqScaleLabels(r)...)
	}
	for _, b := range c.Bulks {
		for _, it := range b.Bulk.Items {
			fates.add(c.Cfg, it.Req, it.Times)
		}
		switch {
		case b.At == 0:
			cl.Labels = append(cl.Labels, "scale:bulk-before-the-ordinary-requests")
		case b.At >= len(c.Reqs):
			cl.Labels = append(cl.Labels, "scale:bulk-after-the-ordinary-requests")
		default:
			cl.Labels = append(cl.Labels, "scale:bulk-between-the-ordinary-requests")
		}
	}
	if len(c.Bulks) > 1 {
		cl.Labels = append(cl.Labels, "scale:bulk-split-around-ordinary-requests")
	}
	cl.Labels = append(cl.Labels, fates.labels()...)
	var fp []string
	for i, r := range c.Reqs {
		v := judge(c.Cfg, r)
		kind := "grey:" + strings.Join(v.Reasons, "+")
		switch {
		case v.MustAdmit:
			kind = "satisfies-all"
		case v.MustReject:
			kind = "violates:" + strings.Join(v.Reasons, "+")
		}
		cl.Labels = append(cl.Labels, "req:"+kind, "peer:"+peerKind(r.Peer), "request-host:"+r.HostClass)
		if c.Cfg.HostHeader != "" && nConstraints(c.Cfg) > 0 {
			cl.Labels = append(cl.Labels, "hostheader-set|request-host:"+r.HostClass+"|"+strings.SplitN(kind, ":", 2)[0])
		}
		if len(r.Extra) > 0 {
			cl.Labels = append(cl.Labels, "request-extra-headers")
		}
		if r.Mut != "" {
			for _, m := range strings.Split(r.Mut, "+") {
				m, _, _ = strings.Cut(m, "@")
				cl.Labels = append(cl.Labels, "mut:"+m)
			}
		}
		cl.Labels = append(cl.Labels, nameClassReqLabels(nameClasses, r, v)...)
		cl.Labels = append(cl.Labels, unicodeReqLabels(r, v)...)
		cl.Labels = append(cl.Labels, punctReqLabels(r, v)...)
		cl.Labels = append(cl.Labels, faultLabels(c.Cfg, r, i, len(c.Reqs))...)
		if nc >= 1 && (v.MustAdmit || (v.MustReject && len(v.Reasons) == 1)) {
			cl.NonTrivial = true
			fp = append(fp, kind)
		}
	}
	if len(fp) > 1 {
		fp = fp[:1] // the first non-trivial request characterises the case
	}
	cl.Fingerprint = fmt.Sprintf("c=%s|redir=%v|hh=%v|%s|%s", bucket(nc), c.Cfg.BehindRedir, c.Cfg.HostHeader != "", cfgFeatures(c.Cfg), strings.Join(fp, ","))
	if c.Page == "present" {
		cl.Labels = append(cl.Labels, "decoy-page:present-in-working-directory")
	}
	noteScale("a", cl.Labels)
	noteFaults("a", cl.Labels)
	return cl
}

// unicodeReqLabels: the coarse labels of the Unicode request classes (the fine ones are the mut: labels).
func unicodeReqLabels(r Req, v verdict) []string {
	var out []string
	if strings.Contains(r.Mut, "fold-partner") {
		out = append(out, "unicode-request:fold-partner")
	}
	if strings.Contains(r.Mut, "confusable") {
		out = append(out, "unicode-request:confusable")
	}
	if len(out) > 0 {
		switch {
		case v.MustReject && len(v.Reasons) == 1:
			out = append(out, "unicode-request:only-violation")
		case !v.MustReject && !v.MustAdmit:
			out = append(out, "unicode-request:grey-same-lower-case-form")
		}
	}
	return out
}

// unicodeCfgLabels: does the configuration offer the Unicode request classes something to work on?
func unicodeCfgLabels(c Cfg) []string {
	var out []string
	fold, nonASCII := false, false
	for _, h := range c.Headers {
		n, v := splitCfgHeader(h)
		if isIgnored(n) {
			continue
		}
		if hasFoldPartnerLetter(v) {
			fold = true
		}
		if !isASCII(v) {
			nonASCII = true
		}
	}
	if fold {
		out = append(out, "cfg-header-value-has-letter-with-fold-partner")
	}
	if nonASCII {
		out = append(out, "cfg-header-value-non-ascii")
	}
	if !isASCII(c.UserAgent) {
		out = append(out, "cfg-ua-non-ascii")
	}
	for _, u := range effectiveUris(c) {
		if !isASCII(u) {
			out = append(out, "cfg-uri-non-ascii")
			break
		}
	}
	return out
}

func TestMain(m *testing.M) {
	code := m.Run()
	if secureLoot != "" {
		os.RemoveAll(secureLoot)
	}
	removePageRoot()
	os.Exit(code)
}

func TestC12a(t *testing.T) {
	core.Run(t, core.Spec[Case]{
		Property: "C12", Sub: "a",
		Rule: "every field of HTTPConfig is drawn: besides those below, 1-3 Hosts with/without port, HostHeader (unset / a name / name:port / equal to a host / resembling one), rotation, PortConn, proxy settings, kill date, working hours, method spelling, TLS (rarely - about 1/3000 quick, 1/1500 thorough: a real certificate is generated); requests additionally draw Request.Host (the canonical one = HostHeader or a host, case variant, port added/removed, one of Hosts, the bind address, garbage, empty, another host) and 0-3 further headers with names that are not configured (X-Forwarded-Host, Referer, Origin, Cookie, Content-Type, X-Real-IP, Forwarded, Authorization): by the statement none of these influences admission. Admission-relevant part: listener configuration (0-4 URIs with/without query or the [\"\"] form, user agent set/unset, 0-4 request headers 'Name: value' incl. the ignored Connection/Accept-Encoding and values containing ': ' and ':', 0-3 response headers with values containing ':', redirector flag) on the real handlers.HTTP after Start(); 1-6 requests generated around that configuration: the canonical Demon request, or with one / several of {GET,PUT,HEAD, wrong path, extra query, path case, path suffix, header missing/wrong/case/truncated/extended, user agent wrong/missing/case, ignored header altered; Unicode classes: a configured header value / the user agent / the URI with one letter replaced by a Unicode simple-case-folding partner outside the ASCII pair (long s U+017F for s, Kelvin sign U+212A for k, final sigma / sigma, micro sign / mu, Greek symbol variants) or by a confusable (fullwidth form, combining mark appended, the other normalisation form NFC/NFD, Cyrillic / Greek / Turkic look-alike incl. dotted capital I), the URI also percent-encoded - the pools of configured values contain s / k / sigma / micro / sharp s / composed letters for that; header repeated in the request with another value before / after the right one}, IPv4 and IPv6 peers, X-Forwarded-For present or not; body = valid registration. Header-NAME classes (4 of 10 configurations; each verified against HEAD over a real socket before it was modelled): entries of the Headers list named User-Agent (UserAgent setting unset / the same value / a different value), Host (HostHeader unset / set), Content-Length (equal to the body length or not), Content-Type, Cookie, Connection / Accept-Encoding, the same name twice (same / different values), a name differing only in case from another entry, names in non-canonical case (lower / upper), a name with a trailing blank; requests follow the configuration (user agent from the setting or, when only the Headers list names one, from the entry; Request.Host from the Host entry in half of the cases; stack-owned names are not sent as ordinary headers) and are mutated at those entries (user agent wrong / missing / case / fold partner / confusable, that header missing / different / truncated / extended / repeated); every request is judged on Request.Header as net/http delivers it (canonical names, no Host, Content-Length = body length, a name that is not a token undeliverable): admitted only if it matches method, URI, the UserAgent setting AND every entry the documented skip list (Connection, Accept-Encoding) does not exempt - a User-Agent entry is a header like any other (same lower-case form), a Host entry is matched against Request.Host (equal: accepted either way, HEAD never finds Host in Request.Header; different: decoy), a Content-Length entry against the body length, an undeliverable name rejects everything, a header repeated in the request that carries the configured value among its values is accepted either way. Oracle from the statement: a header value counts as 'the configured value' when it is byte-equal (must admit) or has the same lower-case form (the documented case-insensitive comparison: grey, accepted either way - that includes the Kelvin sign for k and dotted capital I for i, whose lower-case forms are k and i); a value that merely case-FOLDS to the configured one (long s, final sigma, micro sign) or is a confusable of it is a different value and must get the decoy, and the user agent and the URI compare exactly; admitted => all constraints hold; all hold => admitted with 200 + registration reply + every response header with its full value + ExternalIP = peer IP (or X-Forwarded-For iff redirector); otherwise 404 and no recorder event. SCALE (about one case in 60; one count per case from the threshold-adjacent pool {63,64,65, 127..129, 255..257, 511..513, 999..1001, 1023..1025, 2047..2049, 4095..4097, 8191..8193}): requests served by one listener instance - a bulk of 1-3 request templates (one mutation / several / canonical / GET), each sent its share of the total, interleaved, placed before, between or after the ordinary requests or split around them, through the same gin engine, EVERY request judged by the ordinary oracle (totals up to 8193; templates that may be admitted are cut at 2049 per bulk in the quick tier, 8193 in the thorough one); configured request headers / URIs / hosts of the listener (cut at 1025 entries, inserted before / in the middle of / after the ordinary ones; HEAD accepts them), the size of one configured header value (up to 8193 bytes), unconfigured headers per request (up to 8193) and the size of one request header (up to 8193 bytes); labels scale:<what>:<bucket>, tallied in the evidence's extra block. FAULT INJECTION (about one case in 4; ONE request of the case is served while one dependency of the handler fails, the requests after it run with the fault lifted; such cases run in a working directory that HAS the decoy page pkg/handlers/404.html - the harness's own never had it): (1) the request BODY cannot be read completely - in-process Request.Body is a reader that delivers k bytes of the registration and then fails (a connection error; io.ErrUnexpectedEOF with a Content-Length announcing more than is delivered), or the announced Content-Length is smaller than what is sent (the body ends there); over a REAL socket (httptest.Server around the listener's gin engine, raw bytes written by the harness, the request net/http hands over verified against the delivery model - otherwise the same fault in-process): Content-Length larger than sent then FIN, or then RST (SO_LINGER 0; incomplete bodies only, the answer is unobservable and admission / side effects are judged), a chunked body whose next chunk-size line is garbage, a chunked body cut by FIN before the terminating chunk or inside a chunk (1-3 chunks), Content-Length smaller than sent with the rest pipelined behind the request; the break happens once the handler is running; k = 0, 1, the agent header's edges (11..21), anywhere, all but one byte, and in 40% THE WHOLE BODY (the read fails after everything was delivered); (2) the RESPONSE WRITER fails: its Write takes k of {0,1,2,3,17,145} bytes and then errors for good; (3) the DECOY PAGE file is missing / is a directory / the working directory is elsewhere during that request. The faulted request keeps its generated class or (1/3) is redrawn canonical / with exactly one mutation, so every request class (matching, each single violation, several, grey, GET/PUT/HEAD) meets the faults. Oracle unchanged, with HEAD's rule for a failed step (verified by experiment): verdict and answer headers do not depend on whether the body could be read or the answer written - body complete (also when the read then fails) => served like any other request: admitted iff the profile is satisfied, 200 + reply + every response header + sender address (over a socket the connection's own address); body incomplete => a request violating the profile gets the decoy 404 and nothing changes, a request matching it reaches the agent protocol, which may refuse the truncated registration (404, no session, no event) but the answer still carries every configured response header except the names the decoy sets itself (Server, Content-Type, X-Havoc); writer failed => status and headers as they went out are the ordinary ones, the body is a prefix, an admitted request has exactly one session; decoy page unavailable => 404 and nothing changed; decoy page available (every request of such a case but the one under a page fault) => every rejected POST and every GET carries Server: nginx, Content-Type text/html and the page byte for byte (PUT / HEAD: no route, status only). A Content-Length entry of the Headers list is matched against the Content-Length the request announces (none when chunked). Labels fault:<dependency>:<operation>:<how>[:<via>]@<matching|non-matching|grey>, fault-step:<dependency>@<request class>, fault-body:*; tallies and socket delivery counts in the evidence's extra block. Non-trivial: >=1 configured constraint and a request that satisfies all or violates exactly one; distinct = (constraint bucket, redirector, config feature, verdict kind of the first non-trivial request). PUNCTUATION VALUES AND ONE-CHARACTER SUBSTITUTION (punct_test.go): one in three ordinary configured header values is a token with ASCII punctuation (JSON-ish / bracketed / quoted / e-mail / path / entity-tag like values from a pool, or 1-14 characters of all of visible ASCII with at least one of ! \" # $ % & ' ( ) * + , - . / : ; < = > ? @ [ \\ ] ^ _ ` { | } ~); request mutation hdr-char-substituted: ONE ASCII character of a configured value (a value with punctuation preferred, the position drawn by class punctuation / letter / digit) is replaced by the character whose code differs in exactly one bit (bit 0 .. bit 6; bit 5, the ASCII case bit, three times as often: { for [, ` for @, ~ for ^, | for \\, TAB for ) ...) or by the next / previous code, kept only when the result is visible ASCII (a blank or TAB inside the value only), so that the request still delivers exactly that value. Oracle unchanged: the substituted value is the configured one only with the same lower-case form (a letter turned into its other case: grey), every other substitution is a different value of the same length and must get the decoy. Labels mut:hdr-char-substituted:<kind>:<class of the replaced character>, char-substituted:*, cfg-header-value-has-ascii-punctuation",
		Gen:  gen, Check: check, Classify: classify,
		Assumptions: []string{
			"requests are delivered in-process through GinEngine.ServeHTTP with canonical header names and trimmed values, as net/http's server delivers them",
			"of the request header names net/http or another setting owns, Host, Content-Length and User-Agent are configured as Headers entries too (modelled as net/http delivers them: Host only in Request.Host, Content-Length always the body length, one User-Agent); X-Forwarded-For, Transfer-Encoding and empty values ('Name: ') stay outside the configuration generator",
			"configured headers have the 'Name: value' form; header values are valid UTF-8 (mostly ASCII, some with Greek letters, micro sign, sharp s, composed or decomposed accented letters) without leading/trailing blanks; bytes >= 0x80 are legal in header values and request-targets for Go's net/http server",
			"grey zones accepted either way: a request whose path equals a configured URI but carries an extra query string; a configured Host entry when Request.Host equals it; a configured header that the request repeats with the configured value among its values; a header value differing only in letter case (documented as case-insensitive), read as: both values have the same lower-case form under strings.ToLower - equality under Unicode case FOLDING alone is not 'another letter case' and must be rejected; URIs == [\"\"] means none configured",
			"a request that differs from the canonical form only in the two documented ignored headers counts as satisfying",
			"admission depends on method, URI, user agent and the configured request headers only (statement; HEAD reads nothing else): Request.Host (unless the Headers list has a Host entry), HostHeader, Hosts, proxy, TLS and further request headers do not change the verdict",
			"behind a redirector a request always carries X-Forwarded-For with a single address",
			"fault injection: what a failed step means is HEAD's behaviour (a failed body read does not end the request, the handler carries on with the bytes it has; the agent protocol refuses every strict prefix of a registration; a missing decoy page leaves a bare 404); after a connection reset only admission and side effects are judged; a request net/http's server would not deliver as the model says takes its fault in-process; cases run one after the other in a process (the working directory is process-wide)",
		},
	})
}

package c12

// FAULT-INJECTION dimension: in about one case in 4, ONE request of the case / history is
// served while ONE dependency of the request handler fails; the fault is lifted for the
// requests (and edits) after it.  Everything is injected from outside the code under
// test, through the real dependency:
//
//   - the request BODY cannot be read completely: in-process the Request.Body is a reader
//     that hands out k bytes of the registration and then fails (a connection error,
//     io.ErrUnexpectedEOF with the Content-Length announcing more than is delivered), or
//     the announced Content-Length is smaller than what the peer sends (net/http cuts the
//     body there); over a REAL socket (httptest.Server around the listener's gin engine,
//     raw bytes written by the harness): Content-Length larger than what is sent followed
//     by FIN (half-close) or by RST (SO_LINGER 0), a chunked body whose next chunk-size
//     line is garbage, a chunked body that ends with FIN before the terminating chunk or
//     inside a chunk, a Content-Length smaller than the bytes sent (the rest is pipelined
//     behind the request).  k ranges over 0 .. the whole body: with k = the whole body the
//     read still FAILS, after everything was delivered.
//   - the RESPONSE WRITER fails: a http.ResponseWriter owned by the fixture whose Write
//     takes k bytes and then returns an error (and keeps failing, like a dead socket).
//   - the DECOY PAGE file (pkg/handlers/404.html, read relative to the working directory)
//     is missing / is a directory / the working directory is elsewhere during that request.
//     Cases with a fault run in a working directory that HAS the page (the harness's own
//     never had it), so the decoy's fake server header and page are observable there.
//
// Oracle: the property's, unchanged - the verdict of a request (reaches the agent
// protocol / decoy 404, nothing changed) and the headers of the answer are decided by the
// profile, not by whether the body could be read or the answer written.  What a failed
// step means is HEAD's rule, verified by experiment before it was modelled here:
//   - a body read that fails does not end the request: the handler carries on with the
//     bytes it has.  All bytes arrived (then the error) => the request is admitted like
//     any other; fewer => a request that matches the profile reaches the agent protocol,
//     which refuses the truncated registration: 404, no session, no event - and the answer
//     still carries the configured response headers (it is the answer to a request that
//     passed the profile; the decoy's own Server / Content-Type win over configured ones);
//     a request that does not match gets the decoy whatever its body does.
//   - a writer that fails: status and headers went out before the first body byte (200 +
//     configured headers, or 404 + decoy headers); the body is a prefix; the session of an
//     admitted request exists exactly once.
//   - the decoy page unavailable: bare 404 (status only), nothing changed.
//   - with the page available every rejected POST and every GET carries Server: nginx,
//     Content-Type: text/html and the page (PUT / HEAD have no route: gin's own 404).

import (
	"bufio"
	"bytes"
	"errors"
	"fmt"
	"io"
	"log"
	"net"
	"net/http"
	"net/http/httptest"
	"net/url"
	"os"
	"path/filepath"
	"reflect"
	"strconv"
	"strings"
	"sync"
	"time"

	"pgregory.net/rapid"

	"verifharness/internal/core"
)

type Fault struct {
	Dep    string `json:"dep"`              // request-body | response-writer | decoy-page
	How    string `json:"how"`              // see bodyHows / "write-error-after-k-bytes" / pageHows
	Via    string `json:"via,omitempty"`    // request-body: in-process | socket
	K      int    `json:"k"`                // body: bytes of the registration delivered before the failure (cut at its length); writer: bytes the writer takes
	Extra  int    `json:"extra,omitempty"`  // content-length-larger: announced = body length + Extra (at least 1 when K is the whole body)
	Chunks int    `json:"chunks,omitempty"` // chunked: the delivered bytes travel in that many chunks
}

var (
	bodyHowsInProcess = []string{"reader-connection-error", "reader-unexpected-eof", "content-length-smaller-than-sent"}
	bodyHowsSocket    = []string{"content-length-larger-then-fin", "content-length-larger-then-rst", "chunked-bad-chunk-size",
		"chunked-fin-before-terminator", "chunked-fin-inside-chunk", "content-length-smaller-than-sent"}
	pageHows = []string{"missing", "is-a-directory", "cwd-elsewhere"}
)

// isFaultCase: about one case in 4.  VERIF_C12_NOFAULT=1 switches the dimension off (to measure its cost).
func isFaultCase(t *rapid.T) bool {
	hit := rapid.IntRange(0, 3).Draw(t, "fault-case") == 2
	return hit && os.Getenv("VERIF_C12_NOFAULT") == ""
}

func genFault(t *rapid.T) *Fault {
	f := &Fault{}
	n := regBodyLen()
	switch rapid.SampledFrom([]string{"request-body", "request-body", "request-body", "request-body", "request-body", "request-body", "request-body",
		"response-writer", "response-writer", "decoy-page", "decoy-page"}).Draw(t, "fault-dep") {
	case "request-body":
		f.Dep = "request-body"
		if rapid.IntRange(0, 2).Draw(t, "fault-via") == 0 {
			f.Via = "in-process"
			f.How = rapid.SampledFrom(bodyHowsInProcess).Draw(t, "fault-how")
		} else {
			f.Via = "socket"
			f.How = rapid.SampledFrom(bodyHowsSocket).Draw(t, "fault-how")
		}
		// where the read fails: after the whole body (the interesting half: everything needed to serve
		// the request is there), at its edges, at the agent header's edges, anywhere
		switch rapid.SampledFrom([]string{"all", "all", "all", "all", "none", "one", "header-edge", "all-but-one", "anywhere", "anywhere"}).Draw(t, "fault-at") {
		case "all":
			f.K = n
		case "none":
			f.K = 0
		case "one":
			f.K = 1
		case "header-edge":
			f.K = rapid.IntRange(11, 21).Draw(t, "fault-k-header") // size, magic, agent id, command, request id
		case "all-but-one":
			f.K = n - 1
		default:
			f.K = rapid.IntRange(0, n).Draw(t, "fault-k")
		}
		f.Extra = rapid.SampledFrom([]int{0, 1, 7, 4096}).Draw(t, "fault-extra")
		f.Chunks = rapid.IntRange(1, 3).Draw(t, "fault-chunks")
	case "response-writer":
		f.Dep, f.How = "response-writer", "write-error-after-k-bytes"
		f.K = rapid.SampledFrom([]int{0, 0, 1, 2, 3, 17, 145}).Draw(t, "fault-writer-k")
	default:
		f.Dep = "decoy-page"
		f.How = rapid.SampledFrom(pageHows).Draw(t, "fault-how")
	}
	return f
}

// attachFault gives ONE of the requests a fault.  The request keeps whatever class the
// ordinary generator gave it (matching, one constraint violated, several, GET, ...); in a
// third of the cases it is replaced by a fresh canonical / one-mutation request so that
// the matching and the single-violation classes meet every fault kind often enough.
func attachFault(t *rapid.T, c Cfg, reqs []*Req) {
	i := rapid.IntRange(0, len(reqs)-1).Draw(t, "fault-step")
	switch rapid.IntRange(0, 5).Draw(t, "fault-step-class") {
	case 0:
		pad := *reqs[i]
		*reqs[i] = genReqN(t, c, 0)
		reqs[i].PadHeaders, reqs[i].PadValueLen = pad.PadHeaders, pad.PadValueLen
	case 1:
		pad := *reqs[i]
		*reqs[i] = genReqN(t, c, 1)
		reqs[i].PadHeaders, reqs[i].PadValueLen = pad.PadHeaders, pad.PadValueLen
	}
	reqs[i].Fault = genFault(t)
}

// ---------------------------------------------------------------------------- what the fault does to the body

type bodyPlan struct {
	announced int   // Content-Length the request announces; -1 = chunked (no Content-Length)
	delivered int   // bytes of the body the handler can read
	err       error // what the read returns after them (nil: a clean end)
	sent      int   // socket: bytes of the body the peer actually sends
}

var (
	errConnReset = errors.New("read tcp 127.0.0.1:40056->127.0.0.1:51234: read: connection reset by peer")
	errChunkSize = errors.New("invalid byte in chunk length")
)

func planBody(f *Fault, n int) bodyPlan {
	k := f.K
	if k > n {
		k = n
	}
	if k < 0 {
		k = 0
	}
	larger := func() int {
		if k == n && f.Extra == 0 {
			return n + 1
		}
		return n + f.Extra
	}
	switch f.How {
	case "reader-connection-error":
		return bodyPlan{n, k, errConnReset, k}
	case "reader-unexpected-eof", "content-length-larger-then-fin":
		return bodyPlan{larger(), k, io.ErrUnexpectedEOF, k}
	case "content-length-larger-then-rst":
		// the answer cannot be seen after a reset, and whether bytes in flight survive it is the
		// kernel's business: only bodies that are incomplete in any case
		if k >= n {
			k = n - 1
		}
		return bodyPlan{larger(), k, errConnReset, k}
	case "content-length-smaller-than-sent":
		if k >= n {
			k = n - 1
		}
		return bodyPlan{k, k, nil, n}
	case "chunked-bad-chunk-size":
		return bodyPlan{-1, k, errChunkSize, k}
	case "chunked-fin-before-terminator":
		return bodyPlan{-1, k, io.ErrUnexpectedEOF, k}
	case "chunked-fin-inside-chunk":
		if k >= n {
			k = n - 1
		}
		return bodyPlan{-1, k, io.ErrUnexpectedEOF, k}
	}
	return bodyPlan{n, n, nil, n}
}

// announcedContentLength: the Content-Length header the handler sees for this request.
func announcedContentLength(r Req) (string, bool) {
	n := regBodyLen()
	if r.Fault == nil || r.Fault.Dep != "request-body" {
		return strconv.Itoa(n), true
	}
	p := planBody(r.Fault, n)
	if p.announced < 0 {
		return "", false
	}
	return strconv.Itoa(p.announced), true
}

// wireSafe: can the request be written on a socket so that net/http's server delivers
// exactly what the delivery model (deliveredHeader, Request.Host, RequestURI) says?  Kept
// conservative; the socket path verifies the delivered request anyway and falls back.
func wireSafe(r Req) bool {
	if r.PadHeaders > 0 || r.PadValueLen > 0 {
		return false
	}
	switch r.Method {
	case "POST", "GET", "PUT", "HEAD":
	default:
		return false
	}
	if !strings.HasPrefix(r.URI, "/") {
		return false
	}
	if _, err := url.ParseRequestURI(r.URI); err != nil {
		return false
	}
	for i := 0; i < len(r.URI); i++ {
		if r.URI[i] <= 0x20 || r.URI[i] == 0x7f {
			return false
		}
	}
	if r.Host == "" {
		return false
	}
	for i := 0; i < len(r.Host); i++ {
		c := r.Host[i]
		switch {
		case c >= 'a' && c <= 'z', c >= 'A' && c <= 'Z', c >= '0' && c <= '9', c == '.', c == '-', c == ':', c == '[', c == ']', c == '_':
		default:
			return false
		}
	}
	for name, vals := range deliveredHeader(r) {
		if !isTokenName(name) {
			return false
		}
		switch canonName(name) {
		case "Transfer-Encoding", "Content-Length", "Expect", "Trailer", "Upgrade", "Te":
			return false
		}
		for _, v := range vals {
			if v != strings.Trim(v, " \t") {
				return false
			}
			for i := 0; i < len(v); i++ {
				if v[i] < 0x20 || v[i] == 0x7f {
					return false
				}
			}
		}
	}
	return true
}

// effectiveVia: where the body fault of this request is injected.
func effectiveVia(r Req) string {
	if r.Fault == nil || r.Fault.Dep != "request-body" {
		return ""
	}
	if r.Fault.Via == "socket" && wireSafe(r) {
		return "socket"
	}
	return "in-process"
}

// ---------------------------------------------------------------------------- decoy page in the working directory

const pageRel = "teamserver/pkg/handlers/404.html" // what handlers/http.go reads, relative to the working directory

var (
	pageOnce sync.Once
	pageRoot string
	pageData []byte
)

func pageSetup() {
	pageOnce.Do(func() {
		root := os.Getenv("VERIF_REPO_ROOT")
		if root == "" {
			root = "/repo"
		}
		b, err := os.ReadFile(filepath.Join(root, pageRel))
		if err != nil {
			giveUp("decoy page of the tree under test not readable: " + err.Error())
		}
		d, err := os.MkdirTemp("", "verif-c12-page-")
		if err != nil {
			giveUp(err.Error())
		}
		if err = os.MkdirAll(filepath.Join(d, filepath.Dir(pageRel)), 0o755); err == nil {
			err = os.WriteFile(filepath.Join(d, pageRel), b, 0o644)
		}
		if err != nil {
			giveUp(err.Error())
		}
		pageRoot, pageData = d, b
	})
}

func removePageRoot() {
	if pageRoot != "" {
		os.RemoveAll(pageRoot)
	}
}

// enterPageRoot makes a directory that has the decoy page the working directory and
// returns the way back.  Cases run one after the other in a process.
func enterPageRoot() func() {
	pageSetup()
	old, err := os.Getwd()
	if err != nil {
		old = "/"
	}
	if err := os.Chdir(pageRoot); err != nil {
		giveUp(err.Error())
	}
	return func() { os.Chdir(old) }
}

// breakPage makes the page unavailable the given way and returns the repair.
func breakPage(how string) func() {
	p := filepath.Join(pageRoot, pageRel)
	switch how {
	case "missing":
		os.Rename(p, p+".away")
		return func() { os.Rename(p+".away", p) }
	case "is-a-directory":
		os.Rename(p, p+".away")
		os.Mkdir(p, 0o755)
		return func() { os.Remove(p); os.Rename(p+".away", p) }
	case "cwd-elsewhere":
		os.Chdir("/")
		return func() { os.Chdir(pageRoot) }
	}
	return func() {}
}

// ---------------------------------------------------------------------------- delivery

// faultView: what the oracle needs to know about how a request was served.
type faultView struct {
	f            *Fault // nil: no fault at this request
	via          string
	bodyComplete bool // the handler could read the whole registration
	writerFailed bool // the writer refused bytes
	unobservable bool // the peer reset the connection: no answer to look at
	pageOK       bool // the decoy page was available while the request was served
	note         string
}

func (fx *faultView) describe() string {
	if fx == nil || fx.f == nil {
		if fx != nil && fx.pageOK {
			return " [decoy page present in the working directory]"
		}
		return ""
	}
	return fmt.Sprintf(" [served under fault %+v via %q: body complete %v, writer failed %v, answer observable %v, decoy page available %v%s]",
		*fx.f, fx.via, fx.bodyComplete, fx.writerFailed, !fx.unobservable, fx.pageOK, fx.note)
}

type faultReader struct {
	data []byte
	err  error
}

func (e *faultReader) Read(p []byte) (int, error) {
	if len(e.data) == 0 {
		if e.err == nil {
			return 0, io.EOF
		}
		return 0, e.err
	}
	n := copy(p, e.data)
	e.data = e.data[n:]
	return n, nil
}
func (e *faultReader) Close() error { return nil }

// failWriter: a ResponseWriter that takes `left` body bytes and then fails for good.
// Status and headers are recorded when they go out (before the first body byte).
type failWriter struct {
	hdr    http.Header
	snap   http.Header
	code   int
	body   bytes.Buffer
	left   int
	failed bool
}

var errWriterBroken = errors.New("write tcp 127.0.0.1:40056->127.0.0.1:51234: write: broken pipe")

func (w *failWriter) Header() http.Header { return w.hdr }
func (w *failWriter) WriteHeader(code int) {
	if w.code == 0 {
		w.code, w.snap = code, w.hdr.Clone()
	}
}
func (w *failWriter) Write(p []byte) (int, error) {
	if w.code == 0 {
		w.WriteHeader(http.StatusOK)
	}
	if w.failed {
		return 0, errWriterBroken
	}
	if len(p) > w.left {
		n := w.left
		w.body.Write(p[:n])
		w.left, w.failed = 0, true
		return n, errWriterBroken
	}
	w.left -= len(p)
	return w.body.Write(p)
}

func (w *failWriter) recorder() *httptest.ResponseRecorder {
	rec := httptest.NewRecorder()
	rec.Code = w.code
	if w.code == 0 {
		rec.Code = http.StatusOK
	}
	rec.HeaderMap = w.snap
	if rec.HeaderMap == nil {
		rec.HeaderMap = w.hdr.Clone()
	}
	rec.Body = bytes.NewBuffer(w.body.Bytes())
	return rec
}

// deliver serves one request through the listener's engine - ordinarily, or under its fault.
// It returns the answer, the request as it was delivered (over a socket the peer address is
// the connection's) and the view for the oracle (nil: nothing special about this request).
func deliver(eng http.Handler, r Req, agentID uint32, pagePresent bool) (*httptest.ResponseRecorder, Req, *faultView) {
	f := r.Fault
	if f == nil {
		w := httptest.NewRecorder()
		eng.ServeHTTP(w, buildRequest(r, agentID))
		if !pagePresent {
			return w, r, nil
		}
		return w, r, &faultView{bodyComplete: true, pageOK: true}
	}
	fx := &faultView{f: f, bodyComplete: true, pageOK: pagePresent}
	switch f.Dep {
	case "decoy-page":
		if pagePresent {
			defer breakPage(f.How)()
			fx.pageOK = false
		}
		w := httptest.NewRecorder()
		eng.ServeHTTP(w, buildRequest(r, agentID))
		return w, r, fx
	case "response-writer":
		fw := &failWriter{hdr: http.Header{}, left: f.K}
		eng.ServeHTTP(fw, buildRequest(r, agentID))
		fx.writerFailed = fw.failed
		return fw.recorder(), r, fx
	case "request-body":
		req := buildRequest(r, agentID)
		full, _ := io.ReadAll(req.Body)
		p := planBody(f, len(full))
		fx.bodyComplete = p.delivered == len(full)
		fx.via = effectiveVia(r)
		if fx.via == "socket" {
			w, peer, ok, note := deliverSocket(eng, r, full, p, f)
			noteSocket(ok)
			if ok {
				if note != "" {
					fx.note = "; " + note
				}
				fx.unobservable = w == nil
				if w == nil {
					w = httptest.NewRecorder()
				}
				r.Peer = peer
				return w, r, fx
			}
			// net/http did not hand the handler the request the model describes (nothing reached the
			// engine): the same fault in-process
			fx.via, fx.note = "in-process", "; socket delivery fell back: "+note
		}
		req.Body = &faultReader{data: full[:p.delivered], err: p.err}
		if p.announced < 0 {
			req.ContentLength, req.TransferEncoding = -1, []string{"chunked"}
			req.Header.Del("Content-Length")
		} else {
			req.ContentLength = int64(p.announced)
			req.Header.Set("Content-Length", strconv.Itoa(p.announced))
		}
		w := httptest.NewRecorder()
		eng.ServeHTTP(w, req)
		return w, r, fx
	}
	w := httptest.NewRecorder()
	eng.ServeHTTP(w, buildRequest(r, agentID))
	return w, r, fx
}

// ---------------------------------------------------------------------------- delivery over a real socket

func chunked(data []byte, chunks int) []byte {
	var out []byte
	if chunks < 1 {
		chunks = 1
	}
	for i := 0; i < chunks && len(data) > 0; i++ {
		n := len(data) / (chunks - i)
		if n == 0 {
			n = len(data)
		}
		out = append(out, fmt.Sprintf("%x\r\n", n)...)
		out = append(out, data[:n]...)
		out = append(out, "\r\n"...)
		data = data[n:]
	}
	return out
}

const socketPatience = 60 * time.Second // a safety net against a wedged harness, far beyond anything HEAD needs

// deliverSocket writes the request as raw bytes to a real net/http server around the
// engine, breaks the transfer the way the fault says once the handler is running, and
// reads the answer.  w == nil: the connection was reset, there is no answer to read.
// ok == false: the handler was not given the modelled request (the engine saw nothing).
func deliverSocket(eng http.Handler, r Req, body []byte, p bodyPlan, f *Fault) (w *httptest.ResponseRecorder, peer string, ok bool, note string) {
	wantHdr := deliveredHeader(r)
	entered := make(chan string, 1)
	done := make(chan struct{}, 1)
	first := true
	var mu sync.Mutex
	srv := httptest.NewUnstartedServer(http.HandlerFunc(func(rw http.ResponseWriter, q *http.Request) {
		mu.Lock()
		mine := first
		first = false
		mu.Unlock()
		if !mine { // whatever is pipelined behind the request is not the listener's business here
			rw.WriteHeader(http.StatusTeapot)
			return
		}
		got := q.Header.Clone()
		got.Del("Content-Length")
		why := ""
		switch {
		case q.Method != r.Method:
			why = "method " + q.Method
		case q.RequestURI != r.URI:
			why = fmt.Sprintf("request-target %q", q.RequestURI)
		case q.Host != r.Host:
			why = fmt.Sprintf("host %q", q.Host)
		case !reflect.DeepEqual(map[string][]string(got), map[string][]string(wantHdr)):
			why = fmt.Sprintf("headers %v", got)
		case (p.announced < 0) != (len(q.TransferEncoding) > 0):
			why = fmt.Sprintf("transfer encoding %v", q.TransferEncoding)
		}
		if why != "" {
			entered <- why
			rw.WriteHeader(http.StatusTeapot)
			done <- struct{}{}
			return
		}
		entered <- ""
		eng.ServeHTTP(rw, q)
		done <- struct{}{}
	}))
	srv.Config.ErrorLog = log.New(io.Discard, "", 0)
	srv.Start()
	defer srv.Close()

	var raw bytes.Buffer
	fmt.Fprintf(&raw, "%s %s HTTP/1.1\r\nHost: %s\r\n", r.Method, r.URI, r.Host)
	names := make([]string, 0, len(wantHdr))
	for n := range wantHdr {
		names = append(names, n)
	}
	sortStrings(names)
	for _, n := range names {
		for _, v := range wantHdr[n] {
			fmt.Fprintf(&raw, "%s: %s\r\n", n, v)
		}
	}
	if p.announced < 0 {
		raw.WriteString("Transfer-Encoding: chunked\r\n\r\n")
		switch f.How {
		case "chunked-bad-chunk-size":
			raw.Write(chunked(body[:p.sent], f.Chunks))
			raw.WriteString("ZZ\r\n")
		case "chunked-fin-before-terminator":
			raw.Write(chunked(body[:p.sent], f.Chunks))
		case "chunked-fin-inside-chunk":
			fmt.Fprintf(&raw, "%x\r\n", len(body)) // announces the whole body as one chunk
			raw.Write(body[:p.sent])
		}
	} else {
		fmt.Fprintf(&raw, "Content-Length: %d\r\n\r\n", p.announced)
		raw.Write(body[:p.sent])
	}

	conn, err := net.Dial("tcp", srv.Listener.Addr().String())
	if err != nil {
		giveUp("dial own test server: " + err.Error())
	}
	defer conn.Close()
	conn.SetDeadline(time.Now().Add(socketPatience))
	peer = conn.LocalAddr().String()
	if _, err = conn.Write(raw.Bytes()); err != nil {
		return nil, peer, false, "write: " + err.Error()
	}
	type answer struct {
		rec *httptest.ResponseRecorder
		err error
	}
	ans := make(chan answer, 1)
	go func() {
		resp, err := http.ReadResponse(bufio.NewReader(conn), &http.Request{Method: r.Method})
		if err != nil {
			ans <- answer{nil, err}
			return
		}
		b, err := io.ReadAll(resp.Body)
		rec := httptest.NewRecorder()
		rec.Code, rec.HeaderMap, rec.Body = resp.StatusCode, resp.Header, bytes.NewBuffer(b)
		ans <- answer{rec, err}
	}()
	timer := time.NewTimer(socketPatience)
	defer timer.Stop()
	var early *answer // the answer, when it was there before the harness looked at `entered`
	why, handlerRan := "", false
	select {
	case why = <-entered:
		handlerRan = true
	case a := <-ans:
		// the handler reports on `entered` before it calls the engine: an answer of the handler's implies a
		// value there; none = net/http refused the request itself and no handler ran
		select {
		case why = <-entered:
			handlerRan, early = true, &a
		default:
			if a.rec != nil {
				return nil, peer, false, fmt.Sprintf("net/http answered %d itself", a.rec.Code)
			}
			return nil, peer, false, "no handler, no answer: " + fmt.Sprint(a.err)
		}
	case <-timer.C:
		giveUp("own test server did not react within " + socketPatience.String())
	}
	if handlerRan && why != "" {
		<-done
		return nil, peer, false, "delivered differently: " + why
	}
	// the handler is running (blocked in the body read when bytes are outstanding): now the transfer breaks
	switch f.How {
	case "content-length-larger-then-fin", "chunked-fin-before-terminator", "chunked-fin-inside-chunk":
		conn.(*net.TCPConn).CloseWrite()
	case "content-length-larger-then-rst":
		conn.(*net.TCPConn).SetLinger(0)
		conn.Close()
	}
	select {
	case <-done:
	case <-timer.C:
		giveUp("the handler did not return within " + socketPatience.String() + " after the transfer was broken")
	}
	if f.How == "content-length-larger-then-rst" {
		return nil, peer, true, ""
	}
	if early != nil {
		ans <- *early
	}
	select {
	case a := <-ans:
		if a.rec == nil {
			// the handler returned but no answer arrived on a connection that can still carry one
			rec := httptest.NewRecorder()
			rec.Code = 0
			return rec, peer, true, "no answer: " + fmt.Sprint(a.err)
		}
		return a.rec, peer, true, ""
	case <-timer.C:
		rec := httptest.NewRecorder()
		rec.Code = 0
		return rec, peer, true, "no answer in time"
	}
}

// giveUp: the harness itself cannot go on; that is never a verdict about the code under test.
func giveUp(msg string) {
	fmt.Println("INFRASTRUCTURE: c12 fault fixture: " + msg)
	os.Exit(3)
}

func sortStrings(s []string) {
	for i := 1; i < len(s); i++ {
		for j := i; j > 0 && s[j] < s[j-1]; j-- {
			s[j], s[j-1] = s[j-1], s[j]
		}
	}
}

// ---------------------------------------------------------------------------- oracle clauses for answers that are not admissions

// the header names the decoy sets itself (they win over configured response headers of the same name)
var decoyOwn = map[string]bool{"Server": true, "Content-Type": true, "X-Havoc": true}

// assessDecoy: a request that was not admitted and got the 404.
func assessDecoy(cfg Cfg, r Req, w *httptest.ResponseRecorder, fx *faultView, profile verdict, where lazyStr, report func(*core.Violation)) {
	res := w.Result()
	if fx.pageOK && (r.Method == "POST" || r.Method == "GET") {
		// the decoy: fake server header and the page
		if res.Header.Get("Server") != "nginx" || !strings.HasPrefix(res.Header.Get("Content-Type"), "text/html") {
			report(core.V("decoy|fake-server-headers-missing|"+r.Method, "%s got a 404 without the decoy's headers: Server %q, Content-Type %q", where, res.Header.Get("Server"), res.Header.Get("Content-Type")))
			return
		}
		body := w.Body.Bytes()
		okBody := bytes.Equal(body, pageData)
		if fx.writerFailed {
			okBody = bytes.HasPrefix(pageData, body)
		}
		if !okBody {
			report(core.V("decoy|page-differs|"+r.Method, "%s got a 404 whose body (%d bytes) is not the decoy page (%d bytes): %.80q", where, len(body), len(pageData), body))
			return
		}
	}
	if profile.MustAdmit {
		// the request passed the profile and reached the agent protocol, which refused the bytes it got:
		// the answer still carries the configured response headers (the decoy's own names excepted)
		for _, rh := range cfg.RespHeaders {
			n, want := splitCfgHeader(rh)
			if decoyOwn[canonName(n)] {
				continue
			}
			ok := false
			vals := res.Header.Values(n)
			for _, got := range vals {
				if strings.Trim(got, " \t") == want {
					ok = true
				}
			}
			if !ok {
				report(core.V("resp-header|missing|matching-request-refused-by-protocol", "%s: the request matches the profile, the protocol refused its incomplete body; configured response header %q arrived as %q", where, rh, vals))
				return
			}
		}
	}
}

// ---------------------------------------------------------------------------- labels

func faultStepClass(cfg Cfg, r Req) (coarse, fine string) {
	v := judge(cfg, r)
	switch {
	case v.MustAdmit:
		return "matching", "satisfies-all"
	case !v.MustReject:
		return "grey", "grey"
	case len(v.Reasons) > 1:
		return "non-matching", "violates-several"
	}
	k := v.Reasons[0]
	switch {
	case k == "method":
		k = "method:" + r.Method
	case strings.HasPrefix(k, "uri"):
		k = "uri"
	case strings.HasPrefix(k, "ua"):
		k = "user-agent"
	default:
		k = "header"
	}
	return "non-matching", "violates-one:" + k
}

func faultLabels(cfg Cfg, r Req, at, n int) []string {
	f := r.Fault
	if f == nil {
		return nil
	}
	coarse, fine := faultStepClass(cfg, r)
	var out []string
	switch f.Dep {
	case "request-body":
		p := planBody(f, regBodyLen())
		how := f.How + ":" + effectiveVia(r)
		out = append(out, "fault:request-body:read:"+how+"@"+coarse)
		if p.delivered == regBodyLen() {
			out = append(out, "fault-body:fails-after-the-whole-body@"+coarse)
		} else {
			out = append(out, "fault-body:incomplete@"+coarse)
			switch {
			case p.delivered == 0:
				out = append(out, "fault-body:nothing-delivered")
			case p.delivered <= 21:
				out = append(out, "fault-body:cut-inside-agent-header")
			}
		}
		if f.Via == "socket" && effectiveVia(r) != "socket" {
			out = append(out, "fault-body:socket-wanted-but-request-not-wire-safe")
		}
	case "response-writer":
		out = append(out, fmt.Sprintf("fault:response-writer:write:error-after-%s-bytes@%s", writerBucket(f.K), coarse))
	case "decoy-page":
		out = append(out, "fault:file:read-decoy-page:"+f.How+"@"+coarse)
	}
	out = append(out, "fault-step:"+f.Dep+"@"+fine)
	if at < n-1 {
		out = append(out, "fault-step:followed-by-further-steps")
	} else {
		out = append(out, "fault-step:last-step")
	}
	return out
}

func writerBucket(k int) string {
	switch {
	case k == 0:
		return "0"
	case k < 4:
		return "1-3"
	}
	return "4+"
}

var socketTally = map[string]int{}

// noteSocket counts the deliveries over a real socket and those that fell back (evidence's extra block).
func noteSocket(ok bool) {
	faultSeenMu.Lock()
	defer faultSeenMu.Unlock()
	if ok {
		socketTally["served-over-a-real-socket"]++
	} else {
		socketTally["fell-back-to-in-process"]++
	}
	cp := map[string]int{}
	for k, v := range socketTally {
		cp[k] = v
	}
	core.SetExtra("fault_socket_deliveries_in_one_shard", cp)
}

var (
	faultSeenMu sync.Mutex
	faultSeen   = map[string]map[string]int{}
)

// noteFaults tallies the fault labels into the evidence's "extra" block (the class
// histogram keeps the most frequent labels only); as with the scale tallies these are
// the counts of one shard of the run.
func noteFaults(sub string, labels []string) {
	var hit []string
	for _, l := range labels {
		if strings.HasPrefix(l, "fault:") || strings.HasPrefix(l, "fault-step:") || strings.HasPrefix(l, "fault-body:") {
			hit = append(hit, l)
		}
	}
	if len(hit) == 0 {
		return
	}
	faultSeenMu.Lock()
	defer faultSeenMu.Unlock()
	m := faultSeen[sub]
	if m == nil {
		m = map[string]int{}
		faultSeen[sub] = m
	}
	for _, l := range hit {
		m[l]++
	}
	cp := make(map[string]int, len(m))
	for k, v := range m {
		cp[k] = v
	}
	core.SetExtra("fault_classes_reached_in_one_shard", cp)
}

package c12

// Request-side classes "a configured value with one letter replaced by something that
// is NOT that letter in another letter case": a Unicode simple-case-folding partner
// outside the plain ASCII pair (U+017F long s for s/S, U+212A Kelvin sign for k/K,
// final sigma / sigma, micro sign / mu, the Greek symbol variants, ...), or a
// confusable (fullwidth form, a combining mark appended, the other Unicode
// normalisation form, a Cyrillic / Greek / Turkic look-alike).  Applied to a
// configured header value, the configured user agent and the configured URI.
//
// The judge (a_test.go) decides with the reading the code documents for header
// values - "the comparison is case insensitive" = both sides have the same lower-case
// form (strings.ToLower) - and with plain equality for the user agent and the URI.

import (
	"fmt"
	"strings"
	"unicode"
	"unicode/utf8"

	"golang.org/x/text/unicode/norm"
	"pgregory.net/rapid"
)

// foldPartners: the other members of r's simple-case-folding orbit, without the
// plain ASCII pair (that one is the business of the *-case mutations).
func foldPartners(r rune) []rune {
	var out []rune
	for p := unicode.SimpleFold(r); p != r; p = unicode.SimpleFold(p) {
		if r < 0x80 && p < 0x80 {
			continue
		}
		out = append(out, p)
	}
	return out
}

func hasFoldPartnerLetter(s string) bool {
	for _, r := range s {
		if len(foldPartners(r)) > 0 {
			return true
		}
	}
	return false
}

func isASCII(s string) bool {
	for i := 0; i < len(s); i++ {
		if s[i] >= 0x80 {
			return false
		}
	}
	return true
}

// withFoldPartner replaces one rune of s by one of its fold partners.
func withFoldPartner(t *rapid.T, s string) (string, bool) {
	rs := []rune(s)
	var pos []int
	for i, r := range rs {
		if len(foldPartners(r)) > 0 {
			pos = append(pos, i)
		}
	}
	if len(pos) == 0 {
		return "", false
	}
	i := pos[rapid.IntRange(0, len(pos)-1).Draw(t, "fold-pos")]
	ps := foldPartners(rs[i])
	rs[i] = ps[rapid.IntRange(0, len(ps)-1).Draw(t, "fold-partner")]
	out := string(rs)
	return out, out != s
}

var homoglyphs = map[rune][]rune{
	'a': {0x0430}, 'c': {0x0441}, 'e': {0x0435}, 'o': {0x043E, 0x03BF}, 'p': {0x0440}, 'x': {0x0445}, 's': {0x0455}, 'j': {0x0458},
	'i': {0x0456, 0x0131, 0x0130}, 'I': {0x0130, 0x0406}, 'A': {0x0391, 0x0410}, 'B': {0x0392}, 'E': {0x0395}, 'K': {0x039A, 0x041A},
	'M': {0x039C}, 'O': {0x039F}, 'T': {0x03A4}, 'k': {0x03BA}, 'v': {0x03BD}, 'u': {0x03C5},
}

var combiningMarks = []rune{0x0301, 0x0307, 0x0323, 0x0308}

// withConfusable returns s with one confusable change and the kind of change.
func withConfusable(t *rapid.T, s string) (string, string, bool) {
	rs := []rune(s)
	if len(rs) == 0 {
		return "", "", false
	}
	var alnum, homo, marked []int
	for i, r := range rs {
		if r < 0x80 && (unicode.IsLetter(r) || unicode.IsDigit(r)) {
			alnum = append(alnum, i)
		}
		if len(homoglyphs[r]) > 0 {
			homo = append(homo, i)
		}
		if r != ' ' && r != '\t' {
			marked = append(marked, i)
		}
	}
	kinds := []string{}
	if len(alnum) > 0 {
		kinds = append(kinds, "fullwidth")
	}
	if len(marked) > 0 {
		kinds = append(kinds, "combining-mark")
	}
	if len(homo) > 0 {
		kinds = append(kinds, "homoglyph")
	}
	if norm.NFD.String(s) != s || norm.NFC.String(s) != s {
		kinds = append(kinds, "other-normal-form", "other-normal-form")
	}
	if len(kinds) == 0 {
		return "", "", false
	}
	kind := rapid.SampledFrom(kinds).Draw(t, "confusable-kind")
	var out string
	switch kind {
	case "fullwidth":
		i := alnum[rapid.IntRange(0, len(alnum)-1).Draw(t, "fw-pos")]
		rs[i] = rs[i] - 0x20 + 0xFF00
		out = string(rs)
	case "combining-mark":
		i := marked[rapid.IntRange(0, len(marked)-1).Draw(t, "cm-pos")]
		m := rapid.SampledFrom(combiningMarks).Draw(t, "cm")
		out = string(rs[:i+1]) + string(m) + string(rs[i+1:])
	case "homoglyph":
		i := homo[rapid.IntRange(0, len(homo)-1).Draw(t, "hg-pos")]
		g := homoglyphs[rs[i]]
		rs[i] = g[rapid.IntRange(0, len(g)-1).Draw(t, "hg")]
		out = string(rs)
	case "other-normal-form":
		if d := norm.NFD.String(s); d != s {
			out = d
		} else {
			out = norm.NFC.String(s)
		}
	}
	return out, kind, out != s
}

// percentEncodeNonASCII writes every byte >= 0x80 of a request-target as %XX, the
// other way a client can put such a rune on the wire.
func percentEncodeNonASCII(s string) string {
	var b strings.Builder
	for i := 0; i < len(s); i++ {
		if s[i] >= 0x80 {
			fmt.Fprintf(&b, "%%%02X", s[i])
		} else {
			b.WriteByte(s[i])
		}
	}
	return b.String()
}

var uniMuts = map[string]bool{"hdr-fold-partner": true, "hdr-confusable": true, "ua-fold-partner": true, "ua-confusable": true,
	"path-fold-partner": true, "path-confusable": true}

// applicableUni lists the Unicode mutations that can change this request.
func applicableUni(c Cfg, r *Req) []string {
	var out []string
	idx := nonIgnoredIdx(r)
	if len(idx) > 0 {
		out = append(out, "hdr-confusable")
		for _, i := range idx {
			if hasFoldPartnerLetter(r.Headers[i].Value) {
				out = append(out, "hdr-fold-partner", "hdr-fold-partner")
				break
			}
		}
	}
	if uaDemanded(c) {
		out = append(out, "ua-confusable")
		if hasFoldPartnerLetter(uaBase(c, r)) {
			out = append(out, "ua-fold-partner")
		}
	}
	if len(effectiveUris(c)) > 0 {
		out = append(out, "path-confusable")
		if hasFoldPartnerLetter(r.URI) {
			out = append(out, "path-fold-partner")
		}
	}
	return out
}

// applyUniMut applies one of the Unicode mutations; the returned label names the
// mutation and, for confusables, its kind.
func applyUniMut(t *rapid.T, c Cfg, r *Req, m string) (string, bool) {
	switch m {
	case "hdr-fold-partner":
		var idx []int
		for _, i := range nonIgnoredIdx(r) {
			if hasFoldPartnerLetter(r.Headers[i].Value) {
				idx = append(idx, i)
			}
		}
		if len(idx) == 0 {
			return "", false
		}
		i := idx[rapid.IntRange(0, len(idx)-1).Draw(t, "which-hdr")]
		nv, ok := withFoldPartner(t, r.Headers[i].Value)
		if !ok {
			return "", false
		}
		r.Headers[i].Value = nv
		return m, true
	case "hdr-confusable":
		idx := nonIgnoredIdx(r)
		if len(idx) == 0 {
			return "", false
		}
		i := idx[rapid.IntRange(0, len(idx)-1).Draw(t, "which-hdr")]
		nv, kind, ok := withConfusable(t, r.Headers[i].Value)
		if !ok {
			return "", false
		}
		r.Headers[i].Value = nv
		return m + ":" + kind, true
	case "ua-fold-partner":
		if !uaDemanded(c) {
			return "", false
		}
		nv, ok := withFoldPartner(t, uaBase(c, r))
		if !ok {
			return "", false
		}
		r.HasUA, r.UA = true, nv
		return m, true
	case "ua-confusable":
		if !uaDemanded(c) {
			return "", false
		}
		nv, kind, ok := withConfusable(t, uaBase(c, r))
		if !ok {
			return "", false
		}
		r.HasUA, r.UA = true, nv
		return m + ":" + kind, true
	case "path-fold-partner", "path-confusable":
		if len(effectiveUris(c)) == 0 || !utf8.ValidString(r.URI) || len(r.URI) < 2 {
			return "", false
		}
		// the leading "/" stays
		var nv, lbl string
		var ok bool
		if m == "path-fold-partner" {
			nv, ok = withFoldPartner(t, r.URI[1:])
			lbl = m
		} else {
			var kind string
			nv, kind, ok = withConfusable(t, r.URI[1:])
			lbl = m + ":" + kind
		}
		if !ok {
			return "", false
		}
		nv = "/" + nv
		if rapid.IntRange(0, 2).Draw(t, "path-pct") == 0 {
			if e := percentEncodeNonASCII(nv); e != nv {
				nv = e
				lbl += ":percent-encoded"
			}
		}
		r.URI = nv
		return lbl, true
	}
	return "", false
}

package c12

// Header-NAME classes of the configured Headers list: entries whose name coincides with
// something another setting or the HTTP stack owns (User-Agent next to the UserAgent
// setting, Host next to HostHeader, Content-Length, Content-Type, Cookie, the two
// documented ignored names), the same name twice, names that differ only in case from
// another entry, names in non-canonical case and names with a trailing blank - and the
// delivery model that goes with them (what Go's net/http server hands to a handler).
//
// Every class was checked against HEAD over a real socket (httptest.NewServer around the
// listener's gin engine) before it was encoded here:
//   - "User-Agent: v" entry: Header.Get("User-Agent") must have v's lower-case form; the
//     UserAgent setting, when set, is compared exactly in addition (setting != entry: no
//     request can pass both).
//   - "Host: v" entry: net/http moves Host to Request.Host, Header.Get("Host") is "", the
//     entry never matches: every request gets the decoy (a second Host line: 400).
//   - "Content-Length: v" entry: the header stays in Request.Header with the value the
//     client sent, which net/http forces to be the body length.
//   - a name with a trailing blank ("X-Foo : v"): a request line with that name is
//     answered 400 by net/http before any handler runs; no request can carry it.
//   - a repeated header in the request: Header.Get gives the first value only.

import (
	"fmt"
	"net/http"
	"net/textproto"
	"strconv"
	"strings"
	"sync"

	"pgregory.net/rapid"

	"verifharness/internal/demonref"
)

// ---------------------------------------------------------------------------- delivery model

func isTokenName(n string) bool {
	if n == "" {
		return false
	}
	for i := 0; i < len(n); i++ {
		c := n[i]
		switch {
		case c >= 'a' && c <= 'z', c >= 'A' && c <= 'Z', c >= '0' && c <= '9':
		case strings.IndexByte("!#$%&'*+-.^_`|~", c) >= 0:
		default:
			return false
		}
	}
	return true
}

func canonName(n string) string { return textproto.CanonicalMIMEHeaderKey(n) }

// deliveredHeader is Request.Header as net/http's server hands it to the handler for
// this request: canonical names, repeated names in order, no Host (it lives in
// Request.Host), Content-Length owned by the stack (set by buildRequest), a single
// User-Agent / X-Forwarded-For when the case sets them.  A header whose name is not a
// token cannot be delivered at all (net/http: 400 before any handler).
func deliveredHeader(r Req) http.Header {
	h := http.Header{}
	for _, x := range r.Headers {
		if !isTokenName(x.Name) {
			continue
		}
		if cn := canonName(x.Name); cn == "Host" || cn == "Content-Length" {
			continue
		}
		h.Add(x.Name, x.Value)
	}
	for _, x := range r.Extra {
		if h.Get(x.Name) == "" { // never shadows a header the case already carries
			h.Add(x.Name, x.Value)
		}
	}
	if r.HasUA {
		h.Set("User-Agent", r.UA)
	}
	if r.XFF != "" {
		h.Set("X-Forwarded-For", r.XFF)
	}
	for i := 0; i < r.PadHeaders; i++ { // scale: many further headers, names never configured
		h["X-Pad-"+strconv.Itoa(i)] = []string{"p" + strconv.Itoa(i)}
	}
	if r.PadValueLen > 0 {
		h["X-Pad-Big"] = []string{bigValue(r.PadValueLen)}
	}
	return h
}

var (
	regBodyLenOnce sync.Once
	regBodyLenV    int
)

// regBodyLen: the length of the registration every request of a case carries (it does
// not depend on the agent id), i.e. the Content-Length net/http reports.
func regBodyLen() int {
	regBodyLenOnce.Do(func() {
		md := demonref.MetaData{AgentID: 1, Hostname: "HOST", Username: "user", Domain: "DOM", InternalIP: "10.1.1.1",
			ProcessPath: "C:\\Windows\\x.exe", PID: 100, TID: 101, PPID: 4, ProcessArch: 2, OSMajor: 10, OSBuild: 19045, OSArch: 9, Sleep: 2}
		regBodyLenV = len(md.InitPackage(1, key, iv))
	})
	return regBodyLenV
}

// ---------------------------------------------------------------------------- configuration side

// uaEntry: the value of the first non-ignored entry named User-Agent.
func uaEntry(c Cfg) (string, bool) {
	for _, h := range c.Headers {
		n, v := splitCfgHeader(h)
		if isTokenName(n) && canonName(n) == "User-Agent" {
			return v, true
		}
	}
	return "", false
}

func hostEntry(c Cfg) (string, bool) {
	for _, h := range c.Headers {
		n, v := splitCfgHeader(h)
		if isTokenName(n) && canonName(n) == "Host" {
			return v, true
		}
	}
	return "", false
}

// uaDemanded: does the configuration constrain the request's User-Agent at all (through
// the setting or through an entry of the Headers list)?
func uaDemanded(c Cfg) bool {
	_, ok := uaEntry(c)
	return c.UserAgent != "" || ok
}

// uaBase: the user agent the request currently aims at (what the ua-* mutations distort).
func uaBase(c Cfg, r *Req) string {
	if r.HasUA && r.UA != "" {
		return r.UA
	}
	if c.UserAgent != "" {
		return c.UserAgent
	}
	v, _ := uaEntry(c)
	return v
}

// inRequestHeaders: is an entry with this configured name carried in Req.Headers (and so
// reachable by the hdr-* mutations)?  Not: names the stack or another field of the case owns.
func inRequestHeaders(n string) bool {
	if !isTokenName(n) {
		return false
	}
	switch canonName(n) {
	case "Host", "Content-Length", "User-Agent":
		return false
	}
	return true
}

var nameClassPool = []string{"ordinary", "ordinary", "ordinary", "ordinary", "ordinary", "ordinary",
	"user-agent", "user-agent", "user-agent", "host", "content-type", "content-length", "cookie",
	"same-name-again", "name-case-variant", "trailing-blank"}

func spellName(t *rapid.T, n string) string {
	switch rapid.IntRange(0, 3).Draw(t, "special-name-case") {
	case 0:
		return strings.ToLower(n)
	case 1:
		return strings.ToUpper(n)
	}
	return n
}

// genHeaderEntries draws n entries of a Headers list.  special=false: the ordinary
// custom names only (the historical generator); special=true: the name classes above.
func genHeaderEntries(t *rapid.T, n int, special bool, ctx Cfg) []string {
	var out []string
	seen := map[string]bool{}
	add := func(name, value string) {
		out = append(out, name+": "+value)
	}
	for i := 0; i < n; i++ {
		class := "ordinary"
		if special {
			class = rapid.SampledFrom(nameClassPool).Draw(t, "hname-class")
		}
		var earlier []int // entries a request carries in Req.Headers
		for j, e := range out {
			if nm, _ := splitCfgHeader(e); inRequestHeaders(nm) && !isIgnored(nm) {
				earlier = append(earlier, j)
			}
		}
		if (class == "same-name-again" || class == "name-case-variant") && len(earlier) == 0 {
			class = "ordinary"
		}
		switch class {
		case "ordinary", "trailing-blank":
			nm := rapid.SampledFrom(hdrNamePool).Draw(t, "hname")
			k := strings.ToLower(nm)
			if seen[k] {
				continue
			}
			seen[k] = true
			if class == "trailing-blank" {
				nm += " "
			}
			add(nm, genHeaderValue(t))
		case "user-agent":
			if seen["user-agent"] {
				continue
			}
			seen["user-agent"] = true
			add(spellName(t, "User-Agent"), rapid.SampledFrom(uaPool).Draw(t, "ua-entry"))
		case "host":
			if seen["host"] {
				continue
			}
			seen["host"] = true
			v := "other.example.net"
			switch k := rapid.IntRange(0, 2).Draw(t, "host-entry-src"); {
			case k == 0 && ctx.HostHeader != "":
				v = ctx.HostHeader
			case k <= 1 && len(ctx.Hosts) > 0:
				v = ctx.Hosts[0]
			}
			add(spellName(t, "Host"), v)
		case "content-type":
			if seen["content-type"] {
				continue
			}
			seen["content-type"] = true
			add(spellName(t, "Content-Type"), rapid.SampledFrom([]string{"application/octet-stream", "text/html", "application/x-www-form-urlencoded"}).Draw(t, "ctype"))
		case "content-length":
			if seen["content-length"] {
				continue
			}
			seen["content-length"] = true
			v := strconv.Itoa(regBodyLen())
			if rapid.Bool().Draw(t, "clen-wrong") {
				v = rapid.SampledFrom([]string{"0", "123", "0" + v, v + "0"}).Draw(t, "clen")
			}
			add(spellName(t, "Content-Length"), v)
		case "cookie":
			if seen["cookie"] {
				continue
			}
			seen["cookie"] = true
			add(spellName(t, "Cookie"), rapid.SampledFrom([]string{"session=abc; id=1", "SID=Sk7", "a=b"}).Draw(t, "cookie"))
		case "same-name-again", "name-case-variant":
			j := earlier[rapid.IntRange(0, len(earlier)-1).Draw(t, "which-earlier")]
			nm, v := splitCfgHeader(out[j])
			if class == "name-case-variant" {
				alt := strings.ToUpper(nm)
				if alt == nm || rapid.Bool().Draw(t, "variant-lower") {
					alt = strings.ToLower(nm)
				}
				if alt == nm {
					alt = flipCase(nm)
				}
				if alt == "" || alt == nm {
					continue
				}
				nm = alt
			}
			if rapid.Bool().Draw(t, "again-other-value") {
				v2 := genHeaderValue(t)
				if strings.ToLower(v2) == strings.ToLower(v) {
					v2 = v + "-2"
				}
				v = v2
			}
			add(nm, v)
		}
	}
	return out
}

// relateUA sets the UserAgent setting relative to a User-Agent entry of the Headers list:
// unset (half), the same value, a different value.
func relateUA(t *rapid.T, c *Cfg) {
	v, ok := uaEntry(*c)
	if !ok {
		return
	}
	switch rapid.IntRange(0, 3).Draw(t, "ua-entry-vs-setting") {
	case 0, 1:
		c.UserAgent = ""
	case 2:
		c.UserAgent = v
	case 3:
		if c.UserAgent == "" || c.UserAgent == v {
			for _, u := range uaPool {
				if u != v {
					c.UserAgent = u
					break
				}
			}
		}
	}
}

// ---------------------------------------------------------------------------- request side

// canonicalRequestHeaders: the configured entries the canonical request carries in
// Req.Headers (every entry verbatim, as the Demon adds them), except those another field
// of the case or the HTTP stack owns.
func canonicalRequestHeaders(t *rapid.T, c Cfg, r *Req) {
	for _, h := range c.Headers {
		n, v := splitCfgHeader(h)
		if !inRequestHeaders(n) {
			continue
		}
		r.Headers = append(r.Headers, Hdr{varyNameCase(t, n), v})
	}
}

// headerTargetClass: which name class a request header (by its name) belongs to under
// this configuration; "" for an ordinary custom header.
func headerTargetClass(c Cfg, name string) string {
	cn := canonName(name)
	count, exact := 0, map[string]bool{}
	for _, h := range c.Headers {
		n, _ := splitCfgHeader(h)
		if isTokenName(n) && canonName(n) == cn {
			count++
			exact[n] = true
		}
	}
	switch {
	case count > 1 && len(exact) == 1:
		return "same-name-twice"
	case count > 1:
		return "names-differ-only-in-case"
	case cn == "Content-Type":
		return "content-type"
	case cn == "Cookie":
		return "cookie"
	}
	return ""
}

// ---------------------------------------------------------------------------- labels

// nameClassLabels: the header-name classes of a configuration, as conjunctions with the
// setting they interact with.
func nameClassLabels(c Cfg) []string {
	var out []string
	byCanon := map[string][]string{} // canonical name -> configured spellings+values "name\x00value"
	for _, h := range c.Headers {
		n, v := splitCfgHeader(h)
		if !isTokenName(n) {
			if strings.TrimRight(n, " \t") != n {
				out = append(out, "header-name-trailing-blank")
			}
			continue
		}
		cn := canonName(n)
		byCanon[cn] = append(byCanon[cn], n+"\x00"+v)
		if n != cn {
			out = append(out, "header-name-non-canonical-case")
		}
		switch cn {
		case "User-Agent":
			switch {
			case c.UserAgent == "":
				out = append(out, "header-named-user-agent+ua-unset")
			case c.UserAgent == v:
				out = append(out, "header-named-user-agent+ua-same")
			default:
				out = append(out, "header-named-user-agent+ua-different")
			}
		case "Host":
			if c.HostHeader == "" {
				out = append(out, "header-named-host+hostheader-unset")
			} else {
				out = append(out, "header-named-host+hostheader-set")
			}
		case "Content-Length":
			if v == strconv.Itoa(regBodyLen()) {
				out = append(out, "header-named-content-length+matching-body")
			} else {
				out = append(out, "header-named-content-length+not-matching-body")
			}
		case "Content-Type":
			out = append(out, "header-named-content-type")
		case "Cookie":
			out = append(out, "header-named-cookie")
		case "Connection":
			out = append(out, "header-named-connection(ignored)")
		case "Accept-Encoding":
			out = append(out, "header-named-accept-encoding(ignored)")
		}
	}
	for _, es := range byCanon {
		if len(es) < 2 {
			continue
		}
		sameName, sameValue := true, true
		n0, v0, _ := strings.Cut(es[0], "\x00")
		for _, e := range es[1:] {
			n, v, _ := strings.Cut(e, "\x00")
			if n != n0 {
				sameName = false
			}
			if strings.ToLower(v) != strings.ToLower(v0) {
				sameValue = false
			}
		}
		l := "header-names-differ-only-in-case"
		if sameName {
			l = "header-name-twice"
		}
		if sameValue {
			l += "+same-value"
		} else {
			l += "+different-values"
		}
		out = append(out, l)
	}
	return uniq(out)
}

func coarseVerdict(v verdict) string {
	switch {
	case v.MustAdmit:
		return "satisfies-all"
	case v.MustReject && len(v.Reasons) == 1:
		return "violates-one"
	case v.MustReject:
		return "violates-several"
	}
	return "grey"
}

// nameClassReqLabels: per request, the conjunction (configuration name class, what the
// request does to it).
func nameClassReqLabels(classes []string, r Req, v verdict) []string {
	var out []string
	if len(classes) == 0 {
		return nil
	}
	cv := coarseVerdict(v)
	for _, cl := range classes {
		switch cl {
		case "header-name-non-canonical-case", "header-named-content-type", "header-named-connection(ignored)", "header-named-accept-encoding(ignored)":
			continue // names of the ordinary pool: far too common to be worth a per-request verdict label
		}
		out = append(out, "req|"+cl+"|"+cv)
	}
	if r.Mut == "" {
		return out
	}
	for _, m := range strings.Split(r.Mut, "+") {
		base, tgt, _ := strings.Cut(m, "@")
		if i := strings.IndexByte(base, ':'); i >= 0 {
			base = base[:i]
		}
		for _, cl := range classes {
			switch {
			case strings.HasPrefix(base, "ua-") && strings.HasPrefix(cl, "header-named-user-agent"):
				out = append(out, fmt.Sprintf("req|%s|mut:%s", cl, base))
			case tgt != "" && (strings.HasPrefix(cl, "header-named-"+tgt) || strings.HasPrefix(cl, headerTargetLabel(tgt))):
				out = append(out, fmt.Sprintf("req|%s|mut:%s", cl, base))
			}
		}
	}
	return out
}

func headerTargetLabel(tgt string) string {
	switch tgt {
	case "same-name-twice":
		return "header-name-twice"
	case "names-differ-only-in-case":
		return "header-names-differ-only-in-case"
	}
	return "\x00"
}

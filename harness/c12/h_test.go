package c12

// C12(h): histories on ONE running listener — requests interleaved with operator edits
// of the listener's configuration.  Every request is judged by the same reference judge
// as in (a), against the configuration in force at that moment.
//
// Fixture: a real server.Teamserver (tsx.NewTS, private sqlite file); the listener is
// started by the real ts.ListenerStart(LISTENER_HTTP, cfg) and edited by the real
// ts.ListenerEdit(LISTENER_HTTP, cfg) — the function the operator's "Listener Edit"
// package reaches (cmd/server/dispatch.go) — which assigns UserAgent, Headers, Uris,
// Proxy and BehindRedir (from the profile) on the live *handlers.HTTP.  The listener's
// Teamserver is the real one, so "admitted" is a new entry in ts.Agents and "changes
// nothing" is: no new agent, no new entry in ts.EventsList.

import (
	"encoding/json"
	"fmt"
	"os"
	"strings"
	"testing"
	"time"

	"Havoc/cmd/server"
	"Havoc/pkg/handlers"
	"Havoc/pkg/packager"

	"pgregory.net/rapid"

	"verifharness/internal/core"
	"verifharness/internal/pick"
	"verifharness/internal/tsx"
)

type Edit struct {
	UserAgent string   `json:"user_agent"`
	Headers   []string `json:"headers"`
	Uris      []string `json:"uris"`
	Proxy     bool     `json:"proxy"` // the form's "proxy enabled" box (ListenerEdit assigns Config.Proxy)
	What      string   `json:"what"`  // what the generator changed (label only)
}

type Op struct {
	Req  *Req   `json:"req,omitempty"`
	Edit *Edit  `json:"edit,omitempty"`
	Aim  string `json:"aim,omitempty"` // req: generated around the "current" or the "previous" configuration (label only)

	// scale (scale_test.go)
	Bulk     *Bulk     `json:"bulk,omitempty"`      // that many requests, every one judged
	EditBulk *EditBulk `json:"edit_bulk,omitempty"` // that many operator edits
}

// EditBulk: N operator Listener.Edit packages, the forms of Cycle in turn (each is the
// dialog's whole form, so the configuration in force afterwards is the last one sent).
type EditBulk struct {
	N     int    `json:"n"`
	Cycle []Edit `json:"cycle"`
}

func (b EditBulk) last() Edit { return b.Cycle[(b.N-1)%len(b.Cycle)] }

type CaseH struct {
	// Start: "operator-add" = the operator's Listener.Add package through DispatchEvent
	// (no response headers: the dialog has none); "profile-start" = ts.ListenerStart with
	// the configuration teamserver.go builds for a listener of the profile (response
	// headers included).  Cfg.BehindRedir is the PROFILE's Demon.TrustXForwardedFor.
	Start string `json:"start"`
	Cfg   Cfg    `json:"cfg"` // configuration the listener is started with
	Ops   []Op   `json:"ops"`
	Page  string `json:"page,omitempty"` // as in (a): "present" = the working directory has the decoy page
}

// ---------------------------------------------------------------------------- generator

func freshURI(t *rapid.T, have []string) string {
	for i := 0; i < 8; i++ {
		u := genURI(t, "new-uri")
		dup := false
		for _, h := range have {
			if h == u {
				dup = true
			}
		}
		if !dup {
			return u
		}
	}
	return fmt.Sprintf("/fresh/%d", len(have))
}

func genHeaderList(t *rapid.T, min, max int, ctx Cfg) []string {
	n := rapid.IntRange(min, max).Draw(t, "nheaders")
	// half of the lists an operator types in use the header-name classes of (a) (names_test.go)
	return genHeaderEntries(t, n, rapid.Bool().Draw(t, "header-name-classes"), ctx)
}

var editKinds = []string{"uris-empty", "uris-fill", "uris-change-one", "uris-add", "uris-remove-one", "uris-replace-all",
	"ua-toggle", "ua-change", "headers-empty", "headers-fill", "headers-change-value", "headers-add", "headers-remove-one"}

// applicableEdits: the edits that change something for this configuration; the URI
// edits are listed twice (they are the part of the profile most often edited).
func applicableEdits(c Cfg) []string {
	var out []string
	nu := len(effectiveUris(c))
	if nu == 0 {
		out = append(out, "uris-fill", "uris-fill")
	} else {
		out = append(out, "uris-empty", "uris-change-one", "uris-add", "uris-replace-all", "uris-empty", "uris-change-one", "uris-replace-all")
		if nu > 1 {
			out = append(out, "uris-remove-one", "uris-remove-one")
		}
	}
	out = append(out, "ua-toggle", "proxy-toggle")
	if c.UserAgent != "" {
		out = append(out, "ua-change")
	}
	if len(c.Headers) == 0 {
		out = append(out, "headers-fill")
	} else {
		out = append(out, "headers-empty", "headers-change-value", "headers-add")
		if len(c.Headers) > 1 {
			out = append(out, "headers-remove-one")
		}
	}
	return out
}

func genEdit(t *rapid.T, cur Cfg) Edit {
	// the edit dialog sends the whole form: start from what is configured
	e := Edit{UserAgent: cur.UserAgent, Headers: append([]string(nil), cur.Headers...), Uris: append([]string(nil), effectiveUris(cur)...), Proxy: cur.ProxyEnabled}
	n := 1
	if rapid.IntRange(0, 3).Draw(t, "two-fields") == 0 {
		n = 2
	}
	var what []string
	for k := 0; k < n; k++ {
		tmp := cur
		tmp.UserAgent, tmp.Headers, tmp.Uris = e.UserAgent, e.Headers, e.Uris
		kind := rapid.SampledFrom(applicableEdits(tmp)).Draw(t, "edit-kind")
		switch kind {
		case "uris-empty":
			e.Uris = nil // dispatch.go drops empty strings after the split: no URIs = nil
		case "uris-fill":
			m := rapid.IntRange(1, 3).Draw(t, "fill-n")
			for i := 0; i < m; i++ {
				e.Uris = append(e.Uris, freshURI(t, e.Uris))
			}
		case "uris-change-one":
			i := rapid.IntRange(0, len(e.Uris)-1).Draw(t, "which-uri")
			e.Uris[i] = freshURI(t, e.Uris)
		case "uris-add":
			e.Uris = append(e.Uris, freshURI(t, e.Uris))
		case "uris-remove-one":
			i := rapid.IntRange(0, len(e.Uris)-1).Draw(t, "which-uri")
			e.Uris = append(e.Uris[:i:i], e.Uris[i+1:]...)
		case "uris-replace-all":
			old := e.Uris
			e.Uris = nil
			m := rapid.IntRange(1, 3).Draw(t, "replace-n")
			for i := 0; i < m; i++ {
				e.Uris = append(e.Uris, freshURI(t, append(append([]string{}, old...), e.Uris...)))
			}
		case "ua-toggle":
			if e.UserAgent == "" {
				e.UserAgent = rapid.SampledFrom(uaPool).Draw(t, "ua")
			} else {
				e.UserAgent = ""
			}
		case "proxy-toggle":
			e.Proxy = !e.Proxy
		case "ua-change":
			e.UserAgent = e.UserAgent + " v2"
		case "headers-empty":
			e.Headers = nil
		case "headers-fill":
			e.Headers = genHeaderList(t, 1, 3, cur)
		case "headers-change-value":
			i := rapid.IntRange(0, len(e.Headers)-1).Draw(t, "which-hdr")
			nm, v := splitCfgHeader(e.Headers[i])
			e.Headers[i] = nm + ": " + v + "-edited"
		case "headers-add":
			have := map[string]bool{}
			for _, h := range e.Headers {
				nm, _ := splitCfgHeader(h)
				have[strings.ToLower(nm)] = true
			}
			for _, cand := range genHeaderList(t, 1, 3, cur) {
				nm, _ := splitCfgHeader(cand)
				if !have[strings.ToLower(nm)] {
					e.Headers = append(e.Headers, cand)
					break
				}
			}
		case "headers-remove-one":
			i := rapid.IntRange(0, len(e.Headers)-1).Draw(t, "which-hdr")
			e.Headers = append(e.Headers[:i:i], e.Headers[i+1:]...)
		}
		what = append(what, kind)
	}
	e.What = strings.Join(what, "+")
	e.Headers = noListSep(e.Headers)
	return e
}

func applyEdit(c Cfg, e Edit) Cfg {
	c.UserAgent = e.UserAgent
	c.Headers = append([]string(nil), e.Headers...)
	c.Uris = append([]string(nil), e.Uris...)
	if e.Proxy != c.ProxyEnabled {
		c.ProxyEnabled = e.Proxy
		c.ProxyType, c.ProxyHost, c.ProxyPort, c.ProxyUser, c.ProxyPass = "", "", "", "", ""
		if e.Proxy {
			c.ProxyType, c.ProxyHost, c.ProxyPort = "http", "proxy.corp.example", "8080"
		}
	}
	return c
}

// noListSep: the operator protocol carries header and URI lists joined with ", "
// (client and dispatch.go), so an element cannot contain that separator.
func noListSep(in []string) []string {
	var out []string
	for _, s := range in {
		out = append(out, strings.ReplaceAll(s, ", ", ","))
	}
	return out
}

func genH(t *rapid.T) CaseH {
	var c CaseH
	c.Cfg = genCfg(t)
	c.Cfg.Headers = noListSep(c.Cfg.Headers)
	c.Cfg.Uris = effectiveUris(c.Cfg) // the [""] form cannot be sent by an operator; (a) covers it
	c.Start = rapid.SampledFrom([]string{"operator-add", "operator-add", "profile-start"}).Draw(t, "start")
	c.Cfg.Secure = false // (a) starts TLS listeners; a history would pay the key generation for nothing
	if c.Start == "operator-add" {
		c.Cfg.RespHeaders = nil
		c.Cfg.KillDate, c.Cfg.WorkingHours, c.Cfg.Methode = 0, "", "" // not part of what dispatch.go's Add branch takes over
	}
	// about one history in 20: one count of the subject at a threshold-adjacent large value (scale_test.go)
	scale, bulkSlot, bulkSlot2, slot := "", -1, -1, 0
	var bulkRest *Bulk
	if isScaleCase(t, 20) {
		scale = rapid.SampledFrom(append([]string{"requests", "requests", "requests", "requests", "requests", "requests", "edits"}, scaleCfgDims...)).Draw(t, "scale-dim")
		scaleCfg(t, &c.Cfg, scale)
		// slots: 0 = before the warm-up requests, 1 = after them, 2.. = after the requests of each round
		bulkSlot = rapid.IntRange(0, 4).Draw(t, "bulk-slot")
		if rapid.Bool().Draw(t, "bulk-split") {
			bulkSlot2 = rapid.IntRange(bulkSlot+1, 5).Draw(t, "bulk-slot-2")
		}
	}
	cur, prev := c.Cfg, c.Cfg
	idx := 0
	var reqs func(n int, afterEdit bool)
	atSlot := func(last bool) {
		defer func() { slot++ }()
		if bulkRest != nil && (slot == bulkSlot2 || last) {
			c.Ops = append(c.Ops, Op{Bulk: bulkRest})
			bulkRest = nil
		}
		if bulkSlot < 0 || !(slot == bulkSlot || (last && slot < bulkSlot)) {
			return
		}
		bulkSlot = -1
		switch scale {
		case "requests":
			b := genBulk(t, cur, true)
			if bulkSlot2 >= 0 && !last {
				x, y := b.split()
				c.Ops = append(c.Ops, Op{Bulk: &x})
				bulkRest = &y // ordinary requests and edits in the middle of the bulk; the rest is judged against the configuration then in force
			} else {
				c.Ops = append(c.Ops, Op{Bulk: &b})
			}
		case "edits":
			eb := EditBulk{N: drawScale(t, "n-edits", capEdits())}
			tmp := cur
			for k, nk := 0, rapid.IntRange(2, 3).Draw(t, "edit-cycle"); k < nk; k++ {
				e := genEdit(t, tmp)
				eb.Cycle = append(eb.Cycle, e)
				tmp = applyEdit(tmp, e)
			}
			c.Ops = append(c.Ops, Op{EditBulk: &eb})
			prev, cur = cur, applyEdit(cur, eb.last())
			reqs(rapid.IntRange(1, 3).Draw(t, "after-edit-bulk"), true) // reach the count, then ordinary requests, then observe
		}
	}
	reqs = func(n int, afterEdit bool) {
		for i := 0; i < n; i++ {
			aim, label := cur, "current"
			if afterEdit && rapid.IntRange(0, 9).Draw(t, "aim-prev") < 4 {
				aim, label = prev, "previous"
			}
			aim.BehindRedir = cur.BehindRedir
			r := genReq(t, aim, idx)
			idx++
			c.Ops = append(c.Ops, Op{Req: &r, Aim: label})
		}
	}
	atSlot(false)
	reqs(rapid.IntRange(0, 3).Draw(t, "warmup"), false) // 0: the first request comes after an edit
	atSlot(false)
	rounds := rapid.IntRange(1, 3).Draw(t, "rounds")
	for k := 0; k < rounds; k++ {
		e := genEdit(t, cur)
		c.Ops = append(c.Ops, Op{Edit: &e})
		prev, cur = cur, applyEdit(cur, e)
		reqs(rapid.IntRange(1, 4).Draw(t, "after"), true)
		atSlot(k == rounds-1)
	}
	switch scale {
	case "request-header-count", "request-header-size":
		var ps []*Req
		for i := range c.Ops {
			if c.Ops[i].Req != nil {
				ps = append(ps, c.Ops[i].Req)
			}
		}
		scaleReqs(t, ps, scale)
	}
	// about one history in 4: ONE request of the history is served while one dependency fails
	// (fault_test.go); the history continues with the fault lifted
	if isFaultCase(t) {
		var ps []*Req
		for i := range c.Ops {
			if c.Ops[i].Req != nil {
				ps = append(ps, c.Ops[i].Req)
			}
		}
		if len(ps) > 0 {
			attachFault(t, c.Cfg, ps)
			c.Page = "present"
		}
	}
	return c
}

// ---------------------------------------------------------------------------- fixture

// profileConfigOf: what teamserver.go builds for an HTTP listener of the profile
// (BehindRedir from Demon.TrustXForwardedFor, response headers from the listener block).
func profileConfigOf(c Cfg) handlers.HTTPConfig { return httpConfigFull(c, "c12h") }

// operatorInfo is the Info map of the client's Listener.Add / Listener.Edit package for
// an HTTP listener (the keys cmd/server/dispatch.go reads; all values are strings, lists
// joined with ", ").
func operatorInfo(c Cfg) map[string]any {
	hosts := c.Hosts
	if len(hosts) == 0 {
		hosts = []string{"127.0.0.1"}
	}
	m := map[string]any{
		"Name": "c12h", "Protocol": handlers.AGENT_HTTP, "Status": "online", "Secure": "false",
		"Hosts": strings.Join(hosts, ", "), "HostBind": "127.0.0.1", "HostRotation": c.HostRotation, "PortBind": "0", "PortConn": c.PortConn,
		"Headers": strings.Join(c.Headers, ", "), "Uris": strings.Join(c.Uris, ", "),
		"UserAgent": c.UserAgent, "HostHeader": c.HostHeader, "Proxy Enabled": "false",
	}
	if c.ProxyEnabled {
		m["Proxy Enabled"] = "true"
		m["Proxy Type"], m["Proxy Host"], m["Proxy Port"] = c.ProxyType, c.ProxyHost, c.ProxyPort
		m["Proxy Username"], m["Proxy Password"] = c.ProxyUser, c.ProxyPass
	}
	return m
}

// operate feeds one operator package to the teamserver the way handleRequest does after
// authentication (teamserver.go: CreatePackage, EventAppend, DispatchEvent).
func operate(ts *server.Teamserver, sub int, info map[string]any) {
	raw, _ := json.Marshal(map[string]any{
		"Head": map[string]any{"Event": packager.Type.Listener.Type, "User": "op", "Time": "01/01/2026 00:00:00", "OneTime": ""},
		"Body": map[string]any{"SubEvent": sub, "Info": info},
	})
	pk := packager.NewPackager().CreatePackage(string(raw))
	ts.EventAppend(pk)
	ts.DispatchEvent(pk)
}

func runH(c CaseH, report func(*core.Violation)) {
	dir, err := os.MkdirTemp("", "verif-c12h-")
	if err != nil {
		panic(err)
	}
	defer os.RemoveAll(dir)
	prof := tsx.BasicProfile(map[string]string{"op": "pw"}, nil)
	prof.Config.Demon.TrustXForwardedFor = c.Cfg.BehindRedir // dispatch.go takes BehindRedir from here on add and on edit
	ts, err := tsx.NewTS(dir, prof)
	if err != nil {
		panic(err)
	}
	defer tsx.CloseTS(ts)
	if c.Start == "profile-start" {
		if err := ts.ListenerStart(handlers.LISTENER_HTTP, profileConfigOf(c.Cfg)); err != nil {
			panic(err)
		}
	} else {
		operate(ts, packager.Type.Listener.Add, operatorInfo(c.Cfg))
	}
	if len(ts.Listeners) != 1 {
		report(core.V("hist|listener-not-started|"+c.Start, "%s of %+v left %d listeners", c.Start, c.Cfg, len(ts.Listeners)))
		return
	}
	h, isHTTP := ts.Listeners[0].Config.(*handlers.HTTP)
	if !isHTTP {
		report(core.V("hist|listener-not-started|"+c.Start, "%s created a %T", c.Start, ts.Listeners[0].Config))
		return
	}
	defer func() {
		// close the socket Start() opened and join its goroutine: its last action is
		// EventListenerError, which stamps the listener's retained "add" event with the error
		deadline := time.Now().Add(10 * time.Second)
		for h.Server == nil && time.Now().Before(deadline) {
			time.Sleep(50 * time.Microsecond)
		}
		if h.Server == nil {
			return
		}
		h.Server.Close()
		for time.Now().Before(deadline) {
			done := false
			ts.EventsMutex.Lock()
			for _, pk := range ts.EventsList {
				if pk.Head.Event == packager.Type.Listener.Type && pk.Body.SubEvent == packager.Type.Listener.Add {
					if _, ok := pk.Body.Info["Error"]; ok {
						done = true
					}
				}
			}
			ts.EventsMutex.Unlock()
			if done {
				return
			}
			time.Sleep(50 * time.Microsecond)
		}
	}()
	nEvents := func() int {
		ts.EventsMutex.Lock()
		defer ts.EventsMutex.Unlock()
		return len(ts.EventsList)
	}

	cur := c.Cfg
	edits, served := 0, 0
	lastEdit := ""
	if c.Page == "present" {
		defer enterPageRoot()()
	}
	serveOne := func(r Req, i int, agentID uint32, aim string, pv *verdict, note0 lazyStr) {
		nA, nE := len(ts.Agents.Agents), nEvents()
		w, r, fx := deliver(h.GinEngine, r, agentID, c.Page == "present")
		newSessions := ts.Agents.Agents[nA:]
		admitted := len(newSessions) > 0
		ev := "[]"
		if d := nEvents() - nE; d != 0 && !admitted {
			ev = fmt.Sprintf("[%d new retained events]", d)
		}
		post := "|before-any-edit"
		if edits > 0 {
			post = "|after-edit"
		}
		nEd, nSv, lastE := edits, served, lastEdit
		note := lazyStr(func() string {
			s := fmt.Sprintf(" [history: %d edits so far (last: %s), %d requests served before, aimed at the %s configuration]", nEd, lastE, nSv, aim)
			if note0 != nil {
				s += note0()
			}
			return s
		})
		assess(cur, r, i, agentID, w, admitted, newSessions, ev, "hist|", post, pv, note, report, fx)
		served++
	}
	bulkID := uint32(0x0C200000)
	for i, op := range c.Ops {
		if op.Bulk != nil {
			b := *op.Bulk
			vs := make([]verdict, len(b.Items))
			for j, it := range b.Items {
				vs[j] = judge(cur, it.Req) // every request of the bulk is judged; a template's verdict is computed once
			}
			k := 0
			b.each(func(j int, r Req) {
				bulkID++
				k++
				kk := k
				serveOne(r, 100000+j, bulkID, "current", &vs[j], func() string {
					return fmt.Sprintf(" [request %d of a bulk of %d (template %d)]", kk, b.total(), j)
				})
			})
			continue
		}
		if op.EditBulk != nil {
			for k := 0; k < op.EditBulk.N; k++ {
				e := op.EditBulk.Cycle[k%len(op.EditBulk.Cycle)]
				cur = applyEdit(cur, e)
				operate(ts, packager.Type.Listener.Edit, operatorInfo(cur))
				edits++
				lastEdit = e.What
			}
			continue
		}
		if op.Edit != nil {
			e := *op.Edit
			// the operator's Listener.Edit package (the dialog's whole form) through the real
			// DispatchEvent -> ts.ListenerEdit.  The redirector flag is not part of the form: it
			// stays what the profile says, which is what cur.BehindRedir holds.
			cur = applyEdit(cur, e)
			operate(ts, packager.Type.Listener.Edit, operatorInfo(cur))
			edits++
			lastEdit = e.What
			continue
		}
		if op.Req == nil {
			continue
		}
		serveOne(*op.Req, i, uint32(0x0C120100+i+1), op.Aim, nil, nil)
	}
}

func checkH(c CaseH) *core.Violation {
	var all []*core.Violation
	runH(c, func(v *core.Violation) { all = append(all, v) })
	return pick.First("C12", all)
}

// ---------------------------------------------------------------------------- classification

func classifyH(c CaseH) core.Class {
	var cl core.Class
	cur := c.Cfg
	edits, served := 0, 0
	fp := ""
	var fates fateCounts
	cl.Labels = append(cl.Labels, cfgScaleLabels(c.Cfg)...)
	for i, op := range c.Ops {
		if op.Bulk != nil {
			for _, it := range op.Bulk.Items {
				fates.add(cur, it.Req, it.Times)
			}
			switch {
			case i == 0:
				cl.Labels = append(cl.Labels, "scale:bulk-before-everything")
			case i == len(c.Ops)-1:
				cl.Labels = append(cl.Labels, "scale:bulk-at-the-end")
			default:
				cl.Labels = append(cl.Labels, "scale:bulk-between-requests-and-edits")
			}
			if edits > 0 {
				cl.Labels = append(cl.Labels, "scale:bulk-after-an-edit")
			}
			served += op.Bulk.total()
			continue
		}
		if op.EditBulk != nil {
			cur = applyEdit(cur, op.EditBulk.last())
			edits += op.EditBulk.N
			if i == len(c.Ops)-1 {
				cl.Labels = append(cl.Labels, "scale:edits-at-the-end")
			} else {
				cl.Labels = append(cl.Labels, "scale:edits-then-requests")
			}
			continue
		}
		if op.Req != nil {
			fates.add(cur, *op.Req, 1)
			cl.Labels = append(cl.Labels, reqScaleLabels(*op.Req)...)
		}
		if op.Edit != nil {
			cur = applyEdit(cur, *op.Edit)
			edits++
			for _, k := range strings.Split(op.Edit.What, "+") {
				cl.Labels = append(cl.Labels, "edit:"+k)
			}
			if served > 0 {
				cl.Labels = append(cl.Labels, "edit-after-served-request")
			} else {
				cl.Labels = append(cl.Labels, "edit-before-first-request")
			}
			continue
		}
		if op.Req == nil {
			continue
		}
		v := judge(cur, *op.Req)
		nameClasses := nameClassLabels(cur)
		for _, l := range nameClasses {
			cl.Labels = append(cl.Labels, "cfg-in-force:"+l)
		}
		cl.Labels = append(cl.Labels, nameClassReqLabels(nameClasses, *op.Req, v)...)
		kind := "grey"
		switch {
		case v.MustAdmit:
			kind = "satisfies-all"
		case v.MustReject:
			kind = "violates:" + strings.Join(v.Reasons, "+")
		}
		phase := "before-edit"
		if edits > 0 {
			phase = "after-edit"
		}
		cl.Labels = append(cl.Labels, "req:"+phase+":"+kind, "aim:"+op.Aim)
		cl.Labels = append(cl.Labels, unicodeReqLabels(*op.Req, v)...)
		cl.Labels = append(cl.Labels, punctReqLabels(*op.Req, v)...)
		cl.Labels = append(cl.Labels, punctCfgLabels(cur)...)
		if op.Req.Fault != nil {
			cl.Labels = append(cl.Labels, faultLabels(cur, *op.Req, i, len(c.Ops))...)
			if edits > 0 {
				cl.Labels = append(cl.Labels, "fault-step:after-an-edit")
			} else {
				cl.Labels = append(cl.Labels, "fault-step:before-any-edit")
			}
		}
		if edits > 0 && served > 0 {
			// the interesting shape: served something, edited, and now a request whose fate the edit decides
			if op.Aim == "previous" || v.MustAdmit {
				cl.NonTrivial = true
				if fp == "" {
					coarse := "grey"
					switch {
					case v.MustAdmit:
						coarse = "satisfies-all"
					case v.MustReject && len(v.Reasons) == 1:
						coarse = "violates-one"
					case v.MustReject:
						coarse = "violates-several"
					}
					fp = op.Aim + "/" + coarse
				}
			}
		}
		served++
	}
	cl.Labels = append(cl.Labels, fates.labels()...)
	cl.Labels = append(cl.Labels, scaleLabel("edits-per-listener", edits)...)
	nBulks := 0
	for _, op := range c.Ops {
		if op.Bulk != nil {
			nBulks++
		}
	}
	if nBulks > 1 {
		cl.Labels = append(cl.Labels, "scale:bulk-split-around-requests-and-edits")
	}
	last := ""
	for _, op := range c.Ops {
		if op.Edit != nil {
			last = op.Edit.What
		}
		if op.EditBulk != nil {
			last = op.EditBulk.last().What
		}
	}
	xffAfterEdit := false
	ed := 0
	for _, op := range c.Ops {
		if op.Edit != nil {
			ed++
		} else if op.Req != nil && ed > 0 && op.Req.XFF != "" && op.Req.Method == "POST" {
			xffAfterEdit = true
		}
	}
	cl.Labels = append(cl.Labels, "start:"+c.Start, fmt.Sprintf("trust-xff:%v", c.Cfg.BehindRedir), "hostheader-config:"+hostHeaderClass(c.Cfg))
	for _, op := range c.Ops {
		if op.Req != nil {
			cl.Labels = append(cl.Labels, "request-host:"+op.Req.HostClass)
		}
	}
	if xffAfterEdit {
		cl.Labels = append(cl.Labels, fmt.Sprintf("post-with-xff-after-edit|trust-xff:%v", c.Cfg.BehindRedir))
	}
	cl.Fingerprint = fmt.Sprintf("%s|trust=%v|last=%s|%s", c.Start, c.Cfg.BehindRedir, strings.Split(last, "+")[0], fp)
	if c.Page == "present" {
		cl.Labels = append(cl.Labels, "decoy-page:present-in-working-directory")
	}
	noteScale("h", cl.Labels)
	noteFaults("h", cl.Labels)
	return cl
}

func TestC12h(t *testing.T) {
	core.Run(t, core.Spec[CaseH]{
		Property: "C12", Sub: "h",
		Rule: "histories on one running listener of a real Teamserver whose profile has Demon.TrustXForwardedFor true or false (half each). The listener is started either by the operator's Listener.Add package through the real DispatchEvent (2/3) or by ts.ListenerStart with the configuration teamserver.go builds for a profile listener, response headers included (1/3). Then 0-3 requests and 1-3 rounds of {an operator Listener.Edit package (the dialog's whole form, Info keys and ', '-joined lists exactly as the client sends them) through the real DispatchEvent -> ts.ListenerEdit, 1-4 requests}. Edits change one or two of: URIs (empty the list, fill an empty one, change one element, add, remove one, replace all), user agent (set/unset/change), request headers (empty, fill, change a value, add, remove one; half of the filled / added lists use (a)'s header-NAME classes: entries named User-Agent, Host, Content-Length, Content-Type, Cookie, repeated names, case variants, trailing blank - so a User-Agent entry meets a UserAgent setting that an edit sets, changes or removes). Requests are generated as in (a) - including its Unicode classes (fold partner / confusable of a configured header value, user agent or URI; configured values with s, k, sigma, micro, composed letters) - around the configuration in force or (40% after an edit) around the previous one, carry X-Forwarded-For always when the profile trusts the redirector and in a third of the cases otherwise, and every one is judged by (a)'s reference judge against the configuration in force at that moment, the redirector flag being the profile's throughout: admitted <=> new entry in ts.Agents with 200 + registration reply + response headers + ExternalIP (X-Forwarded-For iff the profile trusts the redirector, else the peer); otherwise 404, no new agent, no new retained event. SCALE (about one history in 20; one count per history from the threshold-adjacent pool 63..8193 of (a)): requests served by the one listener instance - a bulk as in (a) (non-matching POSTs, matching requests, GETs and mixes; totals up to 8193, templates that may be admitted cut at 513 per bulk in the quick tier / 1025 thorough: an admitted request costs ~2 ms on the real Teamserver) placed before the warm-up, after it or after any round, optionally split in two parts with requests and edits in between (each part judged against the configuration then in force), every request judged; operator edits of the one listener (a cycle of 2-3 generated edit forms sent 63..129 times, quick tier; up to 513 thorough - an edit costs ~10 ms), followed by ordinary requests; configured headers / URIs / hosts up to 1025 entries through the operator's Add / Edit packages, configured header value size, headers per request and request header size up to 8193. FAULT INJECTION (about one history in 4, as in (a)): ONE request of the history - before any edit or after one, mostly followed by further requests and edits - is served while one dependency fails (request body unreadable beyond k bytes: failing reader in-process, or over a real socket around the listener's engine Content-Length larger than sent then FIN / RST, chunked with a garbage chunk size, chunked cut by FIN, Content-Length smaller than sent; response writer failing after k bytes; decoy page missing / a directory / working directory elsewhere), then the fault is lifted; the history runs in a working directory that has the decoy page; the request is judged by (a)'s oracle for faulted steps against the configuration in force (complete body => as any request, incomplete => decoy or refused by the protocol with the response headers, no new agent, no new retained event), and every later request and edit must behave as if the fault had not happened. Non-trivial: a request served, then an edit, then a request that satisfies the new configuration or was aimed at the old one; distinct = (start mode, profile flag, kind of the last edit, aim and verdict of the first such request) Punctuation values and one-character substitution as in (a) (punct_test.go): header lists the operator types in carry values with ASCII punctuation (one in three ordinary values), requests - also those aimed at the previous configuration - carry a configured value with ONE ASCII character replaced by a one-bit neighbour (bit 5 = the case bit three times as often) or the next / previous code; judged by the same oracle against the configuration in force (labels char-substituted:*, cfg-header-value-has-ascii-punctuation)",
		Gen:  genH, Check: checkH, Classify: classifyH,
		Assumptions: []string{
			"operator packages are dispatched without a connected operator socket (replies to 'the user' and broadcasts are no-ops), as CreatePackage + EventAppend + DispatchEvent, which is what handleRequest does after authentication",
			"list elements contain no ', ' (the operator protocol joins lists with it); an operator cannot configure response headers, so only profile-started listeners have them; the redirector flag belongs to the profile and does not change during a history",
			"the assumptions of sub-check a about request delivery and grey zones apply",
		},
	})
}

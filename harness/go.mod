module verifharness

go 1.23

toolchain go1.23.5

require (
	Havoc v0.0.0
	github.com/gin-gonic/gin v1.10.0
	github.com/gorilla/websocket v1.5.3
	github.com/mattn/go-sqlite3 v1.14.23
	github.com/zclconf/go-cty v1.15.0
	golang.org/x/crypto v0.27.0
	golang.org/x/text v0.18.0
	pgregory.net/rapid v1.3.0
)

require (
	github.com/agext/levenshtein v1.2.3 // indirect
	github.com/apparentlymart/go-textseg/v13 v13.0.0 // indirect
	github.com/apparentlymart/go-textseg/v15 v15.0.0 // indirect
	github.com/fatih/color v1.17.0 // indirect
	github.com/fatih/structs v1.1.0 // indirect
	github.com/gabriel-vasile/mimetype v1.4.5 // indirect
	github.com/gin-contrib/sse v0.1.0 // indirect
	github.com/go-playground/locales v0.14.1 // indirect
	github.com/go-playground/universal-translator v0.18.1 // indirect
	github.com/go-playground/validator/v10 v10.22.0 // indirect
	github.com/google/go-cmp v0.6.0 // indirect
	github.com/leodido/go-urn v1.4.0 // indirect
	github.com/mattn/go-colorable v0.1.13 // indirect
	github.com/mattn/go-isatty v0.0.20 // indirect
	github.com/mattn/go-runewidth v0.0.16 // indirect
	github.com/mitchellh/go-wordwrap v1.0.1 // indirect
	github.com/olekukonko/tablewriter v0.0.5 // indirect
	github.com/pelletier/go-toml/v2 v2.2.3 // indirect
	github.com/rivo/uniseg v0.4.7 // indirect
	github.com/ugorji/go/codec v1.2.12 // indirect
	golang.org/x/image v0.20.0 // indirect
	golang.org/x/net v0.29.0 // indirect
	golang.org/x/sys v0.25.0 // indirect
	google.golang.org/protobuf v1.34.2 // indirect
	gopkg.in/yaml.v3 v3.0.1 // indirect
)

replace Havoc => /repo/teamserver

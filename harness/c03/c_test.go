package c03

// C03(c): registration and identity.  A registration creates one session whose id is
// the sender's id and whose metadata, key and IV are the ones sent; an agent's id never
// changes afterwards and no two sessions share an id.
//
// Histories over the real Teamserver + sqlite + HTTP listener engine (agx.World),
// compared with a model map[id] -> (key, iv, metadata) after every step.

import (
	"bytes"
	"encoding/binary"
	"fmt"
	"sort"
	"strings"
	"testing"

	"pgregory.net/rapid"

	"Havoc/pkg/packager"

	"verifharness/internal/agx"
	"verifharness/internal/core"
	"verifharness/internal/demonref"
)

type MetaC struct {
	Host, User, Domain, IP, Path string
	PID, TID, PPID, Arch, Elev   uint32
	Base                         uint64
	OS                           [5]uint32
	OSArch, Sleep, Jitter        uint32
	Kill                         uint64
	Hours                        uint32
}

type OpC struct {
	Kind     string `json:"kind"` // reg rereg checkin cbcheckin reg0 truncreg smbreg
	Slot     int    `json:"slot"` // which id of the universe
	Other    int    `json:"other,omitempty"`
	Meta     MetaC  `json:"meta"`
	KeySeed  byte   `json:"key_seed"`
	ZeroKey  bool   `json:"zero_key,omitempty"`
	Cut      int    `json:"cut,omitempty"`    // truncreg: bytes kept of the declared layout (mod length)
	InnerOwn bool   `json:"inner_own,omitempty"` // cbcheckin: inner id == sender
	NewKey   bool   `json:"new_key,omitempty"`
	V6       bool   `json:"v6,omitempty"`
}

type CaseC struct {
	IDs []uint32 `json:"ids"` // universe of agent ids
	Ops []OpC    `json:"ops"`
}

func genMetaText(t *rapid.T, l string) string {
	s := rapid.OneOf(
		rapid.StringMatching(`[A-Za-z0-9\-_. ]{0,20}`),
		rapid.Just(""),
		bmpMeta,
		rapid.Just("O'Brien \"q\" 0123"),
	).Draw(t, l)
	return strings.Trim(s, "\x00")
}

func genMetaC(t *rapid.T, l string) MetaC {
	m := MetaC{
		Host: genMetaText(t, l+"host"), User: genMetaText(t, l+"user"), Domain: genMetaText(t, l+"dom"), IP: genMetaText(t, l+"ip"),
		Path: "C:\\" + genMetaText(t, l+"dir") + "\\" + rapid.StringMatching(`[a-z]{1,8}\.exe`).Draw(t, l+"exe"),
		PID:  genU32(t, l+"pid"), TID: genU32(t, l+"tid"), PPID: genU32(t, l+"ppid"),
		Arch: rapid.Uint32Range(0, 4).Draw(t, l+"arch"), Elev: rapid.Uint32Range(0, 2).Draw(t, l+"elev"),
		Base: genU64(t, l+"base"), OSArch: rapid.SampledFrom([]uint32{0, 9, 5, 12, 6, 77}).Draw(t, l+"osarch"),
		Sleep: genU32(t, l+"sleep"), Jitter: rapid.Uint32Range(0, 100).Draw(t, l+"jit"), Kill: genU64(t, l+"kill"), Hours: genU32(t, l+"hours"),
	}
	m.OS = [5]uint32{rapid.SampledFrom([]uint32{6, 10}).Draw(t, l+"maj"), rapid.Uint32Range(0, 3).Draw(t, l+"min"), rapid.Uint32Range(1, 3).Draw(t, l+"prod"), rapid.Uint32Range(0, 2).Draw(t, l+"sp"), rapid.SampledFrom([]uint32{7601, 17763, 19045, 20348, 22000}).Draw(t, l+"build")}
	return m
}

func genC(t *rapid.T) CaseC {
	var c CaseC
	n := rapid.IntRange(2, 4).Draw(t, "nids")
	seen := map[uint32]bool{}
	for len(c.IDs) < n {
		id := rapid.OneOf(rapid.SampledFrom([]uint32{1, 2, 0x7fffffff, 0x80000000, 0xfffffffe, 0xdeadbeef}), rapid.Uint32Range(1, 0xfffffffe)).Draw(t, "id")
		if !seen[id] {
			seen[id] = true
			c.IDs = append(c.IDs, id)
		}
	}
	k := rapid.IntRange(1, 14).Draw(t, "nops")
	for i := 0; i < k; i++ {
		l := fmt.Sprintf("op%d_", i)
		op := OpC{
			Kind: rapid.SampledFrom([]string{"reg", "reg", "reg", "rereg", "rereg", "checkin", "cbcheckin", "cbcheckin", "reg0", "truncreg", "smbreg", "smbreg-mismatch", "markdead", "exitcb", "markalive"}).Draw(t, l+"kind"),
			Slot: rapid.IntRange(0, n-1).Draw(t, l+"slot"), Other: rapid.IntRange(0, n-1).Draw(t, l+"other"),
			Meta: genMetaC(t, l), KeySeed: rapid.Byte().Draw(t, l+"ks"), ZeroKey: rapid.IntRange(0, 6).Draw(t, l+"zk") == 0,
			Cut: rapid.IntRange(0, 400).Draw(t, l+"cut"), InnerOwn: rapid.Bool().Draw(t, l+"own"), NewKey: rapid.IntRange(0, 3).Draw(t, l+"nk") == 0,
			V6: rapid.IntRange(0, 4).Draw(t, l+"v6") == 0,
		}
		c.Ops = append(c.Ops, op)
	}
	return c
}

func keyFrom(seed byte, zero bool) ([]byte, []byte) {
	k := make([]byte, 32)
	iv := make([]byte, 16)
	if zero {
		return k, iv
	}
	for i := range k {
		k[i] = seed + byte(i*7) | 1
	}
	for i := range iv {
		iv[i] = seed ^ byte(i*13)
	}
	return k, iv
}

func (m MetaC) ref(id uint32) demonref.MetaData {
	return demonref.MetaData{AgentID: id, Hostname: m.Host, Username: m.User, Domain: m.Domain, InternalIP: m.IP, ProcessPath: m.Path,
		PID: m.PID, TID: m.TID, PPID: m.PPID, ProcessArch: m.Arch, Elevated: m.Elev, BaseAddress: m.Base,
		OSMajor: m.OS[0], OSMinor: m.OS[1], OSProduct: m.OS[2], OSServicePck: m.OS[3], OSBuild: m.OS[4], OSArch: m.OSArch,
		Sleep: m.Sleep, Jitter: m.Jitter, KillDate: m.Kill, WorkingHours: m.Hours}
}

// replyOK: the reply is the id under the session key; for the all-zero "no encryption"
// key the teamserver answers in clear (packer.Build), which is that mode's contract.
func replyOK(resp, le, key, iv []byte) bool {
	if bytes.Equal(resp, demonref.XCrypt(le, key, iv)) {
		return true
	}
	zero := true
	for _, b := range key {
		if b != 0 {
			zero = false
		}
	}
	return zero && bytes.Equal(resp, le)
}

type modelC struct {
	key, iv []byte
	meta    MetaC
	ext     string
	haveExt bool
}

func checkC(c CaseC) *core.Violation {
	w, err := agx.NewWorld(nil)
	if err != nil {
		panic("infrastructure: " + err.Error())
	}
	defer w.Close()
	model := map[uint32]*modelC{}

	invariant := func(step int, kind string) *core.Violation {
		// ids in the table are exactly the model's, pairwise distinct
		var have []string
		count := map[string]int{}
		for _, a := range w.TS.Agents.Agents {
			if a == nil {
				return core.V("identity|nil-session|after-"+kind, "step %d: nil entry in the session table", step)
			}
			have = append(have, a.NameID)
			count[a.NameID]++
		}
		for n, k := range count {
			if k > 1 {
				return core.V("identity|duplicate-session-id|after-"+kind, "step %d (%s): %d sessions share id %s", step, kind, k, n)
			}
		}
		var want []string
		for id := range model {
			want = append(want, fmt.Sprintf("%08x", id))
		}
		sort.Strings(have)
		sort.Strings(want)
		if strings.Join(have, ",") != strings.Join(want, ",") {
			return core.V("identity|session-set|after-"+kind, "step %d (%s): session ids %v, registered ids %v", step, kind, have, want)
		}
		for id, m := range model {
			a := w.Agent(id)
			if a == nil {
				return core.V("identity|lookup|after-"+kind, "step %d: session %08x cannot be looked up by id", step, id)
			}
			if !bytes.Equal(a.Encryption.AESKey, m.key) || !bytes.Equal(a.Encryption.AESIv, m.iv) {
				return core.V("record|key-iv|after-"+kind, "step %d (%s): session %08x holds key/iv %x/%x, agent sent %x/%x", step, kind, id, a.Encryption.AESKey, a.Encryption.AESIv, m.key, m.iv)
			}
			i := a.Info
			mm := m.meta
			type pair struct {
				n        string
				got, exp interface{}
			}
			ps := []pair{
				{"Hostname", i.Hostname, mm.Host}, {"Username", i.Username, mm.User}, {"DomainName", i.DomainName, mm.Domain}, {"InternalIP", i.InternalIP, mm.IP},
				{"ProcessPath", i.ProcessPath, mm.Path}, {"ProcessPID", i.ProcessPID, int(mm.PID)}, {"ProcessTID", i.ProcessTID, int(mm.TID)}, {"ProcessPPID", i.ProcessPPID, int(mm.PPID)},
				{"BaseAddress", i.BaseAddress, int64(mm.Base)}, {"SleepDelay", i.SleepDelay, int(mm.Sleep)}, {"SleepJitter", i.SleepJitter, int(mm.Jitter)},
				{"KillDate", i.KillDate, int64(mm.Kill)}, {"WorkingHours", i.WorkingHours, int32(mm.Hours)},
			}
			if m.haveExt {
				ps = append(ps, pair{"ExternalIP", i.ExternalIP, m.ext})
			}
			for _, p := range ps {
				if p.got != p.exp {
					return core.V("record|metadata|"+p.n+"|after-"+kind, "step %d (%s): session %08x records %s = %v, agent sent %v", step, kind, id, p.n, p.got, p.exp)
				}
			}
		}
		return nil
	}

	for si, op := range c.Ops {
		id := c.IDs[op.Slot%len(c.IDs)]
		key, iv := keyFrom(op.KeySeed, op.ZeroKey)
		remote := "10.9.8.7:5555"
		ext := "10.9.8.7"
		switch op.Kind {
		case "reg":
			code, resp := w.PostFrom(op.Meta.ref(id).InitPackage(id, key, iv), remote)
			if m, ok := model[id]; ok {
				// a DEMON_INIT for an existing id is a reconnect: answered with the id under the EXISTING key, nothing changes
				le := make([]byte, 4)
				binary.LittleEndian.PutUint32(le, id)
				if code != 200 || !replyOK(resp, le, m.key, m.iv) {
					return core.V("reconnect|reply", "step %d: reconnect of %08x answered %d / %x", si, id, code, resp)
				}
			} else {
				le := make([]byte, 4)
				binary.LittleEndian.PutUint32(le, id)
				if code != 200 {
					return core.V("register|refused", "step %d: well-formed registration of %08x refused (%d)", si, id, code)
				}
				if !replyOK(resp, le, key, iv) {
					return core.V("register|reply", "step %d: registration reply %x is not the agent id %08x (little-endian) under the session key", si, resp, id)
				}
				model[id] = &modelC{key: key, iv: iv, meta: op.Meta, ext: ext, haveExt: true}
			}
		case "rereg":
			if len(model) == 0 {
				continue
			}
			// reconnect with different metadata/key: must not alter the session
			m := model[id]
			code, resp := w.PostFrom(op.Meta.ref(id).InitPackage(id, key, iv), remote)
			if m != nil {
				le := make([]byte, 4)
				binary.LittleEndian.PutUint32(le, id)
				if code != 200 || !replyOK(resp, le, m.key, m.iv) {
					return core.V("reconnect|reply", "step %d: reconnect of %08x answered %d / %x", si, id, code, resp)
				}
			} else if code == 200 {
				model[id] = &modelC{key: key, iv: iv, meta: op.Meta, ext: ext, haveExt: true}
			}
		case "checkin":
			if m := model[id]; m != nil {
				s := agx.Sess{ID: id, Key: m.key, IV: m.iv}
				code, tasks, _, ok := w.Checkin(s, nil)
				if code != 200 || !ok || len(tasks) == 0 {
					return core.V("checkin|reply", "step %d: check-in of %08x answered %d, %d tasks", si, id, code, len(tasks))
				}
			}
		case "cbcheckin":
			m := model[id]
			if m == nil {
				continue
			}
			s := agx.Sess{ID: id, Key: m.key, IV: m.iv}
			// the operator asks for a checkin (gives the request id), the agent picks it up, then answers
			req := uint32(0x1000 + si)
			w.Input("op", map[string]interface{}{"DemonID": s.NameID(), "CommandID": "100", "TaskID": fmt.Sprintf("%08x", req), "CommandLine": "checkin"})
			w.Checkin(s, nil)
			inner := id
			if !op.InnerOwn {
				inner = c.IDs[op.Other%len(c.IDs)]
				if inner == id {
					inner = id ^ 0x5a5a
				}
			}
			nk, niv := m.key, m.iv
			if op.NewKey {
				nk, niv = key, iv
			}
			body := op.Meta.ref(inner).InitBody(nk, niv, false) // Command.c:163 CommandCheckin -> DemonMetaData(&Package, FALSE)
			code, _, _, _ := w.Checkin(s, []demonref.Sub{{Cmd: demonref.CmdCheckin, ReqID: req, Body: body}})
			if code != 200 {
				return core.V("checkin-callback|status", "step %d: batch with a CHECKIN callback answered %d", si, code)
			}
			if inner == id {
				// metadata refresh by the agent itself
				m.meta = op.Meta
				m.key, m.iv = nk, niv
			}
			// a CHECKIN callback naming another id must not rename or re-key the session (identity never changes)
		case "markdead", "markalive":
			// operator marks the session dead / alive (dispatch.go Session/MarkAsDead); the session keeps its id:
			// a later DEMON_INIT for it is still a reconnect of that session, never a second session
			if model[id] == nil {
				continue
			}
			mark := "Dead"
			if op.Kind == "markalive" {
				mark = "Alive"
			}
			pk := packager.Package{}
			pk.Head.Event = packager.Type.Session.Type
			pk.Head.User = "op"
			pk.Body.SubEvent = packager.Type.Session.MarkAsDead
			pk.Body.Info = map[string]interface{}{"AgentID": fmt.Sprintf("%08x", id), "Marked": mark}
			w.TS.DispatchEvent(pk)
		case "exitcb":
			// the agent answers an exit task (Command.c CommandExit: one Int32) and is marked dead
			m := model[id]
			if m == nil {
				continue
			}
			s := agx.Sess{ID: id, Key: m.key, IV: m.iv}
			req := uint32(0x2000 + si)
			w.Input("op", map[string]interface{}{"DemonID": s.NameID(), "CommandID": "92", "TaskID": fmt.Sprintf("%08x", req), "CommandLine": "exit", "ExitMethod": "thread"})
			w.Checkin(s, nil)
			w.Checkin(s, []demonref.Sub{{Cmd: 92, ReqID: req, Body: (&demonref.Enc{}).Int32(1).B}})
		case "reg0":
			// header id 0, inner id X
			pk := op.Meta.ref(id).InitPackage(0, key, iv)
			code, _ := w.PostFrom(pk, remote)
			if code == 200 {
				if _, existed := model[id]; existed {
					// will be caught as duplicate by the invariant
				} else if w.AgentsWithID(id) > 0 {
					return core.V("register|id-mismatch-accepted|header=0", "step %d: a registration whose header names agent 0 but whose encrypted part names %08x created session %08x", si, id, id)
				} else if w.AgentsWithID(0) > 0 {
					return core.V("register|id-mismatch-accepted|header=0", "step %d: a registration with header id 0 and inner id %08x created a session", si, id)
				}
			}
		case "truncreg":
			if _, existed := model[id]; existed {
				continue
			}
			full := op.Meta.ref(id).InitPackage(id, key, iv)
			cut := 20 + op.Cut%(len(full)-20) // somewhere inside the declared layout, after the header
			trunc := append([]byte(nil), full[:cut]...)
			demonref.Finish(trunc)
			before := len(w.TS.Agents.Agents)
			code, _ := w.PostFrom(trunc, remote)
			if len(w.TS.Agents.Agents) != before || code == 200 {
				return core.V("register|truncated-accepted", "step %d: registration cut to %d of %d bytes answered %d and sessions went %d -> %d", si, cut, len(full), code, before, len(w.TS.Agents.Agents))
			}
		case "smbreg-mismatch":
			// a parent reports SMB_CONNECT with a child package whose header names an unknown agent
			// and whose encrypted part names ANOTHER id (an existing session's, or a fresh one):
			// the same id-mismatch a direct registration is refused for
			parent := c.IDs[op.Other%len(c.IDs)]
			pm := model[parent]
			if pm == nil || parent == id || model[id] != nil {
				continue
			}
			inner := c.IDs[(op.Other+1)%len(c.IDs)]
			if inner == id {
				inner = id ^ 0x00a5a5a5
			}
			ps := agx.Sess{ID: parent, Key: pm.key, IV: pm.iv}
			child := op.Meta.ref(inner).InitPackage(id, key, iv)
			body := (&demonref.Enc{}).Int32(demonref.PivotSmbCon).Int32(1).Bytes(child).B
			before, beforeInner := len(w.TS.Agents.Agents), w.AgentsWithID(inner)
			code, _, _, _ := w.Checkin(ps, []demonref.Sub{{Cmd: demonref.CmdPivot, ReqID: 0, Body: body}})
			if code != 200 {
				return core.V("smb-register|status", "step %d: batch with an SMB_CONNECT callback answered %d", si, code)
			}
			if len(w.TS.Agents.Agents) != before || w.AgentsWithID(id) != 0 || w.AgentsWithID(inner) != beforeInner {
				return core.V("smb-register|id-mismatch-accepted", "step %d: a child registration relayed by %08x whose header names %08x and whose encrypted part names %08x changed the session table (%d -> %d sessions, %d under the header id, %d -> %d under the inner id)", si, parent, id, inner, before, len(w.TS.Agents.Agents), w.AgentsWithID(id), beforeInner, w.AgentsWithID(inner))
			}
		case "smbreg":
			// registration of a new child through a parent's SMB_CONNECT callback
			parent := c.IDs[op.Other%len(c.IDs)]
			pm := model[parent]
			if pm == nil || parent == id || model[id] != nil {
				continue
			}
			ps := agx.Sess{ID: parent, Key: pm.key, IV: pm.iv}
			child := op.Meta.ref(id).InitPackage(id, key, iv)
			body := (&demonref.Enc{}).Int32(demonref.PivotSmbCon).Int32(1).Bytes(child).B // Command.c CommandPivot SMB_CONNECT: sub, success, child package
			code, _, _, _ := w.Checkin(ps, []demonref.Sub{{Cmd: demonref.CmdPivot, ReqID: 0, Body: body}})
			if code != 200 {
				return core.V("smb-register|status", "step %d: batch with an SMB_CONNECT callback answered %d", si, code)
			}
			if w.AgentsWithID(id) == 1 {
				model[id] = &modelC{key: key, iv: iv, meta: op.Meta, haveExt: false}
			} else {
				return core.V("smb-register|no-session", "step %d: well-formed child registration %08x through parent %08x created %d sessions", si, id, parent, w.AgentsWithID(id))
			}
		}
		if v := invariant(si, op.Kind); v != nil {
			return v
		}
	}
	return nil
}

func classifyC(c CaseC) core.Class {
	var cl core.Class
	ks := map[string]bool{}
	for _, op := range c.Ops {
		ks[op.Kind] = true
		cl.Labels = append(cl.Labels, "op:"+op.Kind)
	}
	cl.NonTrivial = ks["rereg"] || ks["cbcheckin"] || ks["reg0"] || ks["smbreg"] || ks["smbreg-mismatch"] || ks["markdead"] || ks["exitcb"]
	var names []string
	for k := range ks {
		names = append(names, k)
	}
	sort.Strings(names)
	cl.Fingerprint = strings.Join(names, "+") + fmt.Sprintf("|n=%d", len(c.Ops)/4)
	return cl
}

func TestC03c(t *testing.T) {
	core.Run(t, core.Spec[CaseC]{
		Property: "C03", Sub: "c",
		Rule: "histories of 1-14 operations over 2-4 agent ids (incl. >=2^31) on the real Teamserver + sqlite + HTTP listener engine: registration, DEMON_INIT for an existing id (alive, marked dead, exited), check-in, operator mark dead/alive, exit callback, COMMAND_CHECKIN callback naming the sender or another id (same or new key), registration with header id 0, truncated registration, a relayed child registration whose encrypted part names another id than its header, registration of a child through SMB_CONNECT; after every step the session table is compared with a model (ids exactly the registered ones and pairwise distinct, key/IV/metadata as sent, registration reply = id under the session key). Non-trivial: history with a re-registration, CHECKIN callback, header-0 registration or SMB registration; distinct = (set of op kinds, length bucket)",
		Gen:   genC, Check: checkC, Classify: classifyC,
	})
}

package c03

// C03(c): registration and identity.  A registration creates one session whose id is
// the sender's id and whose metadata, key and IV are the ones sent; an agent's id never
// changes afterwards and no two sessions share an id.
//
// Histories over the real Teamserver + sqlite + HTTP listener engine (agx.World),
// compared with a model map[id] -> (key, iv, metadata) after every step.
//
// A third of the histories have a second kind of session owner next to the Demons: a live
// service client (tpx, real service websocket) that registered third-party agent types and
// announces third-party sessions under ids of the same pool.  The model then maps an id to
// EITHER a Demon session OR a third-party session; whoever held the id first keeps it, with
// exactly what he reported.  An operator on a real websocket (tpx.Tap) receives the
// broadcasts: NewSession events must match the sessions created, one for one.

import (
	"bytes"
	"encoding/binary"
	"fmt"
	"net/http"
	"net/http/httptest"
	"sort"
	"strings"
	"sync"
	"testing"

	"pgregory.net/rapid"

	"Havoc/pkg/packager"

	"verifharness/internal/agx"
	"verifharness/internal/core"
	"verifharness/internal/demonref"
	"verifharness/internal/svcx"
	"verifharness/internal/tpx"
)

type MetaC struct {
	Host, User, Domain, IP, Path string
	PID, TID, PPID, Arch, Elev   uint32
	Base                         uint64
	OS                           [5]uint32
	OSArch, Sleep, Jitter        uint32
	Kill                         uint64
	Hours                        uint32
}

type OpC struct {
	Kind     string `json:"kind"` // reg rereg checkin cbcheckin reg0 truncreg smbreg
	Slot     int    `json:"slot"` // which id of the universe
	Other    int    `json:"other,omitempty"`
	Meta     MetaC  `json:"meta"`
	KeySeed  byte   `json:"key_seed"`
	ZeroKey  bool   `json:"zero_key,omitempty"`
	Cut      int    `json:"cut,omitempty"`    // truncreg: bytes kept of the declared layout (mod length)
	InnerOwn bool   `json:"inner_own,omitempty"` // cbcheckin: inner id == sender
	NewKey   bool   `json:"new_key,omitempty"`
	V6       bool   `json:"v6,omitempty"`
	TPType   int    `json:"tp_type,omitempty"` // tpreg tpreq: which registered third-party agent type (mod their number)
	Repr     *ReprC `json:"repr,omitempty"`    // tpreg tpreq: how the service script writes the AgentRegister message (nil: the plain way)
	XFF      string `json:"xff,omitempty"`     // reg rereg: value of the X-Forwarded-For header of the request ("" = no such header)
}

// SvcC: the teamserver has a Service block and a live service client (tpx) registered these
// third-party agent types (magic numbers, canonical spelling) before the history starts.
type SvcC struct {
	Types []uint32 `json:"types"`
}

type CaseC struct {
	IDs []uint32 `json:"ids"` // universe of agent ids
	Svc *SvcC    `json:"svc,omitempty"`
	Cfg CfgC     `json:"cfg"`
	Ops []OpC    `json:"ops"`
	// Fault: Ops[Fault.Step] runs while one dependency of the teamserver fails (c_fault_test.go); nil: none
	Fault *FaultC `json:"fault,omitempty"`
}

var tpMagics = []uint32{0xcafebabe, 0x0badf00d, 0x41414141, 0x12345678, 0x000000a1, 0xfffffffe}

var (
	kindsC    = []string{"reg", "reg", "reg", "rereg", "rereg", "checkin", "cbcheckin", "cbcheckin", "reg0", "truncreg", "smbreg", "smbreg-mismatch", "markdead", "exitcb", "markalive"}
	// with a service: the third-party operations, and more of the Demon operations that need TWO other parties (a Demon
	// parent / sender plus the id of a third-party session), which are thin otherwise
	kindsCSvc = append(append([]string{}, kindsC...), "tpreg", "tpreq", "tpreq", "smbreg", "smbreg", "smbreg-mismatch", "cbcheckin", "tpreg", "tpreg", "tpreq")
)

func genMetaText(t *rapid.T, l string) string {
	s := rapid.OneOf(
		rapid.StringMatching(`[A-Za-z0-9\-_. ]{0,20}`),
		rapid.Just(""),
		bmpMeta,
		rapid.Just("O'Brien \"q\" 0123"),
	).Draw(t, l)
	return strings.Trim(s, "\x00")
}

func genMetaC(t *rapid.T, l string) MetaC {
	m := MetaC{
		Host: genMetaText(t, l+"host"), User: genMetaText(t, l+"user"), Domain: genMetaText(t, l+"dom"), IP: genMetaText(t, l+"ip"),
		Path: "C:\\" + genMetaText(t, l+"dir") + "\\" + rapid.StringMatching(`[a-z]{1,8}\.exe`).Draw(t, l+"exe"),
		PID:  genU32(t, l+"pid"), TID: genU32(t, l+"tid"), PPID: genU32(t, l+"ppid"),
		Arch: rapid.Uint32Range(0, 4).Draw(t, l+"arch"), Elev: rapid.Uint32Range(0, 2).Draw(t, l+"elev"),
		Base: genU64(t, l+"base"), OSArch: rapid.SampledFrom([]uint32{0, 9, 5, 12, 6, 77}).Draw(t, l+"osarch"),
		Sleep: genU32(t, l+"sleep"), Jitter: rapid.Uint32Range(0, 100).Draw(t, l+"jit"), Kill: genU64(t, l+"kill"), Hours: genU32(t, l+"hours"),
	}
	m.OS = [5]uint32{rapid.SampledFrom([]uint32{6, 10}).Draw(t, l+"maj"), rapid.Uint32Range(0, 3).Draw(t, l+"min"), rapid.Uint32Range(1, 3).Draw(t, l+"prod"), rapid.Uint32Range(0, 2).Draw(t, l+"sp"), rapid.SampledFrom([]uint32{7601, 17763, 19045, 20348, 22000}).Draw(t, l+"build")}
	return m
}

func genC(t *rapid.T) CaseC {
	var c CaseC
	n := rapid.IntRange(2, 4).Draw(t, "nids")
	seen := map[uint32]bool{}
	for len(c.IDs) < n {
		id := rapid.OneOf(rapid.SampledFrom([]uint32{1, 2, 0x7fffffff, 0x80000000, 0xfffffffe, 0xdeadbeef, 0x0abc1234, 0x00c0ffee, 0x000000ab}), rapid.Uint32Range(1, 0xfffffffe)).Draw(t, "id")
		if !seen[id] {
			seen[id] = true
			c.IDs = append(c.IDs, id)
		}
	}
	// configuration / environment: default in about half of the histories
	c.Cfg.TrustXFF = rapid.IntRange(0, 3).Draw(t, "trustxff") == 0
	if rapid.IntRange(0, 2).Draw(t, "tzset") == 0 {
		c.Cfg.TZ = rapid.SampledFrom(tzNames).Draw(t, "tz")
	}
	// fault-injection dimension: a quarter of the histories; a fault during a third-party registration needs the service
	fc := genFaultClass(t)
	kinds := kindsC
	if rapid.IntRange(0, 4).Draw(t, "svc") < 2 || (fc != nil && fc.kind == "tpreg") {
		// a third to two fifths of the histories: Service block, live service client, 1-2 registered third-party agent types and
		// 0-2 third-party sessions announced by the service before the first Demon operation - under ids of the SAME pool
		kinds = kindsCSvc
		c.Svc = &SvcC{}
		nt := rapid.IntRange(1, 2).Draw(t, "ntypes")
		for len(c.Svc.Types) < nt {
			m := rapid.SampledFrom(tpMagics).Draw(t, "magic")
			if len(c.Svc.Types) == 0 || c.Svc.Types[0] != m {
				c.Svc.Types = append(c.Svc.Types, m)
			}
		}
		first := rapid.IntRange(0, n-1).Draw(t, "tpslot")
		for i, ns := 0, rapid.IntRange(0, 2).Draw(t, "ntpsessions"); i < ns; i++ {
			c.Ops = append(c.Ops, OpC{Kind: "tpreg", Slot: (first + i) % n, TPType: rapid.IntRange(0, nt-1).Draw(t, "tptype"), Meta: genMetaC(t, fmt.Sprintf("tp%d_", i)), Repr: genRepr(t, fmt.Sprintf("tp%d_", i), true)})
		}
	}
	pre := len(c.Ops) // the sessions announced before the history starts
	k := rapid.IntRange(1, 14).Draw(t, "nops")
	for i := 0; i < k; i++ {
		l := fmt.Sprintf("op%d_", i)
		c.Ops = append(c.Ops, genOpC(t, l, rapid.SampledFrom(kinds).Draw(t, l+"kind"), n, c.Svc))
	}
	if fc != nil {
		// fault-injection dimension (c_fault_test.go): one step of this history runs while one dependency fails
		placeFault(t, &c, fc, pre)
	}
	return c
}

// genOpC draws one operation of the given kind over n ids.
func genOpC(t *rapid.T, l, kind string, n int, svc *SvcC) OpC {
	op := OpC{
		Kind: kind,
		Slot: rapid.IntRange(0, n-1).Draw(t, l+"slot"), Other: rapid.IntRange(0, n-1).Draw(t, l+"other"),
		Meta: genMetaC(t, l), KeySeed: rapid.Byte().Draw(t, l+"ks"), ZeroKey: rapid.IntRange(0, 6).Draw(t, l+"zk") == 0,
		Cut: rapid.IntRange(0, 400).Draw(t, l+"cut"), InnerOwn: rapid.Bool().Draw(t, l+"own"), NewKey: rapid.IntRange(0, 3).Draw(t, l+"nk") == 0,
		V6: rapid.IntRange(0, 4).Draw(t, l+"v6") == 0,
	}
	if svc != nil {
		op.TPType = rapid.IntRange(0, len(svc.Types)-1).Draw(t, l+"tptype")
		if op.Kind == "tpreg" || op.Kind == "tpreq" {
			op.Repr = genRepr(t, l, false)
		}
	}
	if op.Kind == "reg" || op.Kind == "rereg" {
		op.XFF = rapid.SampledFrom(xffValues).Draw(t, l+"xff")
	}
	return op
}

func keyFrom(seed byte, zero bool) ([]byte, []byte) {
	k := make([]byte, 32)
	iv := make([]byte, 16)
	if zero {
		return k, iv
	}
	for i := range k {
		k[i] = seed + byte(i*7) | 1
	}
	for i := range iv {
		iv[i] = seed ^ byte(i*13)
	}
	return k, iv
}

func (m MetaC) ref(id uint32) demonref.MetaData {
	return demonref.MetaData{AgentID: id, Hostname: m.Host, Username: m.User, Domain: m.Domain, InternalIP: m.IP, ProcessPath: m.Path,
		PID: m.PID, TID: m.TID, PPID: m.PPID, ProcessArch: m.Arch, Elevated: m.Elev, BaseAddress: m.Base,
		OSMajor: m.OS[0], OSMinor: m.OS[1], OSProduct: m.OS[2], OSServicePck: m.OS[3], OSBuild: m.OS[4], OSArch: m.OSArch,
		Sleep: m.Sleep, Jitter: m.Jitter, KillDate: m.Kill, WorkingHours: m.Hours}
}

// replyOK: the reply is the id under the session key; for the all-zero "no encryption"
// key the teamserver answers in clear (packer.Build), which is that mode's contract.
func replyOK(resp, le, key, iv []byte) bool {
	if bytes.Equal(resp, demonref.XCrypt(le, key, iv)) {
		return true
	}
	zero := true
	for _, b := range key {
		if b != 0 {
			zero = false
		}
	}
	return zero && bytes.Equal(resp, le)
}

type modelC struct {
	key, iv []byte
	meta    MetaC
	ext     string
	haveExt bool
	tp      bool   // a third-party session: announced by the service (AgentRegister), no Demon key
	magic   uint32 // tp: the magic number of its agent type
	rec     tpRec  // tp: what the service reported
}

// tpTypes: the distinct third-party magic numbers of the case (never the Demon's).
func (c CaseC) tpTypes() []uint32 {
	var out []uint32
	if c.Svc == nil {
		return nil
	}
	for _, m := range c.Svc.Types {
		dup := m == demonref.Magic
		for _, o := range out {
			dup = dup || o == m
		}
		if !dup {
			out = append(out, m)
		}
	}
	return out
}

var (
	knownOnceC sync.Once
	knownSetC  map[string]bool
)

// knownOpenC: the open known findings of C03 (only used to keep process-killing inputs out while they are open).
func knownOpenC() map[string]bool {
	knownOnceC.Do(func() { knownSetC = svcx.KnownOpen("C03") })
	return knownSetC
}

func sessionIDs(w *agx.World) []string {
	var out []string
	for _, a := range w.TS.Agents.Agents {
		if a != nil {
			out = append(out, a.NameID)
		}
	}
	return out
}

func checkC(c CaseC) *core.Violation {
	var (
		w     *agx.World
		sc    *tpx.Client
		types = c.tpTypes()
	)
	if len(types) > 0 {
		// Service block + live service client that registered the third-party agent types
		tw, err := tpx.NewWorld()
		if err != nil {
			panic("infrastructure: " + err.Error())
		}
		defer tw.Close()
		w = tw.World
		if sc, err = tw.Connect(); err != nil {
			panic("infrastructure: service script: " + err.Error())
		}
		defer sc.Leave(true)
		for i, m := range types {
			sc.RegisterType(fmt.Sprintf("tp%d", i), m)
		}
		if err := sc.Barrier(); err != nil {
			panic("infrastructure: service script: " + err.Error())
		}
		if got := len(w.TS.Service.Agents); got != len(types) {
			panic(fmt.Sprintf("infrastructure: %d agent types registered, sent %d", got, len(types)))
		}
	} else {
		var err error
		if w, err = agx.NewWorld(nil); err != nil {
			panic("infrastructure: " + err.Error())
		}
		defer w.Close()
	}
	// configuration / environment of the history
	defer setLocal(c.Cfg.TZ)()
	w.H.Config.BehindRedir = c.Cfg.TrustXFF // what Demon { TrustXForwardedFor } becomes on a HTTP listener (teamserver.go:257, listener.go:243)
	post := func(body []byte, remote, xff string) (int, []byte) {
		req := httptest.NewRequest(http.MethodPost, "/", bytes.NewReader(body))
		req.RemoteAddr = remote
		if xff != "" {
			req.Header.Set("X-Forwarded-For", xff)
		}
		rr := httptest.NewRecorder()
		w.H.GinEngine.ServeHTTP(rr, req)
		return rr.Code, rr.Body.Bytes()
	}
	// one operator on a real websocket: NewSession events are broadcast, not retained
	tap, err := tpx.NewTap(w.TS)
	if err != nil {
		panic("infrastructure: operator tap: " + err.Error())
	}
	defer tap.Close()
	model := map[uint32]*modelC{}
	var told []string    // ids of the NewSession events the operator received so far
	var created []string // ids of the sessions created so far, in order: what operators must have been told (NewSession)

	invariant := func(step int, kind string) *core.Violation {
		// ids in the table are exactly the model's, pairwise distinct
		var have []string
		count := map[string]int{}
		for _, a := range w.TS.Agents.Agents {
			if a == nil {
				return core.V("identity|nil-session|after-"+kind, "step %d: nil entry in the session table", step)
			}
			have = append(have, a.NameID)
			count[a.NameID]++
		}
		for n, k := range count {
			if k > 1 {
				return core.V("identity|duplicate-session-id|after-"+kind, "step %d (%s): %d sessions share id %s", step, kind, k, n)
			}
		}
		var want []string
		for id := range model {
			want = append(want, fmt.Sprintf("%08x", id))
		}
		sort.Strings(have)
		sort.Strings(want)
		if strings.Join(have, ",") != strings.Join(want, ",") {
			return core.V("identity|session-set|after-"+kind, "step %d (%s): session ids %v, registered ids %v", step, kind, have, want)
		}
		for id, m := range model {
			a := w.Agent(id)
			if a == nil {
				return core.V("identity|lookup|after-"+kind, "step %d: session %08x cannot be looked up by id", step, id)
			}
			if m.tp {
				// a third-party session holds what its service reported; it has no Demon key, whoever sent a DEMON_INIT under its id
				if len(a.Encryption.AESKey) != 0 || len(a.Encryption.AESIv) != 0 {
					return core.V("record|key-iv|third-party-session|after-"+kind, "step %d (%s): third-party session %08x holds key/iv %x/%x, its service reported none", step, kind, id, a.Encryption.AESKey, a.Encryption.AESIv)
				}
				i, mm := a.Info, m.rec
				for _, p := range []struct {
					n        string
					got, exp interface{}
				}{{"MagicValue", i.MagicValue, int(m.magic)}, {"Hostname", i.Hostname, mm.Host}, {"Username", i.Username, mm.User}, {"DomainName", i.DomainName, mm.Domain}, {"InternalIP", i.InternalIP, mm.IP},
					{"ProcessPath", i.ProcessPath, mm.Path}, {"ProcessName", i.ProcessName, mm.Name}, {"ProcessPID", i.ProcessPID, mm.PID}, {"ProcessPPID", i.ProcessPPID, mm.PPID}, {"SleepDelay", i.SleepDelay, mm.Sleep}} {
					if p.got != p.exp {
						return core.V("record|metadata|third-party-session|"+p.n+"|after-"+kind, "step %d (%s): third-party session %08x records %s = %.200v, its service reported %.200v", step, kind, id, p.n, p.got, p.exp)
					}
				}
				continue
			}
			if !bytes.Equal(a.Encryption.AESKey, m.key) || !bytes.Equal(a.Encryption.AESIv, m.iv) {
				return core.V("record|key-iv|after-"+kind, "step %d (%s): session %08x holds key/iv %x/%x, agent sent %x/%x", step, kind, id, a.Encryption.AESKey, a.Encryption.AESIv, m.key, m.iv)
			}
			i := a.Info
			mm := m.meta
			type pair struct {
				n        string
				got, exp interface{}
			}
			ps := []pair{
				{"Hostname", i.Hostname, mm.Host}, {"Username", i.Username, mm.User}, {"DomainName", i.DomainName, mm.Domain}, {"InternalIP", i.InternalIP, mm.IP},
				{"ProcessPath", i.ProcessPath, mm.Path}, {"ProcessPID", i.ProcessPID, int(mm.PID)}, {"ProcessTID", i.ProcessTID, int(mm.TID)}, {"ProcessPPID", i.ProcessPPID, int(mm.PPID)},
				{"BaseAddress", i.BaseAddress, int64(mm.Base)}, {"SleepDelay", i.SleepDelay, int(mm.Sleep)}, {"SleepJitter", i.SleepJitter, int(mm.Jitter)},
				{"KillDate", i.KillDate, int64(mm.Kill)}, {"WorkingHours", i.WorkingHours, int32(mm.Hours)},
			}
			if m.haveExt {
				ps = append(ps, pair{"ExternalIP", i.ExternalIP, m.ext})
			}
			for _, p := range ps {
				if p.got != p.exp {
					return core.V("record|metadata|"+p.n+"|after-"+kind, "step %d (%s): session %08x records %s = %v, agent sent %v", step, kind, id, p.n, p.got, p.exp)
				}
			}
		}
		// operators are told about a new session exactly when one is created
		pks, err := tap.Sync()
		if err != nil {
			panic("infrastructure: operator tap: " + err.Error())
		}
		for _, ev := range pks {
			if ev.Head.Event == packager.Type.Session.Type && ev.Body.SubEvent == packager.Type.Session.NewSession {
				told = append(told, fmt.Sprint(ev.Body.Info["NameID"]))
			}
		}
		if strings.Join(told, ",") != strings.Join(created, ",") {
			return core.V("notify|new-session-events|after-"+kind, "step %d (%s): operators were told about new sessions %v, sessions were created for %v", step, kind, told, created)
		}
		return nil
	}
	add := func(id uint32, m *modelC) {
		model[id] = m
		created = append(created, fmt.Sprintf("%08x", id))
	}

	// fault-injection dimension: the step fs runs while one dependency fails; the fault is lifted before the state is
	// compared and before the next step.  The model is the same with and without the fault (HEAD: c_fault_test.go)
	fs := c.faultStep()
	lift := func() {}
	defer func() { lift() }()
	underFault := map[uint32]bool{} // sessions created by the step that ran under the fault

	for si, op := range c.Ops {
		lift()
		id := c.IDs[op.Slot%len(c.IDs)]
		key, iv := keyFrom(op.KeySeed, op.ZeroKey)
		if si == fs {
			lift = injectFault(w, c.Fault, id)
		}
		nCreated := len(created)
		remote := "10.9.8.7:5555"
		ext := "10.9.8.7"
		if c.Cfg.TrustXFF {
			ext = op.XFF // http.go request(): behind a redirector the external address is what X-Forwarded-For says ("" without the header)
		}
		switch op.Kind {
		case "reg":
			code, resp := post(op.Meta.ref(id).InitPackage(id, key, iv), remote, op.XFF)
			if m, ok := model[id]; ok && m.tp {
				// COLLISION: a Demon's DEMON_INIT under the id of a third-party session.  The id is taken: no second
				// session, no NewSession event, the third-party session keeps what its service reported (HEAD answers
				// as for any DEMON_INIT under a known id; the reply is not judged)
			} else if ok {
				// a DEMON_INIT for an existing id is a reconnect: answered with the id under the EXISTING key, nothing changes
				le := make([]byte, 4)
				binary.LittleEndian.PutUint32(le, id)
				if code != 200 || !replyOK(resp, le, m.key, m.iv) {
					return core.V("reconnect|reply", "step %d: reconnect of %08x answered %d / %x", si, id, code, resp)
				}
			} else {
				le := make([]byte, 4)
				binary.LittleEndian.PutUint32(le, id)
				if code != 200 {
					return core.V("register|refused", "step %d: well-formed registration of %08x refused (%d)", si, id, code)
				}
				if !replyOK(resp, le, key, iv) {
					return core.V("register|reply", "step %d: registration reply %x is not the agent id %08x (little-endian) under the session key", si, resp, id)
				}
				add(id, &modelC{key: key, iv: iv, meta: op.Meta, ext: ext, haveExt: true})
			}
		case "rereg":
			if len(model) == 0 {
				continue
			}
			// reconnect with different metadata/key: must not alter the session
			m := model[id]
			code, resp := post(op.Meta.ref(id).InitPackage(id, key, iv), remote, op.XFF)
			if m != nil && m.tp {
				// COLLISION, as in "reg": nothing may change
			} else if m != nil {
				le := make([]byte, 4)
				binary.LittleEndian.PutUint32(le, id)
				if code != 200 || !replyOK(resp, le, m.key, m.iv) {
					return core.V("reconnect|reply", "step %d: reconnect of %08x answered %d / %x", si, id, code, resp)
				}
			} else if code == 200 {
				add(id, &modelC{key: key, iv: iv, meta: op.Meta, ext: ext, haveExt: true})
			}
		case "checkin":
			if m := model[id]; m != nil && m.tp {
				// COLLISION: a Demon (with a key of its own) checks in under the id of a third-party session: nothing may change
				w.Checkin(agx.Sess{ID: id, Key: key, IV: iv}, nil)
			} else if m != nil {
				s := agx.Sess{ID: id, Key: m.key, IV: m.iv}
				code, tasks, _, ok := w.Checkin(s, nil)
				if code != 200 || !ok || len(tasks) == 0 {
					return core.V("checkin|reply", "step %d: check-in of %08x answered %d, %d tasks", si, id, code, len(tasks))
				}
			}
		case "cbcheckin":
			m := model[id]
			if m == nil {
				continue
			}
			if m.tp {
				// COLLISION: a Demon batch with a CHECKIN callback (own id, own key, own metadata) under the id of a
				// third-party session: the session keeps what its service reported and gets no key
				w.Checkin(agx.Sess{ID: id, Key: key, IV: iv}, []demonref.Sub{{Cmd: demonref.CmdCheckin, ReqID: uint32(0x1000 + si), Body: op.Meta.ref(id).InitBody(key, iv, false)}})
				break
			}
			s := agx.Sess{ID: id, Key: m.key, IV: m.iv}
			// the operator asks for a checkin (gives the request id), the agent picks it up, then answers
			req := uint32(0x1000 + si)
			w.Input("op", map[string]interface{}{"DemonID": s.NameID(), "CommandID": "100", "TaskID": fmt.Sprintf("%08x", req), "CommandLine": "checkin"})
			w.Checkin(s, nil)
			inner := id
			if !op.InnerOwn {
				inner = c.IDs[op.Other%len(c.IDs)]
				if inner == id {
					inner = id ^ 0x5a5a
				}
			}
			nk, niv := m.key, m.iv
			if op.NewKey {
				nk, niv = key, iv
			}
			body := op.Meta.ref(inner).InitBody(nk, niv, false) // Command.c:163 CommandCheckin -> DemonMetaData(&Package, FALSE)
			code, _, _, _ := w.Checkin(s, []demonref.Sub{{Cmd: demonref.CmdCheckin, ReqID: req, Body: body}})
			if code != 200 {
				return core.V("checkin-callback|status", "step %d: batch with a CHECKIN callback answered %d", si, code)
			}
			if inner == id {
				// metadata refresh by the agent itself
				m.meta = op.Meta
				m.key, m.iv = nk, niv
			}
			// a CHECKIN callback naming another id must not rename or re-key the session (identity never changes)
		case "markdead", "markalive":
			// operator marks the session dead / alive (dispatch.go Session/MarkAsDead); the session keeps its id:
			// a later DEMON_INIT for it is still a reconnect of that session, never a second session
			if model[id] == nil {
				continue
			}
			mark := "Dead"
			if op.Kind == "markalive" {
				mark = "Alive"
			}
			pk := packager.Package{}
			pk.Head.Event = packager.Type.Session.Type
			pk.Head.User = "op"
			pk.Body.SubEvent = packager.Type.Session.MarkAsDead
			pk.Body.Info = map[string]interface{}{"AgentID": fmt.Sprintf("%08x", id), "Marked": mark}
			w.TS.DispatchEvent(pk)
		case "exitcb":
			// the agent answers an exit task (Command.c CommandExit: one Int32) and is marked dead
			m := model[id]
			if m == nil {
				continue
			}
			if m.tp {
				// COLLISION: a Demon batch with an EXIT callback under the id of a third-party session
				w.Checkin(agx.Sess{ID: id, Key: key, IV: iv}, []demonref.Sub{{Cmd: 92, ReqID: uint32(0x2000 + si), Body: (&demonref.Enc{}).Int32(1).B}})
				break
			}
			s := agx.Sess{ID: id, Key: m.key, IV: m.iv}
			req := uint32(0x2000 + si)
			w.Input("op", map[string]interface{}{"DemonID": s.NameID(), "CommandID": "92", "TaskID": fmt.Sprintf("%08x", req), "CommandLine": "exit", "ExitMethod": "thread"})
			w.Checkin(s, nil)
			w.Checkin(s, []demonref.Sub{{Cmd: 92, ReqID: req, Body: (&demonref.Enc{}).Int32(1).B}})
		case "reg0":
			// header id 0, inner id X
			pk := op.Meta.ref(id).InitPackage(0, key, iv)
			code, _ := w.PostFrom(pk, remote)
			if code == 200 {
				if _, existed := model[id]; existed {
					// will be caught as duplicate by the invariant
				} else if w.AgentsWithID(id) > 0 {
					return core.V("register|id-mismatch-accepted|header=0", "step %d: a registration whose header names agent 0 but whose encrypted part names %08x created session %08x", si, id, id)
				} else if w.AgentsWithID(0) > 0 {
					return core.V("register|id-mismatch-accepted|header=0", "step %d: a registration with header id 0 and inner id %08x created a session", si, id)
				}
			}
		case "truncreg":
			if _, existed := model[id]; existed {
				continue
			}
			full := op.Meta.ref(id).InitPackage(id, key, iv)
			cut := 20 + op.Cut%(len(full)-20) // somewhere inside the declared layout, after the header
			trunc := append([]byte(nil), full[:cut]...)
			demonref.Finish(trunc)
			before := len(w.TS.Agents.Agents)
			code, _ := w.PostFrom(trunc, remote)
			if len(w.TS.Agents.Agents) != before || code == 200 {
				return core.V("register|truncated-accepted", "step %d: registration cut to %d of %d bytes answered %d and sessions went %d -> %d", si, cut, len(full), code, before, len(w.TS.Agents.Agents))
			}
		case "smbreg-mismatch":
			// a parent reports SMB_CONNECT with a child package whose header names an unknown agent
			// and whose encrypted part names ANOTHER id (an existing session's, or a fresh one):
			// the same id-mismatch a direct registration is refused for
			parent := c.IDs[op.Other%len(c.IDs)]
			pm := model[parent]
			if pm == nil || pm.tp || parent == id || model[id] != nil {
				continue
			}
			inner := c.IDs[(op.Other+1)%len(c.IDs)]
			if inner == id {
				inner = id ^ 0x00a5a5a5
			}
			ps := agx.Sess{ID: parent, Key: pm.key, IV: pm.iv}
			child := op.Meta.ref(inner).InitPackage(id, key, iv)
			body := (&demonref.Enc{}).Int32(demonref.PivotSmbCon).Int32(1).Bytes(child).B
			before, beforeInner := len(w.TS.Agents.Agents), w.AgentsWithID(inner)
			code, _, _, _ := w.Checkin(ps, []demonref.Sub{{Cmd: demonref.CmdPivot, ReqID: 0, Body: body}})
			if code != 200 {
				return core.V("smb-register|status", "step %d: batch with an SMB_CONNECT callback answered %d", si, code)
			}
			if len(w.TS.Agents.Agents) != before || w.AgentsWithID(id) != 0 || w.AgentsWithID(inner) != beforeInner {
				return core.V("smb-register|id-mismatch-accepted", "step %d: a child registration relayed by %08x whose header names %08x and whose encrypted part names %08x changed the session table (%d -> %d sessions, %d under the header id, %d -> %d under the inner id)", si, parent, id, inner, before, len(w.TS.Agents.Agents), w.AgentsWithID(id), beforeInner, w.AgentsWithID(inner))
			}
		case "smbreg":
			// registration of a new child through a parent's SMB_CONNECT callback
			parent := c.IDs[op.Other%len(c.IDs)]
			pm := model[parent]
			if pm == nil || pm.tp || parent == id || (model[id] != nil && !model[id].tp) {
				continue
			}
			// COLLISION when the child's id is the id of a third-party session: the relayed DEMON_INIT must not create a
			// second session under it (HEAD treats the package as the re-connect of the session it finds)
			tpChild := model[id] != nil
			ps := agx.Sess{ID: parent, Key: pm.key, IV: pm.iv}
			child := op.Meta.ref(id).InitPackage(id, key, iv)
			body := (&demonref.Enc{}).Int32(demonref.PivotSmbCon).Int32(1).Bytes(child).B // Command.c CommandPivot SMB_CONNECT: sub, success, child package
			code, _, _, _ := w.Checkin(ps, []demonref.Sub{{Cmd: demonref.CmdPivot, ReqID: 0, Body: body}})
			if code != 200 {
				return core.V("smb-register|status", "step %d: batch with an SMB_CONNECT callback answered %d", si, code)
			}
			if tpChild {
				// the id is taken: no session may be created for it (the invariant compares table, records and events)
			} else if w.AgentsWithID(id) == 1 {
				add(id, &modelC{key: key, iv: iv, meta: op.Meta, haveExt: false})
			} else {
				return core.V("smb-register|no-session", "step %d: well-formed child registration %08x through parent %08x created %d sessions", si, id, parent, w.AgentsWithID(id))
			}
		case "tpreg", "tpreq":
			// tpreg: the service announces a third-party session (AgentRegister over the service websocket) under an id of the pool.
			// Free id: the session exists afterwards and operators are told.  Id already held - by a Demon session (the
			// OTHER direction of the collision) or by a third-party session: no two sessions share an id, so nothing changes.
			// tpreq: a third-party agent's request arrives at the listener under an id of the pool (registered magic): it is
			// relayed to the service together with the session the teamserver holds under that id; the service script registers
			// the sender when there is none (the way havoc-py handlers do) and answers.  Under the id of a Demon session the
			// service is shown that session and only answers: nothing changes.
			// Either way the AgentRegister message is WRITTEN in the representation op.Repr says: id and magic spelled in any of
			// the ways a handler may spell a hexadecimal number, Size as string / number / missing, RegisterInfo complete,
			// with fields missing, with numbers, very long.  What the message means is HEAD's reading (ParseInt base 16): the
			// id it denotes - whatever the spelling - is the id that must be free; a header that denotes no id or no magic is
			// a registration that is refused and changes nothing.
			if sc == nil {
				continue
			}
			ty := types[((op.TPType%len(types))+len(types))%len(types)]
			hdr, idV, magicV, idP, magicP, crashField := tpHeader(ty, id, op.Repr)
			info, rec, crashInfo := tpInfoR(op.Meta, op.Repr)
			willRegister := op.Kind == "tpreg" || model[id] == nil
			if willRegister && (crashField != "" || crashInfo != "") {
				// a JSON number where HEAD asserts a string: the service connection's goroutine panics, which ends the
				// teamserver process.  While that finding is open the message is not sent (every shard would die on it)
				sig, field := "crash|Havoc/pkg/service.(*Service).dispatch", crashField
				if crashField == "" {
					sig, field = "crash|Havoc/pkg/agent.RegisterInfoToInstance", crashInfo
					if crashInfo == "OS Version" {
						sig = "crash|Havoc/pkg/agent.getWindowsVersionString"
					}
				}
				if knownOpenC()[sig] {
					return core.V(sig, "step %d (%s): AgentRegister whose %s has a JSON type / shape the teamserver does not expect (not sent: open finding)", si, op.Kind, field)
				}
			}
			before := len(w.TS.Agents.Agents)
			if op.Kind == "tpreg" {
				sc.SendAgentRegister(hdr, info)
			} else {
				sc.OnUnknownWith(info, func(sent map[string]any) map[string]any { return hdr })
				n0 := sc.Relayed()
				pl := []byte{op.KeySeed, 'r', 'e', 'q', byte(si), 0, 1, 2}
				pk := make([]byte, 12, 20)
				binary.BigEndian.PutUint32(pk[0:], uint32(8+len(pl)))
				binary.BigEndian.PutUint32(pk[4:], ty)
				binary.BigEndian.PutUint32(pk[8:], id)
				pk = append(pk, pl...)
				code, resp := w.PostFrom(pk, remote)
				if code != 200 || sc.Relayed() != n0+1 || string(resp) != tpx.Tag+string(pl) {
					return core.V("third-party|request|reply", "step %d: request of third-party agent %08x (registered magic %#x) answered %d / %q, relayed %d times; the service answered %q", si, id, ty, code, resp, sc.Relayed()-n0, tpx.Tag+string(pl))
				}
			}
			if err := sc.Barrier(); err != nil {
				panic("infrastructure: service script: " + err.Error())
			}
			if !willRegister {
				break
			}
			idN, idOK, _ := denotes(idV, idP)
			mN, mOK, _ := denotes(magicV, magicP)
			switch {
			case !idOK:
				if len(w.TS.Agents.Agents) != before {
					return core.V("register|third-party|header-names-no-id|accepted", "step %d (%s): an AgentRegister whose AgentID is %#v (present=%v) - no hexadecimal number by the teamserver's own reading - created a session (%d -> %d sessions; ids now %v)", si, op.Kind, idV, idP, before, len(w.TS.Agents.Agents), sessionIDs(w))
				}
			case !mOK:
				if len(w.TS.Agents.Agents) != before {
					return core.V("register|third-party|header-names-no-magic|accepted", "step %d (%s): an AgentRegister for %08x whose MagicValue is %#v (present=%v) - no hexadecimal number by the teamserver's own reading - created a session (%d -> %d sessions)", si, op.Kind, id, magicV, magicP, before, len(w.TS.Agents.Agents))
				}
			case idN != id || mN != ty:
				panic(fmt.Sprintf("harness: spelling %#v / %#v denotes %08x / %#x, meant %08x / %#x", idV, magicV, idN, mN, id, ty))
			case model[id] == nil:
				if (crashField != "" || crashInfo != "") && len(w.TS.Agents.Agents) == before {
					// a field of an unexpected JSON type / shape (and a teamserver that survives it): the message may be
					// refused as a whole - nothing changes - or taken with the values it carries
					break
				}
				add(id, &modelC{tp: true, magic: ty, rec: rec})
			}
		}
		lift()
		kind := op.Kind
		if si == fs {
			for _, n := range created[nCreated:] {
				var x uint32
				fmt.Sscanf(n, "%x", &x)
				underFault[x] = true
			}
			kind += "-under-fault(" + c.Fault.Dep + ")"
		}
		if v := invariant(si, kind); v != nil {
			return v
		}
	}
	lift()
	if fs >= 0 {
		// what the teamserver RECORDS, after a history with a fault: every session that registered while the database worked has
		// its one row, no id has two rows, no row is without a session (a refused registration changes nothing)
		rows := dbRowsC(w)
		for id, n := range rows {
			if n > 1 {
				return core.V("record|database|duplicate-row", "after the history: %d rows of TS_Agents share AgentID %08x", n, id)
			}
			if model[id] == nil {
				return core.V("record|database|row-without-session", "after the history: TS_Agents has a row for %08x, no session was registered under that id (sessions %v)", id, sessionIDs(w))
			}
		}
		for id := range model {
			if !underFault[id] && rows[id] != 1 {
				return core.V("record|database|session-without-row", "after the history (fault %s/%s/%s at step %d, lifted afterwards): session %08x, registered while the database worked, has %d rows in TS_Agents", c.Fault.Dep, c.Fault.Op, c.Fault.How, fs, id, rows[id])
			}
		}
	}
	return nil
}

// collisionsC replays the history on an abstract state (who holds which id: a Demon session or a
// third-party session, by the rules the check itself applies) and names the collisions between the
// two worlds the history contains.  Labels only; the verdicts come from checkC.
func collisionsC(c CaseC) []string {
	types := c.tpTypes()
	if len(types) == 0 || len(c.IDs) == 0 {
		return nil
	}
	var out []string
	holder := map[uint32]string{} // "demon" | "tp"
	for i, op := range c.Ops {
		id := c.IDs[op.Slot%len(c.IDs)]
		h := holder[id]
		switch op.Kind {
		case "reg", "rereg":
			if op.Kind == "rereg" && len(holder) == 0 {
				continue
			}
			if h == "tp" {
				out = append(out, "collide:DEMON_INIT-under-id-of-third-party-session")
			} else if h == "" {
				holder[id] = "demon"
			}
		case "checkin", "cbcheckin", "exitcb":
			if h == "tp" {
				out = append(out, "collide:demon-batch("+op.Kind+")-under-id-of-third-party-session")
			} else if h == "demon" && op.Kind == "cbcheckin" && !op.InnerOwn && holder[c.IDs[op.Other%len(c.IDs)]] == "tp" && c.IDs[op.Other%len(c.IDs)] != id {
				out = append(out, "collide:CHECKIN-callback-names-id-of-third-party-session")
			}
		case "reg0":
			if h == "tp" {
				out = append(out, "collide:header-0-registration-names-id-of-third-party-session")
			}
		case "smbreg", "smbreg-mismatch":
			parent := c.IDs[op.Other%len(c.IDs)]
			if holder[parent] != "demon" || parent == id || h == "demon" {
				continue
			}
			if op.Kind == "smbreg" {
				if h == "tp" {
					out = append(out, "collide:SMB_CONNECT-child-registration-under-id-of-third-party-session")
				} else {
					holder[id] = "demon"
				}
			} else if h == "" && holder[c.IDs[(op.Other+1)%len(c.IDs)]] == "tp" && c.IDs[(op.Other+1)%len(c.IDs)] != id {
				out = append(out, "collide:relayed-child-registration-names-id-of-third-party-session")
			}
		case "markdead", "markalive":
			if h == "tp" {
				out = append(out, "tp:session-"+op.Kind)
			}
		case "tpreg", "tpreq":
			// does the message, as written, register anything?
			_, idV, magicV, idP, magicP, crashField := tpHeader(1, id, op.Repr)
			_, _, crashInfo := tpInfoR(op.Meta, op.Repr)
			_, idOK, _ := denotes(idV, idP)
			_, mOK, _ := denotes(magicV, magicP)
			if op.Kind == "tpreg" || h == "" {
				out = append(out, op.Repr.labels(op.Kind)...)
				if crashField != "" || crashInfo != "" {
					out = append(out, "tp:register-with-number-for-string")
					continue
				}
				if !idOK || !mOK {
					out = append(out, "tp:register-refused(header-names-no-id-or-no-magic)")
					continue
				}
			}
			if op.Kind == "tpreq" {
				switch h {
				case "":
					holder[id] = "tp"
					out = append(out, "tp:request-of-unknown-agent-registers-it")
				case "demon":
					out = append(out, "collide:third-party-request-under-id-of-demon-session")
				case "tp":
					out = append(out, "tp:request-of-known-third-party-session")
				}
				continue
			}
			switch h {
			case "":
				holder[id] = "tp"
				if i < 2 {
					out = append(out, "tp:session-announced-before-any-demon")
				} else {
					out = append(out, "tp:session-announced(AgentRegister)")
				}
			case "demon":
				out = append(out, "collide:AgentRegister-under-id-of-demon-session")
			case "tp":
				out = append(out, "collide:AgentRegister-under-id-of-third-party-session")
			}
		}
	}
	return out
}

func classifyC(c CaseC) core.Class {
	var cl core.Class
	ks := map[string]bool{}
	for _, op := range c.Ops {
		ks[op.Kind] = true
		cl.Labels = append(cl.Labels, "op:"+op.Kind)
	}
	if c.Cfg.TrustXFF {
		cl.Labels = append(cl.Labels, "cfg:TrustXForwardedFor=on")
		for _, op := range c.Ops {
			if op.Kind == "reg" || op.Kind == "rereg" {
				x := op.XFF
				if x == "" {
					x = "header-absent"
				}
				cl.Labels = append(cl.Labels, "cfg:TrustXForwardedFor=on|registration-with-X-Forwarded-For="+x)
			}
		}
	} else {
		cl.Labels = append(cl.Labels, "cfg:TrustXForwardedFor=default")
	}
	if c.Cfg.TZ != "" {
		cl.Labels = append(cl.Labels, "env:time.Local="+c.Cfg.TZ)
	} else {
		cl.Labels = append(cl.Labels, "env:time.Local=default")
	}
	cl.Labels = append(cl.Labels, faultLabels(c)...)
	coll := map[string]bool{}
	if c.Svc != nil {
		cl.Labels = append(cl.Labels, fmt.Sprintf("svc:live-service-with-%d-types", len(c.tpTypes())))
		for _, l := range collisionsC(c) {
			cl.Labels = append(cl.Labels, l)
			if strings.HasPrefix(l, "collide:") {
				coll[l] = true
			}
		}
	} else {
		cl.Labels = append(cl.Labels, "svc:none")
	}
	cl.NonTrivial = ks["rereg"] || ks["cbcheckin"] || ks["reg0"] || ks["smbreg"] || ks["smbreg-mismatch"] || ks["markdead"] || ks["exitcb"] || len(coll) > 0
	var names []string
	for k := range ks {
		names = append(names, k)
	}
	sort.Strings(names)
	cl.Fingerprint = strings.Join(names, "+") + fmt.Sprintf("|n=%d", len(c.Ops)/4)
	if c.faultStep() >= 0 {
		cl.Fingerprint += "|fault=" + c.Fault.Dep
	}
	if c.Svc != nil {
		nc := len(coll)
		if nc > 2 {
			nc = 2
		}
		cl.Fingerprint += fmt.Sprintf("|svc|collisions=%d", nc)
	}
	return cl
}

func TestC03c(t *testing.T) {
	core.Run(t, core.Spec[CaseC]{
		Property: "C03", Sub: "c",
		Rule: "histories of 1-14 operations over 2-4 agent ids (incl. >=2^31) on the real Teamserver + sqlite + HTTP listener engine: registration, DEMON_INIT for an existing id (alive, marked dead, exited), check-in, operator mark dead/alive, exit callback, COMMAND_CHECKIN callback naming the sender or another id (same or new key), registration with header id 0, truncated registration, a relayed child registration whose encrypted part names another id than its header, registration of a child through SMB_CONNECT; after every step the session table is compared with a model (ids exactly the registered ones and pairwise distinct, key/IV/metadata as sent, registration reply = id under the session key). Non-trivial: history with a re-registration, CHECKIN callback, header-0 registration or SMB registration; distinct = (set of op kinds, length bucket). Added: every history has one operator on a real websocket and the ids of the NewSession events it received must be exactly the ids sessions were created for, in order (told exactly when a session is created). A third of the histories run in a teamserver with a Service block: a live service client on the real service websocket registered 1-2 third-party agent types (canonical magic strings) and announces 0-2 third-party sessions (AgentRegister) before the first Demon operation, under ids of the SAME 2-4 id pool; further operations: tpreg (the service announces a third-party session under a pool id - free, held by a Demon session, held by a third-party session) and tpreq (a third-party agent's request with the registered magic under a pool id through the listener: relayed once, answered with the service's bytes; the service script registers the sender when the teamserver shows it no session, as havoc-py handlers do). Collisions (labels collide:*): DEMON_INIT / re-registration, check-in, CHECKIN-callback batch and EXIT-callback batch of a Demon with its own key under the id of a third-party session, SMB_CONNECT child registration under such an id, CHECKIN callback / header-0 registration / relayed child registration naming such an id, operator mark dead/alive of a third-party session; AgentRegister and third-party requests under the id of a Demon session. Oracle for them (HEAD's handleDemonAgent / SMB_CONNECT / handleServiceAgent behaviour, which is what the property demands): an id that is held is never given a second session, no NewSession event without a new session, the third-party session keeps exactly what its service reported (magic, host, user, domain, ip, process path/name/pid/ppid, sleep) and never gets a Demon key/IV, Demon sessions keep theirs; a refused registration changes nothing (replies to Demon traffic under a third-party id are not judged). Non-trivial also: a history with a collision; distinct gets (service, #collision kinds capped at 2). Added (representation and configuration): every AgentRegister message of the service script - sent directly (tpreg) or for the unknown sender of a relayed request (tpreq) - is WRITTEN in a drawn representation: AgentID as %08x / %x without padding (pool has ids with leading zero nibbles: 1, 2, 0xab, 0xc0ffee, 0xabc1234) / upper case / upper case unpadded / mixed case / 4 extra leading zeros / leading '+' / 0x prefix / surrounding blanks / empty / key missing / JSON number; MagicValue as %x / %08x / upper / mixed / extra zeros / '+' / 0x / blanks / empty / missing / number; Size as decimal string / JSON number / missing / non-decimal string; RegisterInfo complete / any subset of its 14 fields missing / SleepDelay as JSON number / another field as JSON number / host, user and path up to ~90 KB / OS Version with two numbers. What a header denotes is HEAD's own reading, strconv.ParseInt(s, 16, 64) from the standard library: the NUMERIC id it denotes must be free or nothing changes (no two sessions per numeric id whatever the spelling), the session records the denoted magic and exactly the reported fields (missing = zero value); a header that denotes no id or no magic, or a message with a field of a JSON type / shape the teamserver does not read (and survives), registers nothing (for a number in place of a string in RegisterInfo / Size: either nothing, or the values carried). The sessions announced before the history starts use only representations that register. Configuration / environment per history: Demon{TrustXForwardedFor} on in a quarter (HTTPConfig.BehindRedir): registrations carry X-Forwarded-For absent / one address / a list / IPv6, and the recorded ExternalIP must be the header value (\"\" when absent) instead of the peer address; time.Local set to +05:30 / -08:00 / +12:00 / +14:00 / -03:30 in a third (restored after the case). Added (fault injection, labels fault:<dependency>:<operation>:<how>@<step kind>): in about a quarter of the histories ONE step runs while ONE dependency of the teamserver fails, then the fault is lifted and the history goes on (in half of them the same agent checks in right after the step). The step is put where it has its effect - a registration (reg / smbreg / tpreg) of a FREE id, a re-registration / check-in / CHECKIN callback / mark dead / exit callback of a HELD Demon session; a Demon registers first when the history offers none. Injected through the real dependency from outside: a second connection of the harness to the case's sqlite file installs a trigger BEFORE INSERT ON TS_Agents (during reg, smbreg, tpreg), BEFORE UPDATE ON TS_Agents (during rereg, check-in, CHECKIN callback, smbreg, mark dead, exit callback), BEFORE INSERT ON TS_Links (smbreg), BEFORE DELETE ON TS_Links (mark dead) that raises 'database or disk is full' and drops it afterwards, or - few cases, HEAD waits its 5 s busy timeout per statement - holds the write lock (BEGIN IMMEDIATE, rarely BEGIN EXCLUSIVE) across a registration; the folder of the console logs (loot/agents) or the session's folder in it is replaced by a regular file during a CHECKIN-callback batch, an exit-callback batch or an SMB_CONNECT. Oracle unchanged, model = HEAD (cmd/server/agent.go: the result of a database write is logged, the session table never depends on it): an acknowledged registration is exactly one session with the sender's id, key, IV and metadata, announced to operators once, also when its row could not be written, and its later check-ins are answered; a failed update / link write / log write changes nothing in the table. After a history with a fault the TS_Agents table is read through a connection of the harness: no AgentID has two rows, no row is without a session, every session that registered while the database worked has its row",
		Gen:   genC, Check: checkC, Classify: classifyC,
		Assumptions: []string{
			"while the findings crash|Havoc/pkg/service.(*Service).dispatch, crash|Havoc/pkg/agent.RegisterInfoToInstance and crash|Havoc/pkg/agent.getWindowsVersionString are open, a message of those classes is NOT sent (the panic is in a goroutine of the teamserver and would end the shard): the history ends there with the known signature; likewise a history ends at the first header that denotes no id / no magic while register|third-party|header-names-no-id|accepted / ...no-magic|accepted are open (HEAD registers it under id / magic 0). About a quarter of the service histories end early that way until the repair is in",
			"ids and magic values outside 32 bit and negative ones ('-1') are not generated",
			"the service stays connected for the whole history and answers every relayed request (disconnecting services are C01(d)'s subject)",
			"collide:* labels are computed on an abstract replay of the history (a history that ends early in a violation would have its later labels counted but not exercised)",
			"fault classes: the database fails per statement kind and table (trigger) or as a whole for writers (lock held by another connection); read failures alone, a full disk in the middle of a write, a read-only data folder and descriptor exhaustion are not generated. The lock classes occur about 20 times per quick run (each costs the teamserver's 5 s busy timeout) and about 1 in 2000 fault cases in the thorough tier",
			"fault:*@<kind> and fault:during-* labels are computed on the same abstract replay; whether a session's row must exist is only demanded for sessions created outside the step that ran under the fault",
		},
	})
}

package c03

// C03(a) reader level: every field written the way the Demon writes it
// (payloads/Demon/src/core/Package.c: PackageAddInt32/Int64/Bool/Bytes/String/WString)
// is read back unchanged whatever follows it, and CanIRead is true exactly when
// all declared fields are present.

import (
	"bytes"
	"encoding/binary"
	"fmt"
	"strings"
	"testing"
	"unicode/utf16"

	"Havoc/pkg/common/parser"

	"pgregory.net/rapid"

	"verifharness/internal/core"
)

type FieldA struct {
	Kind string `json:"kind"` // i32 i64 ptr bool bytes str wstr
	U    uint64 `json:"u,omitempty"`
	B    []byte `json:"b,omitempty"`
	S    string `json:"s,omitempty"`
}

type CaseA struct {
	LE       bool     `json:"le"`
	Fields   []FieldA `json:"fields"`
	Trailing []byte   `json:"trailing"`
}

var kindsA = []string{"i32", "i64", "ptr", "bool", "bytes", "str", "wstr"}

func genU32(t *rapid.T, l string) uint32 {
	return rapid.OneOf(rapid.SampledFrom([]uint32{0, 1, 0x7fffffff, 0x80000000, 0xffffffff, 0x100, 0x01020304}), rapid.Uint32()).Draw(t, l)
}
func genU64(t *rapid.T, l string) uint64 {
	return rapid.OneOf(rapid.SampledFrom([]uint64{0, 1, 0xffffffff, 0x100000000, 0x7fffffffffffffff, 0x8000000000000000, 0xffffffffffffffff, 0x0102030405060708}), rapid.Uint64()).Draw(t, l)
}

var runeGen = rapid.OneOf(
	rapid.RuneFrom(nil, rangeTable(0x20, 0x7e)),
	rapid.RuneFrom(nil, rangeTable(0xa0, 0xd7ff)),
	rapid.RuneFrom(nil, rangeTable(0xe000, 0xfffd)),
	rapid.RuneFrom(nil, rangeTable(0x10000, 0x10ffff)),
	rapid.Just(rune(0)),
)

// longText: a string whose UTF-16 length sits at a power-of-two-ish boundary, with an
// astral character (a surrogate pair) straddling or next to that boundary - block-wise
// decoders break exactly there.
func longText(t *rapid.T, l string) string {
	n := rapid.SampledFrom([]int{255, 256, 257, 511, 512, 1023, 1024, 1025, 2047, 2048, 2049, 4095, 4096, 4097, 8192, 16384, 32767, 32768, 65535, 65536, 65537, 131071, 131072}).Draw(t, l+"_n")
	pre := n + rapid.IntRange(-3, 2).Draw(t, l+"_off")
	if pre < 0 {
		pre = 0
	}
	fill := rapid.SampledFrom([]string{"a", "\u00e9", "\u4e16"}).Draw(t, l+"_fill")
	tail := rapid.IntRange(0, 40).Draw(t, l+"_tail")
	return strings.Repeat(fill, pre) + "\U0001F600" + strings.Repeat("z", tail)
}

func genText(t *rapid.T, l string) string {
	if rapid.IntRange(0, 11).Draw(t, l+"_long") == 0 {
		return longText(t, l)
	}
	rs := rapid.SliceOfN(runeGen, 0, 40).Draw(t, l)
	// code points that text layers like to treat specially, at the start / end of the string
	// (byte order marks in either byte order, replacement character, line separators, bidi
	// controls, the last BMP code points)
	if rapid.IntRange(0, 5).Draw(t, l+"_edge") == 0 {
		sp := rapid.SampledFrom([]rune{0xfeff, 0xfffe, 0xfffd, 0xffff, 0x2028, 0x2029, 0x202e, 0x200b, 0x85, 0x7f, 0x1b, '\r', '\n', '\t'}).Draw(t, l+"_sp")
		if rapid.Bool().Draw(t, l+"_spfirst") {
			rs = append([]rune{sp}, rs...)
		} else {
			rs = append(rs, sp)
		}
	}
	s := string(rs)
	// the two text readers strip leading/trailing NULs by contract (terminator removal);
	// interior NULs are kept.
	return strings.Trim(s, "\x00")
}

func genA(t *rapid.T) CaseA {
	var c CaseA
	c.LE = rapid.Bool().Draw(t, "le")
	n := rapid.IntRange(1, 8).Draw(t, "nfields")
	for i := 0; i < n; i++ {
		k := rapid.SampledFrom(kindsA).Draw(t, "kind")
		f := FieldA{Kind: k}
		switch k {
		case "i32":
			f.U = uint64(genU32(t, "v"))
		case "i64", "ptr":
			f.U = genU64(t, "v")
		case "bool":
			f.U = uint64(rapid.SampledFrom([]uint32{0, 1, 1, 2, 0xffffffff, 0x100}).Draw(t, "v"))
		case "bytes":
			f.B = rapid.SliceOfN(rapid.Byte(), 0, 300).Draw(t, "b")
		case "str":
			f.S = genText(t, "s")
		case "wstr":
			f.S = genText(t, "s")
			// one time in six the field carries a dangling odd byte after its last complete
			// code unit (no stock Demon sends that; the reader must not be confused by it)
			if rapid.IntRange(0, 5).Draw(t, "odd") == 0 {
				f.B = []byte{rapid.Byte().Draw(t, "oddbyte")}
			}
		}
		c.Fields = append(c.Fields, f)
	}
	r := rapid.IntRange(0, 9).Draw(t, "ntrailing")
	c.Trailing = rapid.SliceOfN(rapid.Byte(), r, r).Draw(t, "trailing")
	return c
}

func utf16le(s string) []byte {
	u := utf16.Encode([]rune(s))
	out := make([]byte, 2*len(u))
	for i, x := range u {
		out[2*i] = byte(x)
		out[2*i+1] = byte(x >> 8)
	}
	return out
}

func encodeA(c CaseA) ([]byte, []int) {
	var bo binary.ByteOrder = binary.BigEndian
	if c.LE {
		bo = binary.LittleEndian
	}
	var buf bytes.Buffer
	var ends []int
	p32 := func(v uint32) { var b [4]byte; bo.PutUint32(b[:], v); buf.Write(b[:]) }
	p64 := func(v uint64) { var b [8]byte; bo.PutUint64(b[:], v); buf.Write(b[:]) }
	for _, f := range c.Fields {
		switch f.Kind {
		case "i32", "bool":
			p32(uint32(f.U))
		case "i64", "ptr":
			p64(f.U)
		case "bytes":
			p32(uint32(len(f.B)))
			buf.Write(f.B)
		case "str":
			p32(uint32(len(f.S)))
			buf.WriteString(f.S)
		case "wstr":
			w := append(utf16le(f.S), f.B...)
			p32(uint32(len(w)))
			buf.Write(w)
		}
		ends = append(ends, buf.Len())
	}
	buf.Write(c.Trailing)
	return buf.Bytes(), ends
}

func readTypes(c CaseA) []parser.ReadType {
	var rt []parser.ReadType
	for _, f := range c.Fields {
		switch f.Kind {
		case "i32":
			rt = append(rt, parser.ReadInt32)
		case "bool":
			rt = append(rt, parser.ReadBool)
		case "i64":
			rt = append(rt, parser.ReadInt64)
		case "ptr":
			rt = append(rt, parser.ReadPointer)
		default:
			rt = append(rt, parser.ReadBytes)
		}
	}
	return rt
}

func resid(n int) string {
	switch {
	case n == 0:
		return "0"
	case n < 4:
		return "1-3"
	case n < 8:
		return "4-7"
	}
	return "8+"
}

func checkA(c CaseA) *core.Violation {
	buf, ends := encodeA(c)
	declared := ends[len(ends)-1]
	rt := readTypes(c)
	mk := func(b []byte) *parser.Parser {
		p := parser.NewParser(append([]byte(nil), b...))
		p.SetBigEndian(!c.LE)
		return p
	}
	if !mk(buf).CanIRead(rt) {
		return core.V("reader|CanIRead|false-on-complete", "CanIRead false although all %d declared bytes (+%d trailing) are present", declared, len(c.Trailing))
	}
	view := func(b []byte) *parser.Parser { // CanIRead does not modify the buffer: no copy needed
		p := parser.NewParser(b)
		p.SetBigEndian(!c.LE)
		return p
	}
	for cut := 0; cut < declared; cut++ {
		if declared > 700 {
			// long buffers: every cut within 12 bytes of a field boundary, and every 97th otherwise
			near := cut < 12
			for _, e := range ends {
				if cut >= e-12 && cut <= e+12 {
					near = true
				}
			}
			if !near && cut%97 != 0 {
				continue
			}
		}
		if view(buf[:cut]).CanIRead(rt) {
			return core.V("reader|CanIRead|true-on-truncated", "CanIRead true on a %d-byte prefix of %d declared bytes", cut, declared)
		}
	}
	p := mk(buf)
	for i, f := range c.Fields {
		after := len(buf) - ends[i] // bytes following this field
		switch f.Kind {
		case "i32":
			got := uint32(p.ParseInt32())
			if got != uint32(f.U) {
				return core.V("reader|ParseInt32|wrong-value|following="+resid(after), "field %d: ParseInt32 = %#x, sent %#x, %d bytes follow", i, got, uint32(f.U), after)
			}
		case "bool":
			got := p.ParseBool()
			if got != (uint32(f.U) != 0) {
				return core.V("reader|ParseBool|wrong-value|following="+resid(after), "field %d: ParseBool = %v, sent %#x, %d bytes follow", i, got, uint32(f.U), after)
			}
		case "i64":
			got := uint64(p.ParseInt64())
			if got != f.U {
				return core.V("reader|ParseInt64|wrong-value|following="+resid(after), "field %d: ParseInt64 = %#x, sent %#x, %d bytes follow", i, got, f.U, after)
			}
		case "ptr":
			got := uint64(p.ParsePointer())
			if got != f.U {
				return core.V("reader|ParsePointer|wrong-value|following="+resid(after), "field %d: ParsePointer = %#x, sent %#x, %d bytes follow", i, got, f.U, after)
			}
		case "bytes":
			got := p.ParseBytes()
			if !bytes.Equal(got, f.B) {
				return core.V("reader|ParseBytes|wrong-value|following="+resid(after), "field %d: ParseBytes = %x, sent %x", i, got, f.B)
			}
		case "str":
			got := p.ParseString()
			if got != f.S {
				return core.V("reader|ParseString|wrong-value|following="+resid(after), "field %d: ParseString = %.80q, sent %.80q", i, got, f.S)
			}
		case "wstr":
			got := p.ParseUTF16String()
			if len(f.B) == 1 {
				// a dangling byte is not a code unit: ignoring it, a replacement character or the
				// zero-extended byte are all defensible; anything else (in particular text that
				// depends on what was decoded before) is not what was sent
				rest, ok := strings.CutPrefix(got, f.S)
				if !ok || !(rest == "" || rest == "\ufffd" || rest == string(rune(f.B[0]))) {
					return core.V("reader|ParseUTF16String|wrong-value|dangling-odd-byte", "field %d: %d complete code units + one dangling byte %#x read as %.60q, the complete units spell %.60q (tail %q)", i, len(utf16le(f.S))/2, f.B[0], got, f.S, tailOf(got))
				}
			} else if got != f.S {
				sig := "reader|ParseUTF16String|wrong-value"
				if hasAstral(f.S) {
					sig += "|surrogate-pair"
				}
				return core.V(sig, "field %d: ParseUTF16String = %.60q (%d bytes), sent %.60q (%d bytes); tails %q vs %q", i, got, len(got), f.S, len(f.S), tailOf(got), tailOf(f.S))
			}
		}
		if want := len(buf) - ends[i]; p.Length() != want {
			return core.V("reader|Length|after-"+f.Kind, "after field %d (%s) Length() = %d, want %d", i, f.Kind, p.Length(), want)
		}
	}
	if p.Length() != len(c.Trailing) {
		return core.V("reader|Length|final", "Length() = %d after all fields, %d trailing bytes were sent", p.Length(), len(c.Trailing))
	}
	return nil
}

func hasAstral(s string) bool {
	for _, r := range s {
		if r >= 0x10000 {
			return true
		}
	}
	return false
}

func classifyA(c CaseA) core.Class {
	var cl core.Class
	r := len(c.Trailing)
	kinds := ""
	astral, empty := false, false
	for _, f := range c.Fields {
		kinds += f.Kind[:1]
		if f.Kind == "wstr" && hasAstral(f.S) {
			astral = true
		}
		if (f.Kind == "str" || f.Kind == "wstr") && f.S == "" || f.Kind == "bytes" && len(f.B) == 0 {
			empty = true
		}
		cl.Labels = append(cl.Labels, "kind:"+f.Kind)
		if f.Kind == "wstr" && len(f.B) == 1 {
			cl.Labels = append(cl.Labels, "wstr-with-dangling-odd-byte")
		}
	}
	cl.Labels = append(cl.Labels, fmt.Sprintf("trailing:%d", r))
	for _, f := range c.Fields {
		if len(f.S) > 200 {
			cl.Labels = append(cl.Labels, "long-text")
			break
		}
	}
	if astral {
		cl.Labels = append(cl.Labels, "astral")
	}
	if empty {
		cl.Labels = append(cl.Labels, "empty-string")
	}
	cl.NonTrivial = (r >= 1 && r <= 7) || astral || empty
	last := c.Fields[len(c.Fields)-1].Kind
	cl.Fingerprint = fmt.Sprintf("le=%v|last=%s|r=%d|astral=%v|empty=%v|n=%d", c.LE, last, r, astral, empty, len(c.Fields))
	return cl
}

func TestC03a(t *testing.T) {
	core.Run(t, core.Spec[CaseA]{
		Property: "C03", Sub: "a",
		Rule: "1-8 typed fields (i32,i64,ptr,bool,bytes,str,wstr; boundary and random values; Unicode incl. astral, interior NULs; one wide string in six carries a dangling odd byte, which may be ignored, replaced or zero-extended but must not change the text) encoded as Package.c does (big-endian) or little-endian, followed by 0-9 trailing bytes; oracle: every Parse* returns the sent value, Length() is exact, CanIRead true on the whole buffer and false on every proper prefix of the declared fields. Non-trivial: 1-7 trailing bytes, or a surrogate pair, or an empty string; distinct = (endianness, last field kind, trailing count, astral, empty, #fields)",
		Gen:   genA, Check: checkA, Classify: classifyA,
		Assumptions: []string{"text readers strip leading/trailing NULs by contract, so generated text has none at its ends"},
	})
}

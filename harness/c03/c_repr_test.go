package c03

// C03(c), value-representation and configuration dimensions.
//
// Everything the service script writes into an AgentRegister message (directly, or when it
// registers the unknown sender of a relayed request) has a REPRESENTATION class: the agent id
// and the magic value are hexadecimal STRINGS that a handler may spell in many ways, Size may
// be a string or a number, RegisterInfo fields may be missing, numbers or very long.  What a
// spelling denotes is HEAD's rule (service.go: strconv.ParseInt(s, 16, 64)), taken from the
// standard library itself; a spelling it does not accept is a registration that names no id.

import (
	"fmt"
	"strconv"
	"strings"
	"time"

	"pgregory.net/rapid"
)

type ReprC struct {
	ID    string `json:"id,omitempty"`    // AgentHeader.AgentID: "" (canonical %08x) nopad upper upper-nopad mixed longzeros plus 0x blanks empty missing number
	Magic string `json:"magic,omitempty"` // AgentHeader.MagicValue: "" (as the teamserver writes it, %x) padded upper mixed longzeros plus 0x blanks empty missing number
	Size  string `json:"size,omitempty"`  // AgentHeader.Size: "" (decimal string) number missing nondecimal
	Info  string `json:"info,omitempty"`  // RegisterInfo: "" (all fields, strings) missing numeric-sleep numeric long os-version-short
	Drop  int    `json:"drop,omitempty"`  // info=missing: bit i set = infoKeys[i] is left out; info=numeric: which field is the number
}

// CfgC: configuration / environment of the history.
type CfgC struct {
	TrustXFF bool   `json:"trust_xff,omitempty"` // Demon { TrustXForwardedFor = true }: the listener records X-Forwarded-For as the external address
	TZ       string `json:"tz,omitempty"`        // time.Local of the teamserver process: "" (as is) or a fixed offset
}

var (
	// spellings HEAD's ParseInt(…, 16, 64) reads as the number / forms HEAD takes ...
	idSpellingsOK    = []string{"nopad", "upper", "upper-nopad", "mixed", "longzeros", "plus"}
	magicSpellingsOK = []string{"padded", "upper", "mixed", "longzeros", "plus"}
	sizeFormsOK      = []string{"missing", "nondecimal"}
	infoFormsOK      = []string{"missing", "numeric-sleep", "long"}
	// ... and the ones that denote no number / have a JSON type or shape HEAD does not expect
	idSpellingsBad    = []string{"0x", "blanks", "missing", "number"}
	magicSpellingsBad = []string{"0x", "blanks", "missing", "number"}
	sizeFormsBad      = []string{"number"}
	infoFormsBad      = []string{"numeric", "os-version-short"}
	xffValues      = []string{"", "203.0.113.7", "203.0.113.7, 10.0.0.1", "2001:db8::1", "198.51.100.2"}
	tzOffsets      = map[string]int{"+05:30": 5*3600 + 1800, "-08:00": -8 * 3600, "+12:00": 12 * 3600, "+14:00": 14 * 3600, "-03:30": -(3*3600 + 1800)}
	tzNames        = []string{"+05:30", "-08:00", "+12:00", "+14:00", "-03:30"}
	infoKeys       = []string{"Hostname", "Username", "Domain", "InternalIP", "Process Path", "Process Name", "Process Arch", "Process ID", "Process Parent ID", "Process Elevated", "OS Version", "OS Build", "OS Arch", "SleepDelay"}
)

// genRepr: about half of the messages are written the plain way; the others draw each
// dimension independently.  safe=true (the sessions announced before the history starts:
// they are the STATE the history runs in) draws only representations that register.
func genRepr(t *rapid.T, l string, safe bool) *ReprC {
	if p := rapid.IntRange(0, 11).Draw(t, l+"plain"); p < 3 || (safe && p < 6) {
		return nil // over all messages about half are plain
	}
	pick := func(what string, num, den int, ok, bad []string) string {
		if rapid.IntRange(1, den).Draw(t, l+what) > num {
			return ""
		}
		if !safe && rapid.Bool().Draw(t, l+what+"bad") {
			return rapid.SampledFrom(bad).Draw(t, l+what+"class")
		}
		return rapid.SampledFrom(ok).Draw(t, l+what+"class")
	}
	r := &ReprC{}
	r.ID = pick("id", 3, 4, idSpellingsOK, idSpellingsBad)
	r.Magic = pick("magic", 2, 3, magicSpellingsOK, magicSpellingsBad)
	r.Size = pick("size", 1, 4, sizeFormsOK, sizeFormsBad)
	r.Info = pick("info", 1, 2, infoFormsOK, infoFormsBad)
	if r.Info != "" {
		r.Drop = rapid.IntRange(1, 1<<len(infoKeys)-1).Draw(t, l+"drop")
	}
	return r
}

func mixedCase(s string) string {
	b := []byte(s)
	up := true
	for i, c := range b {
		if c >= 'a' && c <= 'f' {
			if up {
				b[i] = c - 32
			}
			up = !up
		}
	}
	return string(b)
}

// spellHex writes n the way class says; plain is the class "" stands for ("%08x" for ids,
// "%x" for magic values - the forms the teamserver itself uses in a relayed request).
// present=false: the key is left out of the header.
func spellHex(n uint32, class, plain string) (v any, present bool) {
	switch class {
	case "":
		return fmt.Sprintf(plain, n), true
	case "nopad":
		return fmt.Sprintf("%x", n), true
	case "padded":
		return fmt.Sprintf("%08x", n), true
	case "upper":
		return fmt.Sprintf("%08X", n), true
	case "upper-nopad":
		return fmt.Sprintf("%X", n), true
	case "mixed":
		return mixedCase(fmt.Sprintf("%08x", n)), true
	case "longzeros":
		return "0000" + fmt.Sprintf("%08x", n), true
	case "plus":
		return "+" + fmt.Sprintf("%x", n), true
	case "0x":
		return fmt.Sprintf("0x%x", n), true
	case "blanks":
		return " " + fmt.Sprintf("%08x", n) + " ", true
	case "empty":
		return "", true
	case "missing":
		return nil, false
	case "number":
		return float64(n), true
	}
	return fmt.Sprintf(plain, n), true
}

// denotes: the number a header value stands for under HEAD's rule, ok=false if it stands for
// none (not a string HEAD's ParseInt(…, 16, 64) accepts, or outside the 32-bit id space).
// crash=true: not a string at all (HEAD asserts the type).
func denotes(v any, present bool) (n uint32, ok bool, crash bool) {
	if !present {
		return 0, false, false // service.go reads a missing key as ""
	}
	s, isStr := v.(string)
	if !isStr {
		return 0, false, true
	}
	x, err := strconv.ParseInt(s, 16, 64)
	if err != nil || x < 0 || x > 0xffffffff {
		return 0, false, false
	}
	return uint32(x), true, false
}

// tpRec is what a third-party session must record: what its service reported.
type tpRec struct {
	Host, User, Domain, IP, Path, Name string
	PID, PPID, Sleep                   int
}

// tpHeader builds the AgentHeader of an AgentRegister message.
func tpHeader(magic, id uint32, r *ReprC) (hdr map[string]any, idV, magicV any, idP, magicP bool, crashField string) {
	if r == nil {
		r = &ReprC{}
	}
	hdr = map[string]any{}
	switch r.Size {
	case "":
		hdr["Size"] = "64"
	case "number":
		hdr["Size"] = float64(64)
		crashField = "Size"
	case "nondecimal":
		hdr["Size"] = "0x40"
	}
	if magicV, magicP = spellHex(magic, r.Magic, "%x"); magicP {
		hdr["MagicValue"] = magicV
	}
	if idV, idP = spellHex(id, r.ID, "%08x"); idP {
		hdr["AgentID"] = idV
	}
	if r.Magic == "number" {
		crashField = "MagicValue"
	}
	if r.ID == "number" {
		crashField = "AgentID"
	}
	return
}

// tpInfoR is the RegisterInfo a service reports for a third-party agent with metadata m in
// form r (the keys agent.RegisterInfoToInstance reads; numbers travel as decimal strings),
// what the session must record for it (HEAD: a missing field is the zero value), and the
// field - if any - that is a JSON number where HEAD asserts a string.
func tpInfoR(m MetaC, r *ReprC) (map[string]any, tpRec, string) {
	if r == nil {
		r = &ReprC{}
	}
	exe := m.Path[strings.LastIndex(m.Path, "\\")+1:]
	rec := tpRec{Host: m.Host, User: m.User, Domain: m.Domain, IP: m.IP, Path: m.Path, Name: exe, PID: int(m.PID), PPID: int(m.PPID), Sleep: int(m.Sleep)}
	if r.Info == "long" {
		// very long values (a handler that reports a whole command line / FQDN list)
		rec.Host = strings.Repeat(m.Host+"-h", 1+(r.Drop%4000))
		rec.User = strings.Repeat(m.User+"u", 1+(r.Drop%700))
		rec.Path = m.Path[:len(m.Path)-len(exe)] + strings.Repeat("d\\", 1+(r.Drop%9000)) + exe
	}
	info := map[string]any{"Hostname": rec.Host, "Username": rec.User, "Domain": rec.Domain, "InternalIP": rec.IP,
		"Process Path": rec.Path, "Process Name": rec.Name, "Process Arch": "x64",
		"Process ID": strconv.Itoa(rec.PID), "Process Parent ID": strconv.Itoa(rec.PPID), "Process Elevated": strconv.FormatUint(uint64(m.Elev&1), 10),
		"OS Version": fmt.Sprintf("%d.%d.%d.%d.%d", m.OS[0], m.OS[1], m.OS[2], m.OS[3], m.OS[4]), "OS Build": strconv.FormatUint(uint64(m.OS[4]), 10), "OS Arch": "x64",
		"SleepDelay": strconv.Itoa(rec.Sleep)}
	crash := ""
	switch r.Info {
	case "missing":
		for i, k := range infoKeys {
			if r.Drop&(1<<i) == 0 {
				continue
			}
			delete(info, k)
			switch k {
			case "Hostname":
				rec.Host = ""
			case "Username":
				rec.User = ""
			case "Domain":
				rec.Domain = ""
			case "InternalIP":
				rec.IP = ""
			case "Process Path":
				rec.Path = ""
			case "Process Name":
				rec.Name = ""
			case "Process ID":
				rec.PID = 0
			case "Process Parent ID":
				rec.PPID = 0
			case "SleepDelay":
				rec.Sleep = 0
			}
		}
	case "numeric-sleep":
		info["SleepDelay"] = float64(m.Sleep) // agent.go RegisterInfoToInstance takes a JSON number here
	case "os-version-short":
		// "major.minor" instead of the five numbers of a Windows version (a handler for another OS)
		info["OS Version"], crash = fmt.Sprintf("%d.%d", m.OS[0], m.OS[1]), "OS Version"
	case "numeric":
		if r.Drop%2 == 0 {
			info["Process ID"], crash = float64(m.PID), "Process ID"
		} else {
			info["Hostname"], crash = float64(7), "Hostname"
			rec.Host = "7" // if the message is taken at all, the number is what was reported
		}
	}
	return info, rec, crash
}

func (r *ReprC) labels(kind string) []string {
	if r == nil {
		return []string{"repr:" + kind + "=all-plain"}
	}
	var out []string
	for _, p := range [][2]string{{"id", r.ID}, {"magic", r.Magic}, {"size", r.Size}, {"info", r.Info}} {
		if p[1] != "" {
			out = append(out, "repr:"+p[0]+"="+p[1])
		}
	}
	if len(out) == 0 {
		out = append(out, "repr:"+kind+"=all-plain")
	}
	return out
}

// setLocal puts the process into the case's time zone; the returned func restores it.
func setLocal(tz string) func() {
	off, ok := tzOffsets[tz]
	if !ok {
		return func() {}
	}
	old := time.Local
	time.Local = time.FixedZone(tz, off)
	return func() { time.Local = old }
}

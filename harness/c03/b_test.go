package c03

// C03(b): console fidelity.  The values an agent reports reach the operator console
// unaltered: for each callback kind with labelled output, field values are generated,
// encoded as the Demon encodes them, sent through the real listener engine for an
// outstanding request id, and the console event operators receive must contain each
// value next to its label.

import (
	"encoding/base64"
	"encoding/json"
	"fmt"
	"strings"
	"testing"

	"Havoc/pkg/agent"
	"Havoc/pkg/packager"

	"pgregory.net/rapid"

	"verifharness/internal/agx"
	"verifharness/internal/core"
	"verifharness/internal/demonref"
)

type CaseB struct {
	AgentID uint32   `json:"agent_id"`
	Kind    string   `json:"kind"`
	S       []string `json:"s,omitempty"`
	N       []uint32 `json:"n,omitempty"`
	Q       []uint64 `json:"q,omitempty"`
	Rows    int      `json:"rows,omitempty"`
	IVEdge  int      `json:"iv_edge,omitempty"` // class of demonref.IVEdgeNames: the session's counter block is about to carry
	Big     int      `json:"big,omitempty"`     // > 0: an output callback of this many bytes precedes the callback in the same batch
}

// bigOutput is the text of the large output callback: position dependent, printable.
func bigOutput(n int) string {
	b := make([]byte, n)
	for i := range b {
		b[i] = byte('a' + (i+i>>7+i>>15)%26)
	}
	return string(b)
}

var kindsB = []string{
	"sleep", "fs.cd", "fs.pwd", "fs.mkdir", "fs.remove", "fs.copy", "fs.move", "fs.cat", "fs.upload", "fs.download-open",
	"proc.create", "proc.kill", "proc.modules", "proc.grep", "proclist", "output", "beacon.output", "beacon.oem", "beacon.error",
	"token.steal", "token.getuid", "token.make", "token.impersonate", "token.privsget", "token.list", "config.spawn64", "config.alloc",
	"net.domain", "net.logons", "net.users", "net.localgroup", "info.memalloc", "info.memexec", "pivot.list", "krb.luid", "dotnet.versions",
	"inline.symbol", "error.win32", "job.list", "rportfwd.add", "ppid",
}

// rune generators are built once: rapid expands a range table into a slice of all its runes
// (megabytes for the astral planes), which must not happen per draw
var (
	bmpShort    = rapid.StringOfN(rapid.RuneFrom(nil, rangeTable(0xa1, 0xd7ff)), 1, 6, -1)
	astralShort = rapid.StringOfN(rapid.RuneFrom(nil, rangeTable(0x10000, 0x1ffff)), 1, 4, -1)
	bmpMeta     = rapid.StringOfN(rapid.RuneFrom(nil, rangeTable(0xa1, 0xd7ff)), 1, 10, -1)
)

func genTextB(t *rapid.T, l string) string {
	// unique-ish marker plus a tail from an adversarial class; no NULs at the ends (terminator stripping is the readers' contract)
	tail := rapid.OneOf(
		rapid.StringMatching(`[A-Za-z0-9_.\-]{0,12}`),
		bmpShort,
		astralShort,
		rapid.Just("with space"),
		rapid.Just("C:\\dir\\sub"),
	).Draw(t, l)
	// one string in ten starts with a code point that text layers like to treat specially
	// (byte order marks in either byte order, zero-width space): it is part of what was sent
	pre := ""
	if rapid.IntRange(0, 9).Draw(t, l+"_edge") == 0 {
		pre = string(rapid.SampledFrom([]rune{0xfeff, 0xfffe, 0x200b, 0xfffd}).Draw(t, l+"_sp"))
	}
	return pre + "M" + rapid.StringMatching(`[a-z]{3}`).Draw(t, l+"m") + tail + "Z"
}

func genB(t *rapid.T) CaseB {
	c := CaseB{AgentID: rapid.Uint32Range(1, 0xfffffffe).Draw(t, "agent"), Kind: rapid.SampledFrom(kindsB).Draw(t, "kind")}
	for i := 0; i < 8; i++ {
		c.S = append(c.S, genTextB(t, fmt.Sprintf("s%d", i)))
	}
	for i := 0; i < 8; i++ {
		c.N = append(c.N, rapid.OneOf(rapid.SampledFrom([]uint32{0, 1, 7, 0x7fffffff}), rapid.Uint32Range(0, 0x7fffffff)).Draw(t, fmt.Sprintf("n%d", i)))
	}
	for i := 0; i < 3; i++ {
		c.Q = append(c.Q, rapid.Uint64Range(1, 0x7fffffffffffffff).Draw(t, fmt.Sprintf("q%d", i)))
	}
	c.Rows = rapid.IntRange(1, 3).Draw(t, "rows")
	// one session in four has an IV whose counter block is about to carry; one batch in twenty-five
	// carries more than a MiB before the callback (block-wise or segmented decryption shows only there)
	if rapid.IntRange(0, 3).Draw(t, "ivedge?") == 0 {
		c.IVEdge = rapid.IntRange(1, len(demonref.IVEdgeNames)-1).Draw(t, "ivedge")
	}
	if rapid.IntRange(0, 24).Draw(t, "big?") == 0 {
		c.Big = rapid.SampledFrom([]int{1<<20 - 40, 1 << 20, 1<<20 + 33, 2<<20 + 77, 3<<20 + 5}).Draw(t, "big")
	}
	return c
}

// build returns (command id, callback body as the Demon writes it, substrings the console text must contain)
func buildB(c CaseB) (uint32, []byte, []string) {
	e := &demonref.Enc{}
	S, N, Q := c.S, c.N, c.Q
	d := func(v uint32) string { return fmt.Sprintf("%d", v) }
	switch c.Kind {
	case "sleep":
		e.Int32(N[0]).Int32(N[1])
		return agent.COMMAND_SLEEP, e.B, []string{"Set sleep interval to " + d(N[0]) + " seconds with " + d(N[1]) + "% jitter"}
	case "fs.cd":
		e.Int32(4).WString(S[0])
		return agent.COMMAND_FS, e.B, []string{"Changed directory: " + S[0]}
	case "fs.pwd":
		e.Int32(9).WString(S[0])
		return agent.COMMAND_FS, e.B, []string{"Current directory: " + S[0]}
	case "fs.mkdir":
		e.Int32(6).WString(S[0])
		return agent.COMMAND_FS, e.B, []string{"Created directory: " + S[0]}
	case "fs.remove":
		e.Int32(5).Int32(N[0] % 2).WString(S[0])
		if N[0]%2 == 1 {
			return agent.COMMAND_FS, e.B, []string{"Removed directory: " + S[0]}
		}
		return agent.COMMAND_FS, e.B, []string{"Removed file: " + S[0]}
	case "fs.copy":
		e.Int32(7).Int32(1).WString(S[0]).WString(S[1])
		return agent.COMMAND_FS, e.B, []string{"copied file " + S[0] + " to " + S[1]}
	case "fs.move":
		e.Int32(8).Int32(1).WString(S[0]).WString(S[1])
		return agent.COMMAND_FS, e.B, []string{"moved file " + S[0] + " to " + S[1]}
	case "fs.cat":
		e.Int32(10).WString(S[0]).Int32(1).String(S[1])
		return agent.COMMAND_FS, e.B, []string{"File content of " + S[0], "\x01OUTPUT=" + S[1]}
	case "fs.upload":
		e.Int32(3).Int32(N[0]).WString(S[0])
		return agent.COMMAND_FS, e.B, []string{"Uploaded file: " + S[0] + " (" + d(N[0]) + ")"}
	case "fs.download-open":
		name := "Mdl" + strings.Map(func(r rune) rune {
			if r == '\\' || r == '/' || r == ':' {
				return '_'
			}
			return r
		}, S[0])
		e.Int32(2).Int32(0).Int32(N[0]).Int64(uint64(N[1])).WString(name)
		return agent.COMMAND_FS, e.B, []string{"Started download of file: " + name}
	case "proc.create":
		e.Int32(4).WString(S[0]).Int32(N[0]).Int32(1).Int32(0).Int32(1)
		return agent.COMMAND_PROC, e.B, []string{"Process started: Path:[" + S[0] + "] ProcessID:[" + d(N[0]) + "]"}
	case "proc.kill":
		e.Int32(7).Int32(1).Int32(N[0])
		return agent.COMMAND_PROC, e.B, []string{"Successful killed process: " + d(N[0])}
	case "proc.modules":
		e.Int32(2).Int32(N[0])
		want := []string{"from process " + d(N[0])}
		for i := 0; i < c.Rows; i++ {
			name := strings.ReplaceAll(S[i], " ", "")
			e.String(S[i]).Ptr(Q[i])
			want = append(want, name, fmt.Sprintf("0x%x", Q[i]))
		}
		return agent.COMMAND_PROC, e.B, want
	case "proc.grep":
		e.Int32(3)
		var want []string
		for i := 0; i < c.Rows; i++ {
			e.WString(S[2*i]).Int32(N[2*i]).Int32(N[2*i+1]).WString(S[2*i+1]).Int32(64)
			want = append(want, "Process Name : "+S[2*i], "Process ID   : "+d(N[2*i]), "Parent PID   : "+d(N[2*i+1]), "Process User : "+S[2*i+1])
		}
		return agent.COMMAND_PROC, e.B, want
	case "proclist":
		e.Int32(0)
		var want []string
		for i := 0; i < c.Rows; i++ {
			e.WString(S[2*i]).Int32(N[i]).Int32(0).Int32(N[i+3]).Int32(1).Int32(9).WString(S[2*i+1])
			want = append(want, S[2*i], d(N[i]), d(N[i+3]), S[2*i+1])
		}
		return agent.COMMAND_PROC_LIST, e.B, want
	case "output":
		e.String(S[0])
		return agent.COMMAND_OUTPUT, e.B, []string{"\x01OUTPUT=" + S[0]}
	case "beacon.output":
		e.Int32(agent.CALLBACK_OUTPUT).String(S[0])
		return agent.BEACON_OUTPUT, e.B, []string{"\x01OUTPUT=" + S[0]}
	case "beacon.oem":
		e.Int32(agent.CALLBACK_OUTPUT_OEM).WString(S[0])
		return agent.BEACON_OUTPUT, e.B, []string{"\x01OUTPUT=" + S[0]}
	case "beacon.error":
		e.Int32(agent.CALLBACK_ERROR).String(S[0])
		return agent.BEACON_OUTPUT, e.B, []string{"\x01OUTPUT=" + S[0]}
	case "token.steal":
		e.Int32(2).WString(S[0]).Int32(N[0]).Int32(N[1])
		return agent.COMMAND_TOKEN, e.B, []string{"token from " + d(N[1]) + " User:[" + S[0] + "] TokenID:[" + d(N[0]) + "]"}
	case "token.getuid":
		e.Int32(6).Int32(0).WString(S[0])
		return agent.COMMAND_TOKEN, e.B, []string{"Token User: " + S[0]}
	case "token.make":
		e.Int32(5).WString(S[0])
		return agent.COMMAND_TOKEN, e.B, []string{"impersonated token: " + S[0]}
	case "token.impersonate":
		e.Int32(1).Int32(1).String(S[0])
		return agent.COMMAND_TOKEN, e.B, []string{"Successful impersonated " + S[0]}
	case "token.privsget":
		e.Int32(4).Int32(0).Int32(1).String(S[0])
		return agent.COMMAND_TOKEN, e.B, []string{"The privilege " + S[0] + " was successfully enabled"}
	case "token.list":
		e.Int32(3)
		var want []string
		for i := 0; i < c.Rows; i++ {
			e.Int32(N[i]).Int32(N[i+3]).WString(S[i]).Int32(N[i+4]).Int32(1).Int32(0)
			want = append(want, d(N[i]), fmt.Sprintf("0x%x", N[i+3]), S[i], d(N[i+4]))
		}
		return agent.COMMAND_TOKEN, e.B, want
	case "config.spawn64":
		e.Int32(agent.CONFIG_INJECT_SPAWN64).WString(S[0])
		return agent.COMMAND_CONFIG, e.B, []string{"Default x64 target process set to " + S[0]}
	case "config.alloc":
		e.Int32(agent.CONFIG_MEMORY_ALLOC).Int32(N[0])
		return agent.COMMAND_CONFIG, e.B, []string{"Default memory allocation set to " + d(N[0])}
	case "net.domain":
		e.Int32(1).String(S[0])
		return agent.COMMAND_NET, e.B, []string{"Domain for this Host: " + S[0]}
	case "net.logons":
		e.Int32(2).WString(S[0])
		want := []string{"Logged on users at " + S[0]}
		for i := 0; i < c.Rows; i++ {
			e.WString(S[1+i])
			want = append(want, S[1+i])
		}
		return agent.COMMAND_NET, e.B, want
	case "net.users":
		e.Int32(9).WString(S[0])
		want := []string{"Users on " + S[0]}
		for i := 0; i < c.Rows; i++ {
			e.WString(S[1+i]).Int32(0)
			want = append(want, " - "+S[1+i])
		}
		return agent.COMMAND_NET, e.B, want
	case "net.localgroup":
		e.Int32(7).WString(S[0])
		want := []string{"Local Groups for " + S[0]}
		for i := 0; i < c.Rows; i++ {
			e.WString(S[1+2*i]).WString(S[2+2*i])
			want = append(want, S[1+2*i], S[2+2*i])
		}
		return agent.COMMAND_NET, e.B, want
	case "info.memalloc":
		e.Int32(agent.DEMON_INFO_MEM_ALLOC).Ptr(Q[0]).Int32(N[0]).Int32(0x40)
		return agent.DEMON_INFO, e.B, []string{fmt.Sprintf("Pointer:[0x%x] Size:[%d]", Q[0], N[0])}
	case "info.memexec":
		e.Int32(agent.DEMON_INFO_MEM_EXEC).Ptr(Q[0]).Int32(N[0])
		return agent.DEMON_INFO, e.B, []string{fmt.Sprintf("Function:[0x%x] ThreadId:[%d]", Q[0], N[0])}
	case "pivot.list":
		e.Int32(1)
		var want []string
		for i := 0; i < c.Rows; i++ {
			e.Int32(N[i]).WString(S[i])
			want = append(want, fmt.Sprintf("%x", N[i]), S[i])
		}
		return agent.COMMAND_PIVOT, e.B, want
	case "krb.luid":
		e.Int32(0).Int32(1).Int32(N[0]).Int32(N[1])
		return agent.COMMAND_KERBEROS, e.B, []string{fmt.Sprintf("Current LogonId: %x:0x%x", N[0], N[1])}
	case "dotnet.versions":
		var want []string
		for i := 0; i < c.Rows; i++ {
			e.WString(S[i])
			want = append(want, "   - "+S[i])
		}
		return agent.COMMAND_ASSEMBLY_LIST_VERSIONS, e.B, want
	case "inline.symbol":
		e.Int32(agent.COMMAND_INLINEEXECUTE_SYMBOL_NOT_FOUND).String(S[0])
		return agent.COMMAND_INLINEEXECUTE, e.B, []string{"Symbol not found: " + S[0]}
	case "error.win32":
		e.Int32(agent.ERROR_WIN32_LASTERROR).Int32(N[0])
		return agent.COMMAND_ERROR, e.B, []string{"[" + d(N[0]) + "]"}
	case "job.list":
		e.Int32(1)
		var want []string
		for i := 0; i < c.Rows; i++ {
			e.Int32(N[i]).Int32(1).Int32(1)
			want = append(want, " "+d(N[i]))
		}
		return agent.COMMAND_JOB, e.B, want
	case "rportfwd.add":
		// Socket.c: addresses are in_addr words (first octet in the lowest byte); PackageAddInt32 writes the word big-endian
		ip := func(v uint32) string { return fmt.Sprintf("%d.%d.%d.%d", v&0xff, v>>8&0xff, v>>16&0xff, v>>24&0xff) }
		e.Int32(0).Int32(1).Int32(N[0]).Int32(N[1]).Int32(N[2] % 65536).Int32(N[3]).Int32(N[4] % 65536)
		return agent.COMMAND_SOCKET, e.B, []string{fmt.Sprintf("Started reverse port forward on %s:%d to %s:%d [Id: %x]", ip(N[1]), N[2]%65536, ip(N[3]), N[4]%65536, N[0])}
	case "ppid":
		e.Int32(N[0])
		return agent.COMMAND_PROC_PPIDSPOOF, e.B, []string{"Changed parent pid to spoof: " + d(N[0])}
	}
	panic("unknown kind " + c.Kind)
}

func checkB(c CaseB) *core.Violation {
	w, err := agx.NewWorld(nil)
	if err != nil {
		panic("infrastructure: " + err.Error())
	}
	defer w.Close()
	key, iv := keyFrom(byte(c.AgentID), false)
	iv = demonref.ApplyIVEdge(iv, c.IVEdge, byte(c.AgentID))
	s := agx.Sess{ID: c.AgentID, Key: key, IV: iv, Meta: agx.DefaultMeta(c.AgentID)}
	if code, _ := w.Register(s); code != 200 {
		return core.V("setup|register-refused", "registration refused: %d", code)
	}
	cmd, body, wants := buildB(c)
	a := w.Agent(c.AgentID)
	const req = 0x00c0ffee
	a.AddJobToQueue(agent.Job{Command: cmd, RequestID: req, Data: []interface{}{}})
	w.Checkin(s, nil) // hand the task out
	from := len(w.TS.EventsList)
	subs := []demonref.Sub{{Cmd: cmd, ReqID: req, Body: body}}
	if c.Big > 0 {
		const breq = 0x00b16b16
		a.AddRequest(agent.Job{RequestID: breq, Command: agent.COMMAND_OUTPUT})
		big := bigOutput(c.Big)
		subs = append([]demonref.Sub{{Cmd: agent.COMMAND_OUTPUT, ReqID: breq, Body: (&demonref.Enc{}).String(big).B}}, subs...)
		wants = append(wants, "\x01OUTPUT="+big)
	}
	code, _, _, _ := w.Checkin(s, subs)
	if code != 200 {
		return core.V("callback|status|"+c.Kind, "batch with a %s callback answered %d", c.Kind, code)
	}
	// what operators receive: Session/Output events for this agent
	var texts []string
	var outputs []string
	for _, ev := range w.EventsSince(from) {
		if ev.Head.Event != packager.Type.Session.Type || ev.Body.SubEvent != packager.Type.Session.Output {
			continue
		}
		if id, _ := ev.Body.Info["DemonID"].(string); id != s.NameID() {
			return core.V("console|wrong-session|"+c.Kind, "console event attributed to session %v, callback came from %s", ev.Body.Info["DemonID"], s.NameID())
		}
		raw, _ := base64.StdEncoding.DecodeString(fmt.Sprint(ev.Body.Info["Output"]))
		var m map[string]string
		if json.Unmarshal(raw, &m) != nil {
			continue
		}
		if strings.HasPrefix(m["Message"], "Send Task to Agent") {
			continue
		}
		texts = append(texts, m["Message"]+"\n"+m["Output"])
		outputs = append(outputs, m["Output"])
	}
	all := strings.Join(texts, "\n")
	for _, wnt := range wants {
		if strings.HasPrefix(wnt, "\x01OUTPUT=") {
			exp := strings.TrimPrefix(wnt, "\x01OUTPUT=")
			found := false
			for _, o := range outputs {
				if o == exp {
					found = true
				}
			}
			if !found {
				return core.V("console|output-altered|"+c.Kind, "%s callback: operator console output %.80q, agent reported %.80q", c.Kind, strings.Join(outputs, "|"), exp)
			}
			continue
		}
		if !strings.Contains(all, wnt) {
			// the exact wording of a console line is not part of the property: if the line was merely
			// reworded, every reported VALUE of it must still be there unaltered
			if miss := missingValues(c, wnt, all); miss != "" {
				return core.V("console|value-missing|"+c.Kind, "%s callback: console text does not show the reported value %.90q (expected in %.90q)\nconsole: %.600q", c.Kind, miss, wnt, all)
			}
		}
	}
	return nil
}

// missingValues returns the first reported value that occurs in the expected line but nowhere in the
// console text: generated strings verbatim, integers >= 100000 in decimal or hex, 64-bit values in hex.
func missingValues(c CaseB, line, console string) string {
	for _, v := range c.S {
		if strings.Contains(line, v) && !strings.Contains(console, v) {
			return v
		}
	}
	for _, n := range c.N {
		if n < 100000 {
			continue
		}
		d, h := fmt.Sprintf("%d", n), fmt.Sprintf("%x", n)
		if (strings.Contains(line, d) || strings.Contains(line, h)) && !strings.Contains(console, d) && !strings.Contains(console, h) {
			return d
		}
	}
	for _, q := range c.Q {
		if q < 0x100000 {
			continue
		}
		h := fmt.Sprintf("%x", q)
		if strings.Contains(line, h) && !strings.Contains(console, h) {
			return h
		}
	}
	return ""
}

func classifyB(c CaseB) core.Class {
	astral := false
	for _, s := range c.S[:2] {
		if hasAstral(s) {
			astral = true
		}
	}
	cl := core.Class{NonTrivial: true, Fingerprint: fmt.Sprintf("%s|rows=%d|astral=%v", c.Kind, c.Rows, astral), Labels: []string{"kind:" + c.Kind}}
	if c.IVEdge > 0 && c.IVEdge < len(demonref.IVEdgeNames) {
		cl.Labels = append(cl.Labels, "iv:"+demonref.IVEdgeNames[c.IVEdge])
	}
	if c.Big > 0 {
		cl.Labels = append(cl.Labels, "batch-larger-than-1MiB")
		if c.IVEdge > 0 {
			cl.Labels = append(cl.Labels, "batch-larger-than-1MiB+iv-about-to-carry")
		}
	}
	return cl
}

func TestC03b(t *testing.T) {
	core.Run(t, core.Spec[CaseB]{
		Property: "C03", Sub: "b",
		Rule: "one of 41 callback kinds with labelled console output; field values are generated markers (ascii / BMP / astral / spaces / backslashes) and integers; the callback is encoded as the Demon encodes it (big-endian, UTF-16LE) and sent through the real listener engine for an outstanding request id; one session in four has an IV whose counter block is about to carry, and one batch in twenty-five carries an output callback of 1-3 MiB (position-dependent text, must be shown exactly) before the callback; oracle: the Session/Output event operators receive is attributed to the sending session and contains every value next to its label; if a line is merely reworded, every reported value (strings verbatim, integers >= 100000, 64-bit values) must still appear unaltered (raw output kinds: exactly equal). Every case is non-trivial; distinct = (kind, row count, astral)",
		Gen:   genB, Check: checkB, Classify: classifyB,
		Assumptions: []string{"containment next to a label is weaker than a second formatter: it catches truncation, re-encoding and swaps of differently labelled fields"},
	})
}

package c03

import "unicode"

func rangeTable(lo, hi rune) *unicode.RangeTable {
	if hi <= 0xffff {
		return &unicode.RangeTable{R16: []unicode.Range16{{Lo: uint16(lo), Hi: uint16(hi), Stride: 1}}}
	}
	return &unicode.RangeTable{R32: []unicode.Range32{{Lo: uint32(lo), Hi: uint32(hi), Stride: 1}}}
}

func tailOf(s string) string {
	if len(s) > 24 {
		return s[len(s)-24:]
	}
	return s
}

package c03

// C03(c), fault-injection dimension.
//
// In about a quarter of the histories ONE step runs while ONE dependency of the teamserver
// fails; then the fault is lifted and the history goes on.  The fault is injected through the
// real dependency, from outside the code under test:
//
//   * database: a second connection of the harness to the case's sqlite file installs a trigger
//     BEFORE INSERT|UPDATE|DELETE ON <table> that raises 'database or disk is full' (dropped
//     afterwards), or holds the write lock (BEGIN IMMEDIATE / BEGIN EXCLUSIVE) across the step -
//     the teamserver's own connection then waits for its busy timeout (go-sqlite3's default,
//     5 s) and gets 'database is locked'; such cases are few;
//   * files: the folder of the console logs (loot/agents) or the folder of the session in it is
//     replaced by a regular file for the step, so that creating / opening the log fails.
//
// The oracle is the property's, unchanged.  HEAD's reading of a failed step (cmd/server/agent.go):
// the result of every database write is logged and otherwise ignored, the session table in
// memory never depends on it - a registration whose row cannot be written is STILL a session
// (AgentAdd appends), acknowledged, announced once, and its check-ins work; a console log that
// cannot be written loses the log line only.

import (
	"context"
	"database/sql"
	"fmt"
	"os"
	"path/filepath"
	"strings"

	_ "github.com/mattn/go-sqlite3"
	"pgregory.net/rapid"

	"verifharness/internal/agx"
	"verifharness/internal/core"
	"verifharness/internal/tsx"
)

// FaultC: the step Ops[Step] runs while Dep fails in the way How, at the operation Op.
type FaultC struct {
	Step int    `json:"step"`
	Dep  string `json:"dep"` // db files
	Op   string `json:"op"`  // db: insert-TS_Agents update-TS_Agents insert-TS_Links delete-TS_Links write;  files: console-log
	How  string `json:"how"` // db: trigger-raise-fail lock-held-immediate lock-held-exclusive;  files: agents-folder-replaced-by-file session-folder-replaced-by-file
}

type faultClassC struct {
	kind string // the kind of the step that runs under the fault
	f    FaultC
}

var (
	// what each step kind does to its dependencies on HEAD: a new registration INSERTs into TS_Agents (db.AgentAdd), every
	// request of a known agent UPDATEs its row (UpdateLastCallback), SMB_CONNECT INSERTs into TS_Links and both, a death
	// UPDATEs the row (and DELETEs its links); operator input, callbacks with a console message and SMB_CONNECT write
	// the session's console log
	faultClassesC = []faultClassC{
		{"reg", FaultC{Dep: "db", Op: "insert-TS_Agents", How: "trigger-raise-fail"}},
		{"rereg", FaultC{Dep: "db", Op: "update-TS_Agents", How: "trigger-raise-fail"}},
		{"smbreg", FaultC{Dep: "db", Op: "insert-TS_Agents", How: "trigger-raise-fail"}},
		{"smbreg", FaultC{Dep: "db", Op: "insert-TS_Links", How: "trigger-raise-fail"}},
		{"smbreg", FaultC{Dep: "db", Op: "update-TS_Agents", How: "trigger-raise-fail"}},
		{"tpreg", FaultC{Dep: "db", Op: "insert-TS_Agents", How: "trigger-raise-fail"}},
		{"markdead", FaultC{Dep: "db", Op: "update-TS_Agents", How: "trigger-raise-fail"}},
		{"markdead", FaultC{Dep: "db", Op: "delete-TS_Links", How: "trigger-raise-fail"}},
		{"exitcb", FaultC{Dep: "db", Op: "update-TS_Agents", How: "trigger-raise-fail"}},
		{"cbcheckin", FaultC{Dep: "db", Op: "update-TS_Agents", How: "trigger-raise-fail"}},
		{"checkin", FaultC{Dep: "db", Op: "update-TS_Agents", How: "trigger-raise-fail"}},
		{"cbcheckin", FaultC{Dep: "files", Op: "console-log", How: "agents-folder-replaced-by-file"}},
		{"cbcheckin", FaultC{Dep: "files", Op: "console-log", How: "session-folder-replaced-by-file"}},
		{"exitcb", FaultC{Dep: "files", Op: "console-log", How: "agents-folder-replaced-by-file"}},
		{"smbreg", FaultC{Dep: "files", Op: "console-log", How: "agents-folder-replaced-by-file"}},
	}
	// the write lock held by another connection across the step: every write of the step waits 5 s on HEAD, so only steps
	// with ONE write, and few of them
	faultLockC = []faultClassC{
		{"reg", FaultC{Dep: "db", Op: "write", How: "lock-held-immediate"}},
		{"reg", FaultC{Dep: "db", Op: "write", How: "lock-held-exclusive"}}, // readers wait too: 10 s
	}
)

// genFaultClass: a quarter of the histories get a fault.  The lock classes cost 5-10 s each: about 1 fault case in 30 in
// the quick tier, 1 in 2000 in the thorough tier (rapid's draws favour the ends of a range: rare events are the
// conjunction of middle values of small ranges).
func genFaultClass(t *rapid.T) *faultClassC {
	if rapid.IntRange(0, 3).Draw(t, "fault") != 0 {
		return nil
	}
	lock := rapid.IntRange(0, 4).Draw(t, "faultlock1") == 2 && rapid.IntRange(0, 4).Draw(t, "faultlock2") == 3
	if lock && core.Tier() == "thorough" {
		lock = rapid.IntRange(0, 9).Draw(t, "faultlock3") == 5 && rapid.IntRange(0, 4).Draw(t, "faultlock4") == 2
	}
	if lock {
		fc := faultLockC[0]
		if rapid.IntRange(0, 7).Draw(t, "faultlockexcl") == 4 {
			fc = faultLockC[1]
		}
		return &fc
	}
	// (two draws from small ranges: close to uniform over the classes)
	fc := faultClassesC[(rapid.IntRange(0, 3).Draw(t, "faultclass1")*4+rapid.IntRange(0, 3).Draw(t, "faultclass2"))%len(faultClassesC)]
	return &fc
}

// registersC: does the AgentRegister message of a tpreg / tpreq op, as written, register anything?
func registersC(op OpC, id uint32) bool {
	_, idV, magicV, idP, magicP, crashField := tpHeader(1, id, op.Repr)
	_, _, crashInfo := tpInfoR(op.Meta, op.Repr)
	_, idOK, _ := denotes(idV, idP)
	_, mOK, _ := denotes(magicV, magicP)
	return crashField == "" && crashInfo == "" && idOK && mOK
}

// holdersBefore replays the history on the abstract state "who holds which id" ("demon" / "tp"),
// by the rules the check applies, and returns the state BEFORE every op (and after the last).
// Generator and labels only; the verdicts come from checkC.
func holdersBefore(c CaseC) []map[uint32]string {
	out := make([]map[uint32]string, 0, len(c.Ops)+1)
	holder := map[uint32]string{}
	snap := func() {
		m := make(map[uint32]string, len(holder))
		for k, v := range holder {
			m[k] = v
		}
		out = append(out, m)
	}
	svc := len(c.tpTypes()) > 0
	for _, op := range c.Ops {
		snap()
		if len(c.IDs) == 0 {
			continue
		}
		id := c.IDs[op.Slot%len(c.IDs)]
		h := holder[id]
		switch op.Kind {
		case "reg":
			if h == "" {
				holder[id] = "demon"
			}
		case "rereg":
			if len(holder) > 0 && h == "" {
				holder[id] = "demon"
			}
		case "smbreg":
			parent := c.IDs[op.Other%len(c.IDs)]
			if holder[parent] == "demon" && parent != id && h == "" {
				holder[id] = "demon"
			}
		case "tpreg", "tpreq":
			if svc && h == "" && registersC(op, id) {
				holder[id] = "tp"
			}
		}
	}
	snap()
	return out
}

// placeFault puts one op of the class's kind into the history at a position where it has its
// effect (a registration of a FREE id, a request / death of a HELD one), makes it the step that
// runs under the fault and, in half of the cases, lets the same agent check in right after it.
// A history that offers no such position stays without fault.
func placeFault(t *rapid.T, c *CaseC, fc *faultClassC, pre int) {
	n := len(c.IDs)
	type cand struct{ p, slot, other int }
	find := func() (cands []cand) {
		hs := holdersBefore(*c)
		for p := pre; p <= len(c.Ops); p++ {
			h := hs[p]
			for s := 0; s < n; s++ {
				held := h[c.IDs[s]]
				switch fc.kind {
				case "reg", "tpreg":
					if held == "" {
						cands = append(cands, cand{p, s, s})
					}
				case "smbreg":
					if held != "" {
						continue
					}
					for o := 0; o < n; o++ {
						if o != s && h[c.IDs[o]] == "demon" {
							cands = append(cands, cand{p, s, o})
						}
					}
				default: // rereg checkin cbcheckin markdead exitcb: of a Demon session
					if held == "demon" {
						cands = append(cands, cand{p, s, s})
					}
				}
			}
		}
		return
	}
	cands := find()
	if len(cands) == 0 {
		// no Demon session anywhere in the history (or none next to a free id): one registers first, if an id is free
		h := holdersBefore(*c)[pre]
		for s := 0; s < n && len(cands) == 0; s++ {
			if h[c.IDs[s]] == "" {
				op := genOpC(t, "faultpre_", "reg", n, c.Svc)
				op.Slot = s
				c.Ops = append(c.Ops[:pre:pre], append([]OpC{op}, c.Ops[pre:]...)...)
				cands = find()
			}
		}
	}
	if len(cands) == 0 {
		return
	}
	k := cands[rapid.IntRange(0, len(cands)-1).Draw(t, "faultat")]
	op := genOpC(t, "fault_", fc.kind, n, c.Svc)
	op.Slot, op.Other = k.slot, k.other
	if fc.kind == "cbcheckin" {
		op.Other = rapid.IntRange(0, n-1).Draw(t, "fault_other")
	}
	if fc.kind == "tpreg" {
		op.Repr = genRepr(t, "fault_", true) // a representation that registers
	}
	ins := []OpC{op}
	if rapid.Bool().Draw(t, "fault_then_checkin") {
		ins = append(ins, genOpC(t, "faultobs_", "checkin", n, c.Svc))
		ins[1].Slot = k.slot
	}
	c.Ops = append(c.Ops[:k.p:k.p], append(ins, c.Ops[k.p:]...)...)
	f := fc.f
	f.Step = k.p
	c.Fault = &f
}

// faultStep: the index of the step that runs under the fault (-1: none).
func (c CaseC) faultStep() int {
	if c.Fault == nil || len(c.Ops) == 0 {
		return -1
	}
	return ((c.Fault.Step % len(c.Ops)) + len(c.Ops)) % len(c.Ops)
}

// faultLabels names the fault class and what the step under it does in the history.
func faultLabels(c CaseC) []string {
	fs := c.faultStep()
	if fs < 0 {
		return []string{"fault:none"}
	}
	f, op := c.Fault, c.Ops[fs]
	out := []string{fmt.Sprintf("fault:%s:%s:%s@%s", f.Dep, f.Op, f.How, op.Kind)}
	if len(c.IDs) > 0 {
		h := holdersBefore(c)[fs][c.IDs[op.Slot%len(c.IDs)]]
		switch {
		case (op.Kind == "reg" || op.Kind == "smbreg" || op.Kind == "tpreg") && h == "":
			out = append(out, "fault:during-registration-of-a-free-id")
		case h == "demon":
			out = append(out, "fault:during-"+op.Kind+"-of-a-demon-session")
		}
	}
	if fs == len(c.Ops)-1 {
		out = append(out, "fault:at-last-step")
	} else {
		out = append(out, "fault:steps-follow")
	}
	return out
}

// injectFault makes the dependency fail; the returned function lifts the fault (idempotent).
// id: the agent the step is about.
func injectFault(w *agx.World, f *FaultC, id uint32) func() {
	var undo []func()
	lift := func() {
		for i := len(undo) - 1; i >= 0; i-- {
			undo[i]()
		}
		undo = nil
	}
	must := func(err error, what string) {
		if err != nil {
			lift()
			panic("infrastructure: fault injection: " + what + ": " + err.Error())
		}
	}
	switch f.Dep {
	case "db":
		db, err := sql.Open("sqlite3", tsx.DBPath(w.Dir))
		must(err, "second connection")
		undo = append(undo, func() { db.Close() })
		ctx := context.Background()
		conn, err := db.Conn(ctx)
		must(err, "second connection")
		undo = append(undo, func() { conn.Close() })
		switch f.How {
		case "lock-held-immediate", "lock-held-exclusive":
			begin := "BEGIN IMMEDIATE"
			if f.How == "lock-held-exclusive" {
				begin = "BEGIN EXCLUSIVE"
			}
			_, err = conn.ExecContext(ctx, begin)
			must(err, begin)
			undo = append(undo, func() { conn.ExecContext(ctx, "ROLLBACK") })
		default:
			stmt, table := "INSERT", "TS_Agents"
			if p := strings.SplitN(f.Op, "-", 2); len(p) == 2 {
				switch p[0] {
				case "update":
					stmt = "UPDATE"
				case "delete":
					stmt = "DELETE"
				}
				if p[1] == "TS_Links" {
					table = "TS_Links"
				}
			}
			_, err = conn.ExecContext(ctx, "CREATE TRIGGER verif_fault BEFORE "+stmt+" ON "+table+" BEGIN SELECT RAISE(FAIL, 'database or disk is full'); END")
			must(err, "create trigger")
			undo = append(undo, func() {
				if _, err := conn.ExecContext(ctx, "DROP TRIGGER verif_fault"); err != nil {
					panic("infrastructure: fault injection: drop trigger: " + err.Error())
				}
			})
		}
	case "files":
		target := filepath.Join(w.Dir, "loot", "agents")
		if f.How == "session-folder-replaced-by-file" {
			target = filepath.Join(target, fmt.Sprintf("%08x", id))
		}
		saved := target + ".verif-saved"
		if _, err := os.Lstat(target); err == nil {
			must(os.Rename(target, saved), "move folder away")
			undo = append(undo, func() { os.Rename(saved, target) })
		}
		must(os.WriteFile(target, []byte("not a folder\n"), 0o644), "put file in place of folder")
		undo = append(undo, func() { os.Remove(target) })
	}
	return lift
}

// dbRowsC: AgentID -> number of rows of TS_Agents, read through a connection of the harness.
func dbRowsC(w *agx.World) map[uint32]int {
	db, err := sql.Open("sqlite3", "file:"+tsx.DBPath(w.Dir)+"?mode=ro")
	if err != nil {
		panic("infrastructure: reading the case's database: " + err.Error())
	}
	defer db.Close()
	rows, err := db.Query("SELECT AgentID, COUNT(*) FROM TS_Agents GROUP BY AgentID")
	if err != nil {
		panic("infrastructure: reading the case's database: " + err.Error())
	}
	defer rows.Close()
	out := map[uint32]int{}
	for rows.Next() {
		var id int64
		var n int
		if err := rows.Scan(&id, &n); err != nil {
			panic("infrastructure: reading the case's database: " + err.Error())
		}
		out[uint32(id)] += n
	}
	return out
}

package c18tmp

import (
	"fmt"
	"strings"
	"testing"
	"time"

	hcl "Havoc/pkg/profile/yaotl"
	"Havoc/pkg/profile/yaotl/ext/tryfunc"
	"Havoc/pkg/profile/yaotl/hclsyntax"
	"github.com/zclconf/go-cty/cty"
	"github.com/zclconf/go-cty/cty/function"
)

func TestLim(t *testing.T) {
	ctx := &hcl.EvalContext{Variables: map[string]cty.Value{"x": cty.NumberIntVal(5)}, Functions: map[string]function.Function{"try": tryfunc.TryFunc}}
	kinds := map[string][2]string{
		"paren":  {"(", ")"},
		"tupidx": {"[", "][0]"},
		"interp": {"\"${", "}\""},
		"try":    {"try(", ")"},
		"for":    {"[for v in [", "] : v][0]"},
		"obj":    {"{w = ", "}.w"},
	}
	for k, oc := range kinds {
		for _, n := range []int{64, 257, 1000, 4096, 10000} {
			src := strings.Repeat(oc[0], n) + "x+1" + strings.Repeat(oc[1], n)
			t0 := time.Now()
			e, d := hclsyntax.ParseExpression([]byte(src), "a", hcl.InitialPos)
			tp := time.Since(t0)
			if d.HasErrors() {
				fmt.Println(k, n, "parse error", d.Error()[:80])
				continue
			}
			t0 = time.Now()
			v, d := e.Value(ctx)
			tv := time.Since(t0)
			t0 = time.Now()
			nv := len(hclsyntax.Variables(e))
			fmt.Println(k, n, "parse", tp, "eval", tv, "vars", nv, time.Since(t0), d.HasErrors(), v.GoString())
		}
	}
}

package c11

// C11(a): sequential histories of record / broadcast / remove / connect / disconnect /
// cut operations against the real teamserver; every authenticated operator's complete
// frame sequence is compared with a model of the statement.

import (
	"encoding/json"
	"errors"
	"fmt"
	"os"
	"runtime"
	"strings"
	"testing"
	"time"

	"github.com/gorilla/websocket"
	"pgregory.net/rapid"

	"Havoc/pkg/agent"
	"Havoc/pkg/events"
	"Havoc/pkg/handlers"
	"Havoc/pkg/packager"

	"verifharness/internal/core"
	"verifharness/internal/wsx"
)

type Op struct {
	K   string `json:"k"` // connect connectcut disconnect console chat ladd lrem lerr agent mark bcastx sendx cut badlogin | bulk (scale cases: J = how many, I%3 = 0 recorded broadcasts, 1 console outputs, 2 agent registrations)
	I   int    `json:"i"`
	J   int    `json:"j"`
	Via bool   `json:"via"` // through an operator's websocket (only while no dead client exists) instead of the direct call
}

type CaseA struct {
	Ops []Op `json:"ops"`
}

var opKinds = []string{"connect", "connect", "agent", "connectcut", "connect", "connectcut", "disconnect", "disconnect", "console", "console", "console", "chat", "chat", "ladd", "ladd", "ladd", "lrem", "lrem", "lrem", "lerr", "agent", "agent", "mark", "mark", "bcastx", "bcastx", "sendx", "cut", "cut", "badlogin"}

func genA(t *rapid.T) CaseA {
	var c CaseA
	n := rapid.IntRange(1, 24).Draw(t, "nops")
	for i := 0; i < n; i++ {
		c.Ops = append(c.Ops, Op{
			K:   rapid.SampledFrom(opKinds).Draw(t, "k"),
			I:   rapid.IntRange(0, 5).Draw(t, "i"),
			J:   rapid.IntRange(0, 40).Draw(t, "j"),
			Via: rapid.Bool().Draw(t, "via"),
		})
	}
	if rapid.IntRange(0, 149).Draw(t, "scale") == 149 && rapid.Bool().Draw(t, "scale-2") {
		// (rapid draws the upper bound of a range in about 1 case in 36, whatever the range: with the coin, 1 in 70)
		// the scale dimension: one bulk of a threshold-adjacent number of retained events
		// (or live sessions) BEFORE, IN THE MIDDLE OF or AFTER the ordinary operations
		kind := rapid.SampledFrom([]int{0, 0, 0, 1, 2}).Draw(t, "scale-kind")
		n := 0
		if kind == 2 {
			n = drawScale(t, 63, 257, "scale-sessions")
		} else {
			n = drawScale(t, 63, 8193, "scale-events")
		}
		at := rapid.IntRange(0, len(c.Ops)).Draw(t, "scale-at")
		ops := append([]Op(nil), c.Ops[:at]...)
		ops = append(ops, Op{K: "bulk", I: kind, J: n})
		c.Ops = append(ops, c.Ops[at:]...)
	}
	return c
}

var pool = []wsx.User{{"u0", "pw-u0"}, {"u1", "pw-u1"}, {"u2", "pw-u2"}, {"u3", "pw-u3"}, {"u4", "pw-u4"}, {"u5", "pw-u5"}}

const maxClients = 4

type ent struct {
	p     string
	lname string // a retained Listener/Add event of this listener (exact registered name) ...
	raw   string // ... recorded request of this operator ("" = the teamserver's announcement)
}

// Listener names come in representation classes; HEAD registers a name verbatim and
// compares names exactly, so names that differ only by padding or letter case are
// different listeners, and a removal by a padded / re-cased variant removes nothing.
var nameClasses = []string{"plain", "lead-space", "trail-space", "lead-tab", "trail-tab-space", "inner-space", "special-chars", "non-ascii", "very-long",
	"collide:case-of-other", "collide:padded-other", "collide:trimmed-other", "collide:prefix-of-other", "collide:other-plus-suffix"}

func (w *world) listenerName(class string, pick int) string {
	w.nextL++
	base := fmt.Sprintf("L%d", w.nextL)
	var others []string
	others = append(others, w.lsn...)
	others = append(others, w.gone...)
	other := ""
	if len(others) > 0 {
		other = others[pick%len(others)]
	}
	swapCase := func(x string) string {
		if u := strings.ToUpper(x); u != x {
			return u
		}
		return strings.ToLower(x)
	}
	switch class {
	case "lead-space":
		return "  " + base
	case "trail-space":
		return base + " "
	case "lead-tab":
		return "\t" + base
	case "trail-tab-space":
		return base + "\t "
	case "inner-space":
		return base + " http  listener\tA"
	case "special-chars":
		return base + `_%*'"\;--`
	case "non-ascii":
		return "Überwachung-" + base + "-日本語-ß"
	case "very-long":
		return base + "-" + strings.Repeat("n", 3000)
	case "collide:case-of-other":
		if other != "" {
			return swapCase(other)
		}
	case "collide:padded-other":
		if other != "" {
			return " " + other + " "
		}
	case "collide:trimmed-other":
		if t := strings.TrimSpace(other); t != "" {
			return t
		}
	case "collide:prefix-of-other":
		if r := []rune(other); len(r) > 1 {
			return string(r[:len(r)-1])
		}
	case "collide:other-plus-suffix":
		if other != "" {
			return other + "x"
		}
	}
	return base
}

func (w *world) isLive(name string) bool {
	for _, l := range w.lsn {
		if l == name {
			return true
		}
	}
	return false
}

type mclient struct {
	user  string
	c     *wsx.Client
	id    string
	dead  string // "" = receives everything; otherwise how its transport failed
	stale bool   // refused login whose record may still be stored
}

type world struct {
	fx       *wsx.Fixture
	retained []ent
	agents   []struct {
		id     uint32
		active bool
	}
	lsn     []string
	clients []*mclient
	tok     int
	nextL   int
	nextAg  uint32
	free    []string
	anyDead bool
	ghosts  []*mclient
	gone    []string // names of removed listeners
	viaSender *mclient
	removedViaRequest map[string]bool
}

func (w *world) token(p string) string { w.tok++; return fmt.Sprintf("%s%d", p, w.tok) }

func (w *world) alive() []*mclient {
	var out []*mclient
	for _, m := range w.clients {
		if m.dead == "" && !m.stale {
			out = append(out, m)
		}
	}
	return out
}

// isRawAdd: a Listener/Add *request* as an operator sent it (Head.User set).  handleRequest
// records every incoming message, so the request sits in the retained list right before the
// teamserver's own announcement; the real client ignores it in a replay (Packager.cc
// DispatchListener: "if from operator then ignore it").  ListenerRemove prunes both, and the
// model holds both.
func isRawAdd(p string) bool {
	return strings.HasPrefix(p, "ladd/") && !strings.HasPrefix(p, "ladd//")
}

func (w *world) expectAll(p string, except *mclient, sig string) *core.Violation {
	for _, m := range w.alive() {
		if m == except {
			continue
		}
		if v := w.expect(m, []string{p}, sig); v != nil {
			return v
		}
	}
	return nil
}

// expect reads len(want) messages at m, skipping raw listener-add requests.
func (w *world) expect(m *mclient, want []string, sig string) *core.Violation {
	for i, p := range want {
		for {
			fr, ok, closed := m.c.Next(wsx.Watchdog)
			if !ok {
				how := "not-delivered"
				if closed {
					how = "connection-ended"
				}
				return core.V(sig+"|"+how+"|"+wsx.KindOf(strings.TrimPrefix(p, "!")), "operator %s: message %d of %d (%q) did not arrive (closed=%v, %v)", m.user, i+1, len(want), p, closed, m.c.ReadErr)
			}
			pk, err := wsx.Decode(fr)
			if err != nil {
				return core.V("frame|not-one-package", "operator %s received a websocket message that is not exactly one JSON package: %v: %.200q", m.user, err, fr.Data)
			}
			got := wsx.Proj(pk)
			if got != p {
				time.Sleep(2 * time.Millisecond)
				var next []string
				for _, f := range m.c.Pending() {
					if q, err := wsx.Decode(f); err == nil {
						next = append(next, wsx.Proj(q))
					}
				}
				return core.V(sig+"|"+mismatchKind(p, got, want, w), "operator %s: message %d of %d: got %q, want %q\nexpected: %v\nqueued behind it: %v", m.user, i+1, len(want), got, p, want, next)
			}
			break
		}
	}
	return nil
}

// mismatchKind names what is wrong in a way that does not depend on drawn values.
func mismatchKind(want, got string, all []string, w *world) string {
	wk, gk := wsx.KindOf(strings.TrimPrefix(want, "!")), wsx.KindOf(strings.TrimPrefix(got, "!"))
	if gk == "ladd" && wk == "ladd" && strings.HasPrefix(want, "ladd//") && strings.HasPrefix(got, "ladd//") {
		return "listener-announced-under-another-name-or-status"
	}
	if gk == "ladd" {
		// an Add event of a listener that the model has pruned?
		name := strings.Split(got, "/")
		if len(name) >= 3 {
			present := false
			for _, l := range w.lsn {
				if l == name[2] {
					present = true
				}
			}
			if !present {
				if w.removedViaRequest[name[2]] {
					return "removed-listener-add-replayed|added-by-operator-request"
				}
				return "removed-listener-add-replayed"
			}
		}
	}
	return "want=" + wk + "|got=" + gk
}

func (w *world) nothingPending(sig string) *core.Violation {
	for _, m := range w.alive() {
		for _, fr := range m.c.Pending() {
			pk, err := wsx.Decode(fr)
			if err != nil {
				return core.V("frame|not-one-package", "operator %s: %v: %.200q", m.user, err, fr.Data)
			}
			if p := wsx.Proj(pk); true {
				return core.V(sig+"|unexpected|"+wsx.KindOf(strings.TrimPrefix(p, "!")), "operator %s received %q which the model does not expect (duplicate or misdirected delivery)", m.user, p)
			}
		}
	}
	return nil
}

func (w *world) replay() []string {
	var out []string
	for _, e := range w.retained {
		out = append(out, e.p)
	}
	return out
}

func (w *world) sessions() []string {
	var out []string
	for _, a := range w.agents {
		if a.active {
			out = append(out, "!newsession/"+fmt.Sprintf("%08x", a.id)+"/"+wsx.AgentKeyB64(a.id))
		}
	}
	return out
}

func (w *world) connect(sig string) *core.Violation {
	if len(w.free) == 0 || len(w.clients) >= maxClients+2 {
		return nil
	}
	user := w.free[0]
	w.free = w.free[1:]
	c, err := w.fx.Dial("/havoc/")
	if err != nil {
		return core.V("harness|dial", "%v", err)
	}
	m := &mclient{user: user, c: c}
	c.SendJSON(wsx.LoginPkg(user, "pw-"+user))
	// the record of the new user is retained before the replay is sent
	w.retained = append(w.retained, ent{p: "newuser/" + user})
	want := append([]string{"init/success"}, w.replay()...)
	want = append(want, w.sessions()...)
	if v := w.expect(m, want, sig); v != nil {
		return v
	}
	if v := w.foldCheck(user, want); v != nil {
		return v
	}
	if v := w.expectAll("newuser/"+user, m, "live"); v != nil {
		return v
	}
	w.clients = append(w.clients, m)
	m.id, _ = w.fx.ClientByAddr(c.Local)
	if m.id == "" {
		return core.V("harness|no-client-record", "no record for %s", user)
	}
	if !w.anyDead {
		// one-shot barrier: proves the newcomer's handler is in its dispatch loop, and is
		// itself a one-shot event that must be delivered live to everybody and never replayed
		b := w.token("b")
		c.SendJSON(wsx.BarrierPkg(user, b))
		if v := w.expectAll("!chat/"+user+"/"+b, nil, "live-oneshot"); v != nil {
			return v
		}
	}
	return nil
}

// registerAgent: a new session the way the listeners do it (AgentAdd + AgentSendNotify).
func (w *world) registerAgent() *core.Violation {
	ts := w.fx.TS
	w.nextAg++
	id := 0x10000000 + w.nextAg
	a := wsx.NewAgent(id)
	ts.AgentAdd(a)
	ts.AgentSendNotify(a)
	w.agents = append(w.agents, struct {
		id     uint32
		active bool
	}{id, true})
	return w.expectAll("!newsession/"+a.NameID+"/"+wsx.AgentKeyB64(id), nil, "live-oneshot")
}

// probe runs after every injected fault: the agent side must still work - a new agent can
// register (and is announced to the surviving operators), and the lookups every agent
// request starts with return.  Each call has its own watchdog so that a blocked one is named.
func (w *world) probe(after string) *core.Violation {
	if len(w.agents) >= 9 {
		return nil
	}
	ts := w.fx.TS
	if v := core.WithWatchdog(wsx.Watchdog, "AgentAdd+AgentSendNotify-after-"+after, w.registerAgent); v != nil {
		return v
	}
	id := w.agents[len(w.agents)-1].id
	if v := core.WithWatchdog(wsx.Watchdog, "AgentExist-after-"+after, func() *core.Violation {
		if !ts.AgentExist(int(id)) {
			return core.V("agent-lookup|registered-agent-not-found|AgentExist", "AgentExist(%x) is false right after the agent registered", id)
		}
		return nil
	}); v != nil {
		return v
	}
	return core.WithWatchdog(wsx.Watchdog, "AgentInstance-after-"+after, func() *core.Violation {
		if a := ts.AgentInstance(int(id)); a == nil || a.NameID != fmt.Sprintf("%08x", id) {
			return core.V("agent-lookup|registered-agent-not-found|AgentInstance", "AgentInstance(%x) = %v right after the agent registered", id, a)
		}
		return nil
	})
}

// connectCut: an operator logs in over a transport that fails at a chosen frame of its
// connect replay: the auth reply, one of the history frames, or one of the live sessions.
func (w *world) connectCut(op Op) *core.Violation {
	if len(w.free) == 0 || len(w.clients) >= maxClients+1 {
		return nil
	}
	user := w.free[0]
	w.free = w.free[1:]
	c, err := w.fx.Dial("/havoc/")
	if err != nil {
		return core.V("harness|dial", "%v", err)
	}
	H := len(w.retained) + 1 // + the newcomer's own NewUser record
	S := len(w.sessions())
	total := 1 + H + S
	k := (op.J * total / 41) % total // a fraction of the whole replay ...
	if op.I%3 != 0 && S > 0 {
		k = 1 + H + (op.J % S) // ... or aimed at the live-session part
	}
	class := "cut-in-history"
	switch {
	case k == 0:
		class = "cut-in-auth-reply"
	case k > H:
		class = "cut-in-live-sessions"
	}
	wsx.Obs("connectcut:" + class)
	wsx.Obs(fmt.Sprintf("connectcut:agents=%d", S))
	c.Peer.CutAfterWrites(k, op.I*7%40)
	m := &mclient{user: user, c: c, dead: "cut-during-replay:" + class}
	c.SendJSON(wsx.LoginPkg(user, "pw-"+user))
	w.retained = append(w.retained, ent{p: "newuser/" + user})
	if v := w.expectAll("newuser/"+user, nil, "live"); v != nil {
		return v
	}
	// the teamserver has run into the failure once the failing write has been attempted
	deadline := time.Now().Add(wsx.Watchdog)
	for !c.Peer.WriteFailed() {
		if time.Now().After(deadline) {
			return core.V("replay|not-delivered|connect-replay-stopped-early", "the newcomer's replay (%d frames expected) never reached frame %d (%s)", total, k, class)
		}
		time.Sleep(100 * time.Microsecond)
	}
	// what did get through is a prefix of Success + history + live sessions
	want := append([]string{"init/success"}, w.replay()...)
	want = append(want, w.sessions()...)
	time.Sleep(time.Millisecond)
	i := 0
	for _, fr := range c.Pending() {
		pk, err := wsx.Decode(fr)
		if err != nil {
			return core.V("frame|not-one-package", "%v: %.200q", err, fr.Data)
		}
		p := wsx.Proj(pk)
		if i >= len(want) || want[i] != p {
			return core.V("replay|wrong|before-the-cut", "newcomer %s (transport failing at frame %d, %s): frame %d is %q, the model expects %v", user, k, class, i, p, want)
		}
		i++
	}
	w.clients = append(w.clients, m)
	m.id, _ = w.fx.ClientByAddr(c.Local)
	w.anyDead = true
	return nil
}

// foldCheck: the replay the newcomer received (it equals want), folded the way the client
// folds it - an Add from the teamserver adds the listener, an Add recorded from an operator
// is ignored, a Remove removes by exact name - must show exactly the listeners that exist.
func (w *world) foldCheck(user string, replay []string) *core.Violation {
	shown := map[string]bool{}
	for _, p := range replay {
		switch {
		case strings.HasPrefix(p, "ladd//"):
			name := p[len("ladd//"):]
			name = name[:strings.LastIndex(name, "/")]
			shown[name] = true
		case strings.HasPrefix(p, "lrem/"):
			rest := p[len("lrem/"):]
			delete(shown, rest[strings.Index(rest, "/")+1:])
		}
	}
	actual := map[string]bool{}
	for _, l := range w.fx.TS.Listeners {
		actual[l.Name] = true
	}
	for n := range shown {
		if !actual[n] {
			return core.V("replay|folded-replay-shows-a-listener-that-does-not-exist", "newcomer %s: after its replay the client shows listener %q, which the teamserver does not have (it has %d)", user, clipS(n, 80), len(actual))
		}
	}
	for n := range actual {
		if !shown[n] {
			return core.V("replay|folded-replay-lacks-an-existing-listener", "newcomer %s: the teamserver has listener %q, which the replay does not leave on the client", user, clipS(n, 80))
		}
	}
	if len(actual) != len(w.lsn) {
		return core.V("listeners|registered-set-differs-from-model", "the teamserver has %d listeners, the history accounts for %d", len(actual), len(w.lsn))
	}
	return nil
}

func (w *world) waitGone(m *mclient) *core.Violation {
	deadline := time.Now().Add(wsx.Watchdog)
	for {
		if id, _ := w.fx.ClientByAddr(m.c.Local); id == "" {
			return nil
		}
		if time.Now().After(deadline) {
			buf := dump()
			return core.V("hang|disconnect|"+core.HavocFrame(handlerStack(buf)), "the record of operator %s was not removed within %v after its connection ended\n%s", m.user, wsx.Watchdog, clipS(buf, 5000))
		}
		time.Sleep(200 * time.Microsecond)
	}
}

func (w *world) drop(m *mclient) {
	if m.dead != "" || m.stale {
		w.ghosts = append(w.ghosts, m) // its record may outlive the connection
	}
	for i, x := range w.clients {
		if x == m {
			w.clients = append(w.clients[:i], w.clients[i+1:]...)
			break
		}
	}
	w.free = append(w.free, m.user)
}

func checkA(c CaseA) *core.Violation { return wsx.Exec("a", c) }

func runA(raw json.RawMessage) *core.Violation {
	var c CaseA
	if err := json.Unmarshal(raw, &c); err != nil {
		return core.V("harness|decode", "%v", err)
	}
	fx, err := wsx.Acquire(pool, "service-password")
	if err != nil {
		return core.V("harness|fixture", "%v", err)
	}
	w := &world{fx: fx, retained: []ent{{p: "init/profile"}}, removedViaRequest: map[string]bool{}}
	for _, u := range pool {
		w.free = append(w.free, u.Name)
	}
	dirty := false
	t0 := time.Now()
	defer func() {
		if w.anyDead && !dirty {
			var addrs []string
			for _, m := range append(append([]*mclient(nil), w.clients...), w.ghosts...) {
				if m.dead != "" || m.stale {
					addrs = append(addrs, m.c.Local)
				}
			}
			fx.PurgeDead(addrs)
		}
		t1 := time.Now()
		fx.Release(dirty)
		if os.Getenv("VERIF_WSX_DEBUG") != "" {
			fmt.Fprintf(os.Stderr, "TIMING ops=%d run=%v release=%v\n", len(c.Ops), t1.Sub(t0), time.Since(t1))
		}
	}()
	for i, op := range c.Ops {
		v := core.WithWatchdog(3*wsx.Watchdog, "op:"+op.K, func() *core.Violation { return w.step(op) })
		if v == nil {
			v = w.afterOp(op)
		}
		if v == nil && w.anyDead && (op.K == "cut" || op.K == "connectcut" || op.K == "badlogin") {
			if v = w.probe(op.K); v == nil {
				v = w.afterOp(Op{K: "probe after " + op.K})
			}
		}
		if v != nil {
			if strings.HasPrefix(v.Sig, "hang|") {
				dirty = true
			}
			v.Msg = fmt.Sprintf("at operation %d (%+v): %s", i, op, v.Msg)
			return v
		}
	}
	// every history ends with a newcomer, whose replay is the main observation
	if len(w.free) == 0 {
		return nil
	}
	if w.anyDead {
		// a newcomer's arrival is itself a broadcast; with a dead client present it is
		// the "next broadcast to the others"
		wsx.Obs("newcomer-with-dead-client")
	}
	v := core.WithWatchdog(3*wsx.Watchdog, "final-newcomer", func() *core.Violation { return w.connect("replay") })
	if v == nil {
		v = w.afterOp(Op{K: "connect"})
	}
	if v == nil {
		v = w.nothingPending("live")
	}
	if v != nil {
		if strings.HasPrefix(v.Sig, "hang|") {
			dirty = true
		}
		v.Msg = "final newcomer: " + v.Msg
	}
	return v
}

// afterOp: with a dead client present, no client mutex may stay locked once the
// operation has returned (a locked one means the next send to that client - and so the
// next broadcast, which visits every client - never returns).
func (w *world) afterOp(op Op) *core.Violation {
	if !w.anyDead || os.Getenv("VERIF_C11_NOLOCKCHECK") != "" {
		// (the switch exists to confirm by hand that a locked mutex really is a hang:
		// with it set the same replay ends in hang|... at the next send)
		return nil
	}
	// (a handler may still be between its last write and the Unlock that follows it, and can
	// be descheduled there on a loaded machine: a mutex counts as left locked only if it
	// cannot be taken for a whole second while no write is in progress on that connection)
	ids := w.fx.LeakedMutexes(time.Second)
	if len(ids) == 0 {
		return nil
	}
	how := "unknown"
	for _, m := range append(append([]*mclient(nil), w.clients...), w.ghosts...) {
		for _, id := range ids {
			if m.id == id {
				how = m.dead
				if m.stale {
					how = "refused-login"
				}
			}
		}
	}
	return core.V("lock-held|SendEvent|after-failed-write|"+how, "after %q the mutex of client record(s) %v (%s) is still locked although no write is in progress: SendEvent returned from a failed write without unlocking; every later SendEvent/EventBroadcast that visits this record blocks forever", op.K, ids, how)
}

// step performs one operation.  An operation that went through an operator's websocket
// is followed by a one-shot chat of the same operator: its echo proves that the
// operator's handler has finished dispatching the request (ListenerStart, for one,
// announces the listener before it stores it) and is back in its read loop.
func (w *world) step(op Op) *core.Violation {
	w.viaSender = nil
	if v := w.step1(op); v != nil {
		return v
	}
	if m := w.viaSender; m != nil {
		b := w.token("b")
		m.c.SendJSON(wsx.BarrierPkg(m.user, b))
		return w.expectAll("!chat/"+m.user+"/"+b, nil, "live-oneshot")
	}
	return nil
}

func (w *world) step1(op Op) *core.Violation {
	ts := w.fx.TS
	T := packager.Type
	alive := w.alive()
	via := op.Via && !w.anyDead && len(alive) > 0
	var sender *mclient
	if via {
		sender = alive[op.I%len(alive)]
	}
	setVia := func() { w.viaSender = sender }
	switch op.K {
	case "connect":
		if len(w.clients) >= maxClients {
			return nil
		}
		return w.connect("replay")

	case "connectcut":
		return w.connectCut(op)

	case "disconnect":
		if len(w.clients) == 0 {
			return nil
		}
		m := w.clients[op.I%len(w.clients)]
		if m.stale {
			m.c.Abort()
			w.drop(m)
			return nil
		}
		if op.J%2 == 0 {
			m.c.Abort()
		} else {
			m.c.CloseGracefully()
		}
		w.retained = append(w.retained, ent{p: "userdisc/" + m.user})
		w.drop(m)
		if v := w.expectAll("userdisc/"+m.user, nil, "live"); v != nil {
			return v
		}
		return w.waitGone(m)

	case "console":
		id := "0badc0de"
		if len(w.agents) > 0 {
			id = fmt.Sprintf("%08x", w.agents[op.I%len(w.agents)].id)
		}
		tk := w.token("o")
		ts.AgentConsole(id, agent.HAVOC_CONSOLE_MESSAGE, map[string]string{"Type": "Info", "Message": tk})
		p := "out/" + id + "/" + tk
		w.retained = append(w.retained, ent{p: p})
		return w.expectAll(p, nil, "live")

	case "chat":
		if !via {
			return nil
		}
		tk := w.token("m")
		setVia()
		sender.c.SendJSON(wsx.ChatPkg(sender.user, tk))
		p := "chat/" + sender.user + "/" + tk
		w.retained = append(w.retained, ent{p: p})
		return w.expectAll(p, nil, "live")

	case "ladd":
		name := w.listenerName(nameClasses[op.J%len(nameClasses)], op.I)
		if w.isLive(name) {
			return nil // exactly this name is in use (the teamserver would refuse it)
		}
		ext := (op.J/len(nameClasses))%2 == 1
		if via {
			info := map[string]any{"Name": name, "Protocol": "Smb", "PipeName": "pipe-" + name}
			if ext {
				info = map[string]any{"Name": name, "Protocol": "External", "Endpoint": "ep-" + name}
			}
			setVia()
			sender.c.SendJSON(wsx.Pkg(T.Listener.Type, sender.user, T.Listener.Add, info))
			w.removedViaRequest[name] = true // (remembers how it was added)
			w.retained = append(w.retained, ent{p: "ladd/" + sender.user + "/" + name + "/", lname: name, raw: sender.user})
		} else {
			var err error
			if ext {
				err = ts.ListenerStart(handlers.LISTENER_EXTERNAL, handlers.ExternalConfig{Name: name, Endpoint: "ep-" + name})
			} else {
				err = ts.ListenerStart(handlers.LISTENER_PIVOT_SMB, handlers.SMBConfig{Name: name, PipeName: "pipe-" + name})
			}
			if err != nil {
				return core.V("harness|listener-start", "%v", err)
			}
		}
		w.lsn = append(w.lsn, name)
		// announced under exactly the name that was asked for
		p := "ladd//" + name + "/Online"
		w.retained = append(w.retained, ent{p: p, lname: name})
		return w.expectAll(p, nil, "live")

	case "lrem":
		if len(w.lsn) == 0 {
			return nil
		}
		k := op.I % len(w.lsn)
		name := w.lsn[k]
		// by the exact name, or by a variant that a trimming / case-folding comparison would
		// take for the same listener (HEAD compares exactly: such a removal removes nothing,
		// but the request and the Remove event are still recorded and broadcast)
		switch op.J % 6 {
		case 3:
			if t := strings.TrimSpace(name); t != name {
				name = t
			} else {
				name = name + " "
			}
		case 4:
			if u := strings.ToUpper(name); u != name {
				name = u
			} else {
				name = strings.ToLower(name)
			}
		}
		exists := w.isLive(name)
		if via {
			setVia()
			sender.c.SendJSON(wsx.Pkg(T.Listener.Type, sender.user, T.Listener.Remove, map[string]any{"Name": name}))
			w.retained = append(w.retained, ent{p: "lrem/" + sender.user + "/" + name}) // the request itself is recorded
		} else {
			pk := wsx.Pkg(T.Listener.Type, "", T.Listener.Remove, map[string]any{"Name": name})
			ts.DispatchEvent(pk)
		}
		if exists {
			for i, l := range w.lsn {
				if l == name {
					w.lsn = append(w.lsn[:i], w.lsn[i+1:]...)
					break
				}
			}
			w.gone = append(w.gone, name)
			// "minus listeners since removed": every retained Add event of exactly this listener
			// (announcement and recorded request) leaves the retained list
			var keep []ent
			for _, e := range w.retained {
				if e.lname != name {
					keep = append(keep, e)
				}
			}
			w.retained = keep
		}
		w.retained = append(w.retained, ent{p: "lrem//" + name})
		return w.expectAll("lrem//"+name, nil, "live")

	case "lerr":
		if len(w.lsn) == 0 {
			return nil
		}
		name := w.lsn[op.I%len(w.lsn)]
		tk := w.token("e")
		ts.EventListenerError(name, errors.New("listen tcp: "+tk))
		for i := range w.retained {
			if w.retained[i].lname == name {
				w.retained[i].p = "ladd/" + w.retained[i].raw + "/" + name + "/Offline"
			}
		}
		p := "lerr/" + name + "/" + tk
		w.retained = append(w.retained, ent{p: p})
		return w.expectAll(p, nil, "live")

	case "agent":
		if len(w.agents) >= 4 {
			return nil
		}
		return w.registerAgent()

	case "mark":
		if len(w.agents) == 0 {
			return nil
		}
		k := op.I % len(w.agents)
		id := fmt.Sprintf("%08x", w.agents[k].id)
		if op.J%3 == 0 {
			// back to alive: no event of its own, but the session is announced to newcomers again
			ts.DispatchEvent(wsx.Pkg(T.Session.Type, "", T.Session.MarkAsDead, map[string]any{"AgentID": id, "Marked": "Alive"}))
			w.agents[k].active = true
			return nil
		}
		if via {
			setVia()
			sender.c.SendJSON(wsx.Pkg(T.Session.Type, sender.user, T.Session.MarkAsDead, map[string]any{"AgentID": id, "Marked": "Dead"}))
			w.retained = append(w.retained, ent{p: "mark/" + sender.user + "/" + id + "/Dead"})
		} else {
			ts.DispatchEvent(wsx.Pkg(T.Session.Type, "", T.Session.MarkAsDead, map[string]any{"AgentID": id, "Marked": "Dead"}))
		}
		w.agents[k].active = false
		p := "mark//" + id + "/Dead"
		w.retained = append(w.retained, ent{p: p})
		return w.expectAll(p, nil, "live")

	case "bulk":
		// the cheapest real producers, in a loop: what every emitter of the teamserver does
		// (EventAppend + EventBroadcast), AgentConsole, or AgentAdd + AgentSendNotify
		if op.I%3 == 2 {
			for k := 0; k < op.J; k++ {
				if v := w.registerAgent(); v != nil {
					return v
				}
			}
			return nil
		}
		id := "0badc0de"
		if len(w.agents) > 0 {
			id = fmt.Sprintf("%08x", w.agents[0].id)
		}
		var ps []string
		for k := 0; k < op.J; k++ {
			tk := w.token("k")
			p := "tslog/" + tk
			if op.I%3 == 1 {
				ts.AgentConsole(id, agent.HAVOC_CONSOLE_MESSAGE, map[string]string{"Type": "Info", "Message": tk})
				p = "out/" + id + "/" + tk
			} else {
				pk := events.Teamserver.Logger(tk)
				ts.EventAppend(pk)
				ts.EventBroadcast("", pk)
			}
			w.retained = append(w.retained, ent{p: p})
			ps = append(ps, p)
		}
		for _, m := range alive {
			if v := w.expect(m, ps, "live"); v != nil {
				return v
			}
		}
		return nil

	case "bcastx":
		// record + fan-out with one client excluded (the API handleRequest / RemoveClient use)
		tk := w.token("x")
		pk := events.Teamserver.Logger(tk)
		var ex *mclient
		exID := ""
		if len(alive) > 0 {
			ex = alive[op.I%len(alive)]
			exID = ex.id
		}
		ts.EventAppend(pk)
		ts.EventBroadcast(exID, pk)
		w.retained = append(w.retained, ent{p: "tslog/" + tk})
		if v := w.expectAll("tslog/"+tk, ex, "live-excluded"); v != nil {
			return v
		}
		return nil

	case "sendx":
		if len(w.clients) == 0 {
			return nil
		}
		m := w.clients[op.I%len(w.clients)]
		if m.stale && m.id == "" {
			return nil
		}
		tk := w.token("s")
		err := ts.SendEvent(m.id, events.Teamserver.Logger(tk))
		if m.dead == "" && !m.stale {
			if err != nil {
				return core.V("sendevent|error-on-live-client", "SendEvent to live operator %s: %v", m.user, err)
			}
			return w.expect(m, []string{"tslog/" + tk}, "live-direct")
		}
		return nil

	case "cut":
		if len(alive) == 0 {
			return nil
		}
		m := alive[op.I%len(alive)]
		switch op.J % 3 {
		case 0:
			m.c.Peer.CutWritesAfter(0)
			m.dead = "cut-before-frame"
		case 1:
			m.c.Peer.CutWritesAfter(1 + op.J%37)
			m.dead = "cut-mid-frame"
		case 2:
			// the whole transport dies between two frames: the teamserver notices on its read side
			m.c.Peer.Kill()
			w.retained = append(w.retained, ent{p: "userdisc/" + m.user})
			w.drop(m)
			m.c.Abort()
			if v := w.expectAll("userdisc/"+m.user, nil, "live"); v != nil {
				return v
			}
			return w.waitGone(m)
		}
		w.anyDead = true
		return nil

	case "badlogin":
		if len(w.free) == 0 {
			return nil
		}
		user := w.free[0]
		c, err := w.fx.Dial("/havoc/")
		if err != nil {
			return core.V("harness|dial", "%v", err)
		}
		pk := wsx.LoginPkg(user, "not-the-password")
		b, _ := json.Marshal(pk)
		c.Send(websocket.BinaryMessage, b)
		m := &mclient{user: user, c: c, stale: true, dead: "refused-login"}
		if v := w.expect(m, []string{"init/error"}, "refusal"); v != nil {
			return v
		}
		deadline := time.Now().Add(wsx.Watchdog)
		for !c.Peer.ClosedByServer() {
			if id, _ := w.fx.ClientByAddr(c.Local); id == "" {
				break
			}
			if time.Now().After(deadline) {
				break
			}
			time.Sleep(200 * time.Microsecond)
		}
		m.id, _ = w.fx.ClientByAddr(c.Local)
		if m.id != "" {
			// the refused socket's record is still stored: from now on it is a dead client
			w.free = w.free[1:]
			w.clients = append(w.clients, m)
			w.anyDead = true
		} else {
			c.Abort()
		}
		return nil
	}
	return nil
}

func dump() string {
	buf := make([]byte, 1<<20)
	return string(buf[:runtime.Stack(buf, true)])
}

// handlerStack: the goroutine of the dump that is inside handleRequest.
func handlerStack(d string) string {
	for _, g := range strings.Split(d, "\n\n") {
		if strings.Contains(g, "handleRequest") {
			return g
		}
	}
	return d
}

func clipS(s string, n int) string {
	if len(s) > n {
		return s[:n] + "..."
	}
	return s
}

func classifyA(c CaseA) core.Class {
	var cl core.Class
	nConn, nL, nRem, nCut, nBad := 0, 0, 0, 0, 0
	remAfterAdd, sendAfterCut, connAfter := false, false, false
	cutSeen := false
	kinds := map[string]bool{}
	scale := ""
	for i, op := range c.Ops {
		cl.Labels = append(cl.Labels, "op:"+op.K)
		kinds[op.K] = true
		switch op.K {
		case "bulk":
			what := []string{"retained-events", "retained-console-outputs", "live-sessions"}[op.I%3]
			where := "in-the-middle"
			if i == 0 {
				where = "before-all-other-operations"
			} else if i == len(c.Ops)-1 {
				where = "after-all-other-operations(then-the-final-newcomer)"
			}
			scale = what + ":" + scaleBucket(op.J) + ":" + where
			cl.Labels = append(cl.Labels, "scale:"+what+":"+scaleBucket(op.J), "scale:bulk-"+where)
			if cutSeen {
				sendAfterCut = true
				cl.Labels = append(cl.Labels, "scale:bulk-with-a-failed-client-present")
			}
			if nRem > 0 {
				cl.Labels = append(cl.Labels, "scale:bulk-after-listener-removal")
			}
		case "connect":
			nConn++
			if nRem > 0 {
				connAfter = true
			}
		case "ladd":
			nL++
			cl.Labels = append(cl.Labels, "lname:"+nameClasses[op.J%len(nameClasses)])
			if op.Via {
				cl.Labels = append(cl.Labels, "ladd-via-operator")
			}
		case "lrem":
			if nL > 0 {
				if scale != "" {
					cl.Labels = append(cl.Labels, "scale:listener-removal-after-bulk")
				}
				nRem++
				remAfterAdd = true
				cl.Labels = append(cl.Labels, "lrem:"+[]string{"by-exact-name", "by-exact-name", "by-exact-name", "by-trim-variant", "by-case-variant", "by-exact-name"}[op.J%6])
			}
		case "cut":
			if nConn > 0 {
				nCut++
				cutSeen = true
				cl.Labels = append(cl.Labels, fmt.Sprintf("cut-mode:%d", op.J%3))
			}
		case "connectcut":
			nCut++
			cutSeen = true
			sendAfterCut = true // followed by the agent-side probe
			if op.I%3 != 0 {
				cl.Labels = append(cl.Labels, "connectcut-aimed-at-live-sessions")
			} else {
				cl.Labels = append(cl.Labels, "connectcut-at-fraction-of-whole-replay")
			}
		case "badlogin":
			nBad++
			cutSeen = true
		case "console", "bcastx", "sendx", "agent", "lerr", "mark", "disconnect":
			if cutSeen {
				sendAfterCut = true
			}
		}
	}
	if remAfterAdd {
		cl.Labels = append(cl.Labels, "replay-after-listener-removal")
	}
	if sendAfterCut {
		cl.Labels = append(cl.Labels, "send-after-failed-client")
	}
	cl.NonTrivial = remAfterAdd || sendAfterCut
	bucket := func(n int) string {
		switch {
		case n == 0:
			return "0"
		case n == 1:
			return "1"
		}
		return "2+"
	}
	cl.Fingerprint = fmt.Sprintf("conn=%s|rem=%s|cut=%s|bad=%s|remAfterAdd=%v|sendAfterCut=%v|connAfterRem=%v|lerr=%v|mark=%v|excl=%v|n=%d",
		bucket(nConn), bucket(nRem), bucket(nCut), bucket(nBad), remAfterAdd, sendAfterCut, connAfter, kinds["lerr"], kinds["mark"], kinds["bcastx"], len(c.Ops)/8)
	if scale != "" {
		cl.Fingerprint = fmt.Sprintf("scale=%s|conn=%s|rem=%s|cut=%s|remAfterAdd=%v|sendAfterCut=%v", scale, bucket(nConn), bucket(nRem), bucket(nCut), remAfterAdd, sendAfterCut)
	}
	return cl
}

func TestC11a(t *testing.T) {
	core.Run(t, core.Spec[CaseA]{
		Property: "C11", Sub: "a",
		Rule: "histories of 1-24 operations on the real teamserver (real Start(), engine served on a fault-injecting listener, gorilla clients): operator connect+login (followed by a one-shot chat of the newcomer), disconnect (abrupt / close frame), console output (ts.AgentConsole), chat through an operator's websocket, listener add (SMB / External; through an operator's request or ListenerStart), listener remove (request or DispatchEvent), ListenerError, agent registration (AgentAdd+AgentSendNotify), mark dead/alive, recorded broadcast with one client excluded, SendEvent to one client, transport cut at a client (writes fail before the next frame / after 1-37 bytes of it / whole transport killed between frames), an operator logging in over a transport that fails at a frame of its connect replay (drawn as a fraction of the whole replay = auth reply + history + live sessions, or aimed inside the live-session part; live agents registered by AgentAdd+AgentSendNotify), refused login; after every injected fault an agent-side probe (register a new agent, AgentExist, AgentInstance, each under its own watchdog, the new session announced to the survivors); every history ends with a newcomer who must get the history and all live sessions including those of the probes. Oracle: a model of the retained list (everything recorded with OneTime != true, listener Add events pruned on removal, set Offline on error) - a newcomer receives Success, then exactly the model's list in order, then one NewSession per active agent; every live event arrives exactly once at every authenticated client except the excluded one, one JSON package per websocket message, nothing else arrives; one-shot events (NewSession, the newcomers' chats) arrive live and never in a replay; after a cut every operation still returns within the 20 s watchdog and no client mutex stays locked. Non-trivial: a replay after a listener removal, or a send following a failed client. SCALE dimension (about one case in 70; labels scale:*): one extra operation 'bulk' at a generated place - before all, in the middle of, or after all other operations - which is a loop of the cheapest real producer: 63-8193 recorded broadcasts (EventAppend+EventBroadcast) or console outputs (AgentConsole), or 63-257 agent registrations (AgentAdd+AgentSendNotify; cut at 257 because each one is a database insert), the count taken from the threshold-adjacent pool {63,64,65, 127,128,129, 255,256,257, 511,512,513, 999,1000,1001, 1023,1024,1025, 2047,2048,2049, 4095,4096,4097, 8191,8192,8193}; every alive operator must receive all of them in order, every later newcomer (connect, a login whose transport fails at a fraction of the now long replay, the final newcomer) gets the long history / all live sessions, and listener removals after the bulk prune Add events that sit early in a long list. Oracle unchanged",
		Gen:   genA, Check: checkA, Classify: classifyA,
		Assumptions: []string{
			"raw Listener/Add requests of operators (Head.User set), which handleRequest also records and which the real client ignores in a replay, are left out of the comparison",
			"while a dead client exists operations are issued through the direct calls (synchronous), not through another operator's websocket",
			"the teamserver instance is reused across the cases of a worker process and reset to its just-started state before each case",
		},
	})
}

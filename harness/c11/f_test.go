package c11

// C11(f): a newcomer that is alive but SLOW.  The operator logs in over a socket with a small
// receive buffer (the accepted socket's send buffer is shrunk too) and takes its connect
// replay at a generated pace - full speed, steadily slow (N KiB, then a short sleep), or in
// bursts (fast, with a few pauses of 1-3.5 s) - so that the WHOLE replay of a large retained
// history lasts 3 ... 25 s while no single frame is kept waiting anywhere near the
// teamserver's per-frame write timeout.  Such an operator never stalls: it must receive the
// complete history in order, then the live sessions, and later broadcasts must reach it.
//
// How long each frame really waited is measured at the server side of the connection (a trace
// of the server's write progress); a case in which the machine did not hold the schedule - a
// frame turned out to wait for half the per-frame timeout or longer - belongs to the
// "stalled / dead client" class of (a) and (c) and gives no verdict here.

import (
	"encoding/json"
	"fmt"
	"os"
	"sort"
	"strings"
	"sync"
	"testing"
	"time"

	"pgregory.net/rapid"

	"Havoc/pkg/agent"
	"Havoc/pkg/events"

	"verifharness/internal/core"
	"verifharness/internal/wsx"
)

// headClientWriteTimeout is what HEAD allows ONE websocket write to an operator to take
// (cmd/server/teamserver.go ClientWriteTimeout).  The paces are chosen so that every frame
// stays below half of it, and a verdict is given only when the measurement confirms that.
const headClientWriteTimeout = 10 * time.Second

type BigEv struct {
	Kind string `json:"kind"` // console (AgentConsole, an agent's output callback) | tslog (EventAppend+EventBroadcast) | chat (a bystander's websocket)
	KiB  int    `json:"kib"`  // size of its text
}

type Burst struct {
	At int `json:"at"` // permille of the replay's bytes after which the reader pauses
	Ms int `json:"ms"`
}

type CaseF struct {
	Bystand  int     `json:"bystanders"` // operators already online (0-1)
	Agents   int     `json:"agents"`     // live sessions
	Small    int     `json:"small"`      // small retained events, spread between the large ones
	Big      []BigEv `json:"big"`        // large retained events (none = the small-history class)
	RcvKiB   int     `json:"rcv_kib"`    // SO_RCVBUF of the newcomer's socket, set before the handshake
	SndKiB   int     `json:"snd_kib"`    // SO_SNDBUF of the accepted socket (0 = the system's default, which absorbs a few MiB)
	Pace     string  `json:"pace"`       // full | steady | bursty
	TotalMs  int     `json:"total_ms"`   // steady: how long the whole replay is meant to take
	ChunkKiB int     `json:"chunk_kib"`  // steady: bytes taken between two sleeps
	Bursts   []Burst `json:"bursts"`     // bursty
	During   int     `json:"during"`     // events broadcast while the newcomer is inside its replay
	After    int     `json:"after"`      // broadcasts after the replay
}

func genF(t *rapid.T) CaseF {
	var c CaseF
	thorough := core.Tier() == "thorough"
	c.Bystand = rapid.IntRange(0, 1).Draw(t, "bystanders")
	c.Agents = rapid.IntRange(0, 3).Draw(t, "agents")
	c.Small = rapid.IntRange(0, 30).Draw(t, "small")
	if rapid.SampledFrom([]bool{true, true, true, true, true, false}).Draw(t, "large-history") {
		n := rapid.IntRange(8, 20).Draw(t, "nbig")
		mbs := []int{2, 3, 4, 6, 10}
		if thorough {
			mbs = []int{2, 4, 6, 10, 20}
		}
		each := rapid.SampledFrom(mbs).Draw(t, "retained-mb") * 1024 / n
		kinds := []string{"console", "console", "tslog"}
		if c.Bystand > 0 {
			kinds = append(kinds, "chat")
		}
		for i := 0; i < n; i++ {
			c.Big = append(c.Big, BigEv{
				Kind: rapid.SampledFrom(kinds).Draw(t, "big-kind"),
				KiB:  each * rapid.SampledFrom([]int{2, 2, 2, 1}).Draw(t, "big-size") / 2,
			})
		}
	}
	c.RcvKiB = rapid.SampledFrom([]int{4, 8, 16}).Draw(t, "rcvbuf")
	c.SndKiB = rapid.SampledFrom([]int{4, 16, 64, 0}).Draw(t, "sndbuf")
	c.Pace = rapid.SampledFrom([]string{"steady", "steady", "steady", "steady", "bursty", "bursty", "full"}).Draw(t, "pace")
	switch c.Pace {
	case "steady":
		totals := []int{12000, 12000, 3000, 8000, 13000}
		if thorough {
			totals = []int{3000, 8000, 12000, 18000, 25000}
		}
		c.TotalMs = rapid.SampledFrom(totals).Draw(t, "total")
		c.ChunkKiB = rapid.SampledFrom([]int{4, 16, 64}).Draw(t, "chunk")
		// no single frame may take anywhere near the per-frame timeout: at most 3 s for the largest
		sum, max := 0, 0
		for _, b := range c.Big {
			sum += b.KiB
			if b.KiB > max {
				max = b.KiB
			}
		}
		if max > 0 && c.TotalMs*max/sum > 3000 {
			c.TotalMs = 3000 * sum / max
		}
	case "bursty":
		k := rapid.IntRange(2, 5).Draw(t, "bursts")
		width := 1000 / k
		sum := 0
		for i := 0; i < k; i++ {
			b := Burst{
				At: i*width + rapid.IntRange(10, width/3).Draw(t, "burst-at"),
				Ms: rapid.SampledFrom([]int{3000, 1000, 2000, 3500}).Draw(t, "burst-ms"),
			}
			if sum += b.Ms; sum > 13500 && !thorough {
				break // (wall clock of the quick tier)
			}
			c.Bursts = append(c.Bursts, b)
		}
	}
	c.During = rapid.IntRange(0, 2).Draw(t, "during")
	c.After = rapid.IntRange(1, 3).Draw(t, "after")
	return c
}

func (c CaseF) plannedMs() int {
	switch c.Pace {
	case "steady":
		return c.TotalMs
	case "bursty":
		s := 0
		for _, b := range c.Bursts {
			s += b.Ms
		}
		return s
	}
	return 0
}

func checkF(c CaseF) *core.Violation { return wsx.Exec("f", c) }

func clipP(p string) string { return clipS(p, 100) }

// expectClip is world.expect for events that may be megabytes long.
func (w *world) expectClip(m *mclient, want []string, sig string) *core.Violation {
	for i, p := range want {
		fr, ok, closed := m.c.Next(wsx.Watchdog)
		if !ok {
			how := "not-delivered"
			if closed {
				how = "connection-ended"
			}
			return core.V(sig+"|"+how+"|"+wsx.KindOf(strings.TrimPrefix(p, "!")), "operator %s: message %d of %d (%q, %d bytes) did not arrive (closed=%v, %v)", m.user, i+1, len(want), clipP(p), len(p), closed, m.c.ReadErr)
		}
		pk, err := wsx.Decode(fr)
		if err != nil {
			return core.V("frame|not-one-package", "operator %s received a websocket message that is not exactly one JSON package: %v: %.200q", m.user, err, fr.Data)
		}
		if got := wsx.Proj(pk); got != p {
			return core.V(sig+"|want="+wsx.KindOf(strings.TrimPrefix(p, "!"))+"|got="+wsx.KindOf(strings.TrimPrefix(got, "!")), "operator %s: message %d of %d: got %q (%d bytes), want %q (%d bytes)", m.user, i+1, len(want), clipP(got), len(got), clipP(p), len(p))
		}
	}
	return nil
}

func bucketMs(ms int64) string {
	switch {
	case ms < 1000:
		return "<1s"
	case ms < 5000:
		return "1-5s"
	case ms < 10000:
		return "5-10s"
	case ms < 15000:
		return "10-15s(longer-than-one-write-timeout)"
	}
	return ">=15s(longer-than-one-write-timeout)"
}

func runF(raw json.RawMessage) *core.Violation {
	var c CaseF
	if err := json.Unmarshal(raw, &c); err != nil {
		return core.V("harness|decode", "%v", err)
	}
	fx, err := wsx.Acquire(pool, "service-password")
	if err != nil {
		return core.V("harness|fixture", "%v", err)
	}
	dirty := false
	defer func() { fx.Release(dirty) }()
	ts := fx.TS
	w := &world{fx: fx, retained: []ent{{p: "init/profile"}}, removedViaRequest: map[string]bool{}}
	for _, u := range pool {
		w.free = append(w.free, u.Name)
	}
	wsx.TakeErrors()

	// ---- operators already online, live sessions
	for i := 0; i < c.Bystand; i++ {
		if v := w.connect("replay"); v != nil {
			return v
		}
	}
	bystanders := append([]*mclient(nil), w.clients...)
	for i := 0; i < c.Agents; i++ {
		if v := w.registerAgent(); v != nil {
			return v
		}
	}
	agentID := "0badc0de"
	if len(w.agents) > 0 {
		agentID = fmt.Sprintf("%08x", w.agents[0].id)
	}
	all := func(p, sig string) *core.Violation {
		for _, m := range w.alive() {
			if v := w.expectClip(m, []string{p}, sig); v != nil {
				return v
			}
		}
		return nil
	}

	// ---- the retained history, every event recorded through the path its kind really takes
	small := func() *core.Violation {
		tk := w.token("o")
		ts.AgentConsole(agentID, agent.HAVOC_CONSOLE_MESSAGE, map[string]string{"Type": "Info", "Message": tk})
		p := "out/" + agentID + "/" + tk
		w.retained = append(w.retained, ent{p: p})
		return all(p, "live")
	}
	smallLeft := c.Small
	for i, b := range c.Big {
		for n := smallLeft / (len(c.Big) - i + 1); n > 0; n-- {
			smallLeft--
			if v := small(); v != nil {
				return v
			}
		}
		unit := fmt.Sprintf("%03d.", i%1000)
		text := w.token("big") + " " + strings.Repeat(unit, b.KiB*1024/len(unit))
		var p string
		switch {
		case b.Kind == "chat" && len(bystanders) > 0:
			s := bystanders[0]
			s.c.SendJSON(wsx.ChatPkg(s.user, text))
			p = "chat/" + s.user + "/" + text
		case b.Kind == "tslog":
			pk := events.Teamserver.Logger(text)
			ts.EventAppend(pk)
			ts.EventBroadcast("", pk)
			p = "tslog/" + text
		default:
			ts.AgentConsole(agentID, agent.HAVOC_CONSOLE_MESSAGE, map[string]string{"Type": "Info", "Message": text})
			p = "out/" + agentID + "/" + text
		}
		w.retained = append(w.retained, ent{p: p})
		if v := all(p, "live"); v != nil {
			return v
		}
	}
	for ; smallLeft > 0; smallLeft-- {
		if v := small(); v != nil {
			return v
		}
	}
	if len(bystanders) > 0 {
		// the bystander's handler is back in its read loop (it recorded the chats itself)
		s := bystanders[0]
		b := w.token("b")
		s.c.SendJSON(wsx.BarrierPkg(s.user, b))
		if v := all("!chat/"+s.user+"/"+b, "live-oneshot"); v != nil {
			return v
		}
	}

	// ---- what the replay weighs on the wire (the frames are the JSON of the retained events)
	var replayBytes, maxFrame int64
	ts.EventsMutex.Lock()
	for _, ev := range ts.EventsList {
		b, _ := json.Marshal(ev)
		n := int64(len(b)) + 1
		replayBytes += n + n/256 + 16 // (+ websocket fragment headers)
		if n > maxFrame {
			maxFrame = n
		}
	}
	nRetained := len(ts.EventsList)
	ts.EventsMutex.Unlock()
	if nRetained != len(w.retained) {
		return core.V("retained|count-differs-from-model", "the teamserver retains %d events, the history accounts for %d", nRetained, len(w.retained))
	}
	replayBytes += int64(1200 * len(w.sessions()))

	// ---- the reader's schedule
	var plan func(consumed int64) (int64, time.Duration)
	switch c.Pace {
	case "steady":
		chunk := int64(c.ChunkKiB) << 10
		pause := time.Duration(float64(c.TotalMs) * float64(time.Millisecond) * float64(chunk) / float64(replayBytes))
		for pause < 10*time.Millisecond && chunk < replayBytes {
			chunk *= 2
			pause *= 2
		}
		if pause > 1500*time.Millisecond {
			pause = 1500 * time.Millisecond // (a small history: a few short pauses, nothing more)
		}
		plan = func(int64) (int64, time.Duration) { return chunk, pause }
	case "bursty":
		bs := append([]Burst(nil), c.Bursts...)
		sort.Slice(bs, func(i, j int) bool { return bs[i].At < bs[j].At })
		plan = func(consumed int64) (int64, time.Duration) {
			for _, b := range bs {
				if off := 300 + replayBytes*int64(b.At)/1000; off > consumed {
					return off - consumed, time.Duration(b.Ms) * time.Millisecond
				}
			}
			return 1 << 40, 0
		}
	}

	// ---- the newcomer
	user := w.free[0]
	w.free = w.free[1:]
	nc, pc, mc, err := fx.DialPaced("/havoc/", c.RcvKiB<<10, c.SndKiB<<10, plan)
	if err != nil {
		return core.V("harness|dial", "%v", err)
	}
	w.retained = append(w.retained, ent{p: "newuser/" + user})
	want := append([]string{"init/success"}, w.replay()...)
	want = append(want, w.sessions()...)
	var during []string
	for i := 0; i < c.During; i++ {
		during = append(during, w.token("during"))
	}
	duringSeen := map[string]bool{}
	emitAt := 2 + (len(want)-2)/2 // inside the replay: the snapshot has been taken, about half of it is through
	var dwg sync.WaitGroup
	emitted := false
	emit := func() {
		emitted = true
		dwg.Add(1)
		go func() {
			defer dwg.Done()
			for _, tk := range during {
				ts.AgentConsole(agentID, agent.HAVOC_CONSOLE_MESSAGE, map[string]string{"Type": "Info", "Message": tk})
			}
		}()
	}
	joinEmitters := func() bool {
		done := make(chan struct{})
		go func() { dwg.Wait(); close(done) }()
		select {
		case <-done:
			return true
		case <-time.After(wsx.Watchdog):
			return false
		}
	}

	t0 := time.Now()
	nc.SendJSON(wsx.LoginPkg(user, "pw-"+user))
	limit := t0.Add(time.Duration(c.plannedMs())*time.Millisecond + 2*wsx.Watchdog)
	idx, nDuring := 0, 0
	lastFrame := time.Now()
	how := ""
	var bad *core.Violation
	for bad == nil && (idx < len(want) || nDuring < len(during)) {
		fr, ok, closed := nc.Next(250 * time.Millisecond)
		if !ok {
			if closed {
				how = "connection-ended"
				break
			}
			if nc.Peer.WriteFailed() {
				// the teamserver has given up on this connection: take what is still in the
				// buffers at full speed; when nothing more comes, that was all
				pc.Off()
				if time.Since(lastFrame) > 1500*time.Millisecond {
					how = "teamserver-gave-up-writing"
					break
				}
			}
			if time.Now().After(limit) {
				how = "not-delivered"
				break
			}
			continue
		}
		lastFrame = time.Now()
		pk, err := wsx.Decode(fr)
		if err != nil {
			bad = core.V("frame|not-one-package", "the slow newcomer received a websocket message that is not exactly one JSON package: %v: %.200q", err, fr.Data)
			break
		}
		p := wsx.Proj(pk)
		if idx < len(want) && p == want[idx] {
			idx++
			if idx >= emitAt && !emitted && len(during) > 0 {
				emit() // (at the latest right after the last frame of a very short replay)
			}
			continue
		}
		isDuring := false
		for _, tk := range during {
			if p == "out/"+agentID+"/"+tk {
				isDuring = true
				if duringSeen[tk] || !emitted {
					bad = core.V("slow-replay|event-twice|broadcast-inside-the-replay", "the slow newcomer received %q twice (or before it was emitted)", clipP(p))
				}
				duringSeen[tk] = true
				nDuring++
			}
		}
		if isDuring {
			continue
		}
		wantP := "<nothing more>"
		if idx < len(want) {
			wantP = want[idx]
		}
		bad = core.V("slow-replay|wrong|want="+wsx.KindOf(strings.TrimPrefix(wantP, "!"))+"|got="+wsx.KindOf(strings.TrimPrefix(p, "!")), "the slow newcomer's frame %d (after %d replay frames of %d): got %q (%d bytes), want %q (%d bytes)", idx+nDuring, idx, len(want), clipP(p), len(p), clipP(wantP), len(wantP))
	}
	took := time.Since(t0)
	pc.Off()
	worst, armed, srvTotal, failed := mc.Waits()
	written := nc.Peer.Written()
	nPauses, slept, longest := pc.Pauses()
	measured := fmt.Sprintf("pace %s (planned %d ms; %d pauses, %v slept, longest %v); replay about %d bytes in %d frames, largest %d; server wrote %d bytes in %v (%d frames), write failed=%v; longest wait of any single frame %v (per-frame timeout on HEAD %v); rcvbuf %d KiB, sndbuf %d KiB",
		c.Pace, c.plannedMs(), nPauses, slept.Round(time.Millisecond), longest.Round(time.Millisecond), replayBytes, len(want), maxFrame, written, srvTotal.Round(time.Millisecond), armed, failed, worst.Round(time.Millisecond), headClientWriteTimeout, c.RcvKiB, c.SndKiB)
	if os.Getenv("VERIF_C11_DEBUG") != "" {
		fmt.Fprintf(os.Stderr, "C11f: took %v how=%q idx=%d/%d %s\n", took.Round(time.Millisecond), how, idx, len(want), measured)
	}
	if bad != nil {
		dirty = true
		bad.Msg += "\n" + measured
		return bad
	}
	stalled := worst >= headClientWriteTimeout/2 || longest >= headClientWriteTimeout/2
	if how != "" {
		dirty = true
		if stalled {
			// the schedule was not held (loaded machine): a frame waited for half the per-frame
			// timeout or more, which makes this newcomer a stalled client - not this check's class
			wsx.Obs("f:no-verdict:a-frame-waited-half-the-write-timeout-or-longer")
			joinEmitters()
			return nil
		}
		missing := "during-event"
		if idx < len(want) {
			missing = wsx.KindOf(strings.TrimPrefix(want[idx], "!"))
			if idx >= len(want)-len(w.sessions()) {
				missing = "live-session"
			}
		}
		errs := wsx.TakeErrors()
		if len(errs) > 6 {
			errs = errs[:6]
		}
		next := "an event broadcast inside the replay"
		if idx < len(want) {
			next = want[idx]
		}
		return core.V("slow-replay|"+how+"|newcomer-kept-reading|missing="+missing, "a newcomer that never stopped reading did not get its whole connect replay: %d of %d frames (Success + %d retained events + %d live sessions) arrived in %v, then nothing more (%s); next would have been %q\n%s\nteamserver log: %v",
			idx, len(want), len(w.retained), len(w.sessions()), took.Round(time.Millisecond), how, clipP(next), measured, errs)
	}
	wsx.Obs("f:replay-complete:server-side-duration:" + bucketMs(srvTotal.Milliseconds()))
	wsx.Obs("f:replay-complete:longest-single-frame:" + bucketMs(worst.Milliseconds()))
	if stalled {
		wsx.Obs("f:replay-complete-although-a-frame-waited-half-the-write-timeout")
	}
	if !joinEmitters() {
		dirty = true
		return core.V("hang|broadcast-while-slow-newcomer-replays|"+core.HavocFrame(dump()), "AgentConsole, called while a slowly reading newcomer was inside its replay, did not return within %v after the replay had been delivered\n%s", wsx.Watchdog, measured)
	}
	for _, tk := range during {
		w.retained = append(w.retained, ent{p: "out/" + agentID + "/" + tk})
	}

	// ---- the others saw the arrival and the events of the window, in order
	for _, b := range bystanders {
		exp := []string{"newuser/" + user}
		for _, tk := range during {
			exp = append(exp, "out/"+agentID+"/"+tk)
		}
		if v := w.expectClip(b, exp, "live-during-slow-replay"); v != nil {
			return v
		}
	}

	// ---- and the slow operator is served afterwards like everybody else
	m := &mclient{user: user, c: nc}
	w.clients = append(w.clients, m)
	m.id, _ = fx.ClientByAddr(nc.Local)
	if m.id == "" {
		return core.V("harness|no-client-record", "no record for %s", user)
	}
	nc.SendJSON(wsx.BarrierPkg(user, "end"))
	if v := all("!chat/"+user+"/end", "live-after-slow-replay"); v != nil {
		v.Msg += "\n" + measured
		return v
	}
	for i := 0; i < c.After; i++ {
		tk := w.token("after")
		if i%2 == 1 {
			if err := ts.SendEvent(m.id, events.Teamserver.Logger(tk)); err != nil {
				return core.V("sendevent|error-on-live-client|after-slow-replay", "SendEvent to the operator that took its replay slowly: %v\n%s", err, measured)
			}
			if v := w.expectClip(m, []string{"tslog/" + tk}, "live-after-slow-replay"); v != nil {
				v.Msg += "\n" + measured
				return v
			}
			continue
		}
		ts.AgentConsole(agentID, agent.HAVOC_CONSOLE_MESSAGE, map[string]string{"Type": "Info", "Message": tk})
		w.retained = append(w.retained, ent{p: "out/" + agentID + "/" + tk})
		if v := all("out/"+agentID+"/"+tk, "live-after-slow-replay"); v != nil {
			v.Msg += "\n" + measured
			return v
		}
	}
	return w.nothingPending("live-after-slow-replay")
}

func classifyF(c CaseF) core.Class {
	var cl core.Class
	hist := "small"
	kib := 0
	kinds := map[string]bool{}
	for _, b := range c.Big {
		kib += b.KiB
		k := b.Kind
		if k == "chat" && c.Bystand == 0 {
			k = "console"
		}
		kinds[k] = true
	}
	switch {
	case kib >= 8*1024:
		hist = "large:8-20MB"
	case kib >= 4*1024:
		hist = "large:4-8MB"
	case kib > 0:
		hist = "large:1-4MB"
	}
	for k := range kinds {
		cl.Labels = append(cl.Labels, "large-event-kind:"+k)
	}
	sort.Strings(cl.Labels)
	planned := c.plannedMs()
	tot := "none(full-speed)"
	switch {
	case planned > int(headClientWriteTimeout/time.Millisecond):
		tot = "longer-than-one-write-timeout"
	case planned >= 5000:
		tot = "5-10s"
	case planned > 0:
		tot = "under-5s"
	}
	snd := "default"
	if c.SndKiB > 0 {
		snd = fmt.Sprintf("%dKiB", c.SndKiB)
	}
	cl.Labels = append(cl.Labels,
		"newcomer-pace:"+c.Pace,
		"newcomer-replay-planned-total:"+tot,
		"retained-history:"+hist,
		fmt.Sprintf("newcomer-rcvbuf:%dKiB", c.RcvKiB),
		"server-sndbuf:"+snd,
		fmt.Sprintf("broadcasts-inside-slow-replay:%d", c.During),
		fmt.Sprintf("bystanders:%d", c.Bystand),
		fmt.Sprintf("live-sessions:%d", c.Agents))
	if c.Pace != "full" && kib > 0 && planned > int(headClientWriteTimeout/time.Millisecond) {
		cl.Labels = append(cl.Labels, "slow-but-live-newcomer:whole-replay-longer-than-one-write-timeout")
	}
	// non-trivial: the writer is really paced by the reader (a history larger than the socket buffers, a paced reader)
	cl.NonTrivial = c.Pace != "full" && kib > 0
	cl.Fingerprint = fmt.Sprintf("pace=%s|total=%s|hist=%s|rcv=%d|snd=%s|during=%v|by=%d|sessions=%v", c.Pace, tot, hist, c.RcvKiB, snd, c.During > 0, c.Bystand, c.Agents > 0)
	return cl
}

func TestC11f(t *testing.T) {
	core.Run(t, core.Spec[CaseF]{
		Property: "C11", Sub: "f",
		Rule: "a newcomer that is alive but slow: 0-1 operators online, 0-3 live sessions, a retained history that is small (0-30 console events) or large (2-20 MB: 8-20 large events of 50 KiB - 2.5 MiB recorded through AgentConsole = an agent's output callback, EventAppend+EventBroadcast, or a bystander's chat over its websocket, with small events between them); the newcomer's socket gets SO_RCVBUF 4/8/16 KiB before the handshake and the accepted socket SO_SNDBUF 4/16/64 KiB or the default, and the newcomer reads at a generated pace: full speed; steady (4/16/64 KiB, then a sleep chosen so that the whole replay lasts 3 / 8 / 12 / 13 s in the quick tier, 3 / 8 / 12 / 18 / 25 s in the thorough tier, and the largest frame takes at most 3 s); bursty (fast, with 2-5 pauses of 1-3.5 s at generated points of the replay). 0-2 events are broadcast while the newcomer is about half-way through its replay, 1-3 after it. Oracle: the newcomer receives Success, the complete retained history in order, one NewSession per live session, the events broadcast inside the replay exactly once, and afterwards its own one-shot chat, every later broadcast and SendEvent; the bystander sees the arrival and the window's events in order; AgentConsole called inside the slow replay returns. The time every frame was kept waiting is measured at the server-side end of the connection (from the moment the teamserver arms the frame's write deadline to the return of the frame's last Write): a verdict about an incomplete replay is given only if no frame waited for half of HEAD's per-frame write timeout (10 s) - otherwise the newcomer counts as stalled (the dead-client class of (a)/(c)) and the case gives no verdict. Non-trivial: a large history taken by a paced reader",
		Gen:   genF, Check: checkF, Classify: classifyF,
		Assumptions: []string{
			"a frame that waited for 5 s or longer (half of ClientWriteTimeout on HEAD) makes the newcomer a stalled client: no completeness verdict",
			"the per-frame waiting time is measured where the teamserver writes (deadline armed -> last Write of the frame returned), so a loaded machine that stretches a pause can only turn a case into 'no verdict', never into a violation",
		},
	})
}

package c11

// C11(d): several operators' transports die at the same moment.  Each handler then
// says farewell to all others - including the other dead ones.

import (
	"encoding/json"
	"fmt"
	"os"
	"sort"
	"strings"
	"testing"
	"time"

	"pgregory.net/rapid"

	"verifharness/internal/core"
	"verifharness/internal/wsx"
)

type CaseD struct {
	Clients int  `json:"clients"` // 2..5 authenticated operators
	Kill    int  `json:"kill"`    // how many of them die at once (2..Clients)
	Warm    int  `json:"warm"`    // console events before
	Abrupt  bool `json:"abrupt"`  // true: server-side transport killed (writes to it fail at once); false: the clients just close their sockets
}

func genD(t *rapid.T) CaseD {
	n := rapid.IntRange(2, 5).Draw(t, "clients")
	return CaseD{Clients: n, Kill: rapid.IntRange(2, n).Draw(t, "kill"), Warm: rapid.IntRange(0, 2).Draw(t, "warm"), Abrupt: rapid.IntRange(0, 3).Draw(t, "abrupt") > 0}
}

func checkD(c CaseD) *core.Violation { return wsx.Exec("d", c) }

func runD(raw json.RawMessage) *core.Violation {
	var c CaseD
	if err := json.Unmarshal(raw, &c); err != nil {
		return core.V("harness|decode", "%v", err)
	}
	fx, err := wsx.Acquire(pool, "service-password")
	if err != nil {
		return core.V("harness|fixture", "%v", err)
	}
	w := &world{fx: fx, retained: []ent{{p: "init/profile"}}, removedViaRequest: map[string]bool{}}
	for _, u := range pool {
		w.free = append(w.free, u.Name)
	}
	dirty := false
	var victims []*mclient
	t0 := time.Now()
	defer func() {
		defer func(t1 time.Time) {
			if os.Getenv("VERIF_WSX_DEBUG") != "" {
				fmt.Fprintf(os.Stderr, "TIMING %+v run=%v release=%v\n", c, t1.Sub(t0), time.Since(t1))
			}
		}(time.Now())
		if !dirty {
			var addrs []string
			for _, m := range victims {
				addrs = append(addrs, m.c.Local)
			}
			fx.PurgeDead(addrs)
		}
		fx.Release(dirty)
	}()
	for i := 0; i < c.Clients; i++ {
		if v := w.connect("replay"); v != nil {
			return v
		}
	}
	for i := 0; i < c.Warm; i++ {
		if v := w.step(Op{K: "console"}); v != nil {
			return v
		}
	}
	victims = append(victims, w.clients[:c.Kill]...)
	survivors := append([]*mclient(nil), w.clients[c.Kill:]...)
	for _, m := range victims {
		m.dead = "died-with-others"
	}
	for _, m := range victims {
		if c.Abrupt {
			m.c.Peer.Kill()
		}
		m.c.Abort()
	}
	// all their records must disappear
	deadline := time.Now().Add(wsx.Watchdog)
	for {
		left := 0
		for _, m := range victims {
			if id, _ := fx.ClientByAddr(m.c.Local); id != "" {
				left++
			}
		}
		if left == 0 {
			break
		}
		if ids := fx.LeakedMutexes(time.Second); len(ids) > 0 {
			// a mutex nobody releases for a second while handlers still have to finish
			still := 0
			for _, m := range victims {
				if id, _ := fx.ClientByAddr(m.c.Local); id != "" {
					still++
				}
			}
			if still > 0 {
				return core.V("lock-held|SendEvent|after-failed-write|simultaneous-disconnect", "%d operators' connections ended together (%d healthy remain): %d of their records are still stored and the mutex of record(s) %v stays locked - the handlers' farewell broadcasts failed on each other's closed sockets, SendEvent returned without unlocking, and the remaining handlers block on those mutexes forever", c.Kill, len(survivors), still, ids)
			}
		}
		if time.Now().After(deadline) {
			dirty = true
			d := dump()
			return core.V("hang|simultaneous-disconnect|"+core.HavocFrame(handlerStack(d)), "%d of %d records of operators whose connections ended together are still stored after %v\n%s", left, c.Kill, wsx.Watchdog, clipS(d, 5000))
		}
		time.Sleep(500 * time.Microsecond)
	}
	// survivors got one farewell per victim (any order), then everything works on
	var group []string
	for _, m := range victims {
		group = append(group, "userdisc/"+m.user)
		w.drop(m)
	}
	sort.Strings(group)
	for _, s := range survivors {
		var got []string
		for range victims {
			fr, ok, _ := s.c.Next(wsx.Watchdog)
			if !ok {
				return core.V("live|not-delivered|userdisc", "operator %s received only %v of the farewells %v", s.user, got, group)
			}
			pk, err := wsx.Decode(fr)
			if err != nil {
				return core.V("frame|not-one-package", "%v", err)
			}
			got = append(got, wsx.Proj(pk))
		}
		sort.Strings(got)
		if strings.Join(got, ",") != strings.Join(group, ",") {
			return core.V("live|wrong|farewells", "operator %s received %v, want %v", s.user, got, group)
		}
	}
	if v := core.WithWatchdog(wsx.Watchdog, "broadcast-after-simultaneous-disconnect", func() *core.Violation { return w.step(Op{K: "console"}) }); v != nil {
		dirty = true
		return v
	}
	// a newcomer's replay: the farewells are all there (in some order), around them the model's list
	user := w.free[0]
	nc, err := fx.Dial("/havoc/")
	if err != nil {
		return core.V("harness|dial", "%v", err)
	}
	nc.SendJSON(wsx.LoginPkg(user, "pw-"+user))
	nc.SendJSON(wsx.BarrierPkg(user, "end"))
	var seq []string
	for {
		fr, ok, _ := nc.Next(wsx.Watchdog)
		if !ok {
			return core.V("replay|not-delivered|newcomer", "newcomer's replay did not complete; got %v", seq)
		}
		pk, err := wsx.Decode(fr)
		if err != nil {
			return core.V("frame|not-one-package", "%v", err)
		}
		p := wsx.Proj(pk)
		if p == "!chat/"+user+"/end" {
			break
		}
		seq = append(seq, p)
	}
	var want []string
	want = append(want, "init/success")
	cut := -1
	for i, e := range w.retained {
		want = append(want, e.p)
		if strings.HasPrefix(e.p, "out/") && i > cut {
			cut = i
		}
	}
	// w.retained = [... before ..., (farewells missing here), last console]; insert the group before the last console
	lastConsole := want[len(want)-1]
	want = append(want[:len(want)-1], group...)
	want = append(want, lastConsole, "newuser/"+user)
	norm := func(xs []string) string {
		ys := append([]string(nil), xs...)
		// sort the run of farewells so that their relative order does not matter
		for i := 0; i < len(ys); i++ {
			j := i
			for j < len(ys) && strings.HasPrefix(ys[j], "userdisc/") {
				j++
			}
			sort.Strings(ys[i:j])
			if j > i {
				i = j - 1
			}
		}
		return strings.Join(ys, " ")
	}
	if norm(seq) != norm(want) {
		missing := 0
		have := map[string]bool{}
		for _, p := range seq {
			have[p] = true
		}
		for _, g := range group {
			if !have[g] {
				missing++
			}
		}
		if missing > 0 {
			return core.V("concurrent-replay|lost-append", "%d of the %d farewells recorded by concurrently ending handlers are missing from a newcomer's replay: got %v want %v", missing, len(group), seq, want)
		}
		return core.V("replay|wrong|after-simultaneous-disconnect", "newcomer got %v, want %v (farewells in any order)", seq, want)
	}
	return nil
}

func classifyD(c CaseD) core.Class {
	return core.Class{NonTrivial: true, Fingerprint: fmt.Sprintf("n=%d|kill=%d|abrupt=%v|warm=%v", c.Clients, c.Kill, c.Abrupt, c.Warm > 0),
		Labels: []string{fmt.Sprintf("die-together:%d-of-%d", c.Kill, c.Clients), fmt.Sprintf("abrupt:%v", c.Abrupt)}}
}

func TestC11d(t *testing.T) {
	core.Run(t, core.Spec[CaseD]{
		Property: "C11", Sub: "d",
		Rule: "2-5 authenticated operators, 2..all of them lose their connection at the same moment (server-side transport killed, or the clients close their sockets), 0-2 events before. Oracle: every dead operator's record disappears and no client mutex stays locked (20 s watchdog), each survivor receives exactly one farewell per dead operator, a following console broadcast returns and is delivered, and a newcomer's replay is the model's list with all farewells present (their relative order is free). All cases count as non-trivial (a send following a failed send)",
		Gen:   genD, Check: checkD, Classify: classifyD,
		Assumptions: []string{"the order in which concurrently ending handlers record their farewell is not prescribed"},
	})
}
